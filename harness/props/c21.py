"""C21 — an interrupted or in-progress cache write never breaks later loads.

Direct oracle on the real code, for generated models (also one large enough for several
pickle frames in the thorough tier):
* crash points of `save_model`: the call is really interrupted (an exception derived from
  `BaseException` raised from inside the file object handed out for any binary write access to a
  `*.pymoca_cache*` file) at `open`, right after `open`, at every `write` call of the pickler and
  in the middle of a write; whatever files the code created are left behind, and `transfer_model`
  is called again (twice); then the cache file cut at byte offsets (quick: every
  offset < 64, the last 8, and a seeded sample; thorough: every offset of the small models and
  a dense sample of the large one).  After each crash state the next `transfer_model` must
  return — not raise — a model equal (`a12_cache.signature`, exact) to a fresh compile, and the
  call after that must be served from the repaired cache, again equal;
* reader/writer interleavings of two `transfer_model` calls on one folder (no file, an incomplete
  cache, a complete one or garbage already there): two threads run strictly one at a time under a
  seeded scheduler that picks the next thread at every file operation — `load_model`, `open`, every
  piece of the pickled bytes reaching the (unbuffered) file, `close`, and every
  `os.remove/unlink/replace/rename` the code performs (`api.os` proxy).  Both calls must return correct models, the file
  must end up complete, and a third call must be a correct hit.
* code generation: `save_model(codegen)` dies when it is about to build one of its four shared libraries, or at
  the cache file; the next two `transfer_model(codegen)` calls must be correct (not raise from `ca.external`).
* (outside the Lean model) torn files that are not prefixes: the caches of two option sets spliced
  (what two overlapping writers with different options leave), zero-filled holes: open finding
  C21-F2 (fixed in 9d600b8), replayed from the corpus and sampled in every run.

Tie to the Lean models (driver `drv_c21`): `CacheState` — every crash / truncation history is
replayed with the exception CPython's unpickler really raised on those bytes, and the decision
(recompiled because damaged / no file / out of date, or hit) is compared with the spy on
`load_model`; the table of exception classes `load_model` converts is extracted behaviourally
(a `pickle` proxy raising each class) and compared with `convert`; `CacheFile` — the bytes of
the file after every step of every schedule and the hit/miss of every load are compared.
"""
import io
import os
import pickle
import random
import re
import shutil
import threading
import types

from harness.common import HarnessError
from harness.gen import a12_cache as G

DRIVERS = ["drv_c21"]
RULE = ("one case = one crash state (interruption point of save_model or truncation offset of the cache file) of one generated "
        "model followed by transfer_model, or one two-call schedule; non-trivial = the damaged/partial file was actually read by "
        "the loader (file present, not complete) or the schedule has overlapping writers; distinct = distinct (model, state) / schedule")
TRUSTED = ["CPython's unpickler raises on every strict prefix of a pickle (observed on every prefix tried; the class is fed to the model)",
           "pickle.dump of the same db gives the same bytes within one process (checked per model)",
           "a reader's pickle.load sees one snapshot of the file (threads run one at a time; real processes could interleave reads with writes of the same bytes)"]
ASSUMPTIONS = ["a writer killed while the linker writes a shared library is exercised by fixed cases only (library cut in half, follow-up calls in a child process)",
               "the two concurrent calls compile the same sources with the same options (same bytes); spliced files of different caches are only sampled in the thorough tier, outside the Lean model",
               "shared libraries torn by the linker (codegen) are outside the Lean model (direct oracle only)",
               "process death is modelled by what is on disk: a prefix of the pickle at write-call or byte granularity"]

EXC_TABLE = [
    ("UnpicklingError", lambda: pickle.UnpicklingError("pickle data was truncated")),
    ("PickleError", lambda: pickle.PickleError("x")),
    ("AttributeError", lambda: AttributeError("Can't get attribute 'X'")),
    ("EOFError", lambda: EOFError("Ran out of input")),
    ("ImportError", lambda: ImportError("No module named x")),
    ("ModuleNotFoundError", lambda: ModuleNotFoundError("No module named x")),
    ("IndexError", lambda: IndexError("pop from empty list")),
    ("KeyError", lambda: KeyError("k")),
    ("ValueError", lambda: ValueError("unsupported pickle protocol: 9")),
    ("TypeError", lambda: TypeError("x")),
    ("UnicodeDecodeError", lambda: UnicodeDecodeError("utf-8", b"\xff", 0, 1, "invalid start byte")),
    ("OverflowError", lambda: OverflowError("x")),
    ("OSError", lambda: OSError("x")),
    ("RuntimeError-DeserializingStream", lambda: RuntimeError("DeserializingStream: wrong version")),
    ("RuntimeError-deserialization", lambda: RuntimeError("Failed Deserialization of Function")),
    ("RuntimeError-other", lambda: RuntimeError("something else")),
    ("RecursionError", lambda: RecursionError("maximum recursion depth exceeded")),
    ("NotImplementedError", lambda: NotImplementedError("x")),
]


class SimCrash(BaseException):
    """Simulated death of the process inside save_model."""


def exc_json(e):
    msg = str(e)
    return {"mro": [k.__name__ for k in type(e).__mro__ if k is not object],
            "deser": ("DeserializingStream" in msg) or ("deserialization" in msg.lower())}


# ---------------------------------------------------------------------------------------------
# shims
# ---------------------------------------------------------------------------------------------
class CrashFile:
    """File object handed to save_model for any binary write access to a cache(-like) file: unbuffered;
    dies at the `at`-th write call, or after `at_bytes` bytes (in the middle of a write call)."""

    def __init__(self, path, mode, at, calls, at_bytes=None):
        self.raw = io.open(path, mode, buffering=0)
        self.at, self.at_bytes, self.calls, self.n, self.nbytes = at, at_bytes, calls, 0, 0

    def __enter__(self):
        return self

    def __exit__(self, *a):
        self.raw.close()
        return False

    def close(self):
        self.raw.close()

    def flush(self):
        pass

    def __getattr__(self, name):          # truncate / tell / seek / fileno …: the real file's
        return getattr(self.raw, name)

    def write(self, data):
        if self.at is not None and self.n >= self.at:
            raise SimCrash("died in write call %d" % self.n)
        if self.at_bytes is not None and self.nbytes + len(data) > self.at_bytes:
            self.raw.write(bytes(data)[:self.at_bytes - self.nbytes])
            raise SimCrash("died after %d bytes" % self.at_bytes)
        self.n += 1
        self.nbytes += len(data)
        self.calls.append(len(data))
        return self.raw.write(data)


def install_open(api, hook):
    """`api.open` -> hook(path, mode) for any binary write access to the cache file, builtin otherwise."""
    def opener(path, mode="r", *a, **k):
        # the cache file itself or any sibling the code may write first (`….pymoca_cache.tmp`, …)
        if "b" in mode and any(c in mode for c in "wax+") and ".pymoca_cache" in os.path.basename(str(path)):
            return hook(path, mode)
        return io.open(path, mode, *a, **k)
    api.open = opener


def uninstall_open(api):
    if "open" in api.__dict__:
        del api.__dict__["open"]


# ---------------------------------------------------------------------------------------------
# part (a): which exception classes of pickle.load are converted
# ---------------------------------------------------------------------------------------------
def check_convert_table(ctx, drv):
    from pymoca.backends.casadi import api
    root = os.path.join(ctx.scratch, "conv")
    w = G.CacheWorld(root)
    text = "model M\n  parameter Real p = 2;\n  Real x(max = p);\nequation\n  x = 3*p;\nend M;\n"
    real_pickle = api.pickle
    try:
        w.write(0, "M.mo", text)
        ok, m, msg, kind = w.transfer({"cache": True}, [])
        if not ok:
            rok, rm, rmsg = w.reference({"cache": True}, [])
            if not rok:
                raise HarnessError("baseline model does not compile: %s %s" % (rm, rmsg))
            ctx.violation("transfer_model raised %s on a folder without a cache file" % m,
                          {"stream": "interrupt", "text": text, "opts": {"cache": True}, "at": None, "calls": []},
                          expected="compile and save", observed="%s: %s" % (m, msg), kind="crash")
            return
        verdicts, excs = [], []
        for label, mk in EXC_TABLE:
            e = mk()

            def fake_load(*a, _e=e, **k):
                raise _e
            ns = types.SimpleNamespace(**{k: getattr(real_pickle, k) for k in dir(real_pickle) if not k.startswith("__")})
            ns.load = ns.loads = fake_load
            api.pickle = ns
            w.spy_log.clear()
            ok, r, msg = G.outcome(api.transfer_model, w.dirs[0], "M", {"cache": True})
            api.pickle = real_pickle
            k = w.spy_log[0] if w.spy_log else "?"
            verdicts.append("raise" if k.startswith("raised") else k.split(":", 1)[-1])
            excs.append(exc_json(e))
            ctx.case({"exception": label}, nontrivial=True, key=["convert", label])
            ctx.count("convert:%s->%s" % (label, verdicts[-1]))
            if not ok and r != type(e).__name__:
                ctx.violation("pickle.load raising %s made transfer_model raise %s" % (label, r), {"exception": label},
                              expected="recompile or the same exception", observed=r)
        if drv is not None:
            ans = drv.ask({"op": "cache.convert", "excs": excs})
            # converted to an invalid cache, or escaping: the reason text is informative only
            if [v == "raise" for v in ans.get("verdicts", [])] != [v == "raise" for v in verdicts]:
                diff = [(EXC_TABLE[i][0], a, b) for i, (a, b) in enumerate(zip(ans.get("verdicts", []), verdicts)) if a != b]
                ctx.disagreement("convert-table", {"stream": "convert", "classes": [d[0] for d in diff]}, [d[1] for d in diff], [d[2] for d in diff])
    finally:
        api.pickle = real_pickle
        w.close()
        shutil.rmtree(root, ignore_errors=True)


# ---------------------------------------------------------------------------------------------
# part (b): crash enumeration
# ---------------------------------------------------------------------------------------------
def big_model(k):
    decl = ["parameter Real p%d = %d;" % (i, i + 1) for i in range(4)]
    eqs = []
    for i in range(k):
        decl.append("Real x%d(max = %d*p%d, nominal = p%d + %d);" % (i, i + 1, i % 4, (i + 1) % 4, i))
        eqs.append("der(x%d) = %s;" % (i, " + ".join("%d*x%d*x%d" % (j + 1, (i + j) % k, (i + 2 * j) % k) for j in range(6))))
    return "model M\n  %s\nequation\n  %s\nend M;\n" % ("\n  ".join(decl), "\n  ".join(eqs))


class CrashBench:
    """One model in one folder: reference signature, complete cache bytes, write-call boundaries."""

    def __init__(self, ctx, idx, text, opts):
        from pymoca.backends.casadi import api
        self.api, self.ctx, self.text = api, ctx, text
        self.opts = dict(opts, cache=True)
        self.root = os.path.join(ctx.scratch, "crash%03d" % idx)
        self.w = G.CacheWorld(self.root)
        self.src_tick = self.w.write(0, "M.mo", text)
        self.ok = False
        self.failed_baseline = False
        rok, rm, rmsg = self.w.reference(self.opts, [])
        if not rok:
            return
        self.ref = G.signature(rm, 2, 3)
        calls = []
        install_open(api, lambda path, mode: CrashFile(path, mode, None, calls))
        try:
            ok, m, msg, kind = self.w.transfer(self.opts, [])
        finally:
            uninstall_open(api)
        if not ok:
            ctx.violation("transfer_model raised %s on a folder without a cache file" % m,
                          {"stream": "interrupt", "text": text, "opts": self.opts, "at": None, "calls": []},
                          expected="compile and save", observed="%s: %s" % (m, msg), kind="crash")
            self.failed_baseline = True
            return
        if not os.path.exists(self.w.cache_path()):
            ctx.tie_broken("save_model:no-cache-file-written", sorted(os.listdir(self.w.dirs[0])))
            self.failed_baseline = True
            return
        with open(self.w.cache_path(), "rb") as f:
            self.B = f.read()
        self.calls = calls
        # determinism of the pickle: a second save gives the same bytes
        os.remove(self.w.cache_path())
        ok, m, msg, kind = self.w.transfer(self.opts, [])
        with open(self.w.cache_path(), "rb") as f:
            self.deterministic = f.read() == self.B
        self.ok = ok

    def model_prefix(self, with_cache):
        """The model history that leads to the current sources (and, optionally, a complete fresh cache)."""
        w = self.w
        ops = [["write", 0, "M.mo", self.src_tick, w.content_id(self.text)]]
        if with_cache:
            ops.append(["transfer", w.model_opts(self.opts, []), self.src_tick, len(self.B)])
        return ops

    def close(self):
        self.w.close()
        shutil.rmtree(self.root, ignore_errors=True)

    def unpickle_exc(self, data):
        try:
            pickle.load(io.BytesIO(data))
        except Exception as e:  # noqa: BLE001 — the class is the observation
            return e
        return None

    def expect_correct(self, case, what_state, want_kind_prefix=None):
        """transfer_model after a crash state: correct and not raising; then a correct hit."""
        ctx, w = self.ctx, self.w
        ok, m, msg, kind = w.transfer(self.opts, [])
        if not ok:
            ctx.violation("transfer_model raised %s after %s" % (m, what_state), case, expected="a recompiled, correct model",
                          observed="%s: %s" % (m, msg), kind="crash")
            return None
        df = G.diff(self.ref, G.signature(m, 2, 3))
        if df:
            ctx.violation("transfer_model after %s returned a model that differs from a fresh compile: %s" % (what_state, df[0]),
                          case, expected="fresh compile", observed=df, kind="crash")
            return None
        return kind

    def expect_hit(self, case, what_state):
        ctx, w = self.ctx, self.w
        ok, m, msg, kind = w.transfer(self.opts, [])
        if not ok or G.diff(self.ref, G.signature(m, 2, 3)):
            ctx.violation("the call after the repair of %s %s" % (what_state, "raised " + str(m) if not ok else "returned a wrong model"),
                          case, expected="a correct model from the repaired cache", observed=str(m if not ok else "diff"), kind="crash")
            return None
        return kind

    # ---- one truncation state -------------------------------------------------------------------
    def edited_text(self):
        """The same model with one more variable and equation (a different model; the n-th edit differs from all before)."""
        self.nedits = getattr(self, "nedits", 0) + 1
        n = self.nedits
        if "model M\n" not in self.text or "end M;" not in self.text:
            return None
        t = self.text.replace("model M\n", "model M\n  Real verif_e%d;\n" % n, 1)
        i = t.rindex("end M;")
        return t[:i] + "equation\n  verif_e%d = %d.25;\n" % (n, n) + t[i:]

    def truncation(self, k, drv, check_hit=False, edit_after=False, edit_before=False):
        ctx, w = self.ctx, self.w
        start0 = None
        pre0 = None
        if edit_before:
            # the sources change to a DIFFERENT model after this process compiled (and cached) the old one; the cache
            # file that is then found cut is newer than the edited source (another process died while rewriting it)
            new = self.edited_text()
            if new is None:
                edit_before = False
            else:
                k = min(k, len(self.B) - 1)      # a COMPLETE old cache stamped newer than the edit is outside the property
                pre0 = self.model_prefix(True)
                start0 = len(w.model_ops)
                self.src_tick = w.write(0, "M.mo", new)
                self.text = new
                rok, rm, rmsg = w.reference(self.opts, [])
                if not rok:
                    raise HarnessError("edited bench model does not compile: %s" % rmsg)
                self.ref = G.signature(rm, 2, 3)
                ctx.count("truncate:source-edited-before-the-cut")
        case = {"stream": "truncate", "text": self.text, "opts": self.opts, "offset": k, "size": len(self.B),
                "edit_after": edit_after, "edit_before": edit_before}
        data = self.B[:k]
        with open(w.cache_path(), "wb") as f:
            f.write(data)
        t = w.tick()
        G.set_mtime(w.cache_path(), w.ns(t))
        start = len(w.model_ops)
        # model: the file now holds `k` of `size` bytes; make sure the model's file is the complete one first
        w.model_ops.append(["truncate", k, t])
        pre = self.model_prefix(True)
        if edit_before:
            pre, start = pre0, start0
        if edit_after:
            self.src_tick = w.write(0, "M.mo", self.text)     # same text, later time: the mtime check fires before the unpickler
        e = self.unpickle_exc(data)
        ctx.case({"stream": "truncate", "offset": k, "size": len(self.B)}, nontrivial=k < len(self.B),
                 key=["trunc", self.text, k, edit_after])
        ctx.count("unpickler:" + (type(e).__name__ if e else "complete"))
        ctx.count("offset:" + ("0" if k == 0 else "<64" if k < 64 else "last-8" if k >= len(self.B) - 8 else "sampled"))
        kind = self.expect_correct(case, "the cache file was cut to %d of %d bytes" % (k, len(self.B)))
        if kind is None:
            return False
        ctx.count("decision:" + kind)
        kinds = [kind]
        if edit_before:
            # from here on the complete cache of this bench is the one of the edited sources
            sizeB = len(self.B)
            with open(w.cache_path(), "rb") as f:
                self.B = f.read()
        if check_hit:
            k2 = self.expect_hit(case, "a cut at %d" % k)
            if k2 is None:
                return False
            kinds.append(k2)
        if drv is not None:
            self.correspond(drv, case, pre, start, kinds, [[k, exc_json(e)]] if e else [])
        return True

    def correspond(self, drv, case, pre, start, kinds, errs):
        """Replays `pre` (sources + a complete fresh cache) and the ops logged since `start` on the model."""
        w = self.w
        ans = drv.ask({"op": "cache.run", "excl": True, "version": 1, "errs": errs,
                       "err_default": {"mro": ["UnpicklingError", "PickleError", "Exception"], "deser": False},
                       "ops": pre + w.model_ops[start:]})
        if not ans.get("ok"):
            raise HarnessError("drv_c21 rejected: %s" % ans)
        msteps = [s for s in ans["steps"][len(pre):] if "kind" in s and not s.get("crashed")]
        mk = [s["kind"] for s in msteps]
        if [G.coarse(x) for x in mk] != [G.coarse(x) for x in kinds]:
            self.ctx.disagreement("crash.decision", case, mk, kinds)
        if any(s.get("stale") for s in msteps):
            self.ctx.disagreement("crash.stale", case, "model: stale result", "impl: correct")

    # ---- one real interruption of save_model ------------------------------------------------------
    def clean_folder(self):
        """Back to the sources only (between two tests; never between a crash and the call that follows it)."""
        d = self.w.dirs[0]
        for fn in os.listdir(d):
            if not fn.endswith(".mo"):
                pth = os.path.join(d, fn)
                shutil.rmtree(pth, ignore_errors=True) if os.path.isdir(pth) else os.remove(pth)

    def old_cache(self):
        """A complete cache of an *older* version of the source (one number changed: same layout, other content),
        compiled once per bench: (old text, bytes) or None."""
        if hasattr(self, "_old"):
            return self._old
        self._old = None
        head, sep, eqs = self.text.partition("equation\n")
        m = re.search(r"(?<![\w.\[])(\d+(?:\.\d+)?)(?![\w.\]])", eqs)
        if m:
            old_text = head + sep + eqs[:m.start()] + ("7" if m.group(1) != "7" else "9") + eqs[m.end():]
            self.clean_folder()
            G.write_file(os.path.join(self.w.dirs[0], "M.mo"), old_text, self.w.ns(self.w.tick()))
            ok, m1, msg = G.outcome(self.api.transfer_model, self.w.dirs[0], "M", self.w.real_opts(self.opts, []))
            if ok:
                with open(self.w.cache_path(), "rb") as f:
                    self._old = (old_text, f.read())
            self.src_tick = self.w.write(0, "M.mo", self.text)
            self.w.model_ops.clear()
        return self._old

    def interruption(self, at, drv, at_bytes=None, start_old=False):
        """save_model really dies: `at` = None and `at_bytes` = None: when it opens the file; `at` = j: at its
        j-th write call (0 = the file was just created); `at_bytes` = k: in the middle of a write, k bytes out.
        Whatever files the code created stay; then transfer_model is called again."""
        ctx, w, api = self.ctx, self.w, self.api
        case = {"stream": "interrupt", "text": self.text, "opts": self.opts, "at": at, "at_bytes": at_bytes}
        old = self.old_cache() if start_old else None
        self.clean_folder()
        case["start_old"] = bool(old)
        if old:
            # an older complete cache is there (compiled from the older source), then the source was edited:
            # the interrupted call is a REWRITE of an existing file
            old_text, old_bytes = old
            ta, tb = w.tick(), w.tick()
            with open(w.cache_path(), "wb") as f:
                f.write(old_bytes)
            G.set_mtime(w.cache_path(), w.ns(tb))
            w.model_ops[:] = [["write", 0, "M.mo", ta, w.content_id(old_text)],
                              ["transfer", w.model_opts(self.opts, []), tb, len(old_bytes)]]
            self.src_tick = w.write(0, "M.mo", self.text)
            ctx.count("interrupt:rewrite-of-older-cache")
        else:
            w.model_ops[:] = self.model_prefix(False)
        start = len(w.model_ops)
        before_open = at is None and at_bytes is None

        def hook(path, mode):
            if before_open:
                raise SimCrash("died before open")
            return CrashFile(path, mode, at, [], at_bytes)
        install_open(api, hook)
        before = w.cache_stat()
        try:
            w.spy_log.clear()
            ok, r, msg = G.outcome_base(api.transfer_model, w.dirs[0], "M", w.real_opts(self.opts, []))
        finally:
            uninstall_open(api)
        if ok or r != "SimCrash":
            ctx.tie_broken("interrupt:save_model-did-not-write-through-open", "%s %s" % (r, msg))
            return True
        leftovers = sorted(fn for fn in os.listdir(w.dirs[0]) if not fn.endswith(".mo"))
        after = w.cache_stat()
        now = w.clock + 1
        touched = after is not None and after != before
        if touched:
            # the dying call wrote (to) the cache file: its modification time is the time of the crash
            w.tick()
            G.set_mtime(w.cache_path(), w.ns(now))
        # an untouched file (no file, or the older cache an atomic writer leaves in place) keeps its time: it is
        # still out of date with respect to the edited source, exactly as before the call
        on_disk = after[2] if touched else None
        label = "before-open" if before_open else "empty-file" if (at == 0 or at_bytes == 0) else \
            "after-write-call" if at is not None else "mid-write"
        ctx.case({"stream": "interrupt", "at": at, "at_bytes": at_bytes, "left": leftovers}, nontrivial=True,
                 key=["intr", self.text, at, at_bytes])
        ctx.count("interrupt:" + label)
        ctx.count("interrupt-leftovers:%d" % len(leftovers))
        # the model follows what the dying call did to the cache file: untouched = died before open
        w.model_ops.append(["crashed", w.model_opts(self.opts, []), now, len(self.B),
                            "beforeOpen" if on_disk is None else on_disk])
        where = "before open" if before_open else "at write call %s / byte %s (files left: %s)" % (at, at_bytes, leftovers)
        kinds = []
        k1 = self.expect_correct(case, "save_model died %s" % where)
        if k1 is None:
            return False
        kinds.append(k1)
        k2 = self.expect_hit(case, "an interruption %s" % where)
        if k2 is None:
            return False
        kinds.append(k2)
        ctx.count("decision:" + k1)
        if drv is not None:
            errs = []
            if on_disk is not None and on_disk < len(self.B):
                e = self.unpickle_exc(self.B[:on_disk])
                errs = [[on_disk, exc_json(e)]] if e else []
            ans = drv.ask({"op": "cache.run", "excl": True, "version": 1, "errs": errs,
                           "err_default": {"mro": ["UnpicklingError", "PickleError", "Exception"], "deser": False},
                           "ops": w.model_ops})
            msteps = [s["kind"] for s in ans["steps"][start:] if "kind" in s and not s.get("crashed")]
            if [G.coarse(x) for x in msteps] != [G.coarse(x) for x in kinds]:
                ctx.disagreement("interrupt.decision", case, msteps, kinds)
        return True


# ---------------------------------------------------------------------------------------------
# part (c): reader / writer interleavings
# ---------------------------------------------------------------------------------------------
class DynSched:
    """Runs the threads strictly one at a time; at every yield point (load_model, open, each piece of
    the written bytes, close, and every os.remove/unlink/replace/rename the code performs) the next thread
    to run is drawn from a seeded PRNG.  The executed acts and the file after each are logged.
    A running thread that sleeps in the kernel without consuming CPU (e.g. a blocking `flock` on a file
    another call holds) is set aside as `blocked` so that the call it waits for can go on."""

    def __init__(self, seed, snapshot, nthreads=2, script=()):
        self.rng = random.Random(seed)
        self.script = list(script)      # forced first choices (thread ids), then the PRNG decides
        self.snapshot = snapshot
        self.cv = threading.Condition()
        self.pending, self.running, self.live = {}, None, set(range(nthreads))
        self.log, self.error = [], None
        self.blocked, self.tids, self.watch = set(), {}, None

    def register(self, i):
        self.tids[i] = (threading.get_ident(), threading.get_native_id())

    def _grant(self):
        active = self.live - self.blocked
        if self.running is None and active and all(i in self.pending for i in active):
            pick = self.rng.choice(sorted(active))
            if self.script:
                forced = self.script.pop(0)
                if forced in active:
                    pick = forced
            self.running = pick
            self.watch = None
            self.cv.notify_all()

    def _runner_sleeps(self):
        """Is the running thread asleep in the kernel (state S, no CPU time for 2 s)?"""
        import time
        i = self.running
        if i is None or i not in self.tids:
            return False
        ident, native = self.tids[i]
        try:
            cpu = time.clock_gettime(time.pthread_getcpuclockid(ident))
            with open("/proc/self/task/%d/stat" % native) as f:
                state = f.read().rsplit(")", 1)[1].split()[0]
        except Exception:
            return False
        now = time.time()
        if self.watch is None or self.watch[0] != i or cpu - self.watch[1] > 0.002 or state != "S":
            self.watch = (i, cpu, now)
            return False
        return now - self.watch[2] > 2.0

    def yield_point(self, i, kind):
        with self.cv:
            self.blocked.discard(i)
            self.pending[i] = kind
            if self.running == i:
                self.running = None
            self._grant()
            waited = 0.0
            while self.running != i:
                if self.error:
                    raise SimCrash(self.error)
                if not self.cv.wait(timeout=0.5):
                    waited += 0.5
                    if self._runner_sleeps():
                        self.log.append({"act": ["blocked", self.running], "file": self.snapshot()})
                        self.blocked.add(self.running)
                        self.running = None
                        self._grant()
                    elif waited > 120:
                        self.error = "scheduler timeout (call %d at `%s`)" % (i, kind)
                        self.cv.notify_all()
                        raise SimCrash(self.error)
            del self.pending[i]

    def did(self, act):
        with self.cv:
            self.log.append({"act": act, "file": self.snapshot()})

    def piece(self, remaining):
        r = self.rng.random()
        return remaining if r < 0.4 else self.rng.randint(1, remaining) if r < 0.8 else self.rng.randint(1, min(remaining, 40))

    def finish(self, i):
        with self.cv:
            self.live.discard(i)
            self.blocked.discard(i)
            self.pending.pop(i, None)
            if self.running == i:
                self.running = None
            self._grant()


class SchedFile:
    """`visible`: the file is the cache file itself (readers can see every step); a temporary sibling is private,
    its steps are still yield points but are logged as `tmp-…` and are not acts of the Lean model."""

    def __init__(self, sched, i, path, mode, visible=True):
        self.sched, self.i, self.buf = sched, i, []
        self.pre = "" if visible else "tmp-"
        sched.yield_point(i, "open")
        try:
            self.raw = io.open(path, mode, buffering=0)
        finally:
            sched.did([self.pre + "open", i])

    def __getattr__(self, name):          # fileno / tell / seek …
        return getattr(self.raw, name)

    def __enter__(self):
        return self

    def write(self, data):
        self.buf.append(bytes(data))
        return len(data)

    def flush(self):
        pass

    def truncate(self, size=None):
        self.__dict__["truncate_after"] = True      # applied once the buffered bytes have reached the file
        return 0

    def close(self):
        self.__exit__(None, None, None)

    def __exit__(self, et, ev, tb):
        if self.raw.closed:
            return False
        if et is not None:
            self.raw.close()
            return False
        data, pos = b"".join(self.buf), 0
        while pos < len(data):
            self.sched.yield_point(self.i, "write")
            n = self.sched.piece(len(data) - pos)
            self.raw.write(data[pos:pos + n])
            pos += n
            self.sched.did([self.pre + "write", self.i, n])
        self.sched.yield_point(self.i, "close")
        if self.__dict__.get("truncate_after", False):
            self.raw.truncate()
        self.raw.close()
        self.sched.did([self.pre + "close", self.i])
        return False


class OsProxy:
    """`api.os` during a schedule: the file-removing / renaming calls become yield points."""
    OPS = ("remove", "unlink", "replace", "rename")

    def __init__(self, real, sched, tl):
        self._real, self._sched, self._tl = real, sched, tl

    def __getattr__(self, name):
        val = getattr(self._real, name)
        if name in self.OPS and getattr(self._tl, "i", None) is not None:
            def op(*a, **k):
                i = self._tl.i
                self._sched.yield_point(i, "fsop")
                try:
                    return val(*a, **k)
                finally:
                    self._sched.did(["fsop", i, name] + [os.path.basename(str(x)) for x in a[:2]])
            return op
        return val


def run_schedule(ctx, bench, seed, f0, drv, script=()):
    """Two transfer_model calls on the bench's folder, interleaved by a seeded scheduler (`script`: forced
    first choices, e.g. [0, 0, 1] = call 0 loads, call 0 opens the file, call 1 loads while call 0 holds it)."""
    api, w = bench.api, bench.w
    f0kind = None if f0 is None else "complete" if f0 == bench.B else "prefix:%d" % len(f0) if bench.B.startswith(f0) else "garbage"
    case = {"stream": "interleave", "text": bench.text, "opts": bench.opts, "sched_seed": seed, "f0": f0kind,
            "script": list(script)}
    bench.clean_folder()
    path = w.cache_path()
    if f0 is not None:
        with open(path, "wb") as f:
            f.write(f0)

    def snapshot():
        try:
            with open(path, "rb") as f:
                return f.read()
        except FileNotFoundError:
            return None
    sched = DynSched(seed, snapshot, script=script)
    tl = threading.local()
    orig_load = api.load_model       # the CacheWorld spy
    real_os = api.os
    loads = {}

    def load_hook(folder, name, opts):
        i = tl.i
        sched.yield_point(i, "load")
        try:
            m = orig_load(folder, name, opts)
            loads[i] = "hit"
            return m
        except BaseException as e:
            loads[i] = type(e).__name__
            raise
        finally:
            sched.did(["load", i])
    results = {}

    def body(i):
        tl.i = i
        sched.register(i)
        try:
            results[i] = G.outcome_base(api.transfer_model, w.dirs[0], "M", w.real_opts(bench.opts, []))
        finally:
            sched.finish(i)
    api.load_model = load_hook
    api.os = OsProxy(real_os, sched, tl)
    cache_name = os.path.basename(path)
    install_open(api, lambda pth, mode: SchedFile(sched, tl.i, pth, mode, visible=os.path.basename(str(pth)) == cache_name)
                 if getattr(tl, "i", None) is not None else io.open(pth, mode))
    try:
        ths = [threading.Thread(target=body, args=(i,)) for i in (0, 1)]
        for t in ths:
            t.start()
        for t in ths:
            t.join(timeout=200)
        if any(t.is_alive() for t in ths):
            raise HarnessError("scheduler threads did not finish")
    finally:
        uninstall_open(api)
        api.os = real_os
        api.load_model = orig_load
    acts = [e["act"] for e in sched.log]
    case["acts"] = acts
    opens = sum(1 for a in acts if a[0] in ("open", "tmp-open"))
    ctx.case({"stream": "interleave", "acts": len(acts), "opens": opens, "f0": f0kind}, nontrivial=opens == 2 or f0 is not None,
             key=["sched", bench.text, seed, f0kind, list(script)])
    ctx.count("schedule:" + ("two-writers" if opens == 2 else "one-writer" if opens == 1 else "no-writer"))
    ctx.count("schedule-f0:" + str(f0kind).split(":")[0])
    if sched.error:
        raise HarnessError("scheduler: " + sched.error)
    for i in (0, 1):
        ok, m, msg = results[i]
        if not ok:
            ctx.violation("call %d of two interleaved transfer_model calls raised %s: %s" % (i, m, msg), case,
                          expected="a correct model", observed=m, kind="schedule")
            return
        df = G.diff(bench.ref, G.signature(m, 2, 3))
        if df:
            ctx.violation("call %d of two interleaved transfer_model calls returned a wrong model: %s" % (i, df[0]), case,
                          expected="fresh compile", observed=df, kind="schedule")
            return
    final = snapshot()
    if opens and final != bench.B:
        ctx.violation("after two interleaved transfer_model calls the cache file is not the complete cache "
                      "(%s bytes, expected %d)" % (None if final is None else len(final), len(bench.B)), case,
                      expected="complete file", observed="differs", kind="schedule")
        return
    ok, m, msg = G.outcome(api.transfer_model, w.dirs[0], "M", w.real_opts(bench.opts, []))
    if not ok or G.diff(bench.ref, G.signature(m, 2, 3)):
        ctx.violation("the transfer_model call after two interleaved calls %s" % ("raised " + str(m) if not ok else "returned a wrong model"),
                      case, expected="correct model", observed=str(m) if not ok else "diff", kind="schedule")
        return
    if drv is not None:
        # acts of the Lean model: steps on the cache file itself, and a rename of a (private, complete) temporary
        # file over it; steps on other paths are invisible to readers and skipped
        macts, mlog, unmodelled = [], [], []
        for ent in sched.log:
            a = ent["act"]
            if a[0] in ("load", "open", "write", "close"):
                macts.append(a)
                mlog.append(ent)
            elif a[0] == "fsop":
                names = a[3:]
                if a[2] in ("replace", "rename") and len(names) == 2 and names[1] == cache_name and names[0] != cache_name:
                    macts.append(["replace", a[1]])
                    mlog.append(ent)
                elif cache_name in names:
                    unmodelled.append(a)
        ctx.count("schedule-writer:" + ("atomic-rename" if any(a[0] == "replace" for a in macts) else "in-place"))
        if unmodelled:
            ctx.disagreement("schedule.unmodelled-file-operation", case, "the model has load/open/write/close/replace on the cache file",
                             unmodelled[:4])
            return
        ans = drv.ask({"op": "file.run", "B": list(bench.B), "f0": None if f0 is None else list(f0), "acts": macts})
        if not ans.get("ok"):
            raise HarnessError("drv_c21 rejected file.run: %s" % ans)
        for j, (ms, rs) in enumerate(zip(ans["steps"], mlog)):
            if not ms.get("enabled"):
                ctx.disagreement("schedule.enabled", dict(case, step=j), "not enabled in the model", "executed by the real code: %s" % rs["act"])
                return
            mf = None if ms["file"] is None else bytes(ms["file"])
            if mf != rs["file"]:
                ctx.disagreement("schedule.file-bytes", dict(case, step=j), None if mf is None else len(mf),
                                 None if rs["file"] is None else len(rs["file"]))
                return
        mph = ans["steps"][-1]["ph"] if ans["steps"] else []
        want = ["hit" if loads.get(i) == "hit" else "wrote" for i in (0, 1)]
        if mph != want:
            ctx.disagreement("schedule.outcomes", case, mph, want)


def draw_f0(rng, bench):
    r = rng.random()
    if r < 0.35:
        return None
    if r < 0.75:
        return bench.B[:rng.randrange(0, len(bench.B))]      # an incomplete cache is already there
    if r < 0.85:
        return bench.B
    return b"\x80\x05garbage-not-a-pickle"


# ---------------------------------------------------------------------------------------------
# part (d): torn files that are not prefixes (outside the Lean model; finding C21-F2)
# ---------------------------------------------------------------------------------------------
def other_cache(bench):
    """The cache of the same model under another option set (what a second writer with other options writes)."""
    o2 = dict(bench.opts, detect_aliases=not bench.opts.get("detect_aliases", False))
    w = bench.w
    bench.clean_folder()
    ok, m, msg = G.outcome(bench.api.transfer_model, w.dirs[0], "M", w.real_opts(o2, []))
    if not ok:
        return None
    with open(w.cache_path(), "rb") as f:
        return f.read()


def torn_bytes(bench, B2, kind, k):
    return {"splice12": bench.B[:k] + B2[k:], "splice21": B2[:k] + bench.B[k:], "hole": bytes(k) + bench.B[k:]}[kind]


def unpickle_class(data):
    try:
        pickle.load(io.BytesIO(data))
    except Exception as e:  # noqa: BLE001
        return type(e).__name__
    return "loads"


def torn_case(ctx, bench, B2, kind, k):
    w = bench.w
    with open(w.cache_path(), "wb") as f:
        f.write(torn_bytes(bench, B2, kind, k))
    case = {"stream": "torn-nonprefix", "text": bench.text, "opts": bench.opts, "kind": kind, "offset": k}
    ctx.case({"stream": "torn-nonprefix", "kind": kind, "offset": k}, nontrivial=True, key=["torn", bench.text, kind, k])
    ctx.count("torn:" + kind)
    ok, m, msg = G.outcome(bench.api.transfer_model, w.dirs[0], "M", w.real_opts(bench.opts, []))
    if not ok:
        ctx.violation("transfer_model raised %s on a torn cache file (%s)" % (m, kind), case,
                      expected="recompile", observed="%s: %s" % (m, msg), kind="crash")
        return False
    if G.diff(bench.ref, G.signature(m, 2, 3)):
        ctx.violation("transfer_model returned a wrong model from a torn cache file (%s)" % kind, case,
                      expected="fresh compile", observed="differs", kind="crash")
        return False
    return True


CONVERTED = ("UnpicklingError", "AttributeError", "EOFError", "ImportError", "IndexError", "ModuleNotFoundError")


def classify_torn(ctx, bench, B2, plan, budget_s):
    """Unpickles every torn file of `plan` in a forked child first (some splices keep the C unpickler busy for
    a minute: those are skipped and counted, in the harness and therefore for the real call too)."""
    import multiprocessing as mp
    import time
    mpc = mp.get_context("fork")
    out, todo, t_end = [], list(plan), time.time() + budget_s

    def child(items, q):
        for kind, k in items:
            q.put((kind, k, "start"))
            q.put((kind, k, unpickle_class(torn_bytes(bench, B2, kind, k))))
        q.put(None)
    while todo and time.time() < t_end:
        q = mpc.Queue()
        pr = mpc.Process(target=child, args=(todo, q), daemon=True)
        pr.start()
        current = None
        while True:
            try:
                item = q.get(timeout=2.5)
            except Exception:  # no progress: the child is stuck inside one unpickle
                ctx.count("torn-slow-unpickle-skipped")
                if current in todo:
                    todo = todo[todo.index(current) + 1:]
                else:
                    todo = []
                break
            if item is None:
                todo = []
                break
            kind, k, cls = item
            if cls == "start":
                current = (kind, k)
            else:
                out.append((kind, k, cls))
            if time.time() > t_end:
                todo = []
                break
        pr.terminate()
        pr.join(timeout=5)
    return out


def torn_stream(ctx, bench, rng, n, scan_only=False):
    """Random splices/holes, plus a scan for offsets where the unpickler raises a class outside the documented
    ones or returns an object (each class once)."""
    B2 = other_cache(bench)
    if B2 is None:
        return
    quick = ctx.tier == "quick"
    lim = min(len(B2), len(bench.B))
    plan = [(rng.choice(["splice12", "splice21", "hole"]), rng.randrange(1, lim)) for _ in range(0 if scan_only else n)]
    scan = [(kind, k) for k in range(1, lim, max(1, lim // (60 if quick else 400))) for kind in ("splice12", "splice21")]
    classified = classify_torn(ctx, bench, B2, plan + scan, 4 if quick else 90)
    seen, todo, planned = set(), [], set(plan)
    for kind, k, cls in classified:
        if (kind, k) in planned:
            planned.discard((kind, k))
            todo.append((kind, k))
        elif cls not in CONVERTED and (kind, cls) not in seen:
            seen.add((kind, cls))
            todo.append((kind, k))
            ctx.count("torn-unpickler:" + cls)
    for kind, k in todo:
        if ctx.time_left() < 5:
            break
        if not torn_case(ctx, bench, B2, kind, k):
            return


CODEGEN_TEXT = "model M\n  parameter Real p = 2;\n  Real x(max = p);\n  Real y;\nequation\n  der(x) = -p*x;\n  y = 3*x + p;\nend M;\n"


def codegen_interruption(ctx, drv, idx, k):
    """save_model(codegen) dies when it is about to build its k-th shared library (k = 0..3), or (k = 4) when it
    opens the cache file; the files made so far stay.  The next transfer_model(codegen) must return a correct model
    (not raise from ca.external), and the one after it as well."""
    import gc
    from pymoca.backends.casadi import api
    root = os.path.join(ctx.scratch, "cg%03d" % idx)
    w = G.CacheWorld(root)
    opts = {"codegen": True}
    case = {"stream": "codegen-interrupt", "text": CODEGEN_TEXT, "opts": opts, "k": k}
    orig_codegen = api._codegen_model
    try:
        tick = w.write(0, "M.mo", CODEGEN_TEXT)
        rok, rm, rmsg = w.reference(opts, [])
        if not rok:
            raise HarnessError("codegen bench model does not compile: %s %s" % (rm, rmsg))
        ref = G.signature(rm, 2, 3)
        del rm
        calls = [0]

        def dying_codegen(*a, **kw):
            if calls[0] >= k:
                raise SimCrash("died before building library %d" % calls[0])
            calls[0] += 1
            return orig_codegen(*a, **kw)
        api._codegen_model = dying_codegen
        if k >= 4:
            def hook(path, mode):
                raise SimCrash("died at open")
            install_open(api, hook)
        try:
            ok, r, msg = G.outcome_base(api.transfer_model, w.dirs[0], "M", w.real_opts(opts, []))
        finally:
            api._codegen_model = orig_codegen
            uninstall_open(api)
        ctx.case({"stream": "codegen-interrupt", "k": k}, nontrivial=True, key=["cg", k])
        ctx.count("codegen-interrupt:k=%d" % k)
        if ok or r != "SimCrash":
            ctx.tie_broken("codegen-interrupt:not-reached", "%s %s" % (r, msg))
            return True
        left = sorted(fn for fn in os.listdir(w.dirs[0]) if not fn.endswith(".mo"))
        ctx.count("codegen-interrupt-cache-file-left:%s" % (w.cache_stat() is not None))
        after = w.cache_stat()
        now = w.clock + 1
        if after is not None:
            w.tick()
            G.set_mtime(w.cache_path(), w.ns(now))
        w.model_ops[:] = [["write", 0, "M.mo", tick, w.content_id(CODEGEN_TEXT)],
                          ["crashed", w.model_opts(opts, []), now, after[2] if after else 0, "beforeOpen" if after is None else after[2]]]
        kinds = []
        for step in ("next", "after-next"):
            ok, m, msg, kind = w.transfer(opts, [])
            if not ok:
                ctx.violation("transfer_model(codegen) raised %s on the %s call after save_model died before library %d (files left: %s)" % (
                    m, step, k, left), case, expected="a correct model", observed="%s: %s" % (m, msg), kind="crash")
                return False
            df = G.diff(ref, G.signature(m, 2, 3))
            del m
            gc.collect()
            if df:
                ctx.violation("transfer_model(codegen) returned a wrong model on the %s call after save_model died before library %d: %s" % (
                    step, k, df[0]), case, expected="fresh compile", observed=df, kind="crash")
                return False
            kinds.append(kind)
        if drv is not None:
            ans = drv.ask({"op": "cache.run", "excl": True, "version": 1, "errs": [],
                           "err_default": {"mro": ["UnpicklingError", "PickleError", "Exception"], "deser": False},
                           "ops": w.model_ops})
            mk = [s_["kind"] for s_ in ans["steps"][2:] if "kind" in s_ and not s_.get("crashed")]
            if [G.coarse(x) for x in mk] != [G.coarse(x) for x in kinds]:
                ctx.disagreement("codegen-interrupt.decision", case, mk, kinds)
        return True
    finally:
        api._codegen_model = orig_codegen
        w.close()
        gc.collect()
        shutil.rmtree(root, ignore_errors=True)


SUBPROCESS_RUNNER = """
import gc, json, sys
sys.path[:0] = json.loads(sys.argv[1])
from harness.gen import a12_cache as G
from pymoca.backends.casadi import api
G.quiet_logging()
folder, opts = sys.argv[2], json.loads(sys.argv[3])
out = []
for i in range(2):
    ok, m, msg = G.outcome(api.transfer_model, folder, "M", dict(opts))
    out.append({"ok": ok, "cls": type(m).__name__ if ok else m, "msg": msg, "sig": G.signature(m, 2, 3) if ok else None})
    del m
    gc.collect()
    print("STEP " + json.dumps(out[-1]), flush=True)
"""


def codegen_link_interruption(ctx, idx, j):
    """The writer is killed while the linker writes library j: the first j libraries are complete, library j is
    there but cut in half, no cache file.  The next two transfer_model(codegen) calls run in a child process (a
    partial shared library handed to the dynamic loader can kill the process) and must both be correct."""
    import json
    import subprocess
    import sys
    from pymoca.backends.casadi import api
    root = os.path.join(ctx.scratch, "cgl%03d" % idx)
    w = G.CacheWorld(root)
    opts = {"codegen": True}
    case = {"stream": "codegen-link-interrupt", "text": CODEGEN_TEXT, "opts": opts, "j": j}
    orig_codegen = api._codegen_model
    try:
        w.write(0, "M.mo", CODEGEN_TEXT)
        rok, rm, rmsg = w.reference(opts, [])
        if not rok:
            raise HarnessError("codegen bench model does not compile: %s %s" % (rm, rmsg))
        ref = G.signature(rm, 2, 3)
        del rm
        calls = [0]

        def dying_codegen(*a, **kw):
            lib = orig_codegen(*a, **kw)
            if calls[0] == j:
                size = os.path.getsize(lib)
                with open(lib, "r+b") as f:
                    f.truncate(size // 2)
                raise SimCrash("killed while linking %s" % os.path.basename(lib))
            calls[0] += 1
            return lib
        api._codegen_model = dying_codegen
        try:
            ok, r, msg = G.outcome_base(api.transfer_model, w.dirs[0], "M", w.real_opts(opts, []))
        finally:
            api._codegen_model = orig_codegen
        ctx.case({"stream": "codegen-link-interrupt", "j": j}, nontrivial=True, key=["cgl", j])
        ctx.count("codegen-link-interrupt:j=%d" % j)
        if ok or r != "SimCrash":
            ctx.tie_broken("codegen-link-interrupt:not-reached", "%s %s" % (r, msg))
            return True
        left = sorted(fn for fn in os.listdir(w.dirs[0]) if not fn.endswith(".mo"))
        runner = os.path.join(root, "runner.py")
        with open(runner, "w") as f:
            f.write(SUBPROCESS_RUNNER)
        pr = subprocess.run([sys.executable, runner, json.dumps([p for p in sys.path if p]), w.dirs[0],
                             json.dumps(w.real_opts(opts, []))], stdout=subprocess.PIPE, stderr=subprocess.PIPE, text=True,
                            timeout=600, cwd=os.getcwd())
        steps = [json.loads(l[5:]) for l in pr.stdout.splitlines() if l.startswith("STEP ")]
        for n_, st in enumerate(steps):
            which = ["next", "after-next"][n_]
            if not st["ok"]:
                ctx.violation("transfer_model(codegen) raised %s on the %s call after the writer was killed while linking library %d "
                              "(files left: %s)" % (st["cls"], which, j, left), case, expected="a correct model",
                              observed="%s: %s" % (st["cls"], st["msg"]), kind="crash")
                return False
            df = G.diff(ref, st["sig"])
            if df:
                ctx.violation("transfer_model(codegen) returned a wrong model on the %s call after the writer was killed while "
                              "linking library %d: %s" % (which, j, df[0]), case, expected="fresh compile", observed=df, kind="crash")
                return False
        if pr.returncode != 0 or len(steps) < 2:
            ctx.violation("the process calling transfer_model(codegen) died (exit status %s) on the %s call after the writer was "
                          "killed while linking library %d (files left: %s)" % (pr.returncode, ["next", "after-next"][min(len(steps), 1)], j, left),
                          case, expected="two correct models", observed=(pr.stderr or "")[-300:], kind="crash")
            return False
        return True
    finally:
        api._codegen_model = orig_codegen
        w.close()
        shutil.rmtree(root, ignore_errors=True)


def make_benches(ctx, quick):
    rng = ctx.rng
    specs = []
    for want in (["delay", "alias", "array"], ["string-parameter"], []):
        gm = G.gen_model(rng, size=2, want=want)
        specs.append((gm["text"], G.gen_options(rng, heavy=0.4)))
    if not quick:
        specs.append((big_model(24), {}))
    out = []
    for idx, (text, opts) in enumerate(specs):
        b = CrashBench(ctx, idx, text, opts)
        tries = 0
        while not b.ok and not b.failed_baseline and tries < 5:      # generated model does not compile: draw another one
            b.close()
            tries += 1
            gm = G.gen_model(rng, size=2)
            b = CrashBench(ctx, idx, gm["text"], {})
        if b.failed_baseline:
            b.close()
            continue
        if not b.ok:
            raise HarnessError("no compilable model for the crash bench")
        if not b.deterministic:
            ctx.notes.append("pickle bytes of model %d differ between two saves: interleaving stream skipped for it" % idx)
        ctx.count("bench-size:%dKiB" % (len(b.B) // 1024))
        ctx.count("bench-write-calls:%d" % len(b.calls))
        out.append(b)
    return out


def offsets_for(bench, rng, quick, nsample):
    N = len(bench.B)
    base = list(range(0, min(64, N))) + list(range(max(0, N - 8), N + 1))
    if quick:
        return base, sorted(set(rng.sample(range(64, max(65, N - 8)), min(nsample, max(0, N - 72)))))
    if N <= 40000:
        return base, list(range(64, N - 8))
    return base, sorted(set(rng.sample(range(64, N - 8), nsample)))


def run(ctx):
    G.quiet_logging()
    drv = ctx.driver("drv_c21")
    quick = ctx.tier == "quick"
    from harness import corpus
    for c in corpus.load("C21"):
        ctx.count("corpus")
        replay(ctx, {"case": c["case"] if "case" in c else c})
    check_convert_table(ctx, drv)
    # code generation: save_model dies between two of the four library builds / at the cache file
    cg_ks = [ctx.rng.choice([0, 1]), ctx.rng.choice([2, 3])] if quick else [0, 1, 2, 3, 4]
    for n_, k in enumerate(cg_ks):
        if not codegen_interruption(ctx, drv, n_, k):
            return
    # ... or while the linker is writing one of them (outside the Lean model; the follow-up calls run in a child process)
    for n_, j in enumerate([1] if quick else [0, 1, 3]):
        if not codegen_link_interruption(ctx, n_, j):
            return
    benches = make_benches(ctx, quick)
    if ctx.violations or not benches:
        for b in benches:
            b.close()
        return
    try:
        # ---- everything random is drawn first: the case sequence depends on the seed only ----------------
        nint = 14 if quick else 300
        scheds = [(benches[j % len(benches)], ctx.rng.randrange(10**9)) for j in range(nint)]
        scheds = [(b, seed, draw_f0(ctx.rng, b)) for b, seed in scheds]
        plans = [offsets_for(b, ctx.rng, quick, 70 if quick else 2500) for b in benches]
        mid = [[ctx.rng.randrange(1, len(b.B)) for _ in range(2 if quick else 25)] for b in benches]
        # ---- save_model really interrupted: at open, at every write call, in the middle of a write ------
        for b, ks in zip(benches, mid):
            for at in [None] + list(range(0, len(b.calls))):
                if not b.interruption(at, drv):
                    return
            for k in ([1] + ks if b is benches[0] or not quick else ks[:1]):
                if not b.interruption(None, drv, at_bytes=k):
                    return
            # the same over an older complete cache of other content (an interrupted rewrite)
            olds = [(0, None), (None, 1), (None, 40)] + [(None, k) for k in ks]
            for at, k in (olds if b is benches[0] or not quick else olds[:2]):
                if not b.interruption(at, drv, at_bytes=k, start_old=True):
                    return
        # ---- interleavings: first the fixed ones of every run (independent of the seed): a reader that loads
        # while the writer holds the file open (right after its open, after a first piece, the other way round,
        # and over an incomplete cache), and two overlapping writers ------------------------------------------
        b0 = benches[0]
        if b0.deterministic:
            for script, f0 in [([0, 0, 1], None), ([0, 0, 0, 1], None), ([1, 1, 0], None), ([0, 0, 1], b0.B[:len(b0.B) // 2]),
                               ([0, 1, 0, 1, 0, 1], None), ([0, 0, 1, 1, 1], b0.B[:7])]:
                ctx.count("schedule:fixed")
                run_schedule(ctx, b0, 12345, f0, drv, script=script)
                if ctx.violations:
                    return
        for j, (b, seed, f0) in enumerate(scheds):
            if ctx.time_left() < (20 if quick else 200):
                ctx.notes.append("interleavings stopped by the time budget after %d of %d" % (j, nint))
                break
            if not b.deterministic:
                continue
            run_schedule(ctx, b, seed, f0, drv)
            if ctx.violations:
                return
        for b in benches:
            b.clean_folder()
        # ---- truncation at byte offsets: first the mandatory ones for every model, then samples ---------
        if quick:   # every offset < 64 and the last 8 on the first model; the ends only on the others
            plans = [(base if n == 0 else [0, 1, 2, 3, len(b.B) - 1, len(b.B)], extra)
                     for n, (b, (base, extra)) in enumerate(zip(benches, plans))]
        for b, (base, _) in zip(benches, plans):
            with open(b.w.cache_path(), "wb") as f:
                f.write(b.B)
            for n, k in enumerate(base):
                if ctx.time_left() < 0:
                    ctx.notes.append("mandatory offsets stopped by the time budget")
                    break
                if not b.truncation(k, drv, check_hit=(n % 16 == 0), edit_after=(n % 23 == 7), edit_before=(n % 23 == 2)):
                    return
        rounds = max(len(p[1]) for p in plans) if plans else 0
        done = 0
        for n in range(rounds):
            if ctx.time_left() < (3 if quick else 60):
                ctx.notes.append("sampled offsets stopped by the time budget after %d per model" % n)
                break
            for b, (_, extra) in zip(benches, plans):
                if n < len(extra):
                    done += 1
                    if not b.truncation(extra[n], drv, check_hit=(n % 40 == 0)):
                        return
        ctx.extra["sampled_offsets_done"] = done
        ctx.extra["every_offset_covered"] = [(not quick) and len(b.B) <= 40000 for b in benches]
        # outside the Lean model: splices of two caches / holes (finding C21-F2, fixed in 9d600b8)
        torn_stream(ctx, benches[0], ctx.rng, 10 if quick else 150)
    finally:
        for b in benches:
            b.close()
    ctx.extra["exhaustive"] = False


def search(ctx):
    G.quiet_logging()
    benches = make_benches(ctx, True)
    try:
        while ctx.time_left() > 0 and not ctx.violations:
            b = ctx.rng.choice(benches)
            if ctx.rng.random() < 0.7:
                b.truncation(ctx.rng.randrange(0, len(b.B)), None)
            elif b.deterministic:
                run_schedule(ctx, b, ctx.rng.randrange(10**9), draw_f0(ctx.rng, b), None)
    finally:
        for b in benches:
            b.close()


def replay(ctx, payload):
    G.quiet_logging()
    c = payload["case"]
    drv = ctx.driver("drv_c21")
    if c.get("stream") == "convert":
        check_convert_table(ctx, drv)
        return
    if c.get("stream") == "codegen-interrupt":
        codegen_interruption(ctx, drv, 77, c["k"])
        return
    if c.get("stream") == "codegen-link-interrupt":
        codegen_link_interruption(ctx, 78, c["j"])
        return
    b = CrashBench(ctx, 900, c["text"], {k: v for k, v in c["opts"].items() if k != "cache"})
    try:
        if b.failed_baseline:
            return
        if not b.ok:
            raise HarnessError("replay model does not compile")
        if c["stream"] == "truncate":
            b.truncation(c["offset"], drv, check_hit=True, edit_after=c.get("edit_after", False),
                         edit_before=c.get("edit_before", False))
        elif c["stream"] == "interrupt":
            b.interruption(c["at"], drv, at_bytes=c.get("at_bytes"), start_old=c.get("start_old", False))
        elif c["stream"] == "interleave":
            f0 = None if c["f0"] is None else b.B if c["f0"] == "complete" else b"\x80\x05garbage-not-a-pickle" \
                if c["f0"] == "garbage" else b.B[:int(c["f0"].split(":")[1])]
            run_schedule(ctx, b, c["sched_seed"], f0, drv, script=c.get("script", ()))
        elif c["stream"] == "torn-nonprefix":
            # pickle bytes vary between processes (set order): retry the recorded offset, then scan for the class of input
            B2 = other_cache(b)
            if B2 is not None and c.get("offset", 0) < min(len(B2), len(b.B)) and c.get("kind"):
                torn_case(ctx, b, B2, c["kind"], c["offset"])
            if not ctx.violations and not ctx.known_hits:
                torn_stream(ctx, b, ctx.rng, 0, scan_only=True)
    finally:
        b.close()


MANIFEST = dict(
    level_text="Lean 4 theorems: (1) on the cache state machine, after save_model dies at any point (before open, or with any number "
               "of bytes on disk) or the file is cut at any offset, the next transfer_model does not raise and returns the compile of "
               "the current sources, for unbounded histories mixing crashes, cuts, edits and transfers, given that what the unpickler "
               "raises on a prefix is among the classes load_model converts (shown necessary); (2) on a byte-level model of two "
               "transfer_model calls sharing the file (truncating open, private offsets, writes in arbitrary pieces, or temporary file + "
               "rename), also when the two calls write different bytes, a call about to load sees the initial file or an exact prefix of "
               "the other call's bytes; with atomic writers the file is always complete; with in-place writers of equal bytes the final file "
               "is complete; any file that does not unpickle is repaired. Tied per run to the "
               "real code by really interrupting save_model at every write call, cutting the cache at byte offsets, running "
               "thread-scheduled interleavings, and a behavioural extraction of the converted exception classes.",
    level_note="Partial by design (named in the evidence): non-prefix torn files (different bytes from the two writers, >2 writers) and "
               "shared libraries torn by the linker are outside the Lean model; spliced/holed files are sampled by the direct oracle in "
               "the thorough tier. Trusted: Lean kernel + standard axioms; the harness; CPython's unpickler raising on strict prefixes.",
    technique="Lean 4 proof (invariants over crash histories and over two-writer schedules) + crash enumeration / scheduled interleavings on the real code",
)
READY = True
