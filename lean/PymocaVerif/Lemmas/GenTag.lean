import PymocaVerif.Lemmas.Gen
/-!
# Lemmas for C12: the representation options only put tags on the generated terms

`retag o t` overwrites every tag of `t` (map mode, inline flag, also inside the bodies of called
functions) with the tags option set `o` produces.  Evaluation does not see it (`evalC_retag`), and the
generator under options `o'` produces exactly the `o'`-retagging of what it produces under `o`
(`gen_retag` … `genTable_retag`).
-/
namespace PymocaVerif.Gen
open PymocaVerif.ExprSem

mutual
def retag (o : Opts) : CTerm K → CTerm K
  | .const q => .const q
  | .ref n s => .ref n s
  | .idx i => .idx i
  | .op1 f a => .op1 f (retag o a)
  | .op2 f a b => .op2 f (retag o a) (retag o b)
  | .ifElse c t f => .ifElse (retag o c) (retag o t) (retag o f)
  | .vcat ts => .vcat (retags o ts)
  | .map _ i vals tr body => .map o.mapMode i vals tr (retag o body)
  | .mapAt _ i v body => .mapAt o.mapMode i v (retag o body)
  | .call _ fn args => .call o.inline (retagF o fn) (retags o args)
def retags (o : Opts) : CTerms K → CTerms K
  | .nil => .nil
  | .cons t ts => .cons (retag o t) (retags o ts)
def retagF (o : Opts) : CFunc K → CFunc K
  | .mk ps outs => .mk ps (retags o outs)
end

mutual
/-- Evaluation never reads a tag. -/
theorem evalC_retag (P : Prims K) (o : Opts) : ∀ (t : CTerm K) (ρ : Env K),
    evalC P ρ (retag o t) = evalC P ρ t
  | .const q, ρ => by simp [retag, evalC]
  | .ref n s, ρ => by simp [retag, evalC]
  | .idx i, ρ => by simp [retag, evalC]
  | .op1 f a, ρ => by simp [retag, evalC, evalC_retag P o a ρ]
  | .op2 f a b, ρ => by simp [retag, evalC, evalC_retag P o a ρ, evalC_retag P o b ρ]
  | .ifElse c t f, ρ => by
    simp [retag, evalC, evalC_retag P o c ρ, evalC_retag P o t ρ, evalC_retag P o f ρ]
  | .vcat ts, ρ => by simp [retag, evalC, evalCs_retag P o ts ρ]
  | .map m i vals tr body, ρ => by
    simp only [retag, evalC]
    have : (fun v => evalC P (ρ.bind i v) (retag o body)) = (fun v => evalC P (ρ.bind i v) body) :=
      funext fun v => evalC_retag P o body (ρ.bind i v)
    rw [this]
  | .mapAt m i v body, ρ => by simp [retag, evalC, evalC_retag P o body (ρ.bind i v)]
  | .call inl fn args, ρ => by
    simp only [retag, evalC, evalCs_retag P o args ρ]
    cases evalCs P ρ args with
    | none => rfl
    | some vs => simp [evalCF_retag P o fn vs]
theorem evalCs_retag (P : Prims K) (o : Opts) : ∀ (ts : CTerms K) (ρ : Env K),
    evalCs P ρ (retags o ts) = evalCs P ρ ts
  | .nil, ρ => by simp [retags, evalCs]
  | .cons t ts, ρ => by simp [retags, evalCs, evalC_retag P o t ρ, evalCs_retag P o ts ρ]
theorem evalCF_retag (P : Prims K) (o : Opts) : ∀ (fn : CFunc K) (vs : List (List K)),
    evalCF P (retagF o fn) vs = evalCF P fn vs
  | .mk ps outs, vs => by simp [retagF, evalCF, evalCs_retag P o outs]
end

theorem evalCL_retag (P : Prims K) (o : Opts) (ρ : Env K) : ∀ ts : List (CTerm K),
    evalCL P ρ (ts.map (retag o)) = evalCL P ρ ts
  | [] => rfl
  | t :: ts => by simp [evalCL, evalC_retag P o t ρ, evalCL_retag P o ρ ts]

/-! ## The generator commutes with retagging -/

@[simp] theorem emap_ok (f : α → β) (a : α) : Except.map f (Except.ok a : Except ε α) = .ok (f a) := rfl
@[simp] theorem emap_error (f : α → β) (e : ε) : Except.map f (Except.error e : Except ε α) = .error e := rfl

/-- The function table as it looks under other options. -/
def retagTab (o : Opts) (T : FTab K) : FTab K := fun f => (T f).map (Except.map (retagF o))

theorem retags_ofList (o : Opts) : ∀ ts : List (CTerm K),
    retags o (CTerms.ofList ts) = CTerms.ofList (ts.map (retag o))
  | [] => rfl
  | t :: ts => by simp [CTerms.ofList, retags, retags_ofList o ts]

theorem userCall_retag (o o' : Opts) (T : FTab K) (name : String) (args : List (CTerm K)) :
    userCall o' (retagTab o' T) name (args.map (retag o')) = (userCall o T name args).map (retag o') := by
  unfold userCall retagTab
  cases hT : T name with
  | none => simp
  | some r =>
    cases r with
    | error e => simp
    | ok fn => simp [retag, retags_ofList]

theorem genUn_retag (P : Prims K) (o o' : Opts) (T : FTab K) (op : UnOp) (ta : CTerm K) :
    genUn P o' (retagTab o' T) op (retag o' ta) = (genUn P o T op ta).map (retag o') := by
  cases op with
  | elem e =>
    simp only [genUn]
    split
    · simp [retag]
    · simpa using userCall_retag o o' T (elemName e) [ta]
  | _ => simp [genUn, retag]

theorem genBin_retag (o o' : Opts) (T : FTab K) (op : BinOp) (ta tb : CTerm K) :
    genBin o' (retagTab o' T) op (retag o' ta) (retag o' tb) = (genBin o T op ta tb).map (retag o') := by
  unfold genBin
  split
  · simp [retag]
  · cases opMap op with
    | none => simpa using userCall_retag o o' T (binName op) [ta, tb]
    | some m => simp only; split <;> simp [retag]

theorem foldl_ifElse_retag (o : Opts) : ∀ (ps : List (CTerm K × CTerm K)) (acc : CTerm K),
    (ps.map (fun p => (retag o p.1, retag o p.2))).foldl (fun acc p => CTerm.ifElse p.1 p.2 acc) (retag o acc) =
      retag o (ps.foldl (fun acc p => CTerm.ifElse p.1 p.2 acc) acc)
  | [], acc => rfl
  | p :: ps, acc => by
    simp only [List.map_cons, List.foldl_cons]
    have := foldl_ifElse_retag o ps (.ifElse p.1 p.2 acc)
    simpa [retag] using this

theorem zip_map_retag (o : Opts) : ∀ (xs ys : List (CTerm K)),
    (xs.map (retag o)).zip (ys.map (retag o)) = (xs.zip ys).map (fun p => (retag o p.1, retag o p.2))
  | [], _ => by simp
  | _ :: _, [] => by simp
  | x :: xs, y :: ys => by simp [zip_map_retag o xs ys]

theorem foldFromLast_retag (o : Opts) (cs es : List (CTerm K)) :
    foldFromLast (cs.map (retag o)) (es.map (retag o)) = retag o (foldFromLast cs es) := by
  unfold foldFromLast
  rw [← List.map_reverse, ← List.map_reverse]
  cases es.reverse with
  | nil => simp [retag, retags]
  | cons last restRev =>
    simp only [List.map_cons]
    rw [zip_map_retag, foldl_ifElse_retag]

mutual
theorem gen_retag (P : Prims K) (o o' : Opts) (T : FTab K) : ∀ e : MExpr K,
    gen P o' (retagTab o' T) e = (gen P o T e).map (retag o')
  | .num q => by simp [gen, retag]
  | .ref n s => by simp [gen, retag]
  | .idx i => by simp [gen, retag]
  | .un op a => by
    simp only [gen, gen_retag P o o' T a]
    cases gen P o T a with
    | error e => rfl
    | ok ta => simpa [bind, Except.bind] using genUn_retag P o o' T op ta
  | .bin op a b => by
    simp only [gen, gen_retag P o o' T a, gen_retag P o o' T b]
    cases gen P o T a with
    | error e => rfl
    | ok ta =>
      cases gen P o T b with
      | error e => rfl
      | ok tb => simpa [bind, Except.bind] using genBin_retag o o' T op ta tb
  | .ife bs => by
    simp only [gen, genBr_retag P o o' T bs]
    cases genBr P o T bs with
    | error e => rfl
    | ok ce => simp [bind, Except.bind, foldFromLast_retag]
  | .call f args => by
    simp only [gen, gens_retag P o o' T args]
    cases gens P o T args with
    | error e => rfl
    | ok tas => simpa [bind, Except.bind] using userCall_retag o o' T f tas
  | .delay k e d => by
    simp only [gen, gen_retag P o o' T e, gen_retag P o o' T d]
    cases gen P o T e with
    | error e => rfl
    | ok te =>
      cases gen P o T d with
      | error e => rfl
      | ok td => simp [bind, Except.bind, retag]
theorem gens_retag (P : Prims K) (o o' : Opts) (T : FTab K) : ∀ es : MExprs K,
    gens P o' (retagTab o' T) es = (gens P o T es).map (List.map (retag o'))
  | .nil => by simp [gens]
  | .cons e es => by
    simp only [gens, gen_retag P o o' T e, gens_retag P o o' T es]
    cases gen P o T e with
    | error e => rfl
    | ok t =>
      cases gens P o T es with
      | error e => rfl
      | ok ts => simp [bind, Except.bind]
theorem genBr_retag (P : Prims K) (o o' : Opts) (T : FTab K) : ∀ bs : MBranches K,
    genBr P o' (retagTab o' T) bs =
      (genBr P o T bs).map (fun ce => (ce.1.map (retag o'), ce.2.map (retag o')))
  | .last e => by
    simp only [genBr, gen_retag P o o' T e]
    cases gen P o T e with
    | error e => rfl
    | ok t => simp [bind, Except.bind]
  | .cons c e rest => by
    simp only [genBr, gen_retag P o o' T c, gen_retag P o o' T e, genBr_retag P o o' T rest]
    cases gen P o T c with
    | error e => rfl
    | ok tc =>
      cases gen P o T e with
      | error e => rfl
      | ok te =>
        cases genBr P o T rest with
        | error e => rfl
        | ok ce => simp [bind, Except.bind]
end

end PymocaVerif.Gen
