/-!
# Model of `pymoca.tree.expand_connectors` (and of the inside/outside flag set in `flatten_symbols`)

The flat class that reaches `expand_connectors` is abstracted to
* the ordered list of its flow symbols (`disconnected_flow_variables`), and
* the ordered list of its connect clauses, each with the class-instance prefix it was flattened
  under, the two references as written in the clause (`o` or `comp.c`) and the flattened variable
  list of the left connector class (name + prefixes).

`flow_connections` is an ordered association list from flow key (flat variable name, inside flag)
to the connection set the key currently belongs to.  In Python the sets are shared `OrderedDict`
objects, merged in place by `update` and re-pointed for every member; here the set is a value and
every member is re-pointed at the merged value (the correspondence run exercises exactly the
situations where the two readings could differ: merges of two existing sets in either direction).
-/
namespace PymocaVerif.Connect

/-! ## The association list of connection sets (generic in the key type) -/
section Generic
variable {κ : Type} [DecidableEq κ]

/-- `flow_connections`: ordered association list key ↦ (ordered) connection set. -/
abbrev FlowMap (κ : Type) := List (κ × List κ)

/-- `d[k] = …` on the key order of an `OrderedDict`: an existing key keeps its place. -/
def insertKey (s : List κ) (k : κ) : List κ := if k ∈ s then s else s ++ [k]

/-- `left.update(right)` on key order. -/
def update (s t : List κ) : List κ := t.foldl insertKey s

/-- `flow_connections.get(k)`. -/
def get? : FlowMap κ → κ → Option (List κ)
  | [], _ => none
  | (k', s) :: m, k => if k' = k then some s else get? m k

/-- `flow_connections.get(k, OrderedDict())`. -/
def getD (m : FlowMap κ) (k : κ) : List κ := (get? m k).getD []

/-- `flow_connections[k] = s` (existing key keeps its place, new key is appended). -/
def setEntry : FlowMap κ → κ → List κ → FlowMap κ
  | [], k, s => [(k, s)]
  | (k', s') :: m, k, s => if k' = k then (k', s) :: m else (k', s') :: setEntry m k s

/-- The merged set built for one flow variable of one connect clause. -/
def mergedSet (m : FlowMap κ) (l r : κ) : List κ :=
  insertKey (insertKey (update (getD m l) (getD m r)) l) r

/-- One flow variable of one connect clause: merge, then re-point every member. -/
def connectStep (m : FlowMap κ) (l r : κ) : FlowMap κ :=
  let s := mergedSet m l r
  s.foldl (fun m k => setEntry m k s) m

/-- All flow-level edges, in order. -/
def connectAll (m : FlowMap κ) (es : List (κ × κ)) : FlowMap κ :=
  es.foldl (fun m e => connectStep m e.1 e.2) m

/-- The `processed` loop: the distinct values of the map in order of first occurrence. -/
def distinctSets (m : FlowMap κ) : List (List κ) :=
  m.foldl (fun acc e => if e.2 ∈ acc then acc else acc ++ [e.2]) []

end Generic

/-! ## The concrete pass -/

/-- A flow key: flat variable name and the inside flag of the connect end it came from. -/
abbrev Key := String × Bool

/-- What `expand_connectors` does with a connector variable, decided from its prefixes. -/
inductive VKind | pot | flow | skip | bad
  deriving DecidableEq, Repr

/-- The `if / elif` chain over `connector_variable.prefixes`. -/
def classify (prefixes : List String) : VKind :=
  match prefixes with
  | [] => .pot
  | p :: _ =>
    if p = "input" ∨ p = "output" then .pot
    else if prefixes = ["flow"] then .flow
    else if p = "constant" ∨ p = "parameter" then .skip
    else .bad

structure CVar where
  name : String
  prefixes : List String
  deriving Repr

/-- One connect clause as it sits in the flat class. -/
structure Edge where
  /-- instance prefix of the class holding the clause (`""` or `"c1."`) -/
  pre : String
  /-- left reference as written, split at the dots -/
  l : List String
  r : List String
  /-- flattened symbols of the left connector class, in order -/
  vars : List CVar
  deriving Repr

def sep : String := "."

def joinPath (p : List String) : String := sep.intercalate p

/-- flat connector name of a reference -/
def Edge.lname (e : Edge) : String := e.pre ++ joinPath e.l
def Edge.rname (e : Edge) : String := e.pre ++ joinPath e.r
/-- `__left_inner = len(equation.left.child) > 0` -/
def Edge.linner (e : Edge) : Bool := decide (e.l.length > 1)
def Edge.rinner (e : Edge) : Bool := decide (e.r.length > 1)

def varName (conn v : String) : String := conn ++ sep ++ v

inductive Eqn
  /-- `left = right` for a potential (or causal) connector variable -/
  | pot (l r : String)
  /-- `op₁ + (op₂ + (… + opₙ)) = 0`; the flag says the operand is negated -/
  | sum (ops : List (String × Bool))
  /-- `sym = 0` for a flow that was never popped -/
  | zero (v : String)
  deriving DecidableEq, Repr

inductive Err
  /-- `Exception("Unsupported connector variable prefixes …")` -/
  | unsupportedPrefixes (v : String) (prefixes : List String)
  deriving DecidableEq, Repr

structure St where
  eqs : List Eqn
  fc : FlowMap Key
  disc : List String
  deriving Repr

/-- `disconnected_flow_variables.pop(name, None)` -/
def popName (d : List String) (n : String) : List String := d.filter (· ≠ n)

def popAll (d : List String) (ns : List String) : List String := ns.foldl popName d

/-- Which flows a connect clause takes off the list of unconnected flows.
    `byName` is the code as it stands: both flat names, whatever the face.
    `byFace` is the code with `proposed_fixes/C09-1.diff`: a name is popped only when the clause
    uses the inside face of the connector or the connector is a top-level one
    (`CLASS_SEPARATOR not in equation.left.name`). -/
inductive PopPolicy | byName | byFace
  deriving DecidableEq, Repr

/-- `CLASS_SEPARATOR not in equation.left.name` (identifiers contain no separator): the clause sits
    in the top class and the reference has one part. -/
def Edge.ltop (e : Edge) : Bool := e.pre.isEmpty && decide (e.l.length ≤ 1)
def Edge.rtop (e : Edge) : Bool := e.pre.isEmpty && decide (e.r.length ≤ 1)

def popsFor (pol : PopPolicy) (e : Edge) (ln rn : String) : List String :=
  match pol with
  | .byName => [ln, rn]
  | .byFace => (if e.linner || e.ltop then [ln] else []) ++ (if e.rinner || e.rtop then [rn] else [])

/-- One connector variable of one connect clause. -/
def stepVar (pol : PopPolicy) (e : Edge) (st : St) (v : CVar) : Except Err St :=
  let ln := varName e.lname v.name
  let rn := varName e.rname v.name
  match classify v.prefixes with
  | .pot => .ok { st with eqs := st.eqs ++ [.pot ln rn] }
  | .flow => .ok { st with fc := connectStep st.fc (ln, e.linner) (rn, e.rinner),
                           disc := popAll st.disc (popsFor pol e ln rn) }
  | .skip => .ok st
  | .bad => .error (.unsupportedPrefixes v.name v.prefixes)

def stepVars (pol : PopPolicy) (e : Edge) : St → List CVar → Except Err St
  | st, [] => .ok st
  | st, v :: vs => match stepVar pol e st v with
    | .ok st' => stepVars pol e st' vs
    | .error x => .error x

def stepEdges (pol : PopPolicy) : St → List Edge → Except Err St
  | st, [] => .ok st
  | st, e :: es => match stepVars pol e st e.vars with
    | .ok st' => stepEdges pol st' es
    | .error x => .error x

/-- The flow-sum equation of one connection set: no minus signs when every member is an
    outside connector, otherwise a minus on the outside members. -/
def sumEqn (s : List Key) : Eqn :=
  if s.all (fun k => !k.2) then .sum (s.map fun k => (k.1, false))
  else .sum (s.map fun k => (k.1, !k.2))

structure Input where
  flowSyms : List String
  edges : List Edge
  policy : PopPolicy := .byName
  deriving Repr

def St.init (inp : Input) : St := { eqs := [], fc := [], disc := inp.flowSyms }

/-- Equations contributed by the end of the pass. -/
def finish (st : St) : List Eqn :=
  st.eqs ++ (distinctSets st.fc).map sumEqn ++ st.disc.map .zero

/-- `expand_connectors`, restricted to what it derives from connect clauses. -/
def expand (inp : Input) : Except Err (List Eqn) :=
  match stepEdges inp.policy (St.init inp) inp.edges with
  | .ok st => .ok (finish st)
  | .error x => .error x

/-- The connection sets at the end (for the driver). -/
def finalSets (inp : Input) : Except Err (List (List Key)) :=
  match stepEdges inp.policy (St.init inp) inp.edges with
  | .ok st => .ok (distinctSets st.fc)
  | .error x => .error x

end PymocaVerif.Connect
