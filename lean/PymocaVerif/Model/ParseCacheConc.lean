import PymocaVerif.Model.ParseCache
/-!
# `parse` under interference: what one call sees when other processes use the same database

SQLite serialises transactions (C02's lock model: one writer at a time, readers see committed states),
so from the point of view of one `parse` call a concurrent execution is: between any two of its own
transactions, other processes commit some transactions of theirs.  `Interference` is that: one
function on the database file per gap (the composition of whatever others committed there).
`parseCachedI` is `parseCached` with the next interference applied before every transaction of the
call (integrity check, the three structure transactions, prune, lookup, last-hit update, insert).

The theorems (Lemmas/ParseCacheConc.lean, Props/C02.lean) are rely/guarantee: if every interference
step satisfies `Rely` then the call returns the uncached result, and every transaction of `parse`
itself satisfies `Rely` — so any number of such calls can be each other's environment.
-/
namespace PymocaVerif.ParseCache

abbrev Interference := List (DbFile → DbFile)

/-- others commit before this call's next transaction -/
def St.env (s : St) (env : Interference) : St × Interference :=
  match env with
  | [] => (s, [])
  | g :: rest => ({ s with file := g s.file }, rest)

/-! the initialisation block, one definition per gap + transaction -/

abbrev Pt := St × Interference

def stIntegrity (p : Pt) : Pt :=
  let e := p.1.env p.2
  ({ e.1 with file := txIntegrity e.1.file }, e.2)

def stCheckModels (p : Pt) : Except (St × Err) Pt :=
  let e := p.1.env p.2
  match txCheckModels e.1.file with
  | .error err => .error (e.1, err)
  | .ok f => .ok ({ e.1 with file := f }, e.2)

def stCheckMeta (p : Pt) : Except (St × Err) Pt :=
  let e := p.1.env p.2
  match txCheckMeta e.1.file with
  | .error err => .error (e.1, err)
  | .ok f => .ok ({ e.1 with file := f }, e.2)

def stDefaults (p : Pt) : Except (St × Err) Pt :=
  let e := p.1.env p.2
  let r1 := e.1.read
  let r2 := r1.2.read
  match txMetaDefaults r1.1 r2.1 r2.2.file with
  | .error err => .error (r2.2, err)
  | .ok f => .ok ({ r2.2 with file := f }, e.2)

def stPrune (days : Int) (p : Pt) : Except (St × Err) Pt :=
  let e := p.1.env p.2
  let r1 := e.1.read
  let r2 := r1.2.read
  match txPrune (r1.1 - days * day) r2.1 r2.2.file with
  | .error err => .error (r2.2, err)
  | .ok f => .ok ({ r2.2 with file := f, init := true }, e.2)

def initBlockI (s : St) (days : Int) (env : Interference) : Except (St × Err) Pt :=
  match stCheckModels (stIntegrity (s, env)) with
  | .error e => .error e
  | .ok p =>
  match stCheckMeta p with
  | .error e => .error e
  | .ok p =>
  match stDefaults p with
  | .error e => .error e
  | .ok p => stPrune days p

def finishI (pf : Ver → TextId → Option TreeId) (s : St) (x : TextId) (tree : Option TreeId) (env : Interference) :
    St × Res :=
  match tree with
  | some t => (s, .value (some t))
  | none =>
    match pf s.ver x with
    | none => (s, .value none)
    | some t =>
      let e := s.env env
      let r := e.1.read
      match txInsert x r.2.ver t r.1 r.2.file with
      | .error err => (r.2, .raised err)
      | .ok f => ({ r.2 with file := f }, .value (some t))

def touchStepI (s : St) (x : TextId) (upd : Bool) (lastHit : Int) (env : Interference) :
    Except (St × Err) (St × Interference) :=
  let r := s.read
  if upd || decide (lastHit < r.1 - day) then
    let e := r.2.env env
    let r2 := e.1.read
    match txTouch x r2.2.ver r2.1 r2.2.file with
    | .error err => .error (r2.2, err)
    | .ok f => .ok ({ r2.2 with file := f }, e.2)
  else .ok (r.2, env)

def afterInitI (cfg : Cfg) (pf : Ver → TextId → Option TreeId) (s : St) (x : TextId) (upd : Bool)
    (env : Interference) : St × Res :=
  let e := s.env env
  match txLookup x e.1.ver e.1.file with
  | .error err => (e.1, .raised err)
  | .ok none => finishI pf e.1 x none e.2
  | .ok (some (lastHit, blob)) =>
    match touchStepI e.1 x upd lastHit e.2 with
    | .error (s, err) => (s, .raised err)
    | .ok (s, env) =>
      match blob with
      | .good t => finishI pf s x t env
      | .bad ex => if cfg.isCaught ex then finishI pf s x none env else (s, .raised (.unpickle ex))

/-- one call of `parse` through the cache with other processes committing in every gap.  (The retry of
    `cfg.recover` is the same call started over; it is not unfolded here — under `Rely` the lookup of an
    initialised process does not raise.) -/
def parseCachedI (cfg : Cfg) (pf : Ver → TextId → Option TreeId) (s : St) (x : TextId) (days : Int) (upd : Bool)
    (env : Interference) : St × Res :=
  if s.init then afterInitI cfg pf s x upd env
  else
    match initBlockI s days env with
    | .error (s1, e) => (s1, .raised e)
    | .ok (s1, env) => afterInitI cfg pf s1 x upd env

/-- every transaction of `parse`, as a total function on the file (a transaction that raises commits nothing) -/
inductive OwnTx (pf : Ver → TextId → Option TreeId) : (DbFile → DbFile) → Prop
  | checkModels : OwnTx pf (fun f => match txCheckModels f with | .ok f' => f' | .error _ => f)
  | checkMeta : OwnTx pf (fun f => match txCheckMeta f with | .ok f' => f' | .error _ => f)
  | metaDefaults (t1 t2 : Int) : OwnTx pf (fun f => match txMetaDefaults t1 t2 f with | .ok f' => f' | .error _ => f)
  | prune (c t : Int) : OwnTx pf (fun f => match txPrune c t f with | .ok f' => f' | .error _ => f)
  | touch (x : TextId) (v : Ver) (t : Int) : OwnTx pf (fun f => match txTouch x v t f with | .ok f' => f' | .error _ => f)
  | insert (x : TextId) (v : Ver) (tree : TreeId) (t : Int) (h : pf v x = some tree) :
      OwnTx pf (fun f => match txInsert x v tree t f with | .ok f' => f' | .error _ => f)
  | id : OwnTx pf (fun f => f)
  | comp {g h : DbFile → DbFile} : OwnTx pf g → OwnTx pf h → OwnTx pf (fun f => h (g f))

end PymocaVerif.ParseCache
