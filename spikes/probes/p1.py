import sys, tempfile, sqlite3, pickle, importlib
from pathlib import Path
import pymoca
from pymoca import parser
pymoca.__version__ = "1.0"
txt = "model A Real x; equation x = 1; end A;"
for blob in [b"", b"not a pickle", pickle.dumps(3)[:-2], pickle.dumps(parser._parse(txt))[:50], b"\x80\x04\x95", pickle.dumps("hello"), b"cos\nsystem\n(S'true'\ntR."]:
    with tempfile.TemporaryDirectory() as d:
        importlib.reload(parser)
        parser.parse(txt, model_cache_folder=Path(d))
        c = sqlite3.connect(Path(d)/"model_txt_cache.db")
        c.execute("UPDATE models SET data=?", (blob,)); c.commit(); c.close()
        try:
            t = parser.parse(txt, model_cache_folder=Path(d))
            print(repr(blob[:12]), "->", type(t).__name__)
        except Exception as e:
            print(repr(blob[:12]), "-> EXC", type(e).__name__, e)
