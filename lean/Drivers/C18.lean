/-! Driver for C18 (stub: not built yet). -/
def main : IO Unit := pure ()
