"""Predicates of the open known findings of C13 (see known/C13.json)."""
from harness.common import known_predicate


def _arrexpr(case):
    out = []
    if isinstance(case, dict):
        for v in case.get("vars", []):
            for d in (v.get("attrs") or {}).values():
                if isinstance(d, dict) and d.get("k") == "arrexpr":
                    out.append(d)
    return out


@known_predicate
def c13_array_of_parameter_expressions(case, what):
    """array literal of parameter expressions (no bare reference): metadata function cannot be built"""
    ds = _arrexpr(case)
    return bool(ds) and not any(d.get("bare") for d in ds) and what.startswith("metadata:NotImplementedError raised")


@known_predicate
def c13_array_with_bare_reference(case, what):
    """array literal with a bare parameter reference as an element: KeyError while generating"""
    ds = _arrexpr(case)
    return any(d.get("bare") for d in ds) and what.startswith("generate:KeyError raised")


@known_predicate
def c13_each_constant_expression_expand_vectors(case, what):
    """array variable with `each <attr> = <constant expression>` (a 1x1 DM) and expand_vectors: RuntimeError"""
    if not (isinstance(case, dict) and case.get("expand") and what.startswith("expand_vectors:RuntimeError raised")):
        return False
    for v in case.get("vars", []):
        if v.get("dims"):
            for d in (v.get("attrs") or {}).values():
                if isinstance(d, dict) and (d.get("k") == "notlit" or (d.get("k") == "expr" and not _has_par(d["e"]))):
                    return True
    return False


def _has_par(e):
    if e.get("op") == "par" or e.get("op") == "ite":
        return True
    return any(_has_par(e[k]) for k in ("a", "b") if k in e)
