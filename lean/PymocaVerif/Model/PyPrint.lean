import PymocaVerif.Model.PyGrammar
/-!
# The source printer of `pymoca.backends.sympy.generator.SympyGenerator` (C24)

* name mangling (`exitSymbol`, `exitComponentRef`): `.` ↦ `__`, then `_` appended while the
  name is in `BUILTINS`; a component reference that ends up as `time` becomes `self.t`;
* the display names of the template (`|replace('__', '.')`);
* classification of `exitClass` into states / inputs / outputs / constants / parameters / variables;
* the equation text (`exitEquation`, with the expression printers of `PyGrammar`);
* an evaluator over an arbitrary algebra (the meaning both of the flat expression and of the
  parsed Python text).
-/
namespace PymocaVerif.PyPrint
open PymocaVerif.PyGrammar

/-! ## mangling -/

/-- `str.replace(".", "__")`. -/
def replDots : Name → Name
  | [] => []
  | c :: r => if c = '.' then '_' :: '_' :: replDots r else c :: replDots r

/-- `str.replace("__", ".")` (leftmost, non-overlapping). -/
def unrepl : Name → Name
  | [] => []
  | [c] => [c]
  | c :: d :: r => if c = '_' ∧ d = '_' then '.' :: unrepl r else c :: unrepl (d :: r)

def maxLen (B : List Name) : Nat := B.foldr (fun b m => max b.length m) 0

/-- `while name in BUILTINS: name = name + "_"` with explicit fuel. -/
def avoidGo (B : List Name) : Nat → Name → Name
  | 0, n => n
  | f+1, n => if n ∈ B then avoidGo B f (n ++ ['_']) else n

/-- The loop needs at most `maxLen B + 1` rounds: every round makes the name longer. -/
def avoid (B : List Name) (n : Name) : Name := avoidGo B (maxLen B + 1) n

/-- `exitSymbol`. -/
def mangleSym (B : List Name) (n : Name) : Name := avoid B (replDots n)

def timeName : Name := ['t', 'i', 'm', 'e']
def selfT : Name := ['s', 'e', 'l', 'f', '.', 't']

/-- `exitComponentRef`. -/
def mangleRef (B : List Name) (n : Name) : Name :=
  let m := mangleSym B n
  if m = timeName then selfT else m

/-- A name for which `replace('.', '__')` can be undone: no `__` and no `_.` inside. -/
def Clean : Name → Prop
  | [] => True
  | [_] => True
  | c :: d :: r => ¬ (c = '_' ∧ (d = '_' ∨ d = '.')) ∧ Clean (d :: r)

def cleanB : Name → Bool
  | [] => true
  | [_] => true
  | c :: d :: r => !(c == '_' && (d == '_' || d == '.')) && cleanB (d :: r)

/-- `m'` is a builtin-list member `m` followed by one or more underscores. -/
def StemOf (B : List Name) (m m' : Name) : Prop :=
  m ∈ B ∧ ∃ k, m' = m ++ List.replicate (k + 1) '_'

/-! ## expressions over flat Modelica names -/

def rename (f : Name → Name) : E → E
  | E.atom (Atom.name n) => E.atom (Atom.name (f n))
  | E.atom (Atom.num s) => E.atom (Atom.num s)
  | E.bin o l r => E.bin o (rename f l) (rename f r)
  | E.pre q e => E.pre q (rename f e)
  | E.call g a => E.call g (rename f a)
  | E.der e => E.der (rename f e)

def names : E → List Name
  | E.atom (Atom.name n) => [n]
  | E.atom (Atom.num _) => []
  | E.bin _ l r => names l ++ names r
  | E.pre _ e => names e
  | E.call _ a => names a
  | E.der e => names e

/-- Number literals of an expression, left to right (the texts `exitPrimary` writes: `str(value)`). -/
def lits : E → List Name
  | E.atom (Atom.name _) => []
  | E.atom (Atom.num s) => [s]
  | E.bin _ l r => lits l ++ lits r
  | E.pre _ e => lits e
  | E.call _ a => lits a
  | E.der e => lits e

/-- Number literals of a token list, left to right. -/
def tokLits : List Tok → List Name
  | [] => []
  | Tok.atom (Atom.num s) :: r => s :: tokLits r
  | _ :: r => tokLits r

/-- The Python tree the generator means to write for a flat expression. -/
def toPy (B : List Name) (e : E) : E := rename (mangleRef B) e

inductive Variant where
  | cur      -- before fix C24-1: operands pasted without parentheses
  | fix      -- the current tree (fix C24-1, commit 36439d5)
deriving DecidableEq, Repr

def printer : Variant → E → List Tok
  | Variant.cur => prCur
  | Variant.fix => prFix

/-- Tokens of one element of `self.eqs` for the flat equation `l = r`. -/
def eqToks (v : Variant) (B : List Name) (l r : E) : List Tok :=
  prEq (printer v) (toPy B l) (toPy B r)

/-! ## text -/

def opStr : Nat → String
  | 0 => "+" | 1 => "-" | 2 => "*" | 3 => "/" | 4 => "**" | _ => "?"

def tokStr : Tok → String
  | Tok.atom (Atom.name s) => String.ofList s
  | Tok.atom (Atom.num s) => String.ofList s
  | Tok.bop o => " " ++ opStr o ++ " "
  | Tok.pop q => opStr q ++ " "
  | Tok.lp => "("
  | Tok.rp => ")"
  | Tok.fn g => String.ofList g
  | Tok.diff => ".diff(self.t)"

def render (ts : List Tok) : String := String.join (ts.map tokStr)

/-! ## evaluation -/

structure Alg (α : Type) where
  bop : Nat → α → α → Option α
  uop : Nat → α → Option α
  fn : Name → α → Option α
  lit : Name → Option α

structure Env (α : Type) where
  var : Name → Option α
  dvar : Name → Option α

def eval {α : Type} (A : Alg α) (ρ : Env α) : E → Option α
  | E.atom (Atom.name n) => ρ.var n
  | E.atom (Atom.num s) => A.lit s
  | E.bin o l r =>
      match eval A ρ l, eval A ρ r with
      | some a, some b => A.bop o a b
      | _, _ => none
  | E.pre q e =>
      match eval A ρ e with
      | some a => A.uop q a
      | none => none
  | E.call g a =>
      match eval A ρ a with
      | some x => A.fn g x
      | none => none
  | E.der (E.atom (Atom.name n)) => ρ.dvar n
  | E.der _ => none

/-- The environment of the Python side induced by a Modelica environment through a renaming:
    a Python name denotes the first listed Modelica variable that is mangled to it. -/
def pull {α : Type} (f : Name → Name) (vars : List Name) (ρ : Env α) : Env α where
  var s := match vars.find? (fun n => f n == s) with
    | some n => ρ.var n
    | none => none
  dvar s := match vars.find? (fun n => f n == s) with
    | some n => ρ.dvar n
    | none => none

/-- Exact rational arithmetic; `**` only for integer exponents of modulus ≤ 24 (the window the
    correspondence evaluates); errors are `none`. -/
def ratPowNat (a : Rat) : Nat → Rat
  | 0 => 1
  | n+1 => ratPowNat a n * a

def ratPow (a b : Rat) : Option Rat :=
  if b.den ≠ 1 then none
  else if b.num.natAbs > 24 then none
  else if 0 ≤ b.num then some (ratPowNat a b.num.toNat)
  else if a = 0 then none
  else some (1 / ratPowNat a (-b.num).toNat)

def ratAlg (lit : Name → Option Rat) (fn : Name → Option (Rat × Rat)) : Alg Rat where
  bop o a b := match o with
    | 0 => some (a + b)
    | 1 => some (a - b)
    | 2 => some (a * b)
    | 3 => if b = 0 then none else some (a / b)
    | 4 => ratPow a b
    | _ => none
  uop q a := match q with
    | 0 => some a
    | 1 => some (-a)
    | _ => none
  fn g x := match fn g with
    | some (k, d) => some (k * x + d)
    | none => none
  lit := lit

/-- Integer arithmetic without division (for closed counterexamples). -/
def intAlg : Alg Int where
  bop o a b := match o with
    | 0 => some (a + b)
    | 1 => some (a - b)
    | 2 => some (a * b)
    | _ => none
  uop q a := match q with
    | 0 => some a
    | 1 => some (-a)
    | _ => none
  fn _ _ := none
  lit _ := none

/-! ## classification (`exitClass`); `classify` is the code before fix C24-4, `classifyFix` the current one -/

structure Sym where
  name : Name
  prefixes : List String
deriving DecidableEq, Repr

/-- `for prefix in s.prefixes: if prefix == k: lst += [s]`, over the symbols in order. -/
def pick (k : String) (syms : List Sym) : List Sym :=
  syms.flatMap fun s => (s.prefixes.filter (· == k)).map fun _ => s

structure Lists where
  x : List Sym
  v : List Sym
  c : List Sym
  p : List Sym
  u : List Sym
  y : List Sym

def classify (syms : List Sym) : Lists :=
  let x := pick "state" syms
  let y := pick "output" syms
  { x := x
    y := y
    c := pick "constant" syms
    p := pick "parameter" syms
    u := pick "input" syms
    v := syms.filter (fun s => s.prefixes.isEmpty) ++ y.filter (fun s => !(x.any (fun t => t.name == s.name))) }

def Sym.has (s : Sym) (k : String) : Bool := s.prefixes.contains k

/-- Does the symbol carry one of the five prefixes that select a list? -/
def Sym.classified (s : Sym) : Bool :=
  s.has "state" || s.has "constant" || s.has "parameter" || s.has "input" || s.has "output"

/-- `exitClass` of the current tree (fix C24-4, commit b72b750): a symbol without any of the five class prefixes
    (no prefix at all, or only prefixes such as `discrete`) is a plain variable. -/
def classifyFix (syms : List Sym) : Lists :=
  let x := pick "state" syms
  let y := pick "output" syms
  { x := x
    y := y
    c := pick "constant" syms
    p := pick "parameter" syms
    u := pick "input" syms
    v := syms.filter (fun s => !s.classified) ++ y.filter (fun s => !(x.any (fun t => t.name == s.name))) }

/-- The flat model's classes. -/
def specX (syms : List Sym) : List Sym := syms.filter (·.has "state")
def specC (syms : List Sym) : List Sym := syms.filter (·.has "constant")
def specP (syms : List Sym) : List Sym := syms.filter (·.has "parameter")
def specU (syms : List Sym) : List Sym := syms.filter (·.has "input")
def specY (syms : List Sym) : List Sym := syms.filter (·.has "output")
/-- variable = neither state nor constant nor parameter nor input. -/
def isVar (s : Sym) : Bool := !(s.has "state" || s.has "constant" || s.has "parameter" || s.has "input")

/-- A symbol whose prefixes are drawn from the five class prefixes, each at most once, `output`
    not combined with `constant` / `parameter` / `input`. -/
def Regular (s : Sym) : Prop :=
  s.prefixes.Nodup ∧
  (∀ k ∈ s.prefixes, k = "state" ∨ k = "constant" ∨ k = "parameter" ∨ k = "input" ∨ k = "output") ∧
  (s.has "output" = true → s.has "constant" = false ∧ s.has "parameter" = false ∧ s.has "input" = false)

/-- Prefixes each at most once, `output` not combined with `constant` / `parameter` / `input`
    (other prefixes such as `discrete` allowed). -/
def WeakRegular (s : Sym) : Prop :=
  s.prefixes.Nodup ∧
  (s.has "output" = true → s.has "constant" = false ∧ s.has "parameter" = false ∧ s.has "input" = false)

/-- Identifiers and display names of one list, as written by the template. -/
def idents (B : List Name) (l : List Sym) : List Name := l.map (fun s => mangleSym B s.name)
def shown (B : List Name) (l : List Sym) : List Name := l.map (fun s => unrepl (mangleSym B s.name))

end PymocaVerif.PyPrint
