import PymocaVerif.Model.PyGrammar
/-!
# Parse ∘ print for the table-driven grammar (C24)

`Printed T p e ts`: `ts` is a legal printing of `e` in a context of level `p` (necessary
parentheses present, redundant ones allowed).  Main result `parse_printed`: every legal printing
at level 0 parses back to `e`, for every table satisfying `Tbl.WF`, with the explicit fuel of
`parseAll`.  The proof carries a follow-set invariant (`Follow`) through a continuation-style
statement (`absorb`): a printed operand followed by `rest` is consumed by any enclosing loop of
level `p0 ≤ p` exactly like the tree itself.
-/
namespace PymocaVerif.PyGrammar

structure Tbl.WF (T : Tbl) : Prop where
  lvl_le_llvl : ∀ o, T.lvl o ≤ T.llvl o
  lvl_le_rlvl : ∀ o, T.lvl o ≤ T.rlvl o
  flvl_le_llvl : ∀ o, T.flvl o ≤ T.llvl o
  stop_r : ∀ o o', T.flvl o' ≤ T.lvl o → T.lvl o' < T.rlvl o
  stop_p : ∀ q o', T.flvl o' ≤ T.plvl q → T.lvl o' < T.plvl q

inductive Printed (T : Tbl) : Nat → E → List Tok → Prop
  | atom (p : Nat) (a : Atom) : Printed T p (E.atom a) [Tok.atom a]
  | bin (p o : Nat) (l r : E) (tl tr : List Tok) : p ≤ T.lvl o →
      Printed T (T.llvl o) l tl → Printed T (T.rlvl o) r tr →
      Printed T p (E.bin o l r) (tl ++ Tok.bop o :: tr)
  | pre (p q : Nat) (e : E) (t : List Tok) : p ≤ T.plvl q →
      Printed T (T.plvl q) e t → Printed T p (E.pre q e) (Tok.pop q :: t)
  | call (p : Nat) (g : Name) (e : E) (t : List Tok) :
      Printed T 0 e t → Printed T p (E.call g e) (Tok.fn g :: Tok.lp :: t ++ [Tok.rp])
  | der (p : Nat) (e : E) (t : List Tok) :
      Printed T 0 e t → Printed T p (E.der e) (Tok.lp :: t ++ [Tok.rp, Tok.diff])
  | paren (p : Nat) (e : E) (t : List Tok) :
      Printed T 0 e t → Printed T p e (Tok.lp :: t ++ [Tok.rp])

variable (T : Tbl)

/-! ## fuel monotonicity -/

theorem mono_step : ∀ f,
    (∀ ts r, parsePrim T f ts = some r → parsePrim T (f+1) ts = some r) ∧
    (∀ p ts r, parseE T f p ts = some r → parseE T (f+1) p ts = some r) ∧
    (∀ p l ts r, parseLoop T f p l ts = some r → parseLoop T (f+1) p l ts = some r) := by
  intro f
  induction f with
  | zero =>
    refine ⟨?_, ?_, ?_⟩ <;> intros <;> simp_all [parsePrim, parseE, parseLoop]
  | succ f ih =>
    obtain ⟨ihP, ihE, ihL⟩ := ih
    refine ⟨?_, ?_, ?_⟩
    · intro ts r h
      match ts with
      | [] => simp [parsePrim] at h
      | Tok.atom n :: t => simpa [parsePrim] using h
      | Tok.lp :: t =>
        simp only [parsePrim] at h ⊢
        split at h
        · next e r' heq => rw [ihE _ _ _ heq]; exact h
        · next e r' hne heq => rw [ihE _ _ _ heq]; simpa using h
        · simp at h
      | Tok.fn g :: Tok.lp :: t =>
        simp only [parsePrim] at h ⊢
        split at h
        · next e r' heq => rw [ihE _ _ _ heq]; exact h
        · simp at h
      | Tok.fn g :: [] => simp [parsePrim] at h
      | Tok.fn g :: Tok.atom _ :: t => simp [parsePrim] at h
      | Tok.fn g :: Tok.bop _ :: t => simp [parsePrim] at h
      | Tok.fn g :: Tok.pop _ :: t => simp [parsePrim] at h
      | Tok.fn g :: Tok.rp :: t => simp [parsePrim] at h
      | Tok.fn g :: Tok.fn _ :: t => simp [parsePrim] at h
      | Tok.fn g :: Tok.diff :: t => simp [parsePrim] at h
      | Tok.pop q :: t =>
        simp only [parsePrim] at h ⊢
        split at h
        · next e r' heq => rw [ihE _ _ _ heq]; exact h
        · simp at h
      | Tok.bop o :: t => simp [parsePrim] at h
      | Tok.rp :: t => simp [parsePrim] at h
      | Tok.diff :: t => simp [parsePrim] at h
    · intro p ts r h
      simp only [parseE] at h ⊢
      split at h
      · next l r' heq => rw [ihP _ _ heq]; exact ihL _ _ _ _ h
      · simp at h
    · intro p l ts r h
      match ts with
      | [] => simpa [parseLoop] using h
      | Tok.bop o :: t =>
        simp only [parseLoop] at h ⊢
        split at h
        · next hle =>
          simp only [hle, if_true]
          split at h
          · next rt r' heq => rw [ihE _ _ _ heq]; exact ihL _ _ _ _ h
          · simp at h
        · next hle => simp only [hle, if_false]; exact h
      | Tok.atom n :: t => simpa [parseLoop] using h
      | Tok.pop q :: t => simpa [parseLoop] using h
      | Tok.lp :: t => simpa [parseLoop] using h
      | Tok.rp :: t => simpa [parseLoop] using h
      | Tok.fn g :: t => simpa [parseLoop] using h
      | Tok.diff :: t => simpa [parseLoop] using h

theorem monoE {f f' p ts r} (h : parseE T f p ts = some r) (hle : f ≤ f') :
    parseE T f' p ts = some r := by
  induction hle with
  | refl => exact h
  | step _ ih => exact (mono_step T _).2.1 _ _ _ ih

theorem monoL {f f' p l ts r} (h : parseLoop T f p l ts = some r) (hle : f ≤ f') :
    parseLoop T f' p l ts = some r := by
  induction hle with
  | refl => exact h
  | step _ ih => exact (mono_step T _).2.2 _ _ _ _ ih

theorem monoP {f f' ts r} (h : parsePrim T f ts = some r) (hle : f ≤ f') :
    parsePrim T f' ts = some r := by
  induction hle with
  | refl => exact h
  | step _ ih => exact (mono_step T _).1 _ _ ih

/-! ## follow sets -/

/-- What may follow text printed in a context of level `p`. -/
def Follow (p : Nat) : List Tok → Prop
  | Tok.bop o :: _ => T.flvl o ≤ p
  | Tok.diff :: _ => False
  | _ => True

/-- A loop of level `p` stops in front of these tokens. -/
def Stops (p : Nat) : List Tok → Prop
  | Tok.bop o :: _ => T.lvl o < p
  | _ => True

theorem Follow.mono {p p' rest} (h : Follow T p rest) (hle : p ≤ p') : Follow T p' rest := by
  match rest with
  | Tok.bop o :: t => simp [Follow] at h ⊢; omega
  | Tok.diff :: _ => simp [Follow] at h
  | [] => trivial
  | Tok.atom _ :: _ => trivial
  | Tok.pop _ :: _ => trivial
  | Tok.lp :: _ => trivial
  | Tok.rp :: _ => trivial
  | Tok.fn _ :: _ => trivial

theorem Follow.not_diff {p rest} (h : Follow T p rest) : ∀ r, rest ≠ Tok.diff :: r := by
  intro r hr; subst hr; simp [Follow] at h

theorem stops_of_follow {p q rest} (h : Follow T p rest)
    (hlt : ∀ o, T.flvl o ≤ p → T.lvl o < q) : Stops T q rest := by
  match rest with
  | Tok.bop o :: t => simp [Follow] at h; simp [Stops]; exact hlt o h
  | [] => trivial
  | Tok.atom _ :: _ => trivial
  | Tok.pop _ :: _ => trivial
  | Tok.lp :: _ => trivial
  | Tok.rp :: _ => trivial
  | Tok.fn _ :: _ => trivial
  | Tok.diff :: _ => trivial

theorem loop_stop {p l rest} (h : Stops T p rest) :
    parseLoop T 1 p l rest = some (l, rest) := by
  match rest with
  | [] => simp [parseLoop]
  | Tok.bop o :: t =>
    have : ¬ p ≤ T.lvl o := by simp [Stops] at h; omega
    simp [parseLoop, this]
  | Tok.atom n :: t => simp [parseLoop]
  | Tok.pop q :: t => simp [parseLoop]
  | Tok.lp :: t => simp [parseLoop]
  | Tok.rp :: t => simp [parseLoop]
  | Tok.fn g :: t => simp [parseLoop]
  | Tok.diff :: t => simp [parseLoop]

/-! ## one-step lemmas -/

theorem parseE_of {f p ts l r res} (h1 : parsePrim T f ts = some (l, r))
    (h2 : parseLoop T f p l r = some res) : parseE T (f+1) p ts = some res := by
  simp only [parseE, h1, h2]

theorem loop_take {f p o l r rt r' res} (hp : p ≤ T.lvl o)
    (h1 : parseE T f (T.rlvl o) r = some (rt, r'))
    (h2 : parseLoop T f p (E.bin o l rt) r' = some res) :
    parseLoop T (f+1) p l (Tok.bop o :: r) = some res := by
  simp only [parseLoop, hp, if_true, h1, h2]

theorem prim_paren {f r e r'} (h : parseE T f 0 r = some (e, Tok.rp :: r'))
    (hnd : ∀ r'', r' ≠ Tok.diff :: r'') : parsePrim T (f+1) (Tok.lp :: r) = some (e, r') := by
  cases r' with
  | nil => simp only [parsePrim, h]
  | cons t r'' =>
    cases t with
    | diff => exact absurd rfl (hnd r'')
    | atom _ => simp only [parsePrim, h]
    | bop _ => simp only [parsePrim, h]
    | pop _ => simp only [parsePrim, h]
    | lp => simp only [parsePrim, h]
    | rp => simp only [parsePrim, h]
    | fn _ => simp only [parsePrim, h]

theorem prim_der {f r e r'} (h : parseE T f 0 r = some (e, Tok.rp :: Tok.diff :: r')) :
    parsePrim T (f+1) (Tok.lp :: r) = some (E.der e, r') := by
  simp only [parsePrim, h]

theorem prim_call {f g r e r'} (h : parseE T f 0 r = some (e, Tok.rp :: r')) :
    parsePrim T (f+1) (Tok.fn g :: Tok.lp :: r) = some (E.call g e, r') := by
  simp only [parsePrim, h]

theorem prim_pre {f q r e r'} (h : parseE T f (T.plvl q) r = some (e, r')) :
    parsePrim T (f+1) (Tok.pop q :: r) = some (E.pre q e, r') := by
  simp only [parsePrim, h]

/-! ## the round trip -/

theorem absorb (hT : T.WF) {p : Nat} {e : E} {ts : List Tok} (h : Printed T p e ts) :
    ∀ (p0 : Nat) (rest : List Tok) (res : E × List Tok) (f : Nat),
      p0 ≤ p → Follow T p rest → parseLoop T f p0 e rest = some res →
      parseE T (f + 3 * ts.length) p0 (ts ++ rest) = some res := by
  induction h with
  | atom p a =>
    intro p0 rest res f _ _ hf
    have h1 : parsePrim T (f + 2) (Tok.atom a :: rest) = some (E.atom a, rest) := by
      simp [parsePrim]
    have := parseE_of T h1 (monoL T hf (by omega))
    simpa using this
  | bin p o l r tl tr hp _ _ ihl ihr =>
    intro p0 rest res f hp0 hfol hf
    have hstop : parseLoop T 1 (T.rlvl o) r rest = some (r, rest) :=
      loop_stop T (stops_of_follow T hfol (fun o' ho' => hT.stop_r o o' (by omega)))
    have hr := ihr (T.rlvl o) rest (r, rest) 1 (Nat.le_refl _)
      (hfol.mono T (by have := hT.lvl_le_rlvl o; omega)) hstop
    have hloop : parseLoop T (f + 3 * tr.length + 1 + 1) p0 l (Tok.bop o :: (tr ++ rest)) = some res :=
      loop_take T (by omega) (monoE T hr (by omega)) (monoL T hf (by omega))
    have hl := ihl p0 (Tok.bop o :: (tr ++ rest)) res _
      (by have := hT.lvl_le_llvl o; omega) (by simpa [Follow] using hT.flvl_le_llvl o) hloop
    have := monoE T hl (f' := f + 3 * (tl ++ Tok.bop o :: tr).length) (by simp; omega)
    simpa [List.append_assoc] using this
  | pre p q e t hp _ ih =>
    intro p0 rest res f hp0 hfol hf
    have hstop : parseLoop T 1 (T.plvl q) e rest = some (e, rest) :=
      loop_stop T (stops_of_follow T hfol (fun o' ho' => hT.stop_p q o' (by omega)))
    have hr := ih (T.plvl q) rest (e, rest) 1 (Nat.le_refl _) (hfol.mono T hp) hstop
    have hprim := prim_pre T hr
    have := parseE_of T (monoP T hprim (f' := f + 3 * t.length + 2) (by omega))
      (monoL T hf (by omega))
    have := monoE T this (f' := f + 3 * (Tok.pop q :: t).length) (by simp; omega)
    simpa using this
  | call p g e t _ ih =>
    intro p0 rest res f hp0 hfol hf
    have hstop : parseLoop T 1 0 e (Tok.rp :: rest) = some (e, Tok.rp :: rest) :=
      loop_stop T (by simp [Stops])
    have hr := ih 0 (Tok.rp :: rest) (e, Tok.rp :: rest) 1 (Nat.le_refl _) (by simp [Follow]) hstop
    have hprim := prim_call T (g := g) hr
    have := parseE_of T (monoP T hprim (f' := f + 3 * t.length + 2) (by omega))
      (monoL T hf (by omega))
    have := monoE T this (f' := f + 3 * (Tok.fn g :: Tok.lp :: t ++ [Tok.rp]).length) (by simp; omega)
    simpa [List.append_assoc] using this
  | der p e t _ ih =>
    intro p0 rest res f hp0 hfol hf
    have hstop : parseLoop T 1 0 e (Tok.rp :: Tok.diff :: rest) = some (e, Tok.rp :: Tok.diff :: rest) :=
      loop_stop T (by simp [Stops])
    have hr := ih 0 (Tok.rp :: Tok.diff :: rest) (e, Tok.rp :: Tok.diff :: rest) 1 (Nat.le_refl _)
      (by simp [Follow]) hstop
    have hprim := prim_der T hr
    have := parseE_of T (monoP T hprim (f' := f + 3 * t.length + 2) (by omega))
      (monoL T hf (by omega))
    have := monoE T this (f' := f + 3 * (Tok.lp :: t ++ [Tok.rp, Tok.diff]).length) (by simp; omega)
    simpa [List.append_assoc] using this
  | paren p e t _ ih =>
    intro p0 rest res f hp0 hfol hf
    have hstop : parseLoop T 1 0 e (Tok.rp :: rest) = some (e, Tok.rp :: rest) :=
      loop_stop T (by simp [Stops])
    have hr := ih 0 (Tok.rp :: rest) (e, Tok.rp :: rest) 1 (Nat.le_refl _) (by simp [Follow]) hstop
    have hprim := prim_paren T hr (hfol.not_diff T)
    have := parseE_of T (monoP T hprim (f' := f + 3 * t.length + 2) (by omega))
      (monoL T hf (by omega))
    have := monoE T this (f' := f + 3 * (Tok.lp :: t ++ [Tok.rp]).length) (by simp; omega)
    simpa [List.append_assoc] using this

/-- Every legal printing at level 0 parses back to the tree it prints (explicit fuel). -/
theorem parse_printed (hT : T.WF) {e : E} {ts : List Tok} (h : Printed T 0 e ts) :
    parseAll T ts = some e := by
  have := absorb T hT h 0 [] (e, []) 1 (Nat.le_refl _) (by simp [Follow]) (by simp [parseLoop])
  have h2 : parseE T (3 * ts.length + 1) 0 ts = some (e, []) := by
    rw [Nat.add_comm] ; simpa using this
  simp [parseAll, h2]

/-! ## the printers are legal printings -/

theorem Printed.weaken {p p' e ts} (h : Printed T p e ts) (hle : p' ≤ p) : Printed T p' e ts := by
  cases h with
  | atom => exact .atom _ _
  | bin _ o l r tl tr hp hl hr => exact .bin _ o l r tl tr (by omega) hl hr
  | pre _ q e t hp he => exact .pre _ q e t (by omega) he
  | call _ g e t he => exact .call _ g e t he
  | der _ e t he => exact .der _ e t he
  | paren _ e t he => exact .paren _ e t he

theorem printed_prMin : ∀ (e : E) (p : Nat), Printed T p e (prMin T p e) := by
  intro e
  induction e with
  | atom a => intro p; exact .atom _ _
  | bin o l r ihl ihr =>
    intro p
    by_cases hp : p ≤ T.lvl o
    · simp only [prMin, hp, if_true]
      exact .bin _ o l r _ _ hp (ihl _) (ihr _)
    · simp only [prMin, hp, if_false]
      exact .paren _ _ _ (.bin _ o l r _ _ (Nat.zero_le _) (ihl _) (ihr _))
  | pre q e ih =>
    intro p
    by_cases hp : p ≤ T.plvl q
    · simp only [prMin, hp, if_true]
      exact .pre _ q e _ hp (ih _)
    · simp only [prMin, hp, if_false]
      exact .paren _ _ _ (.pre _ q e _ (Nat.zero_le _) (ih _))
  | call g e ih => intro p; exact .call _ g e _ (ih 0)
  | der e ih => intro p; exact .der _ e _ (ih 0)

theorem printed_prCur : ∀ (e : E) (p : Nat), NoParen T p e → Printed T p e (prCur e) := by
  intro e
  induction e with
  | atom a => intro p _; exact .atom _ _
  | bin o l r ihl ihr =>
    intro p h
    obtain ⟨hp, hl, hr⟩ := h
    exact .bin _ o l r _ _ hp (ihl _ hl) (ihr _ hr)
  | pre q e ih =>
    intro p h
    obtain ⟨hp, he⟩ := h
    exact .pre _ q e _ hp (ih _ he)
  | call g e ih => intro p h; exact .call _ g e _ (ih 0 h)
  | der e ih => intro p h; exact .der _ e _ (ih 0 h)

theorem noParenB_iff : ∀ (e : E) (p : Nat), noParenB T p e = true ↔ NoParen T p e := by
  intro e
  induction e with
  | atom a => intro p; simp [noParenB, NoParen]
  | bin o l r ihl ihr => intro p; simp [noParenB, NoParen, ihl, ihr, and_assoc]
  | pre q e ih => intro p; simp [noParenB, NoParen, ih]
  | call g e ih => intro p; simp [noParenB, NoParen, ih]
  | der e ih => intro p; simp [noParenB, NoParen, ih]

/-! ## the Python instance -/

theorem pyTbl_wf : pyTbl.WF := by
  refine ⟨?_, ?_, ?_, ?_, ?_⟩
  · intro o; simp only [pyTbl]
    by_cases a1 : o ≤ 1 <;> by_cases a3 : o ≤ 3 <;> simp [a1, a3]
  · intro o; simp only [pyTbl]
    by_cases a1 : o ≤ 1 <;> by_cases a3 : o ≤ 3 <;> simp [a1, a3]
  · intro o; simp only [pyTbl]
    by_cases a1 : o ≤ 1 <;> by_cases a3 : o ≤ 3 <;> simp [a1, a3]
  · intro o o' h; simp only [pyTbl] at h ⊢
    by_cases a1 : o ≤ 1 <;> by_cases a3 : o ≤ 3 <;> by_cases b1 : o' ≤ 1 <;> by_cases b3 : o' ≤ 3 <;>
      simp [a1, a3, b1, b3] at h ⊢ <;> omega
  · intro q o' h; simp only [pyTbl] at h ⊢
    by_cases b1 : o' ≤ 1 <;> by_cases b3 : o' ≤ 3 <;> simp [b1, b3] at h ⊢

/-- With fix C24-1 every node is a legal printing at every level ≤ 1, and its operand form
    (parenthesised iff compound) at every level. -/
theorem printed_prFix : ∀ (e : E),
    (∀ p, p ≤ 1 → Printed pyTbl p e (prFix e)) ∧
    (∀ p, Printed pyTbl p e (wrapIf e.compound (prFix e))) := by
  intro e
  induction e with
  | atom a =>
    exact ⟨fun p _ => .atom _ _, fun p => by simpa [wrapIf, E.compound, prFix] using Printed.atom p a⟩
  | bin o l r ihl ihr =>
    have h0 : ∀ p, p ≤ 1 → Printed pyTbl p (E.bin o l r) (prFix (E.bin o l r)) := by
      intro p hp
      refine .bin _ o l r _ _ ?_ (ihl.2 _) (ihr.2 _)
      simp only [pyTbl]; split <;> (try split) <;> omega
    refine ⟨h0, fun p => ?_⟩
    simpa [wrapIf, E.compound] using Printed.paren p _ _ (h0 0 (by omega))
  | pre q e ih =>
    have h0 : ∀ p, p ≤ 1 → Printed pyTbl p (E.pre q e) (prFix (E.pre q e)) := by
      intro p hp
      refine .pre _ q e _ ?_ (ih.2 _)
      simp only [pyTbl]; omega
    refine ⟨h0, fun p => ?_⟩
    simpa [wrapIf, E.compound] using Printed.paren p _ _ (h0 0 (by omega))
  | call g e ih =>
    have h0 : ∀ p, Printed pyTbl p (E.call g e) (prFix (E.call g e)) :=
      fun p => .call _ g e _ (ih.1 0 (by omega))
    exact ⟨fun p _ => h0 p, fun p => by simpa [wrapIf, E.compound] using h0 p⟩
  | der e ih =>
    have h0 : ∀ p, Printed pyTbl p (E.der e) (prFix (E.der e)) :=
      fun p => .der _ e _ (ih.1 0 (by omega))
    exact ⟨fun p _ => h0 p, fun p => by simpa [wrapIf, E.compound] using h0 p⟩

/-- `left - (right)` is a legal printing of lhs − rhs whenever both sides are legal at level ≤ 1 / 0. -/
theorem printed_prEq {pr : E → List Tok} {l r : E}
    (hl : Printed pyTbl 1 l (pr l)) (hr : Printed pyTbl 0 r (pr r)) :
    Printed pyTbl 0 (eqTree l r) (prEq pr l r) := by
  have h := Printed.bin (T := pyTbl) 0 1 l r (pr l) (Tok.lp :: pr r ++ [Tok.rp]) (by simp [pyTbl])
    (by simpa [pyTbl] using hl) (.paren _ _ _ hr)
  simpa [prEq, eqTree] using h

end PymocaVerif.PyGrammar
