import PymocaVerif.Model.Index
/-! Helper lemmas for C23 (`Model/Index.lean`): CasADi's slice on clamped / unclamped bounds equals the
    positions of the Modelica range; bounds of the members of a range. -/
namespace PymocaVerif.Index

theorem count_eq (d s : Nat) (hs : 0 < s) : (d / s * s + 1 + s - 1) / s = d / s + 1 := by
  have : d / s * s + 1 + s - 1 = (d / s + 1) * s := by
    rw [Nat.add_mul]; omega
  rw [this, Nat.mul_div_cancel _ hs]

theorem count_eq2 (d s : Nat) (hs : 0 < s) : (d + 1 + s - 1) / s = d / s + 1 := by
  have : d + 1 + s - 1 = d + s := by omega
  rw [this, Nat.add_div_right _ hs]

/-- positions of an ascending Modelica range that starts at `a' + 1` -/
theorem pos_upRange (a' d s : Nat) :
    pos (upRange ((a' : Int) + 1) s ((a' : Int) + 1 + d)) =
      (List.range (d / s + 1)).map (fun i => a' + i * s) := by
  unfold pos upRange
  have h1 : ((a' : Int) + 1 + d - ((a' : Int) + 1)) = (d : Int) := by omega
  rw [h1]
  have h2 : ((d : Int) / (s : Int) + 1).toNat = d / s + 1 := by
    rw [← Int.natCast_ediv]; generalize d / s = q; omega
  rw [h2, List.map_map]
  apply List.map_congr_left
  intro j _
  simp only [Function.comp]
  have : ((a' : Int) + 1 + (j : Int) * (s : Int) - 1) = ((a' + j * s : Nat) : Int) := by
    push_cast; omega
  rw [this, Int.toNat_natCast]

/-- the last member of `a : s : b` -/
def lastOf (a : Int) (s : Nat) (b : Int) : Int := a + (b - a) / (s : Int) * (s : Int)

theorem upRange_empty (a : Int) (s : Nat) (b : Int) (hs : 0 < s) (h : b < a) : upRange a s b = [] := by
  unfold upRange
  have : (b - a) / (s : Int) < 0 := Int.ediv_neg_of_neg_of_pos (by omega) (by omega)
  have : ((b - a) / (s : Int) + 1).toNat = 0 := by omega
  rw [this]; rfl

theorem mem_upRange_bounds (a : Int) (s : Nat) (b i : Int) (hs : 0 < s) (h : i ∈ upRange a s b) :
    a ≤ i ∧ i ≤ lastOf a s b := by
  unfold upRange at h
  rw [List.mem_map] at h
  obtain ⟨j, hj, rfl⟩ := h
  rw [List.mem_range] at hj
  have hq : (j : Int) ≤ (b - a) / (s : Int) := by omega
  have hs' : (0 : Int) ≤ (s : Int) := by omega
  have h1 : (j : Int) * (s : Int) ≤ (b - a) / (s : Int) * (s : Int) := Int.mul_le_mul_of_nonneg_right hq hs'
  have h2 : (0 : Int) ≤ (j : Int) * (s : Int) := Int.mul_nonneg (by omega) hs'
  unfold lastOf
  omega

theorem lastOf_le (a : Int) (s : Nat) (b : Int) (hs : 0 < s) : lastOf a s b ≤ b := by
  unfold lastOf
  have := Int.ediv_mul_le (b - a) (show ((s : Int)) ≠ 0 by omega)
  omega

theorem first_mem_upRange (a : Int) (s : Nat) (b : Int) (hs : 0 < s) (h : a ≤ b) : a ∈ upRange a s b := by
  unfold upRange
  rw [List.mem_map]
  refine ⟨0, ?_, by simp⟩
  rw [List.mem_range]
  have : 0 ≤ (b - a) / (s : Int) := Int.ediv_nonneg (by omega) (by omega)
  omega

theorem last_mem_upRange (a : Int) (s : Nat) (b : Int) (hs : 0 < s) (h : a ≤ b) :
    lastOf a s b ∈ upRange a s b := by
  unfold upRange lastOf
  rw [List.mem_map]
  have h0 : 0 ≤ (b - a) / (s : Int) := Int.ediv_nonneg (by omega) (by omega)
  refine ⟨((b - a) / (s : Int)).toNat, ?_, ?_⟩
  · rw [List.mem_range]; omega
  · rw [Int.toNat_of_nonneg h0]

theorem upRange_nonempty_le (a : Int) (s : Nat) (b i : Int) (hs : 0 < s) (h : i ∈ upRange a s b) : a ≤ b := by
  by_cases hlt : b < a
  · rw [upRange_empty a s b hs hlt] at h; cases h
  · omega

/-- CasADi's slice with the stop clamped to the last member is the Modelica range. -/
theorem slice_exact_clamped (len a' d s : Nat) (hs : 0 < s)
    (hlast : a' + 1 + d / s * s ≤ len) :
    casadiSlice len (some (((a' : Int) + 1) - 1))
        (some (lastOf ((a' : Int) + 1) s ((a' : Int) + 1 + d))) s
      = some (pos (upRange ((a' : Int) + 1) s ((a' : Int) + 1 + d))) := by
  rw [pos_upRange]
  unfold lastOf
  have h1 : ((a' : Int) + 1 + d - ((a' : Int) + 1)) = (d : Int) := by omega
  rw [h1, ← Int.natCast_ediv]
  have hl : ((a' : Int) + 1 + ((d / s : Nat) : Int) * (s : Int)) = ((a' + 1 + d / s * s : Nat) : Int) := by
    push_cast; rfl
  rw [hl]
  have h0 : ((a' : Int) + 1 - 1) = ((a' : Nat) : Int) := by omega
  rw [h0]
  unfold casadiSlice
  have hs0 : s ≠ 0 := by omega
  simp only [hs0, if_false]
  have c1 : ¬ (((a' : Nat) : Int) < 0) := by omega
  have c2 : ¬ (((a' + 1 + d / s * s : Nat) : Int) < 0) := by
    generalize d / s * s = q at *; omega
  simp only [c1, c2, if_false]
  have c3 : ¬ ((((a' + 1 + d / s * s : Nat) : Int) > (len : Int))) := by
    generalize d / s * s = q at *; omega
  have c4 : ¬ (((a' + 1 + d / s * s : Nat) : Int) ≤ ((a' : Nat) : Int)) := by
    generalize d / s * s = q at *; omega
  simp only [c3, c4, if_false, Int.toNat_natCast, or_self]
  unfold stepList
  have : a' + 1 + d / s * s - a' + s - 1 = d / s * s + 1 + s - 1 := by
    generalize d / s * s = q at *; omega
  rw [this, count_eq d s hs]

/-- CasADi's slice with the written stop, for a start ≥ 1 and a stop inside the array. -/
theorem slice_exact_plain (len a' d s : Nat) (hs : 0 < s) (hb : a' + 1 + d ≤ len) :
    casadiSlice len (some (((a' : Int) + 1) - 1)) (some ((a' : Int) + 1 + d)) s
      = some (pos (upRange ((a' : Int) + 1) s ((a' : Int) + 1 + d))) := by
  rw [pos_upRange]
  have h0 : ((a' : Int) + 1 - 1) = ((a' : Nat) : Int) := by omega
  have hl : ((a' : Int) + 1 + (d : Int)) = ((a' + 1 + d : Nat) : Int) := by push_cast; rfl
  rw [h0, hl]
  unfold casadiSlice
  have hs0 : s ≠ 0 := by omega
  simp only [hs0, if_false]
  have c1 : ¬ (((a' : Nat) : Int) < 0) := by omega
  have c2 : ¬ (((a' + 1 + d : Nat) : Int) < 0) := by omega
  simp only [c1, c2, if_false]
  have c3 : ¬ ((((a' + 1 + d : Nat) : Int) > (len : Int))) := by omega
  have c4 : ¬ (((a' + 1 + d : Nat) : Int) ≤ ((a' : Nat) : Int)) := by omega
  simp only [c3, c4, if_false, Int.toNat_natCast, or_self]
  unfold stepList
  have : a' + 1 + d - a' + s - 1 = d + 1 + s - 1 := by omega
  rw [this, count_eq2 d s hs]

theorem slice_zero_zero (len s : Nat) (hs : 0 < s) : casadiSlice len (some 0) (some 0) s = some [] := by
  unfold casadiSlice
  have hs0 : s ≠ 0 := by omega
  simp [hs0]

/-- a stop beyond the array is rejected -/
theorem slice_stop_beyond (len : Nat) (st : Option Int) (b : Int) (s : Nat) (hb : (len : Int) < b) :
    casadiSlice len st (some b) s = none := by
  unfold casadiSlice
  by_cases hs0 : s = 0
  · simp [hs0]
  · have c : ¬ (b < 0) := by omega
    simp only [hs0, if_false, c]
    have : b > (len : Int) := hb
    simp [this]

/-- a stop at or below the start selects nothing (start ≥ 0, 0 ≤ stop ≤ len) -/
theorem slice_stop_le_start (len : Nat) (a b : Int) (s : Nat) (hs : 0 < s) (ha : 0 ≤ a) (hb0 : 0 ≤ b)
    (hbl : b ≤ len) (hba : b ≤ a) : casadiSlice len (some a) (some b) s = some [] := by
  unfold casadiSlice
  have hs0 : s ≠ 0 := by omega
  have c1 : ¬ (a < 0) := by omega
  have c2 : ¬ (b < 0) := by omega
  simp only [hs0, if_false, c1, c2]
  have c3 : ¬ (b > (len : Int)) := by omega
  simp only [c3, or_self, if_false, hba, if_true]


theorem sliceSel_sound (cfg : Cfg) (n : Nat) (a b : Int) (s : Nat) (ps : List Nat) (hs : 0 < s)
    (hsafe : cfg.sliceCheck = true ∨ (1 ≤ a ∧ 0 ≤ b))
    (h : sliceSel cfg n n a b s = some ps) :
    InRange n (upRange a s b) ∧ ps = pos (upRange a s b) := by
  unfold sliceSel at h
  by_cases hc : cfg.sliceCheck = true
  · simp only [hc, hs, and_self, if_true] at h
    by_cases hab : a ≤ b
    · simp only [hab, if_true] at h
      by_cases hbad : a < 1 ∨ a + (b - a) / (s : Int) * (s : Int) > (n : Int)
      · simp [hbad] at h
      · simp only [hbad, if_false] at h
        have ha1 : 1 ≤ a := by omega
        have hl : lastOf a s b ≤ n := by unfold lastOf; omega
        obtain ⟨a', rfl⟩ : ∃ a' : Nat, a = (a' : Int) + 1 := ⟨(a - 1).toNat, by omega⟩
        obtain ⟨d, rfl⟩ : ∃ d : Nat, b = (a' : Int) + 1 + d := ⟨(b - ((a' : Int) + 1)).toNat, by omega⟩
        have hl' : a' + 1 + d / s * s ≤ n := by
          unfold lastOf at hl
          have h1 : ((a' : Int) + 1 + d - ((a' : Int) + 1)) = (d : Int) := by omega
          rw [h1, ← Int.natCast_ediv] at hl
          have : ((a' : Int) + 1 + ((d / s : Nat) : Int) * (s : Int)) = ((a' + 1 + d / s * s : Nat) : Int) := by
            push_cast; rfl
          rw [this] at hl
          exact Int.ofNat_le.mp hl
        have := slice_exact_clamped n a' d s hs hl'
        unfold lastOf at this
        rw [this] at h
        refine ⟨?_, (Option.some.inj h).symm⟩
        intro i hi
        have hb := mem_upRange_bounds _ s _ i hs hi
        omega
    · simp only [hab, if_false] at h
      rw [slice_zero_zero n s hs] at h
      rw [upRange_empty a s b hs (by omega)]
      refine ⟨?_, (Option.some.inj h).symm⟩
      intro i hi; cases hi
  · have hab : 1 ≤ a ∧ 0 ≤ b := by
      rcases hsafe with h1 | h1
      · exact absurd h1 hc
      · exact h1
    have hc' : ¬ (cfg.sliceCheck = true ∧ 0 < s) := fun hh => hc hh.1
    simp only [hc', if_false] at h
    by_cases hbn : (n : Int) < b
    · rw [slice_stop_beyond n _ b s hbn] at h; cases h
    · by_cases hba : b ≤ a - 1
      · rw [slice_stop_le_start n (a - 1) b s hs (by omega) hab.2 (by omega) hba] at h
        rw [upRange_empty a s b hs (by omega)]
        refine ⟨?_, (Option.some.inj h).symm⟩
        intro i hi; cases hi
      · obtain ⟨a', rfl⟩ : ∃ a' : Nat, a = (a' : Int) + 1 := ⟨(a - 1).toNat, by omega⟩
        obtain ⟨d, rfl⟩ : ∃ d : Nat, b = (a' : Int) + 1 + d := ⟨(b - ((a' : Int) + 1)).toNat, by omega⟩
        have hb' : a' + 1 + d ≤ n := by omega
        rw [slice_exact_plain n a' d s hs hb'] at h
        refine ⟨?_, (Option.some.inj h).symm⟩
        intro i hi
        have hb := mem_upRange_bounds _ s _ i hs hi
        have := lastOf_le ((a' : Int) + 1) s ((a' : Int) + 1 + d) hs
        omega

theorem sliceSel_oob (cfg : Cfg) (n : Nat) (a b : Int) (s : Nat) (hs : 0 < s)
    (hsafe : cfg.sliceCheck = true ∨ (1 ≤ a ∧ 0 ≤ b))
    (h : ∃ i ∈ upRange a s b, i < 1 ∨ (n : Int) < i) : sliceSel cfg n n a b s = none := by
  obtain ⟨i, hi, hbad⟩ := h
  have hab : a ≤ b := upRange_nonempty_le a s b i hs hi
  have hb := mem_upRange_bounds a s b i hs hi
  have hl := lastOf_le a s b hs
  unfold sliceSel
  by_cases hc : cfg.sliceCheck = true
  · simp only [hc, hs, and_self, if_true, hab]
    have : a < 1 ∨ a + (b - a) / (s : Int) * (s : Int) > (n : Int) := by
      unfold lastOf at hb; omega
    simp [this]
  · have h1 : 1 ≤ a ∧ 0 ≤ b := by
      rcases hsafe with h1 | h1
      · exact absurd h1 hc
      · exact h1
    have hc' : ¬ (cfg.sliceCheck = true ∧ 0 < s) := fun hh => hc hh.1
    simp only [hc', if_false]
    exact slice_stop_beyond n _ b s (by omega)


theorem IntS.eval_val (k : IntS) (v : Int) (h : k.eval = some v) : k.val = v := by
  cases k <;> simp [IntS.eval] at h <;> simp [IntS.val, h]

theorem NatS.eval_val (k : NatS) (v : Nat) (h : k.eval = some v) : k.val = (v : Int) := by
  cases k <;> simp [NatS.eval] at h <;> simp [NatS.val, NatS.toIntS, IntS.val, h]

theorem NatS.toIntS_eval (k : NatS) : k.toIntS.eval = k.eval.map (fun (v : Nat) => (v : Int)) := by
  cases k <;> rfl

theorem slice_all (n : Nat) : casadiSlice n none none 1 = some (pos (upRange 1 1 n)) := by
  cases n with
  | zero =>
    have : upRange 1 1 ((0 : Nat) : Int) = [] := upRange_empty 1 1 _ (by omega) (by omega)
    rw [this]
    simp [casadiSlice, pos]
  | succ d =>
    have h := pos_upRange 0 d 1
    have e : (((0 : Nat) : Int) + 1 + (d : Int)) = ((d + 1 : Nat) : Int) := by push_cast; omega
    have e0 : (((0 : Nat) : Int) + 1) = 1 := by omega
    rw [e, e0] at h
    rw [h]
    unfold casadiSlice stepList
    simp

theorem inRange_upRange_all (n : Nat) : InRange n (upRange 1 1 n) := by
  intro i hi
  have hb := mem_upRange_bounds 1 1 n i (by omega) hi
  have := lastOf_le 1 1 n (by omega)
  omega

theorem pos_eq_nil (d : List Int) (h : pos d = []) : d = [] := by
  cases d with
  | nil => rfl
  | cons a t => simp [pos] at h

theorem fixedSel_sound (cfg : Cfg) (n : Nat) (s : FSub) (ps : List Nat) (hsafe : Safe cfg s)
    (h : fixedSel cfg n n s = some ps) :
    ∃ d, s.denote n = some d ∧ InRange n d ∧ ps = pos d := by
  cases s with
  | idx k =>
    unfold fixedSel at h
    cases hk : k.eval with
    | none => simp [hk] at h
    | some v =>
      simp only [hk] at h
      by_cases hbad : v ≤ 0 ∨ v > (n : Int)
      · simp [hbad] at h
      · simp only [hbad, if_false] at h
        have hv := IntS.eval_val k v hk
        have hp : casadiPick n [v - 1] = some [(v - 1).toNat] := by
          simp [casadiPick]; omega
        rw [hp] at h
        refine ⟨[k.val], rfl, ?_, ?_⟩
        · intro i hi
          simp at hi
          omega
        · rw [hv]; exact (Option.some.inj h).symm
  | range lo hi =>
    unfold fixedSel at h
    cases hlo : lo.eval with
    | none => simp [hlo] at h
    | some a =>
      cases hhi : hi.eval with
      | none => simp [hlo, hhi] at h
      | some b =>
        simp only [hlo, hhi] at h
        have ha := IntS.eval_val lo a hlo
        have hb := IntS.eval_val hi b hhi
        have hs' : cfg.sliceCheck = true ∨ (1 ≤ a ∧ 0 ≤ b) := by
          simpa [Safe, ha, hb] using hsafe
        have := sliceSel_sound cfg n a b 1 ps (by omega) hs' h
        exact ⟨upRange lo.val 1 hi.val, rfl, by rw [ha, hb]; exact this.1, by rw [ha, hb]; exact this.2⟩
  | range3 a b c =>
    obtain ⟨hord, hsl⟩ : cfg.stepOrder = true ∧ (cfg.sliceCheck = true ∨ (1 ≤ a.val ∧ 0 ≤ c.val)) := hsafe
    unfold fixedSel at h
    cases ha : a.eval with
    | none => simp [ha] at h
    | some av =>
      cases hb : b.eval with
      | none => simp [ha, hb] at h
      | some bv =>
        cases hc : c.eval with
        | none => simp [ha, hb, hc] at h
        | some cv =>
          simp only [ha, hb, hc, hord, if_true] at h
          have hav := IntS.eval_val a av ha
          have hbv := NatS.eval_val b bv hb
          have hcv := NatS.eval_val c cv hc
          by_cases hz : bv = 0
          · subst hz
            have hcc : ¬ (cfg.sliceCheck = true ∧ 0 < 0) := by omega
            simp [sliceSel, casadiSlice] at h
          · have hs' : cfg.sliceCheck = true ∨ (1 ≤ av ∧ 0 ≤ (cv : Int)) := by
              rw [← hav, ← hcv]; exact hsl
            have := sliceSel_sound cfg n av cv bv ps (by omega) hs' h
            refine ⟨upRange av bv cv, ?_, this.1, this.2⟩
            show mRange a.val b.val c.val = _
            unfold mRange
            rw [hav, hbv, hcv]
            have h1 : ¬ ((bv : Int) = 0) := by omega
            have h2 : (0 : Int) < (bv : Int) := by omega
            rw [if_neg h1, if_pos h2, Int.toNat_natCast]
  | all =>
    unfold fixedSel at h
    rw [slice_all] at h
    exact ⟨upRange 1 1 n, rfl, inRange_upRange_all n, (Option.some.inj h).symm⟩


theorem fixedSel_oob (cfg : Cfg) (n : Nat) (s : FSub) (hsafe : Safe cfg s)
    (h : s.denote n = none ∨ ∃ d, s.denote n = some d ∧ ∃ i ∈ d, i < 1 ∨ (n : Int) < i) :
    fixedSel cfg n n s = none := by
  cases s with
  | idx k =>
    rcases h with h | ⟨d, hd, i, hi, hbad⟩
    · simp [FSub.denote] at h
    · simp only [FSub.denote, Option.some.injEq] at hd
      subst hd
      simp only [List.mem_singleton] at hi
      subst hi
      cases hk : k.eval with
      | none => simp only [fixedSel, hk]
      | some v =>
        have hv := IntS.eval_val k v hk
        have : v ≤ 0 ∨ v > (n : Int) := by omega
        simp only [fixedSel, hk, this, if_true]
  | range lo hi =>
    rcases h with h | ⟨d, hd, i, hi', hbad⟩
    · simp [FSub.denote] at h
    · simp only [FSub.denote, Option.some.injEq] at hd
      subst hd
      cases hlo : lo.eval with
      | none => simp only [fixedSel, hlo]
      | some a =>
        cases hhi : hi.eval with
        | none => simp only [fixedSel, hlo, hhi]
        | some b =>
          simp only [fixedSel, hlo, hhi]
          have ha := IntS.eval_val lo a hlo
          have hb := IntS.eval_val hi b hhi
          have hs' : cfg.sliceCheck = true ∨ (1 ≤ a ∧ 0 ≤ b) := by
            simpa [Safe, ha, hb] using hsafe
          rw [ha, hb] at hi'
          exact sliceSel_oob cfg n a b 1 (by omega) hs' ⟨i, hi', hbad⟩
  | range3 a b c =>
    obtain ⟨hord, hsl⟩ : cfg.stepOrder = true ∧ (cfg.sliceCheck = true ∨ (1 ≤ a.val ∧ 0 ≤ c.val)) := hsafe
    cases ha : a.eval with
    | none => simp only [fixedSel, ha]
    | some av =>
      cases hb : b.eval with
      | none => simp only [fixedSel, ha, hb]
      | some bv =>
        cases hc : c.eval with
        | none => simp only [fixedSel, ha, hb, hc]
        | some cv =>
          simp only [fixedSel, ha, hb, hc, hord, if_true]
          have hav := IntS.eval_val a av ha
          have hbv := NatS.eval_val b bv hb
          have hcv := NatS.eval_val c cv hc
          by_cases hz : bv = 0
          · subst hz
            simp [sliceSel, casadiSlice]
          · have hs' : cfg.sliceCheck = true ∨ (1 ≤ av ∧ 0 ≤ (cv : Int)) := by
              rw [← hav, ← hcv]; exact hsl
            have hden : (FSub.range3 a b c).denote n = some (upRange av bv cv) := by
              show mRange a.val b.val c.val = _
              unfold mRange
              rw [hav, hbv, hcv]
              have h1 : ¬ ((bv : Int) = 0) := by omega
              have h2 : (0 : Int) < (bv : Int) := by omega
              rw [if_neg h1, if_pos h2, Int.toNat_natCast]
            rcases h with h | ⟨d, hd, i, hi, hbad⟩
            · rw [hden] at h; cases h
            · rw [hden] at hd
              have := Option.some.inj hd
              subst this
              exact sliceSel_oob cfg n av cv bv (by omega) hs' ⟨i, hi, hbad⟩
  | all =>
    rcases h with h | ⟨d, hd, i, hi, hbad⟩
    · simp [FSub.denote] at h
    · simp only [FSub.denote, Option.some.injEq] at hd
      subst hd
      have := inRange_upRange_all n i hi
      omega

/-! ### index lists -/

theorem casadiPick_sound (len : Nat) (ks : List Int) (ps : List Nat) (hnn : ∀ k ∈ ks, 0 ≤ k)
    (h : casadiPick len ks = some ps) : (∀ k ∈ ks, k < (len : Int)) ∧ ps = ks.map Int.toNat := by
  induction ks generalizing ps with
  | nil => simp [casadiPick] at h; simp [h]
  | cons k ks ih =>
    unfold casadiPick at h
    by_cases hbad : k < -(len : Int) ∨ k ≥ (len : Int)
    · simp [hbad] at h
    · simp only [hbad, if_false] at h
      cases hr : casadiPick len ks with
      | none => simp [hr] at h
      | some qs =>
        simp only [hr, Option.some.injEq] at h
        have hk0 : 0 ≤ k := hnn k (by simp)
        have := ih qs (fun k' hk' => hnn k' (by simp [hk'])) hr
        have hneg : ¬ (k < 0) := by omega
        simp only [hneg, if_false] at h
        refine ⟨?_, ?_⟩
        · intro k' hk'
          simp only [List.mem_cons] at hk'
          rcases hk' with rfl | hk'
          · omega
          · exact this.1 k' hk'
        · rw [← h, this.2]; simp

theorem casadiPick_high (len : Nat) (ks : List Int) (h : ∃ k ∈ ks, (len : Int) ≤ k) :
    casadiPick len ks = none := by
  induction ks with
  | nil => obtain ⟨k, hk, _⟩ := h; cases hk
  | cons k ks ih =>
    obtain ⟨k', hk', hle⟩ := h
    unfold casadiPick
    by_cases hbad : k < -(len : Int) ∨ k ≥ (len : Int)
    · simp [hbad]
    · simp only [hbad, if_false]
      simp only [List.mem_cons] at hk'
      rcases hk' with rfl | hk'
      · omega
      · rw [ih ⟨k', hk', hle⟩]

theorem loopIdxSel_sound (cfg : Cfg) (n : Nat) (vals : List Int) (mul off : Int) (ps : List Nat)
    (hsafe : LoopSafe cfg vals mul off) (h : loopIdxSel cfg n n vals mul off = some ps) :
    InRange n (vals.map (fun v => mul * v + off)) ∧ ps = pos (vals.map (fun v => mul * v + off)) := by
  unfold loopIdxSel at h
  · dsimp only at h
    by_cases hchk : cfg.loopCheck = true ∧
        (vals.map (fun v => mul * v + off)).any (fun i => decide (i < 1 ∨ i > (n : Int))) = true
    · rw [if_pos hchk] at h; cases h
    · rw [if_neg hchk] at h
      -- every index is at least 1
      have hlow : ∀ v ∈ vals, 1 ≤ mul * v + off := by
        rcases hsafe with hl | hl
        · intro v hv
          have hany : ¬ ((vals.map (fun v => mul * v + off)).any
              (fun i => decide (i < 1 ∨ i > (n : Int))) = true) := fun hh => hchk ⟨hl, hh⟩
          rw [List.any_eq_true] at hany
          have : ¬ (mul * v + off < 1 ∨ mul * v + off > (n : Int)) := by
            intro hb
            exact hany ⟨mul * v + off, List.mem_map.mpr ⟨v, hv, rfl⟩, by simpa using hb⟩
          omega
        · exact hl
      have hnn : ∀ k ∈ (vals.map (fun v => mul * v + off)).map (· - 1), 0 ≤ k := by
        intro k hk
        simp only [List.map_map, List.mem_map, Function.comp] at hk
        obtain ⟨v, hv, rfl⟩ := hk
        have := hlow v hv
        omega
      have := casadiPick_sound n _ ps hnn h
      refine ⟨?_, ?_⟩
      · intro i hi
        rw [List.mem_map] at hi
        obtain ⟨v, hv, rfl⟩ := hi
        have h1 := hlow v hv
        have h2 := this.1 (mul * v + off - 1) (by
          simp only [List.map_map, List.mem_map, Function.comp]
          exact ⟨v, hv, rfl⟩)
        omega
      · rw [this.2]; simp [pos, List.map_map, Function.comp]

theorem loopIdxSel_oob (cfg : Cfg) (n : Nat) (vals : List Int) (mul off : Int)
    (hsafe : LoopSafe cfg vals mul off)
    (h : ∃ v ∈ vals, mul * v + off < 1 ∨ (n : Int) < mul * v + off) :
    loopIdxSel cfg n n vals mul off = none := by
  obtain ⟨v, hv, hbad⟩ := h
  unfold loopIdxSel
  · dsimp only
    by_cases hchk : cfg.loopCheck = true ∧
        (vals.map (fun v => mul * v + off)).any (fun i => decide (i < 1 ∨ i > (n : Int))) = true
    · rw [if_pos hchk]
    · rw [if_neg hchk]
      have hmem : mul * v + off ∈ vals.map (fun v => mul * v + off) := List.mem_map.mpr ⟨v, hv, rfl⟩
      have hhigh : (n : Int) < mul * v + off := by
        rcases hsafe with hl | hl
        · exfalso
          apply hchk
          refine ⟨hl, ?_⟩
          rw [List.any_eq_true]
          exact ⟨mul * v + off, hmem, by simpa using (by omega : mul * v + off < 1 ∨ mul * v + off > (n : Int))⟩
        · have := hl v hv; omega
      apply casadiPick_high
      refine ⟨mul * v + off - 1, ?_, by omega⟩
      simp only [List.map_map, List.mem_map, Function.comp]
      exact ⟨v, hv, rfl⟩


theorem arange_eq_upRange (k e : Int) (st : Nat) (hs : 0 < st) : arange k (e + 1) st = upRange k st e := by
  unfold arange upRange
  have h : (e + 1 - k + (st : Int) - 1) = (e - k) + 1 * (st : Int) := by omega
  rw [h, Int.add_mul_ediv_right _ _ (by omega : (st : Int) ≠ 0)]

theorem IntS.litVal_val (a : IntS) (k : Nat) (h : a.litVal = some k) : a.val = (k : Int) := by
  cases a <;> simp [IntS.litVal] at h <;> simp [IntS.val, h]

theorem NatS.litVal_val (a : NatS) (k : Nat) (h : a.litVal = some k) : a.val = (k : Int) := by
  cases a <;> simp [NatS.litVal] at h <;> simp [NatS.val, NatS.toIntS, IntS.val, h]

theorem loopValues_checked (r : LoopRange) (vals : List Int) (h : loopValues Cfg.checked r = some vals) :
    r.denote = some vals := by
  cases r with
  | two a b =>
    simp only [loopValues] at h
    cases ha : a.litVal with
    | none => simp [ha] at h
    | some k =>
      cases hb : b.eval with
      | none => simp [ha, hb] at h
      | some e =>
        simp only [ha, hb, Option.some.injEq] at h
        subst h
        simp only [LoopRange.denote, IntS.litVal_val a k ha, IntS.eval_val b e hb]
        rw [arange_eq_upRange _ _ 1 (by omega)]
  | three a b c =>
    simp only [loopValues, Cfg.checked, if_true] at h
    cases ha : a.litVal with
    | none => simp [ha] at h
    | some k =>
      cases hb : b.litVal with
      | none => simp [ha, hb] at h
      | some st =>
        cases hc : c.eval with
        | none => simp [ha, hb, hc] at h
        | some e =>
          simp only [ha, hb, hc] at h
          by_cases hz : st = 0
          · simp [hz] at h
          · simp only [hz, if_false, Option.some.injEq] at h
            subst h
            simp only [LoopRange.denote, mRange, IntS.litVal_val a k ha, NatS.litVal_val b st hb,
              NatS.eval_val c e hc]
            have h1 : ¬ ((st : Int) = 0) := by omega
            have h2 : (0 : Int) < (st : Int) := by omega
            rw [if_neg h1, if_pos h2, Int.toNat_natCast, arange_eq_upRange _ _ st (by omega)]


theorem checked_safe (s : FSub) : Safe Cfg.checked s := by
  cases s with
  | idx k => trivial
  | all => trivial
  | range lo hi => exact Or.inl rfl
  | range3 a b c => exact ⟨rfl, Or.inl rfl⟩

end PymocaVerif.Index
