"""Predicates of the open C04 findings (see known/C04.json)."""
import re

from harness.common import known_predicate
from harness.gen import a03 as G


def _classes_named(src, name):
    return [c for c in G.all_classes(src) if c["name"] == name]


@known_predicate
def c04_earlier_sections_keep_default_visibility(case, what):
    """C04-F2: `exitComposition` labels only the *last* public and the last protected element list
    (ANTLR labels `epub` / `epro`); components and extends clauses of an earlier public / protected
    section keep `Visibility.PRIVATE`.  Recognised: the oracle message says that an item of a
    non-last section of its kind came out `private`."""
    m = re.match(r"visibility of component (\S+)\.(\S+) is private, its section says (public|protected)$", what)
    m2 = re.match(r"visibility of extends clause (\d+) \((\S+)\) of class (\S+) is private, its section says (public|protected)$", what)
    if not (m or m2) or "src" not in case:
        return False
    cname = (m.group(1) if m else m2.group(3)).split(".")[-1]
    vis = m.group(3) if m else m2.group(4)
    for c in _classes_named(case["src"], cname):
        secs = [s for s in c["sections"] if s["t"] == "elems" and s["vis"] == vis]
        for s in secs[:-1]:
            for e in s["elems"]:
                if m and e["t"] == "comp" and any(d["name"] == m.group(2) for d in e["decls"]):
                    return True
                if m2 and e["t"] == "ext" and ".".join(e["path"]) == m2.group(2):
                    return True
    return False


@known_predicate
def c04_clause_dimensions_replace_declarator_dimensions(case, what):
    """C04-F3: `Real[3] b[2]` — `exitComponent_clause` overwrites the declarator's own subscripts with
    the clause's.  Recognised: the oracle message is about the dimensions of a declarator that has
    both kinds of subscripts."""
    m = re.match(r"array dimensions of component (\S+)\.(\S+)$", what)
    if not m or "src" not in case:
        return False
    cname = m.group(1).split(".")[-1]
    for c in _classes_named(case["src"], cname):
        for _, e, d in G.own_decls(c):
            if d["name"] == m.group(2) and e["cdims"] is not None and d["dims"] is not None:
                return True
    return False


@known_predicate
def c04_import_list_of_three_names(case, what):
    """C04-F4: `import P.{a, b, c}` - `import_list.children[::2]` takes the nested list's text "b,c" as one
    name.  Recognised: the oracle message is about the imports of a class that has such an import clause
    (also the model/implementation disagreement on such a case, once the listener is fixed)."""
    if "src" not in case:
        return False
    m = re.match(r"imports of class (\S+)$", what)
    if m:
        cname = m.group(1).split(".")[-1]
        return any(e["t"] == "imp" and e["form"] == "list" and len(e["names"]) >= 3
                   for c in _classes_named(case["src"], cname) for _, lst in G.elem_lists(c) for e in lst)
    if what == "disagreement:asm.run" and case.get("stream") == "imp3":
        return any(e["t"] == "imp" and e["form"] == "list" and len(e["names"]) >= 3
                   for c in G.all_classes(case["src"]) for _, lst in G.elem_lists(c) for e in lst)
    return False
