import PymocaVerif.Lemmas.Delay
/-!
# C22 — delay durations are validated and delay arguments preserved

Property theorems only (specification functions `delayNodes`, `allNodes`, `srcAtoms`, `evalS`,
`evalL` and helper lemmas live in `Lemmas/Delay.lean`).  All statements are about the executable
model `Model/Delay.lean`, for arbitrary expressions, equation lists and category tables.
-/
namespace PymocaVerif.Delay
open PymocaVerif.Classify (Cat derName delayName)

/-- **args_complete.** The translation records exactly one argument per `delay` call of the
    source, in the order of the generator's walk (initial equations first, operands before the
    call), and numbers the input symbols `_pymoca_delay_0 … _pymoca_delay_{n-1}` consecutively:
    fresh, distinct, one per call — for any nesting, inside and outside for-loops. -/
theorem args_complete (ieqs eqs : List Equation) :
    (translate ieqs eqs).args.map (·.k) = List.range (allNodes ieqs eqs).length ∧
    (translate ieqs eqs).args.map (·.id) = (allNodes ieqs eqs).map (·.1) ∧
    ((translate ieqs eqs).args.map (·.k)).Nodup :=
  ⟨(translate_step ieqs eqs).1, (translate_step ieqs eqs).2, by
    rw [(translate_step ieqs eqs).1]; exact List.nodup_range⟩

example : (allNodes [.eq (.ref "x") (.delay 7 (.ref "y") (.ref "p"))]
    [.forEq "i" 2 [(.idx "z" (.ref "i"), .delay 8 (.bin .add (.idx "x" (.ref "i")) (.delay 9 (.ref "y") (.lit 1))) (.ref "p"))]]).map
    (·.1) = [7, 9, 8] := by decide

/-- **disallowed_cases.** The duration check objects to exactly: `time`, a variable classified as
    state or algebraic, an input that is not fixed, the derivative of a state, and a delay input. -/
theorem disallowed_cases (c : Cats) (x : Atom) :
    disallowed c x = true ↔
      x = .time ∨ (∃ k, x = .dly k) ∨
      (∃ n, x = .var n ∧ (c.cat n = some .state ∨ c.cat n = some .alg ∨ (c.cat n = some .input ∧ c.fixed n = false))) ∨
      (∃ n, x = .der n ∧ c.cat n = some .state) := by
  cases x with
  | time => simp [disallowed]
  | dly k => simp [disallowed]
  | loopIdx n => simp [disallowed]
  | loopVar => simp [disallowed]
  | der n => simp [disallowed]
  | var n =>
    simp only [disallowed, reduceCtorEq, false_or, Atom.var.injEq, exists_eq_left']
    cases h : c.cat n with
    | none => simp
    | some k => cases k <;> simp

example : disallowed ⟨fun n => if n = "u" then some .input else none, fun _ => false⟩ (.var "u") = true ∧
    disallowed ⟨fun n => if n = "u" then some .input else none, fun _ => true⟩ (.var "u") = false := by
  constructor <;> decide

/-- **rejects_iff_partial.** When no duration inside a for-loop mentions that loop's variable, the
    model is rejected (`_post_checks` raises) iff some `delay` call of the source — at any
    nesting depth, in initial equations, equations or loop bodies — has a duration that mentions
    a disallowed symbol (a nested `delay` in a duration counts: it is a non-fixed input).
    Missing for the full property: durations that mention the loop variable; for those the
    implementation checks loop-local placeholder symbols instead of the variables (open finding
    C22-F1, see `loop_indexed_duration_escapes`). -/
theorem rejects_iff_partial (c : Cats) (ieqs eqs : List Equation)
    (hi : ∀ q ∈ ieqs, DursLoopFree q) (he : ∀ q ∈ eqs, DursLoopFree q) :
    postCheckFails c (translate ieqs eqs).args = true ↔
      ∃ nd ∈ allNodes ieqs eqs, ∃ x ∈ srcAtoms nd.2.2, disallowed c x = true := by
  have h := durs_translate c ieqs eqs hi he
  have e1 : postCheckFails c (translate ieqs eqs).args = ((translate ieqs eqs).args.map (durKey c)).any id := by
    simp [postCheckFails, List.any_map, durKey, Function.comp_def]
  have e2 : ((allNodes ieqs eqs).map (srcKey c)).any id = (allNodes ieqs eqs).any (srcKey c) := by
    simp [List.any_map, Function.comp_def]
  rw [e1, h, e2, List.any_eq_true]
  simp only [srcKey, List.any_eq_true]

example : DursLoopFree (.forEq "i" 3 [(.idx "z" (.ref "i"), .delay 0 (.idx "x" (.ref "i")) (.bin .mul (.lit 2) (.ref "p")))]) := by
  intro nd hnd
  simp [pairNodes, delayNodes] at hnd
  subst hnd
  decide

/-- **accepts_iff_partial.** Under the same hypothesis the duration check passes iff every
    duration of every `delay` call mentions only symbols that are not disallowed — by
    `disallowed_cases`: constants, parameters, fixed inputs (and literals). -/
theorem accepts_iff_partial (c : Cats) (ieqs eqs : List Equation)
    (hi : ∀ q ∈ ieqs, DursLoopFree q) (he : ∀ q ∈ eqs, DursLoopFree q) :
    postCheckFails c (translate ieqs eqs).args = false ↔
      ∀ nd ∈ allNodes ieqs eqs, ∀ x ∈ srcAtoms nd.2.2, disallowed c x = false := by
  have h := rejects_iff_partial c ieqs eqs hi he
  constructor
  · intro hf nd hnd x hx
    cases hd : disallowed c x with
    | false => rfl
    | true => rw [h.mpr ⟨nd, hnd, x, hx, hd⟩] at hf; exact absurd hf (by decide)
  · intro hall
    cases hp : postCheckFails c (translate ieqs eqs).args with
    | false => rfl
    | true =>
      obtain ⟨nd, hnd, x, hx, hd⟩ := h.mp hp
      rw [hall nd hnd x hx] at hd; exact absurd hd (by decide)

example : ∀ q ∈ [Equation.eq (.ref "z") (.delay 0 (.ref "x") (.ref "p"))], DursLoopFree q := by
  intro q hq; simp at hq; subst hq; trivial

/-- The defect behind C22-F1, proved on the model of the code as it is: inside a for-loop a
    duration on the loop-indexed algebraic variable `y[i]` is *not* rejected (the check sees a
    placeholder), and the delay-argument function cannot be built (`freeSymbol`). -/
theorem loop_indexed_duration_escapes :
    verdict ⟨fun n => if n = "y" then some .alg else if n = "x" then some .state else none, fun _ => false⟩
      (translate [] [.forEq "i" 2 [(.idx "z" (.ref "i"), .delay 0 (.idx "x" (.ref "i")) (.idx "y" (.ref "i")))]])
      = .freeSymbol := by decide

example : verdict ⟨fun n => if n = "y" then some .alg else none, fun _ => false⟩
    (translate [] [.eq (.ref "z") (.delay 0 (.ref "x") (.ref "y"))]) = .reject := by decide

/-- **args_preserved.** For equations outside for-loops: give every delayed quantity of the
    source a value `τ id`; if the input symbol of each recorded argument carries the value of
    its node, then every translated equation evaluates like its source equation (each `delay`
    call was replaced by *its own* input), and every recorded argument belongs to a source
    node whose delayed expression and duration it evaluates to — for arbitrarily nested delays,
    initial equations included. -/
theorem args_preserved (ρ : Env) (τ : Nat → Option Rat) (ieqs eqs : List Equation)
    (hi : ∀ q ∈ ieqs, Plain q) (he : ∀ q ∈ eqs, Plain q)
    (hc : ∀ a ∈ (translate ieqs eqs).args, ρ.val (delayName a.k) 0 = τ a.id) :
    (translate ieqs eqs).ieqs.map (evalEq ρ) = ieqs.map (evalSEq ρ τ) ∧
    (translate ieqs eqs).eqs.map (evalEq ρ) = eqs.map (evalSEq ρ τ) ∧
    ∀ a ∈ (translate ieqs eqs).args, ∃ nd ∈ allNodes ieqs eqs, Preserved ρ τ a nd := by
  rw [translate_args] at hc
  obtain ⟨i1, i2⟩ := eqs_sem ρ τ ieqs ⟨0, [], true⟩ hi (fun x hx => hc x (List.mem_append_left _ hx))
  obtain ⟨e1, e2⟩ := eqs_sem ρ τ eqs (trEqs ieqs ⟨0, [], true⟩).2 he (fun x hx => hc x (List.mem_append_right _ hx))
  refine ⟨by simpa [translate] using i1, by simpa [translate] using e1, ?_⟩
  intro a ha
  rw [translate_args] at ha
  rcases List.mem_append.mp ha with ha | ha
  · obtain ⟨nd, hnd, hp⟩ := i2 a ha
    exact ⟨nd, by simp [allNodes, hnd], hp⟩
  · obtain ⟨nd, hnd, hp⟩ := e2 a ha
    exact ⟨nd, by
      simp only [allNodes, List.mem_append]
      exact Or.inr hnd, hp⟩

example : (∀ q ∈ [Equation.eq (.ref "z") (.delay 0 (.bin .add (.ref "x") (.delay 1 (.ref "y") (.lit 1))) (.ref "p"))], Plain q) ∧
    (translate [] [.eq (.ref "z") (.delay 0 (.bin .add (.ref "x") (.delay 1 (.ref "y") (.lit 1))) (.ref "p"))]).args.map (·.id)
      = [1, 0] := by
  constructor
  · intro q hq; simp at hq; subst hq; trivial
  · decide

/-- **loop_args_preserved_partial.** Inside `for v in 1:n`, a `delay(a, d)` whose delayed
    expression `a` is loop-indexed and contains no further `delay` is recorded as the vector of
    `a` over the loop values: component `j` evaluates to `a` in iteration `j+1`; the duration is
    recorded unchanged; the call is replaced by element `v` of the vector input.
    Missing for the full property: delays nested inside a loop-indexed delayed expression (covered
    by the correspondence only). -/
theorem loop_args_preserved_partial (ρ : Env) (v : String) (n id : Nat) (a d : Expr) (s : St)
    (ha : delayNodes a = []) (hd : delayNodes d = []) (hidx : mentionsIndexed v a = true) :
    (tr (some (v, n)) (.delay id a d) s).1 = .dsymAt s.next (.ref v) ∧
    ∃ arg, (tr (some (v, n)) (.delay id a d) s).2.args = s.args ++ [arg] ∧
      arg.k = s.next ∧ arg.id = id ∧ arg.vec = true ∧ arg.dur = d ∧
      arg.exprs.map (eval ρ) = (List.range n).map (fun j => evalL ρ v (j + 1) a) := by
  have ta := tr_id (some (v, n)) a s ha
  have td := tr_id (some (v, n)) d s hd
  refine ⟨by simp [tr, ta, td, newSym, hidx], ?_⟩
  refine ⟨newArg (some (v, n)) s.next id a d, by simp [tr, ta, td], newArg_k _ _ _ _ _, newArg_id _ _ _ _ _,
    by simp [newArg, hidx], newArg_dur _ _ _ _ _, ?_⟩
  simp [newArg, hidx, eval_substVar, Function.comp_def]

example : delayNodes (.bin .mul (.lit 2) (.idx "x" (.ref "i"))) = [] ∧
    mentionsIndexed "i" (.bin .mul (.lit 2) (.idx "x" (.ref "i"))) = true := by
  constructor <;> decide

/-- **postcheck_invariant_under_substitution.** A simplification pass that substitutes symbols
    (alias elimination, `eliminable_variable_expression`, replacing parameter/constant values) in
    the delayed expressions *and* the durations, and removes the substituted variables from the
    model's lists, does not change the verdict of the duration check — provided every
    replacement mentions a disallowed symbol exactly when the replaced variable was disallowed
    (an alias of an algebraic variable is replaced by an algebraic variable, a state or a
    non-fixed input; a parameter by its value), no state is eliminated and no eliminated name is
    used with a subscript.  So rejection does not depend on these compiler options. -/
theorem postcheck_invariant_under_substitution (c : Cats) (σ : String → Option Expr) (gone : String → Bool)
    (args : List DArg)
    (ok : ∀ a ∈ args, SubstOk c a.lv σ gone)
    (hidx : ∀ a ∈ args, ∀ n ∈ idxNames a.dur, gone n = false) :
    postCheckFails (c.remove gone) (substArgs σ args) = postCheckFails c args := by
  have key : ∀ (l : List DArg), (∀ a ∈ l, a ∈ args) →
      (l.map (substArg σ)).any (fun a => (atoms a.lv a.dur).any (disallowed (c.remove gone))) =
        l.any (fun a => (atoms a.lv a.dur).any (disallowed c)) := by
    intro l
    induction l with
    | nil => intro _; rfl
    | cons a t ih =>
      intro hl
      have ha : a ∈ args := hl a (by simp)
      have := (subst_atoms (ok a ha) a.dur (hidx a ha)).2
      simp only [List.map_cons, List.any_cons, substArg, this, ih (fun x hx => hl x (by simp [hx]))]
  exact key args (fun _ h => h)

example : SubstOk ⟨fun n => if n = "d" ∨ n = "w" then some .alg else none, fun _ => false⟩ none
    (fun n => if n = "d" then some (.neg (.ref "w")) else none) (fun n => n == "d") := by
  refine ⟨?_, ?_, ?_, ?_⟩
  · intro n; by_cases h : n = "d" <;> simp [h]
  · intro n e h
    by_cases hn : n = "d"
    · subst hn; simp at h; subst h; decide
    · simp [hn] at h
  · intro n e h
    by_cases hn : n = "d"
    · subst hn; simp at h; subst h; decide
    · simp [hn] at h
  · intro n h; simp at h; subst h; decide

/-- **cached_calls_agree.** With `cache=True`, any number of successive `transfer_model` calls
    on the same folder give the outcome of compiling the source — a rejected model is rejected
    by every call, because a cache file exists only after a compilation that passed
    `_post_checks`. -/
theorem cached_calls_agree (v : Verdict) (n : Nat) :
    ∀ r ∈ transferCalls (compileResult v) n false, r = compileResult v :=
  transferCalls_agree (compileResult v) n false (by simp)

example : transferCalls (compileResult .reject) 3 false = [.raised, .raised, .raised] ∧
    transferCalls (compileResult .accept) 2 false = [.returned, .returned] := by decide

end PymocaVerif.Delay
