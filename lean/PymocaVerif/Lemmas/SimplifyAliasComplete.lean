import PymocaVerif.Lemmas.SimplifyFixpoint
/-!
# Simplify: detect_aliases (first pass) loses no constraint
Helper lemmas for C14.
-/
set_option linter.unusedSectionVars false
set_option linter.unusedSimpArgs false
namespace PymocaVerif.Simplify
open PymocaVerif.AliasRel Lean.Grind

variable {K : Type} [Field K] [DecidableEq K]

/-! ## detect_aliases loses nothing (first pass) -/

/-- the canonical name of a recorded class is listed in `canonical_variables` -/
theorem WF.canon_in_cv {s : AR} (h : WF s) {a : SName} {A : List SName} (hal : s.al a = some A) :
    (s.canonicalSigned a).1 ∈ s.cv := by
  have hm := h.canon_mem a
  rw [h.cv_iff]
  obtain ⟨c, hc, _⟩ := h.cm_some a A hal
  have hcs : s.canonicalSigned a = c := by simp [AR.canonicalSigned, hc]
  cases hsg : (s.canonicalSigned a).2 with
  | false =>
    rw [hsg] at hm
    have hmA : (false, (s.canonicalSigned a).1) ∈ A := by simpa [AR.aliases, hal] using hm
    rw [h.cm_class a A _ hal hmA, hc, ← hcs]
    exact congrArg some (Prod.ext rfl hsg)
  | true =>
    rw [hsg] at hm
    have hmA : (true, (s.canonicalSigned a).1) ∈ A := by simpa [AR.aliases, hal] using hm
    have e1 : s.cmap (true, (s.canonicalSigned a).1) = some c := by rw [h.cm_class a A _ hal hmA, hc]
    have e2 := h.cm_neg _ _ e1
    have : tog (true, (s.canonicalSigned a).1) = (false, (s.canonicalSigned a).1) := rfl
    rw [this] at e2
    rw [e2, ← hcs, hsg]; rfl

/-- if every eliminated name equals (with its sign) its canonical variable, all members of a class are equal -/
theorem class_sval {σ : Env K} {s : AR} (h : WF s)
    (hc : ∀ c ∈ s.cv, ∀ a ∈ s.aliases (false, c), sval σ a = σ c) {x y : SName} (hy : y ∈ s.aliases x) :
    sval σ y = sval σ x := by
  cases hal : s.al x with
  | none => simp [AR.aliases, hal] at hy; rw [hy]
  | some A =>
    have hcv := h.canon_in_cv hal
    have hm := h.canon_mem x
    have key : ∀ z ∈ s.aliases x, sval σ z = if (s.canonicalSigned x).2 then - σ (s.canonicalSigned x).1 else σ (s.canonicalSigned x).1 := by
      intro z hz
      cases hsg : (s.canonicalSigned x).2 with
      | false =>
        rw [hsg] at hm
        have e1 := h.aliases_shared hm
        simp only [Bool.false_eq_true, if_false]
        exact hc _ hcv z (by rw [e1]; exact hz)
      | true =>
        rw [hsg] at hm
        have e1 := h.aliases_shared hm
        have e2 := h.aliases_tog (true, (s.canonicalSigned x).1)
        have e3 : tog (true, (s.canonicalSigned x).1) = (false, (s.canonicalSigned x).1) := rfl
        rw [e3, e1] at e2
        have : tog z ∈ s.aliases (false, (s.canonicalSigned x).1) := by rw [e2]; exact List.mem_map_of_mem hz
        have := hc _ hcv (tog z) this
        rw [sval_tog] at this
        simp only [if_true]
        grind
    rw [key y hy, key x (h.aliases_self x)]

theorem addFacts_admissible {cx : AliasCtx} {s s' : AR} {d0 d1 : String} {neg : Bool} {alg other : String}
    (h : WF s) (hf : AddFacts cx s s' d0 d1 neg alg other) :
    ((neg, alg) : SName) ∉ s.aliases (false, other) ∧ ((neg, alg) : SName) ∉ s.aliases (tog (false, other)) := by
  constructor
  · intro hin
    have := h.aliases_symm hin
    cases neg
    · exact hf.unrel1 this
    · exact hf.unrel2 this
  · intro hin
    rw [h.aliases_tog] at hin
    have h1 : tog (neg, alg) ∈ s.aliases (false, other) := mem_map_tog.1 hin
    have := h.aliases_symm h1
    cases neg
    · exact hf.unrel2 (by simpa [tog] using this)
    · exact hf.unrel1 (by simpa [tog] using this)

/-- classes only grow along the loop, and every dropped equation's pair ends up in one class -/
theorem aliasLoop_dropped (E : Engine K) (cx : AliasCtx) : ∀ (es : List (Ex K)) (i : Nat) (ar : AR) (r : List (Ex K) × AR),
    aliasLoop E cx i es ar = .ok r → WF ar → JInv cx ar →
    (∀ x y, y ∈ ar.aliases x → y ∈ r.2.aliases x) ∧
    ∀ k e, es[k]? = some e → e ∈ r.1 ∨ ∃ d0 d1 neg alg other,
      detectAlias E cx (i + k) (E.view (i + k) e) = some (d0, d1, neg) ∧
      ((alg = d0 ∧ other = d1) ∨ (alg = d1 ∧ other = d0)) ∧ ((neg, alg) : SName) ∈ r.2.aliases (false, other)
  | [], i, ar, r, h, _, _ => by
    simp [aliasLoop] at h; subst h
    exact ⟨fun _ _ hy => hy, by simp⟩
  | e :: es, i, ar, r, h, hw, hj => by
    have shift : ∀ (r' : List (Ex K) × AR) (P : Nat → Ex K → Prop),
        (∀ k x, es[k]? = some x → P (i + 1 + k) x) → ∀ k x, (e :: es)[k + 1]? = some x → P (i + (k + 1)) x := by
      intro r' P hP k x hx
      have := hP k x (by simpa using hx)
      have e1 : i + 1 + k = i + (k + 1) := by omega
      rwa [e1] at this
    simp only [aliasLoop] at h
    split at h
    · rename_i d0 d1 neg hdet
      split at h
      · simp at h
      · rename_i ar2 hmk
        rcases makeAlias_facts hmk with ⟨_, hf⟩ | ⟨_, alg, other, hf⟩
        · simp at hf
        · obtain ⟨w2, j2, _⟩ := jinv_add hw hj (Ext.refl ar) hf
          obtain ⟨hb, hadm⟩ := addFacts_admissible hw hf
          obtain ⟨mono, drop⟩ := aliasLoop_dropped E cx es (i + 1) ar2 r h w2 j2
          refine ⟨fun x y hy => mono x y (add_mono hw hb hadm hf.add hy), ?_⟩
          intro k x hx
          cases k with
          | zero =>
            simp at hx; subst hx
            right
            exact ⟨d0, d1, neg, alg, other, by simpa using hdet, hf.pair, mono _ _ (add_joined hw hb hadm hf.add)⟩
          | succ k =>
            have := drop k x (by simpa using hx)
            have e1 : i + 1 + k = i + (k + 1) := by omega
            rw [e1] at this
            exact this
      · rename_i ar2 hmk
        rcases makeAlias_facts hmk with ⟨rfl, _⟩ | ⟨hf, _⟩
        · split at h
          · simp at h
          · rename_i r' hr'
            simp at h; subst h
            obtain ⟨mono, drop⟩ := aliasLoop_dropped E cx es (i + 1) ar2 r' hr' hw hj
            refine ⟨mono, ?_⟩
            intro k x hx
            cases k with
            | zero => simp at hx; subst hx; left; simp
            | succ k =>
              have := drop k x (by simpa using hx)
              have e1 : i + 1 + k = i + (k + 1) := by omega
              rw [e1] at this
              rcases this with h1 | h1
              · exact Or.inl (List.mem_cons_of_mem _ h1)
              · exact Or.inr h1
        · simp at hf
    · split at h
      · simp at h
      · rename_i r' hr'
        simp at h; subst h
        obtain ⟨mono, drop⟩ := aliasLoop_dropped E cx es (i + 1) ar r' hr' hw hj
        refine ⟨mono, ?_⟩
        intro k x hx
        cases k with
        | zero => simp at hx; subst hx; left; simp
        | succ k =>
          have := drop k x (by simpa using hx)
          have e1 : i + 1 + k = i + (k + 1) := by omega
          rw [e1] at this
          rcases this with h1 | h1
          · exact Or.inl (List.mem_cons_of_mem _ h1)
          · exact Or.inr h1

/-- converse of `detectAlias_sound`: if the two symbols are related as detected, the inspected expression vanishes -/
theorem detectAlias_complete {I : Interp K} {E : Engine K} {cx : AliasCtx} {i : Nat} {e : Ex K} {σ : Env K}
    {d0 d1 : String} {neg : Bool} (hg : GzOk I E i e) (h : detectAlias E cx i e = some (d0, d1, neg))
    (hd : σ d0 = if neg then - σ d1 else σ d1) : e.eval I σ = 0 := by
  have generic : ∀ a b s, E.gzero i a b s = true → σ a = (if s then - σ b else σ b) → e.eval I σ = 0 := by
    intro a b s hz hab
    have h1 := (hg a b s hz).1 σ
    rw [eval_subst, upd_single] at h1
    have : (signedSym s b : Ex K).eval I σ = σ a := by
      rw [hab]; cases s <;> simp [signedSym, Ex.eval]
    rw [this, setE_self] at h1
    exact h1
  unfold detectAlias at h
  simp only at h
  split at h
  · rename_i r hfast
    simp at h; subst h
    split at hfast
    · rename_i a0 b0 o x y hsv
      have hab := eraseDups_pair x y a0 b0 (by simpa [Ex.symvar, Ex.syms] using hsv)
      obtain ⟨rfl, rfl⟩ := hab
      split at hfast
      · rename_i ho; subst ho
        simp at hfast; obtain ⟨rfl, rfl, rfl⟩ := hfast
        simp at hd; simp [Ex.eval]; grind
      · split at hfast
        · rename_i ho; subst ho
          simp at hfast; obtain ⟨rfl, rfl, rfl⟩ := hfast
          simp at hd; simp [Ex.eval]; grind
        · simp at hfast
    · simp at hfast
  · have try2 : ∀ (d : List String) (r : String × String × Bool),
        (match d with
          | [a, b] => if E.gzero i a b false = true then some (a, b, false)
                      else if E.gzero i a b true = true then some (a, b, true) else none
          | _ => none) = some r → σ r.1 = (if r.2.2 then - σ r.2.1 else σ r.2.1) → e.eval I σ = 0 := by
      intro d r hr hrel
      split at hr
      · rename_i a b
        split at hr
        · rename_i hz
          simp at hr; subst hr
          exact generic a b false hz hrel
        · split at hr
          · rename_i hz
            simp at hr; subst hr
            exact generic a b true hz hrel
          · simp at hr
      · simp at hr
    split at h
    · rename_i r hr
      simp at h; subst h
      exact try2 _ _ hr hd
    · exact try2 _ _ h hd

/-- the binding the elimination loop creates for one alias -/
def aliasBinding (c : String) (a : SName) : String × Ex K := (a.2, if a.1 then Ex.un .neg (Ex.sym c) else Ex.sym c)

theorem elimClass_eq (c : String) : ∀ (as : List SName) (allSt : List String) (r : List (String × Ex K) × List String),
    elimClass c as allSt = .ok r → r.1 = as.map (aliasBinding c)
  | [], allSt, r, h => by simp [elimClass] at h; subst h; rfl
  | a :: as, allSt, r, h => by
    simp only [elimClass] at h
    split at h
    · simp at h
    · split at h
      · simp at h
      · rename_i r' hr'
        simp at h; subst h
        simp [aliasBinding, elimClass_eq c as _ r' hr']

theorem elimAliases_mem (old ar : AR) : ∀ (cs allSt : List String) (r : List (String × Ex K) × List String),
    elimAliases old ar cs allSt = .ok r → ∀ c ∈ cs, ∀ a ∈ newAliases old ar c, aliasBinding c a ∈ r.1
  | [], _, _, _ => by simp
  | c :: cs, allSt, r, h => by
    simp only [elimAliases] at h
    split at h
    · simp at h
    · split at h
      · simp at h
      · rename_i r1 hr1
        split at h
        · simp at h
        · rename_i r2 hr2
          simp at h; subst h
          intro c' hc' a ha
          rcases List.mem_cons.1 hc' with rfl | hc'
          · rw [elimClass_eq c' _ _ r1 hr1]
            exact List.mem_append_left _ (List.mem_map_of_mem ha)
          · exact List.mem_append_right _ (elimAliases_mem old ar cs _ r2 hr2 c' hc' a ha)

/-- detect_aliases (first pass) loses no constraint: a solution of the result, with every eliminated
    variable set to ± its canonical variable, solves the model it was given — the dropped alias
    equations included -/
theorem alias_complete {I : Interp K} {E : Engine K} (hE : EngineOk I E) {allowDer : Bool} {m m' : Model K} {τ : Env K}
    (hempty : m.ar = AR.empty) (hnd : NamesNodup m)
    (hg : ∀ k e, m.eqs[k]? = some e → GzOk I E k (E.view k e))
    (hvals : ∀ v ∈ m.params ++ m.consts, ∀ t, v.value = some t → ∀ n ∈ t.syms, n ∉ names m.algs)
    (htime : "time" ∉ names m.algs)
    (h : detectAliases E allowDer m = .ok m') (hs : Sat I τ m') :
    ∃ σ, Sat I σ m ∧ (∀ n, n ∈ m'.known → σ n = τ n) ∧ (∀ n, n ∉ names m.algs → σ n = τ n) := by
  unfold detectAliases at h
  simp only at h
  split at h
  · simp at h
  · rename_i kept ar hloop
    split at h
    · simp at h
    · rename_i l left hel
      simp at h; subst h
      rw [hempty] at hloop hel
      obtain ⟨hw, hj, _⟩ := aliasLoop_inv E _ AR.empty m.eqs 0 AR.empty (kept, ar) hloop wf_empty (jinv_empty _) (Ext.refl _)
      obtain ⟨_, drop⟩ := aliasLoop_dropped E _ m.eqs 0 AR.empty (kept, ar) hloop wf_empty (jinv_empty _)
      obtain ⟨_, hdom⟩ := elimAliases_length AR.empty ar ar.cv _ (l, left) hel hnd
      obtain ⟨s1, s2, s3, s4, s5, s6⟩ := elimAliases_spec AR.empty ar ar.cv _ (l, left) hel hnd
      have hmemb := elimAliases_mem AR.empty ar ar.cv _ (l, left) hel
      -- the eliminated names are algebraic and never canonical
      have hdom_alg : ∀ n ∈ l.map (·.1), n ∈ names m.algs ∧ n ∉ ar.cv := by
        intro n hn
        obtain ⟨p, hp, rfl⟩ := List.mem_map.1 hn
        obtain ⟨c, hc, a, ha, hpa⟩ := hdom p hp
        have hin := s4 p.1 (List.mem_map_of_mem hp)
        have hel := first_pass_eliminated hw hj hc ha
        rw [hpa] at hin ⊢
        exact ⟨alg_of_not_dne hin hel.1, hel.2⟩
      have halg_disj : ∀ n, n ∈ names m.algs → n ∉ names m.states ++ names m.ders ∧ n ∉ names m.inputs ∧
          n ∉ names m.params ∧ n ∉ names m.consts := by
        intro n hn
        unfold NamesNodup at hnd
        simp only [List.nodup_append, List.mem_append] at hnd
        refine ⟨?_, ?_, ?_, ?_⟩
        · intro h1
          rcases List.mem_append.1 h1 with h1 | h1
          · exact hnd.1.1.1.2.2 n (Or.inl h1) n hn rfl
          · exact hnd.1.1.1.2.2 n (Or.inr h1) n hn rfl
        · intro h1; exact hnd.1.1.2.2 n (Or.inr hn) n h1 rfl
        · intro h1; exact hnd.1.2.2 n (Or.inl (Or.inr hn)) n h1 rfl
        · intro h1; exact hnd.2.2 n (Or.inl (Or.inl (Or.inr hn))) n h1 rfl
      let σ : Env K := upd I τ l
      have hoff : ∀ n, n ∉ l.map (·.1) → σ n = τ n := fun n hn => upd_off τ l n hn
      -- every member of a class equals its canonical variable in σ
      have hbind : ∀ c ∈ ar.cv, ∀ a ∈ ar.aliases (false, c), sval σ a = σ c := by
        intro c hc a ha
        by_cases hac : a = (false, c)
        · rw [hac]; simp [sval]
        · have hna : a ∈ newAliases AR.empty ar c := by
            rw [newAliases_first hw]
            exact List.mem_filter.2 ⟨ha, by simpa using hac⟩
          have hb := hmemb c hc a hna
          have hlk := lookup_of_mem_nodup l _ _ s3 hb
          have hcoff : σ c = τ c := hoff c (fun hin => (hdom_alg c hin).2 hc)
          have hσa : σ a.2 = (if a.1 then Ex.un .neg (Ex.sym c) else Ex.sym c : Ex K).eval I τ := by
            show upd I τ l a.2 = _
            simp only [upd, aliasBinding] at hlk ⊢
            rw [hlk]
          obtain ⟨sg, n⟩ := a
          cases sg <;> simp [sval, Ex.eval] at hσa ⊢ <;> rw [hσa, hcoff] <;> grind
      refine ⟨σ, ⟨?_, ?_, ?_, ?_⟩, ?_, fun n hn => hoff n (fun hin => hn (hdom_alg n hin).1)⟩
      · -- every equation of the model: kept, or implied by the recorded aliases
        have hkept : EqOk I σ kept := eqok_back hE hs.eqs
        intro e he
        obtain ⟨k, hk, rfl⟩ := List.mem_iff_getElem.1 he
        have hget : m.eqs[k]? = some m.eqs[k] := by simp [hk]
        rcases drop k _ hget with hin | ⟨d0, d1, neg, alg, other, hdet, hpair, hjoin⟩
        · exact hkept _ hin
        · have hcls := class_sval hw hbind hjoin
          have hrel : σ d0 = if neg then - σ d1 else σ d1 := by
            rcases hpair with ⟨rfl, rfl⟩ | ⟨rfl, rfl⟩ <;> cases neg <;> simp [sval] at hcls ⊢ <;> grind
          have := detectAlias_complete (σ := σ) (by simpa using hg k _ hget) (by simpa using hdet) hrel
          rw [hE.view_eval] at this
          exact this
      · -- parameters
        intro v hv t ht
        have hname : v.name ∉ l.map (·.1) := fun hin =>
          (halg_disj _ (hdom_alg _ hin).1).2.2.1 (List.mem_map.2 ⟨v, hv, rfl⟩)
        have hleft : v.name ∈ left := (s2 v.name).2 ⟨by simp [AliasCtx.allSt, names, List.mem_map_of_mem (f := fun x : Var K => x.name) hv], hname⟩
        have hv' : markAliased ar v ∈ (m.params.filter fun v => decide (v.name ∈ left)).map (markAliased ar) :=
          List.mem_map_of_mem (List.mem_filter.2 ⟨hv, by simpa using hleft⟩)
        have hma : (markAliased ar v).name = v.name ∧ (markAliased ar v).value = v.value := by
          unfold markAliased; split <;> simp
        have := hs.params _ hv' t (by rw [hma.2]; exact ht)
        rw [hma.1] at this
        rw [hoff _ hname, this]
        apply eval_congr
        intro n hn
        symm
        exact hoff n (fun hin => hvals v (List.mem_append_left _ hv) t ht n hn (hdom_alg n hin).1)
      · -- constants
        intro v hv t ht
        have hname : v.name ∉ l.map (·.1) := fun hin =>
          (halg_disj _ (hdom_alg _ hin).1).2.2.2 (List.mem_map.2 ⟨v, hv, rfl⟩)
        have hv' : markAliased ar v ∈ m.consts.map (markAliased ar) := List.mem_map_of_mem hv
        have hma : (markAliased ar v).name = v.name ∧ (markAliased ar v).value = v.value := by
          unfold markAliased; split <;> simp
        have := hs.consts _ hv' t (by rw [hma.2]; exact ht)
        rw [hma.1] at this
        rw [hoff _ hname, this]
        apply eval_congr
        intro n hn
        symm
        exact hoff n (fun hin => hvals v (List.mem_append_right _ hv) t ht n hn (hdom_alg n hin).1)
      · rw [hempty]; exact ⟨fun x A h => by simp [AR.empty] at h, fun x c h => by simp [AR.empty] at h⟩
      · -- agreement on everything that is still in the model
        intro n hn
        apply hoff
        intro hin
        have hal := (hdom_alg n hin).1
        have hnl : n ∉ left := fun hl => ((s2 n).1 hl).2 hin
        simp only [Model.known, List.mem_cons, List.mem_append] at hn
        have key : ∀ (vs : List (Var K)), n ∈ names ((vs.filter fun v => decide (v.name ∈ left)).map (markAliased ar)) → False := by
          intro vs hvs
          obtain ⟨w, hw', hwn⟩ := List.mem_map.1 hvs
          obtain ⟨u, hu, rfl⟩ := List.mem_map.1 hw'
          have hul := (List.mem_filter.1 hu).2
          have : (markAliased ar u).name = u.name := by unfold markAliased; split <;> rfl
          rw [this] at hwn
          exact hnl (by rw [← hwn]; simpa using hul)
        rcases hn with h0 | (((((h1 | h1) | h1) | h1) | h1) | h1)
        · -- time
          subst h0
          exact htime hal
        · exact key _ h1
        · exact key _ h1
        · exact key _ h1
        · exact key _ h1
        · exact key _ h1
        · obtain ⟨w, hw', hwn⟩ := List.mem_map.1 h1
          obtain ⟨u, hu, rfl⟩ := List.mem_map.1 hw'
          have : (markAliased ar u).name = u.name := by unfold markAliased; split <;> rfl
          rw [this] at hwn
          exact (halg_disj _ hal).2.2.2 (by rw [← hwn]; exact List.mem_map.2 ⟨u, hu, rfl⟩)

end PymocaVerif.Simplify
