import PymocaVerif.Model.ObjGraph
/-!
Lemmas about `ObjGraph.copy` (the model of `copy.deepcopy` with pymoca's hooks) for the copy
discipline the code has now (`Cfg.Good`: memo test by id, hooks leave no instance attribute).

Main result `copy_spec`: started on any heap `H` at an object of a *region* `R` (a set of objects
closed under references, without per-instance hooks), the copy

* only appends to the heap (nothing that existed is written: `frame`),
* extends the memo without changing existing entries,
* every entry it adds is either a seed `a ↦ a` (the shared parent of the class whose hook ran) or
  maps `a` to a new object that is `a` with every reference renamed through the final memo
  (`Done`), and `a` is reachable from the start through `own` references,
* with `TreeShaped`, the only seed is the parent of the start object.
-/
namespace PymocaVerif.ObjGraph

def Cfg.Good (cfg : Cfg) : Prop :=
  cfg.memoTest = .byId ∧ cfg.hookRebind = .removed ∧ cfg.argRebind = .removed

/-! ### memo -/

theorem mget_cons (a b : Nat) (m : Memo) (x : Nat) :
    mget ((a, b) :: m) x = if a = x then some b else mget m x := rfl

def MemoLe (m m' : Memo) : Prop := ∀ a b, mget m a = some b → mget m' a = some b

theorem MemoLe.refl (m : Memo) : MemoLe m m := fun _ _ h => h
theorem MemoLe.trans {m1 m2 m3 : Memo} (h12 : MemoLe m1 m2) (h23 : MemoLe m2 m3) : MemoLe m1 m3 :=
  fun a b h => h23 a b (h12 a b h)

theorem MemoLe.push {m : Memo} {x y : Nat} (hx : mget m x = none) : MemoLe m ((x, y) :: m) := by
  intro a b h
  rw [mget_cons]
  by_cases hxa : x = a
  · subst hxa; rw [hx] at h; cases h
  · simp [hxa, h]

/-! ### renaming through a memo -/

def renField (m : Memo) : Field → Option Field
  | .own i => (mget m i).map Field.own
  | .par i => (mget m i).map Field.par
  | .scp i => some (.scp i)

def renFields (m : Memo) : List Field → Option (List Field)
  | [] => some []
  | f :: fs =>
    match renField m f, renFields m fs with
    | some g, some gs => some (g :: gs)
    | _, _ => none

theorem renField_mono {m m' : Memo} (hle : MemoLe m m') {f g : Field} (h : renField m f = some g) :
    renField m' f = some g := by
  cases f with
  | own i =>
    simp only [renField] at h ⊢
    cases hm : mget m i with
    | none => simp [hm] at h
    | some j => rw [hle i j hm]; simpa [hm] using h
  | par i =>
    simp only [renField] at h ⊢
    cases hm : mget m i with
    | none => simp [hm] at h
    | some j => rw [hle i j hm]; simpa [hm] using h
  | scp i => simpa [renField] using h

theorem renFields_mono {m m' : Memo} (hle : MemoLe m m') :
    ∀ {fs gs : List Field}, renFields m fs = some gs → renFields m' fs = some gs := by
  intro fs
  induction fs with
  | nil => intro gs h; simpa [renFields] using h
  | cons f fs ih =>
    intro gs h
    simp only [renFields] at h ⊢
    cases hf : renField m f with
    | none => simp [hf] at h
    | some g =>
      cases hfs : renFields m fs with
      | none => simp [hf, hfs] at h
      | some gs' =>
        rw [renField_mono hle hf, ih hfs]
        simpa [hf, hfs] using h

/-! ### regions -/

/-- A set of objects of `H` closed under references, without per-instance hooks; `par` occurs only in
    classes and is the parent `Class.__deepcopy__` reads. -/
structure Region (H : Heap) (R : Nat → Prop) : Prop where
  valid : ∀ a, R a → ∃ o, H[a]? = some o
  hooks : ∀ a o, R a → H[a]? = some o → o.hook = none
  closed : ∀ a o f, R a → H[a]? = some o → f ∈ o.fields → R f.id
  parU : ∀ a o i, R a → H[a]? = some o → Field.par i ∈ o.fields →
    o.kind = .cls ∧ parentOfFields o.fields = some i

def OwnEdge (h : Heap) (a c : Nat) : Prop := ∃ o, h[a]? = some o ∧ Field.own c ∈ o.fields

inductive OwnReach (h : Heap) : Nat → Nat → Prop
  | refl (a : Nat) : OwnReach h a a
  | step {a b c : Nat} : OwnReach h a b → OwnEdge h b c → OwnReach h a c

theorem OwnReach.trans {h : Heap} {a b c : Nat} (hab : OwnReach h a b) (hbc : OwnReach h b c) :
    OwnReach h a c := by
  induction hbc with
  | refl => exact hab
  | step _ e ih => exact OwnReach.step ih e

theorem OwnReach.head {h : Heap} {a b c : Nat} (e : OwnEdge h a b) (hbc : OwnReach h b c) :
    OwnReach h a c :=
  OwnReach.trans (OwnReach.step (OwnReach.refl a) e) hbc

/-- every `own` reference into a class comes from that class's parent (parsed trees: a class is
    held by the `classes` dict of its parent only) -/
def TreeShaped (H : Heap) (R : Nat → Prop) : Prop :=
  ∀ a c oa oc, R a → H[a]? = some oa → Field.own c ∈ oa.fields → H[c]? = some oc → oc.kind = .cls →
    parentOfFields oc.fields = some a

/-! ### invariant and postcondition of one `copy` call, relative to the heap `H` it started from -/

structure Inv (H : Heap) (R : Nat → Prop) (st : St) : Prop where
  pre : ∃ ex, st.heap = H ++ ex
  dom : ∀ a b, mget st.memo a = some b → R a ∧ b < st.heap.length
  tgtHook : ∀ a b o, mget st.memo a = some b → st.heap[b]? = some o → o.hook = none

/-- `b` is the finished copy of `a`: the same object with every reference renamed through the memo -/
def Done (H : Heap) (st : St) (a b : Nat) : Prop :=
  ∃ o fs, H[a]? = some o ∧ renFields st.memo o.fields = some fs ∧
    st.heap[b]? = some { o with fields := fs, hook := none }

structure Post (H : Heap) (R : Nat → Prop) (st st' : St) : Prop where
  inv : Inv H R st'
  frame : ∃ ex, st'.heap = st.heap ++ ex
  mono : MemoLe st.memo st'.memo
  new : ∀ a b, mget st'.memo a = some b → mget st.memo a = none →
    b = a ∨ (st.heap.length ≤ b ∧ Done H st' a b)

theorem Done.stable {H : Heap} {st st' : St} {a b : Nat} (hd : Done H st a b)
    (hm : MemoLe st.memo st'.memo) (hf : ∃ ex, st'.heap = st.heap ++ ex) : Done H st' a b := by
  obtain ⟨o, fs, ho, hr, hb⟩ := hd
  obtain ⟨ex, hex⟩ := hf
  refine ⟨o, fs, ho, renFields_mono hm hr, ?_⟩
  rw [hex]
  have hlt : b < st.heap.length := by
    rcases Nat.lt_or_ge b st.heap.length with h | h
    · exact h
    · rw [List.getElem?_eq_none h] at hb; cases hb
  rw [List.getElem?_append_left hlt]; exact hb

theorem Post.refl {H : Heap} {R : Nat → Prop} {st : St} (hi : Inv H R st) : Post H R st st :=
  { inv := hi, frame := ⟨[], by simp⟩, mono := MemoLe.refl _
    new := fun a b h1 h2 => by rw [h2] at h1; cases h1 }

theorem Post.trans {H : Heap} {R : Nat → Prop} {s1 s2 s3 : St} (p12 : Post H R s1 s2) (p23 : Post H R s2 s3) :
    Post H R s1 s3 := by
  obtain ⟨e1, he1⟩ := p12.frame
  obtain ⟨e2, he2⟩ := p23.frame
  refine { inv := p23.inv, frame := ⟨e1 ++ e2, by rw [he2, he1, List.append_assoc]⟩,
           mono := p12.mono.trans p23.mono, new := ?_ }
  intro a b h3 h1
  cases h2 : mget s2.memo a with
  | none =>
    rcases p23.new a b h3 h2 with h | ⟨hl, hd⟩
    · exact Or.inl h
    · refine Or.inr ⟨?_, hd⟩
      have : s1.heap.length ≤ s2.heap.length := by rw [he1]; simp
      omega
  | some b' =>
    have hb : b' = b := by
      have := p23.mono a b' h2
      rw [h3] at this; cases this; rfl
    subst hb
    rcases p12.new a b' h2 h1 with h | ⟨hl, hd⟩
    · exact Or.inl h
    · exact Or.inr ⟨hl, hd.stable p23.mono p23.frame⟩

/-! ### specification of a recursive call and of the attribute loop -/

structure CallPost (H : Heap) (R : Nat → Prop) (x : Nat) (st st' : St) (y : Nat) : Prop where
  post : Post H R st st'
  res : mget st'.memo x = some y
  hit : ∀ y0, mget st.memo x = some y0 → st' = st
  reach : ∀ a b, mget st'.memo a = some b → mget st.memo a = none → b ≠ a → OwnReach H x a
  seeds : TreeShaped H R → ∀ a, mget st'.memo a = some a → mget st.memo a = none →
    ∃ o, H[x]? = some o ∧ o.kind = .cls ∧ parentOfFields o.fields = some a

def RecSpec (H : Heap) (R : Nat → Prop) (rec : St → Nat → Option (St × Nat)) : Prop :=
  ∀ st x st' y, Inv H R st → R x → rec st x = some (st', y) → CallPost H R x st st' y

structure FieldsPost (H : Heap) (R : Nat → Prop) (a0 : Nat) (st st' : St) (fs gs : List Field) : Prop where
  post : Post H R st st'
  ren : renFields st'.memo fs = some gs
  reach : ∀ a b, mget st'.memo a = some b → mget st.memo a = none → b ≠ a → OwnReach H a0 a
  seeds : TreeShaped H R → ∀ a, mget st'.memo a = some a → mget st.memo a = none → False

theorem isSome_mono {m m' : Memo} (hle : MemoLe m m') {a : Nat} (h : (mget m a).isSome) :
    (mget m' a).isSome := by
  cases hm : mget m a with
  | none => simp [hm] at h
  | some b => simp [hle a b hm]

theorem copyFields_spec {H : Heap} {R : Nat → Prop} (hR : Region H R)
    {rec : St → Nat → Option (St × Nat)} (hrec : RecSpec H R rec)
    {a0 : Nat} {o0 : Obj} (ha0 : R a0) (ho0 : H[a0]? = some o0) :
    ∀ (fs : List Field) (st st' : St) (gs : List Field), Inv H R st → (∀ f ∈ fs, f ∈ o0.fields) →
      (mget st.memo a0).isSome → (∀ i, Field.par i ∈ fs → (mget st.memo i).isSome) →
      copyFields rec st fs = some (st', gs) → FieldsPost H R a0 st st' fs gs := by
  intro fs
  induction fs with
  | nil =>
    intro st st' gs hi _ _ _ h
    simp only [copyFields] at h
    cases h
    exact { post := Post.refl hi, ren := rfl
            reach := fun a b h1 h2 => by rw [h2] at h1; cases h1
            seeds := fun _ a h1 h2 => by rw [h2] at h1; cases h1 }
  | cons f fs ih =>
    intro st st' gs hi hsub hin hpar h
    have hsub' : ∀ g ∈ fs, g ∈ o0.fields := fun g hg => hsub g (List.mem_cons_of_mem _ hg)
    have hpar' : ∀ i, Field.par i ∈ fs → (mget st.memo i).isSome :=
      fun i hi' => hpar i (List.mem_cons_of_mem _ hi')
    cases f with
    | scp i =>
      simp only [copyFields] at h
      cases hc : copyFields rec st fs with
      | none => simp [hc] at h
      | some r =>
        obtain ⟨st2, gs2⟩ := r
        simp only [hc, Option.some.injEq, Prod.mk.injEq] at h
        obtain ⟨h1, h2⟩ := h
        subst h1; subst h2
        have p := ih st st2 gs2 hi hsub' hin hpar' hc
        exact { post := p.post
                ren := by simp [renFields, renField, p.ren]
                reach := p.reach, seeds := p.seeds }
    | own i =>
      simp only [copyFields] at h
      cases hr : rec st i with
      | none => simp [hr] at h
      | some r1 =>
        obtain ⟨st1, j⟩ := r1
        simp only [hr] at h
        cases hc : copyFields rec st1 fs with
        | none => simp [hc] at h
        | some r =>
          obtain ⟨st2, gs2⟩ := r
          simp only [hc, Option.some.injEq, Prod.mk.injEq] at h
          obtain ⟨h1, h2⟩ := h
          subst h1; subst h2
          have hmem : Field.own i ∈ o0.fields := hsub _ (List.mem_cons_self)
          have hRi : R i := hR.closed a0 o0 _ ha0 ho0 hmem
          have c := hrec st i st1 j hi hRi hr
          have p := ih st1 st2 gs2 c.post.inv hsub' (isSome_mono c.post.mono hin)
            (fun k hk => isSome_mono c.post.mono (hpar' k hk)) hc
          refine { post := c.post.trans p.post, ren := ?_, reach := ?_, seeds := ?_ }
          · simp [renFields, renField, p.post.mono i j c.res, p.ren]
          · intro a b h3 h1 hne
            cases h2 : mget st1.memo a with
            | none => exact p.reach a b h3 h2 hne
            | some b' =>
              have hb : b' = b := by
                have := p.post.mono a b' h2
                rw [h3] at this; cases this; rfl
              subst hb
              exact OwnReach.head ⟨o0, ho0, hmem⟩ (c.reach a b' h2 h1 hne)
          · intro hts a h3 h1
            cases h2 : mget st1.memo a with
            | none => exact p.seeds hts a h3 h2
            | some b' =>
              have hb : b' = a := by
                have := p.post.mono a b' h2
                rw [h3] at this; cases this; rfl
              subst hb
              obtain ⟨oi, hoi, hk, hpo⟩ := c.seeds hts b' h2 h1
              have := hts a0 i o0 oi ha0 ho0 hmem hoi hk
              rw [hpo] at this
              cases this
              rw [h1] at hin
              simp at hin
    | par i =>
      simp only [copyFields] at h
      cases hr : rec st i with
      | none => simp [hr] at h
      | some r1 =>
        obtain ⟨st1, j⟩ := r1
        simp only [hr] at h
        cases hc : copyFields rec st1 fs with
        | none => simp [hc] at h
        | some r =>
          obtain ⟨st2, gs2⟩ := r
          simp only [hc, Option.some.injEq, Prod.mk.injEq] at h
          obtain ⟨h1, h2⟩ := h
          subst h1; subst h2
          have hmem : Field.par i ∈ o0.fields := hsub _ (List.mem_cons_self)
          have hRi : R i := hR.closed a0 o0 _ ha0 ho0 hmem
          have c := hrec st i st1 j hi hRi hr
          have hhit : (mget st.memo i).isSome := hpar i (List.mem_cons_self)
          cases hm : mget st.memo i with
          | none => simp [hm] at hhit
          | some y0 =>
            have hst : st1 = st := c.hit y0 hm
            subst hst
            have p := ih st1 st2 gs2 hi hsub' hin hpar' hc
            exact { post := p.post
                    ren := by simp [renFields, renField, p.post.mono i j c.res, p.ren]
                    reach := p.reach, seeds := p.seeds }

/-! ### the hooks leave nothing behind -/

theorem setHook_none_eq {h : Heap} {i : Nat} (hh : ∀ o, h[i]? = some o → o.hook = none) :
    setHook h i none = h := by
  unfold setHook
  cases hi : h[i]? with
  | none => rfl
  | some o =>
    have ho := hh o hi
    have : ({ o with hook := none } : Obj) = o := by
      cases o; simp_all
    simp only [this]
    obtain ⟨hlt, hget⟩ := List.getElem?_eq_some_iff.mp hi
    rw [← hget]
    exact List.set_getElem_self hlt

theorem Inv.get_old {H : Heap} {R : Nat → Prop} {st : St} (hi : Inv H R st) (hR : Region H R)
    {a : Nat} (ha : R a) : st.heap[a]? = H[a]? := by
  obtain ⟨ex, hex⟩ := hi.pre
  obtain ⟨o, ho⟩ := hR.valid a ha
  have hlt : a < H.length := by
    rcases Nat.lt_or_ge a H.length with h | h
    · exact h
    · rw [List.getElem?_eq_none h] at ho; cases ho
  rw [hex, List.getElem?_append_left hlt]

theorem Region.lt {H : Heap} {R : Nat → Prop} (hR : Region H R) {a : Nat} (ha : R a) : a < H.length := by
  obtain ⟨o, ho⟩ := hR.valid a ha
  rcases Nat.lt_or_ge a H.length with h | h
  · exact h
  · rw [List.getElem?_eq_none h] at ho; cases ho

/-! ### `_reconstruct` -/

theorem reconstruct_spec {H : Heap} {R : Nat → Prop} (hR : Region H R)
    {rec : St → Nat → Option (St × Nat)} (hrec : RecSpec H R rec)
    {st st' : St} {x y : Nat} {o : Obj} (hi : Inv H R st) (hx : R x) (ho : H[x]? = some o)
    (hnone : mget st.memo x = none) (hpar : ∀ i, Field.par i ∈ o.fields → (mget st.memo i).isSome)
    (h : reconstruct rec st x o = some (st', y)) : CallPost H R x st st' y := by
  unfold reconstruct at h
  cases hc : copyFields rec { heap := st.heap ++ [blank o], memo := (x, st.heap.length) :: st.memo } o.fields with
  | none => simp [hc] at h
  | some r =>
    obtain ⟨st2, fs⟩ := r
    simp only [hc, Option.some.injEq, Prod.mk.injEq] at h
    obtain ⟨h1, h2⟩ := h
    subst h1; subst h2
    obtain ⟨ex, hex⟩ := hi.pre
    have hxlt : x < H.length := hR.lt hx
    have hHle : H.length ≤ st.heap.length := by rw [hex]; simp
    -- the state after allocating the placeholder
    have hpush : MemoLe st.memo ((x, st.heap.length) :: st.memo) := MemoLe.push hnone
    have hi1 : Inv H R { heap := st.heap ++ [blank o], memo := (x, st.heap.length) :: st.memo } := by
      refine { pre := ⟨ex ++ [blank o], by simp [hex]⟩, dom := ?_, tgtHook := ?_ }
      · intro a b hab
        simp only [mget_cons] at hab
        by_cases hxa : x = a
        · simp only [hxa, if_true, Option.some.injEq] at hab
          subst hab; subst hxa
          exact ⟨hx, by simp⟩
        · simp only [hxa, if_false] at hab
          have := hi.dom a b hab
          exact ⟨this.1, by simp; omega⟩
      · intro a b o' hab hb
        simp only [mget_cons] at hab
        by_cases hxa : x = a
        · simp only [hxa, if_true, Option.some.injEq] at hab
          subst hab
          simp at hb
          subst hb; rfl
        · simp only [hxa, if_false] at hab
          have hlt := (hi.dom a b hab).2
          simp only [List.getElem?_append_left hlt] at hb
          exact hi.tgtHook a b o' hab hb
    have hin1 : (mget ((x, st.heap.length) :: st.memo) x).isSome := by simp [mget_cons]
    have p := copyFields_spec hR hrec hx ho o.fields _ st2 fs hi1 (fun f hf => hf) hin1
      (fun i hi' => isSome_mono hpush (hpar i hi')) hc
    obtain ⟨e2, he2⟩ := p.post.frame
    simp only at he2
    have hlen2 : st.heap.length < st2.heap.length := by rw [he2]; simp
    -- the final state
    have hmemo_x : mget st2.memo x = some st.heap.length := p.post.mono x _ (by simp [mget_cons])
    have hhit : ∀ y0, mget st.memo x = some y0 →
        ({ st2 with heap := st2.heap.set st.heap.length { o with fields := fs, hook := none } } : St) = st :=
      fun y0 hy => by rw [hnone] at hy; cases hy
    refine { post := ?_, res := hmemo_x, hit := hhit, reach := ?_, seeds := ?_ }
    · refine { inv := ?_, frame := ?_, mono := hpush.trans p.post.mono, new := ?_ }
      · obtain ⟨ex2, hex2⟩ := p.post.inv.pre
        refine { pre := ?_, dom := ?_, tgtHook := ?_ }
        · refine ⟨ex2.set (st.heap.length - H.length) { o with fields := fs, hook := none }, ?_⟩
          simp only [hex2]
          rw [List.set_append]
          have : ¬ st.heap.length < H.length := by omega
          simp [this]
        · intro a b hab
          have := p.post.inv.dom a b hab
          exact ⟨this.1, by simpa using this.2⟩
        · intro a b o' hab hb
          simp only [List.getElem?_set] at hb
          by_cases hbl : st.heap.length = b
          · simp only [hbl, if_true] at hb
            split at hb
            · cases hb; rfl
            · cases hb
          · simp only [hbl, if_false] at hb
            exact p.post.inv.tgtHook a b o' hab hb
      · refine ⟨[{ o with fields := fs, hook := none }] ++ e2, ?_⟩
        simp only [he2]
        rw [List.append_assoc, List.set_append]
        simp
      · intro a b hab hna
        by_cases hxa : x = a
        · subst hxa
          rw [hmemo_x] at hab
          cases hab
          refine Or.inr ⟨Nat.le_refl _, o, fs, ho, p.ren, ?_⟩
          simp [List.getElem?_set, hlen2]
        · have hna1 : mget ((x, st.heap.length) :: st.memo) a = none := by
            simp [mget_cons, hxa, hna]
          rcases p.post.new a b hab hna1 with h | ⟨hl, hd⟩
          · exact Or.inl h
          · simp only [List.length_append, List.length_cons, List.length_nil] at hl
            refine Or.inr ⟨by omega, ?_⟩
            obtain ⟨oa, fa, hoa, hra, hba⟩ := hd
            refine ⟨oa, fa, hoa, hra, ?_⟩
            have : st.heap.length ≠ b := by omega
            simp [List.getElem?_set, this, hba]
    · intro a b hab hna hne
      by_cases hxa : x = a
      · subst hxa; exact OwnReach.refl _
      · have hna1 : mget ((x, st.heap.length) :: st.memo) a = none := by
          simp [mget_cons, hxa, hna]
        exact p.reach a b hab hna1 hne
    · intro hts a hab hna
      by_cases hxa : x = a
      · subst hxa
        rw [hmemo_x] at hab
        cases hab
        omega
      · have hna1 : mget ((x, st.heap.length) :: st.memo) a = none := by
          simp [mget_cons, hxa, hna]
        exact (p.seeds hts a hab hna1).elim

/-! ### the hooks -/

theorem parentOfFields_mem : ∀ {fs : List Field} {p : Nat}, parentOfFields fs = some p → Field.par p ∈ fs := by
  intro fs
  induction fs with
  | nil => intro p h; simp [parentOfFields] at h
  | cons f fs ih =>
    intro p h
    cases f with
    | par i => simp only [parentOfFields, Option.some.injEq] at h; subst h; exact List.mem_cons_self
    | own i => simp only [parentOfFields] at h; exact List.mem_cons_of_mem _ (ih h)
    | scp i => simp only [parentOfFields] at h; exact List.mem_cons_of_mem _ (ih h)

structure SeedPost (H : Heap) (R : Nat → Prop) (o : Obj) (st st0 : St) : Prop where
  post : Post H R st st0
  heap : st0.heap = st.heap
  parIn : ∀ i, Field.par i ∈ o.fields → (mget st0.memo i).isSome
  new : ∀ a b, mget st0.memo a = some b → mget st.memo a = none →
    b = a ∧ o.kind = .cls ∧ parentOfFields o.fields = some a

theorem seed_spec {H : Heap} {R : Nat → Prop} (hR : Region H R) {cfg : Cfg} (hg : cfg.memoTest = .byId)
    {st : St} {x : Nat} {o : Obj} (hi : Inv H R st) (hx : R x) (ho : H[x]? = some o) :
    SeedPost H R o st (seed cfg st o) := by
  have same : ∀ (hpar : ∀ i, Field.par i ∈ o.fields → (mget st.memo i).isSome), SeedPost H R o st st :=
    fun hpar => { post := Post.refl hi, heap := rfl, parIn := hpar
                  new := fun a b h1 h2 => by rw [h2] at h1; cases h1 }
  unfold seed
  by_cases hk : o.kind = .cls
  · simp only [hk, if_true]
    cases hp : parentOfFields o.fields with
    | none =>
      simp only
      refine same ?_
      intro i hi'
      have := (hR.parU x o i hx ho hi').2
      rw [hp] at this; cases this
    | some p =>
      simp only [hg]
      have hpar_eq : ∀ i, Field.par i ∈ o.fields → i = p := by
        intro i hi'
        have := (hR.parU x o i hx ho hi').2
        rw [hp] at this; cases this; rfl
      by_cases hs : (mget st.memo p).isSome
      · simp only [hs, if_true]
        refine same ?_
        intro i hi'
        rw [hpar_eq i hi']; exact hs
      · simp only [hs, Bool.false_eq_true, if_false]
        have hnone : mget st.memo p = none := by
          cases hm : mget st.memo p with
          | none => rfl
          | some b => simp [hm] at hs
        have hRp : R p := hR.closed x o _ hx ho (parentOfFields_mem hp)
        have hplt : p < H.length := hR.lt hRp
        obtain ⟨ex, hex⟩ := hi.pre
        have hHle : H.length ≤ st.heap.length := by rw [hex]; simp
        have hle : MemoLe st.memo ((p, p) :: st.memo) := MemoLe.push hnone
        have hi0 : Inv H R { st with memo := (p, p) :: st.memo } := by
          refine { pre := hi.pre, dom := ?_, tgtHook := ?_ }
          · intro a b hab
            simp only [mget_cons] at hab
            by_cases hpa : p = a
            · simp only [hpa, if_true, Option.some.injEq] at hab
              subst hab; subst hpa
              exact ⟨hRp, by simp only; omega⟩
            · simp only [hpa, if_false] at hab
              exact hi.dom a b hab
          · intro a b o' hab hb
            simp only [mget_cons] at hab
            by_cases hpa : p = a
            · simp only [hpa, if_true, Option.some.injEq] at hab
              subst hab; subst hpa
              simp only at hb
              rw [hi.get_old hR hRp] at hb
              exact hR.hooks p o' hRp hb
            · simp only [hpa, if_false] at hab
              exact hi.tgtHook a b o' hab hb
        refine { post := ?_, heap := rfl, parIn := ?_, new := ?_ }
        · refine { inv := hi0, frame := ⟨[], by simp⟩, mono := hle, new := ?_ }
          intro a b hab hna
          simp only [mget_cons] at hab
          by_cases hpa : p = a
          · simp only [hpa, if_true, Option.some.injEq] at hab
            exact Or.inl hab.symm
          · simp only [hpa, if_false] at hab
            rw [hna] at hab; cases hab
        · intro i hi'
          rw [hpar_eq i hi']
          simp [mget_cons]
        · intro a b hab hna
          simp only [mget_cons] at hab
          by_cases hpa : p = a
          · simp only [hpa, if_true, Option.some.injEq] at hab
            subst hpa
            exact ⟨hab.symm, hk, hp⟩
          · simp only [hpa, if_false] at hab
            rw [hna] at hab; cases hab
  · simp only [hk, if_false]
    refine same ?_
    intro i hi'
    exact absurd (hR.parU x o i hx ho hi').1 hk

theorem viaHook_spec {H : Heap} {R : Nat → Prop} (hR : Region H R) {cfg : Cfg} (hg : cfg.Good)
    {rec : St → Nat → Option (St × Nat)} (hrec : RecSpec H R rec)
    {st st' : St} {x y : Nat} (hi : Inv H R st) (hx : R x) (hnone : mget st.memo x = none)
    (h : viaHook cfg rec st x = some (st', y)) : CallPost H R x st st' y := by
  obtain ⟨o, ho⟩ := hR.valid x hx
  have hso : st.heap[x]? = some o := by rw [hi.get_old hR hx]; exact ho
  unfold viaHook at h
  simp only [hso] at h
  have sp := seed_spec hR (cfg := cfg) hg.1 hi hx ho
  have hrb : (if o.kind = .cls then cfg.hookRebind else cfg.argRebind) = .removed := by
    split
    · exact hg.2.1
    · exact hg.2.2
  -- the inner `copy.deepcopy(self, memo)`
  cases hin : hookInner cfg rec st x o with
  | none => simp [hin] at h
  | some r =>
    obtain ⟨st1, y1⟩ := r
    simp only [hin, hrb, Option.some.injEq, Prod.mk.injEq] at h
    obtain ⟨h1, h2⟩ := h
    subst h2
    -- what the inner call did
    have c1 : CallPost H R x (seed cfg st o) st1 y1 := by
      unfold hookInner at hin
      cases hm : mget (seed cfg st o).memo x with
      | some y0 =>
        simp only [hm, Option.some.injEq, Prod.mk.injEq] at hin
        obtain ⟨e1, e2⟩ := hin
        subst e1; subst e2
        exact { post := Post.refl sp.post.inv, res := hm, hit := fun _ _ => rfl
                reach := fun a b h1 h2 => by rw [h2] at h1; cases h1
                seeds := fun _ a h1 h2 => by rw [h2] at h1; cases h1 }
      | none =>
        simp only [hm] at hin
        exact reconstruct_spec hR hrec sp.post.inv hx ho hm sp.parIn hin
    -- the rebinding writes nothing
    have hy1 : ∀ o', st1.heap[y1]? = some o' → o'.hook = none :=
      fun o' ho' => c1.post.inv.tgtHook x y1 o' c1.res ho'
    have hx1 : ∀ o', st1.heap[x]? = some o' → o'.hook = none := by
      intro o' ho'
      rw [c1.post.inv.get_old hR hx] at ho'
      exact hR.hooks x o' hx ho'
    have hheap : rebind .removed st1.heap x y1 (o.hook.getD x) = st1.heap := by
      unfold rebind
      simp only
      rw [setHook_none_eq hx1, setHook_none_eq hy1]
    rw [hheap] at h1
    have hst : st' = st1 := by rw [← h1]
    subst hst
    refine { post := sp.post.trans c1.post, res := c1.res
             hit := fun y0 hy => by rw [hnone] at hy; cases hy
             reach := ?_, seeds := ?_ }
    · intro a b hab hna hne
      cases h0 : mget (seed cfg st o).memo a with
      | none => exact c1.reach a b hab h0 hne
      | some b' =>
        have hb : b' = b := by
          have := c1.post.mono a b' h0
          rw [hab] at this; cases this; rfl
        subst hb
        exact absurd (sp.new a b' h0 hna).1 hne
    · intro hts a hab hna
      cases h0 : mget (seed cfg st o).memo a with
      | none => exact c1.seeds hts a hab h0
      | some b' =>
        have := sp.new a b' h0 hna
        exact ⟨o, ho, this.2.1, this.2.2⟩

/-- **Specification of `copy`** for the copy discipline the code has now. -/
theorem copy_spec {H : Heap} {R : Nat → Prop} (hR : Region H R) {cfg : Cfg} (hg : cfg.Good) :
    ∀ f, RecSpec H R (copy cfg f) := by
  intro f
  induction f with
  | zero => intro st x st' y _ _ h; simp [copy] at h
  | succ f ih =>
    intro st x st' y hi hx h
    simp only [copy] at h
    cases hm : mget st.memo x with
    | some y0 =>
      simp only [hm, Option.some.injEq, Prod.mk.injEq] at h
      obtain ⟨e1, e2⟩ := h
      subst e1; subst e2
      exact { post := Post.refl hi, res := hm, hit := fun _ _ => rfl
              reach := fun a b h1 h2 => by rw [h2] at h1; cases h1
              seeds := fun _ a h1 h2 => by rw [h2] at h1; cases h1 }
    | none =>
      obtain ⟨o, ho⟩ := hR.valid x hx
      have hso : st.heap[x]? = some o := by rw [hi.get_old hR hx]; exact ho
      have hhook : o.hook = none := hR.hooks x o hx ho
      simp only [hm, hso, hhook, Option.getD_none] at h
      by_cases hk : o.kind = .cls ∨ o.kind = .arg
      · simp only [hk, if_true] at h
        cases hv : viaHook cfg (copy cfg f) st x with
        | none => simp [hv] at h
        | some r =>
          obtain ⟨st1, y1⟩ := r
          simp only [hv, Option.some.injEq, Prod.mk.injEq] at h
          obtain ⟨e1, e2⟩ := h
          subst e2
          have c := viaHook_spec hR hg ih hi hx hm hv
          have : (y1 = x ∨ mget st1.memo x = some y1) := Or.inr c.res
          simp only [this, if_true] at e1
          subst e1
          exact c
      · simp only [hk, if_false] at h
        refine reconstruct_spec hR ih hi hx ho hm ?_ h
        intro i hi'
        exact absurd (Or.inl (hR.parU x o i hx ho hi').1) hk

/-! ### one whole `copy.deepcopy(x)` -/

structure CopyOut (H : Heap) (R : Nat → Prop) (x : Nat) (st' : St) (y : Nat) : Prop where
  frame : ∃ ex, st'.heap = H ++ ex
  res : mget st'.memo x = some y
  dom : ∀ a b, mget st'.memo a = some b → R a ∧ b < st'.heap.length
  entries : ∀ a b, mget st'.memo a = some b → b = a ∨ (H.length ≤ b ∧ Done H st' a b)
  reach : ∀ a b, mget st'.memo a = some b → b ≠ a → OwnReach H x a
  seeds : TreeShaped H R → ∀ a, mget st'.memo a = some a →
    ∃ o, H[x]? = some o ∧ o.kind = .cls ∧ parentOfFields o.fields = some a

theorem inv_init (H : Heap) (R : Nat → Prop) : Inv H R { heap := H, memo := [] } :=
  { pre := ⟨[], by simp⟩
    dom := fun a b h => by simp [mget] at h
    tgtHook := fun a b o h => by simp [mget] at h }

theorem copy_out {H : Heap} {R : Nat → Prop} (hR : Region H R) {cfg : Cfg} (hg : cfg.Good)
    {f x y : Nat} {st' : St} (hx : R x) (h : copy cfg f { heap := H, memo := [] } x = some (st', y)) :
    CopyOut H R x st' y := by
  have c := copy_spec hR hg f _ x st' y (inv_init H R) hx h
  exact { frame := c.post.frame, res := c.res, dom := c.post.inv.dom
          entries := fun a b hab => c.post.new a b hab rfl
          reach := fun a b hab hne => c.reach a b hab rfl hne
          seeds := fun hts a hab => c.seeds hts a hab rfl }

theorem deepcopySt_spec {H : Heap} {R : Nat → Prop} (hR : Region H R) {cfg : Cfg} (hg : cfg.Good)
    {x y : Nat} {st' : St} (hx : R x) (h : deepcopySt cfg H x = some (st', y)) : CopyOut H R x st' y :=
  copy_out hR hg hx h

/-! ### views -/

theorem view_succ (h : Heap) (k x : Nat) :
    view h (k + 1) x = match h[x]? with
      | none => View.cut
      | some o => View.node o.kind o.name o.label (o.fields.map fun f => (f.tag, view h k f.id)) := rfl

/-- two heaps that agree on a closed set of valid objects give the same views there -/
theorem view_congr {h1 h2 : Heap} {S : Nat → Prop}
    (hag : ∀ a, S a → h1[a]? = h2[a]?)
    (hcl : ∀ a o f, S a → h2[a]? = some o → f ∈ o.fields → S f.id) :
    ∀ k a, S a → view h1 k a = view h2 k a := by
  intro k
  induction k with
  | zero => intro a _; rfl
  | succ k ih =>
    intro a ha
    rw [view_succ, view_succ, hag a ha]
    cases ho : h2[a]? with
    | none => rfl
    | some o =>
      simp only
      congr 1
      apply List.map_congr_left
      intro f hf
      rw [ih f.id (hcl a o f ha ho hf)]

theorem renField_inv {m : Memo} {f g : Field} (h : renField m f = some g) :
    g.tag = f.tag ∧ ((∃ i, f = .scp i ∧ g = .scp i) ∨ (mget m f.id = some g.id ∧ ∀ i, f ≠ .scp i)) := by
  cases f with
  | own i =>
    simp only [renField] at h
    cases hm : mget m i with
    | none => simp [hm] at h
    | some j =>
      simp only [hm, Option.map_some, Option.some.injEq] at h
      subst h
      exact ⟨rfl, Or.inr ⟨hm, fun _ hh => by cases hh⟩⟩
  | par i =>
    simp only [renField] at h
    cases hm : mget m i with
    | none => simp [hm] at h
    | some j =>
      simp only [hm, Option.map_some, Option.some.injEq] at h
      subst h
      exact ⟨rfl, Or.inr ⟨hm, fun _ hh => by cases hh⟩⟩
  | scp i =>
    simp only [renField, Option.some.injEq] at h
    subst h
    exact ⟨rfl, Or.inl ⟨i, rfl, rfl⟩⟩

theorem renFields_cons {m : Memo} {f : Field} {fs gs : List Field} (h : renFields m (f :: fs) = some gs) :
    ∃ g gs', gs = g :: gs' ∧ renField m f = some g ∧ renFields m fs = some gs' := by
  simp only [renFields] at h
  cases hf : renField m f with
  | none => simp [hf] at h
  | some g =>
    cases hfs : renFields m fs with
    | none => simp [hf, hfs] at h
    | some gs' =>
      simp only [hf, hfs, Option.some.injEq] at h
      exact ⟨g, gs', h.symm, rfl, rfl⟩

/-- the copy looks, to any depth, exactly like the original -/
theorem view_copy {H : Heap} {R : Nat → Prop} (hR : Region H R) {x y : Nat} {st' : St}
    (out : CopyOut H R x st' y) :
    ∀ k a b, R a → (b = a ∨ mget st'.memo a = some b) → view st'.heap k b = view H k a := by
  obtain ⟨ex, hex⟩ := out.frame
  have hold : ∀ a, R a → st'.heap[a]? = H[a]? := by
    intro a ha
    rw [hex, List.getElem?_append_left (hR.lt ha)]
  intro k
  induction k with
  | zero => intro a b _ _; rfl
  | succ k ih =>
    have same : ∀ a, R a → view st'.heap (k + 1) a = view H (k + 1) a := by
      intro a ha
      rw [view_succ, view_succ, hold a ha]
      cases ho : H[a]? with
      | none => rfl
      | some o =>
        simp only
        congr 1
        apply List.map_congr_left
        intro f hf
        rw [ih f.id f.id (hR.closed a o f ha ho hf) (Or.inl rfl)]
    intro a b ha hab
    rcases hab with hab | hab
    · subst hab; exact same b ha
    · rcases out.entries a b hab with hba | ⟨_, o, fs, ho, hren, hb⟩
      · subst hba; exact same b ha
      · rw [view_succ, view_succ, hb, ho]
        simp only
        congr 1
        -- field by field
        have key : ∀ (fs0 gs : List Field), (∀ f ∈ fs0, R f.id) → renFields st'.memo fs0 = some gs →
            gs.map (fun f => (f.tag, view st'.heap k f.id)) = fs0.map (fun f => (f.tag, view H k f.id)) := by
          intro fs0
          induction fs0 with
          | nil => intro gs _ h; simp only [renFields, Option.some.injEq] at h; subst h; rfl
          | cons f fs0 ih2 =>
            intro gs hin h
            obtain ⟨g, gs', hgs, hf, hfs⟩ := renFields_cons h
            subst hgs
            simp only [List.map_cons]
            rw [ih2 gs' (fun f' hf' => hin f' (List.mem_cons_of_mem _ hf')) hfs]
            have hRf : R f.id := hin f List.mem_cons_self
            obtain ⟨htag, hcase⟩ := renField_inv hf
            rcases hcase with ⟨i, h1, h2⟩ | ⟨h1, _⟩
            · subst h1; subst h2
              have := ih i i hRf (Or.inl rfl)
              simp only [Field.id] at this ⊢
              rw [this]
            · rw [htag, ih f.id g.id hRf (Or.inr h1)]
        exact key o.fields fs (fun f hf => hR.closed a o f ha ho hf) hren

/-! ### what is reachable from the copy through `own` references is new -/

theorem renFields_mem_own {m : Memo} : ∀ {fs gs : List Field} {j : Nat}, renFields m fs = some gs →
    Field.own j ∈ gs → ∃ i, Field.own i ∈ fs ∧ mget m i = some j := by
  intro fs
  induction fs with
  | nil => intro gs j h hj; simp only [renFields, Option.some.injEq] at h; subst h; cases hj
  | cons f fs ih =>
    intro gs j h hj
    obtain ⟨g, gs', hgs, hf, hfs⟩ := renFields_cons h
    subst hgs
    rcases List.mem_cons.mp hj with hj | hj
    · subst hj
      obtain ⟨_, hcase⟩ := renField_inv hf
      rcases hcase with ⟨i, _, h2⟩ | ⟨h1, _⟩
      · cases h2
      · cases f with
        | own i => exact ⟨i, List.mem_cons_self, h1⟩
        | par i => simp [renField] at hf
        | scp i => simp [renField] at hf
    · obtain ⟨i, hi, hm⟩ := ih hfs hj
      exact ⟨i, List.mem_cons_of_mem _ hi, hm⟩

/-- the parent of `x` is not `x` and nothing below `x` holds an `own` reference to it -/
def Detached (H : Heap) (x : Nat) : Prop :=
  ∀ o p, H[x]? = some o → parentOfFields o.fields = some p →
    p ≠ x ∧ ∀ a, OwnReach H x a → ¬ OwnEdge H a p

theorem copy_ownReach_fresh {H : Heap} {R : Nat → Prop} {x y : Nat} {st' : St}
    (out : CopyOut H R x st' y) (hts : TreeShaped H R) (hd : Detached H x) :
    ∀ i, OwnReach st'.heap y i →
      H.length ≤ i ∧ i < st'.heap.length ∧ ∃ a, OwnReach H x a ∧ mget st'.memo a = some i ∧ i ≠ a := by
  intro i hi
  induction hi with
  | refl =>
    have hne : y ≠ x := by
      intro hyx
      have hres := out.res
      rw [hyx] at hres
      obtain ⟨o, ho, _, hp⟩ := out.seeds hts x hres
      exact (hd o x ho hp).1 rfl
    rcases out.entries x y out.res with h | ⟨hl, _⟩
    · exact absurd h hne
    · exact ⟨hl, (out.dom x y out.res).2, x, OwnReach.refl x, out.res, hne⟩
  | @step b c _ e ih =>
    obtain ⟨_, _, a, hra, hma, hne⟩ := ih
    obtain ⟨ob, hob, hc⟩ := e
    rcases out.entries a b hma with h | ⟨_, o, fs, ho, hren, hb⟩
    · exact absurd h hne
    · rw [hb] at hob
      cases hob
      simp only at hc
      obtain ⟨i0, hi0, hm0⟩ := renFields_mem_own hren hc
      have hedge : OwnEdge H a i0 := ⟨o, ho, hi0⟩
      have hne0 : c ≠ i0 := by
        intro hci
        rw [hci] at hm0
        obtain ⟨ox, hox, _, hp⟩ := out.seeds hts i0 hm0
        exact (hd ox i0 hox hp).2 a hra hedge
      rcases out.entries i0 c hm0 with h | ⟨hl, _⟩
      · exact absurd h hne0
      · exact ⟨hl, (out.dom i0 c hm0).2, i0, OwnReach.step hra hedge, hm0, hne0⟩

/-! ### the executable footprint visits only reachable objects -/

theorem ownIds_mem {o : Obj} {v : Nat} (h : v ∈ ownIds o) : Field.own v ∈ o.fields := by
  unfold ownIds at h
  obtain ⟨f, hf, hv⟩ := List.mem_filterMap.mp h
  cases f with
  | own i => simp only [Option.some.injEq] at hv; subst hv; exact hf
  | par i => cases hv
  | scp i => cases hv

theorem ownReach_sound (h : Heap) (P : Nat → Prop) (hstep : ∀ a c, P a → OwnEdge h a c → P c) :
    ∀ f stk acc, (∀ v ∈ stk, P v) → (∀ v ∈ acc, P v) → ∀ v ∈ ownReach h f stk acc, P v := by
  intro f
  induction f with
  | zero => intro stk acc _ hacc v hv; simp only [ownReach] at hv; exact hacc v hv
  | succ f ih =>
    intro stk acc hstk hacc v hv
    cases stk with
    | nil => simp only [ownReach] at hv; exact hacc v hv
    | cons x stk =>
      simp only [ownReach] at hv
      have hstk' : ∀ v ∈ stk, P v := fun v hv => hstk v (List.mem_cons_of_mem _ hv)
      split at hv
      · exact ih stk acc hstk' hacc v hv
      · split at hv
        · exact ih stk acc hstk' hacc v hv
        · rename_i o ho
          have hx : P x := hstk x List.mem_cons_self
          refine ih (ownIds o ++ stk) (x :: acc) ?_ ?_ v hv
          · intro w hw
            rcases List.mem_append.mp hw with hw | hw
            · exact hstep x w hx ⟨o, ho, ownIds_mem hw⟩
            · exact hstk' w hw
          · intro w hw
            rcases List.mem_cons.mp hw with hw | hw
            · subst hw; exact hx
            · exact hacc w hw

theorem footprint_sound (h : Heap) (starts : List Nat) :
    ∀ v ∈ footprint h starts, ∃ s ∈ starts, OwnReach h s v := by
  unfold footprint
  apply ownReach_sound h (fun v => ∃ s ∈ starts, OwnReach h s v)
  · intro a c ⟨s, hs, hr⟩ e; exact ⟨s, hs, OwnReach.step hr e⟩
  · intro v hv; exact ⟨v, hv, OwnReach.refl v⟩
  · intro v hv; cases hv

/-- writes at new indices leave the old heap as it was -/
theorem rewrite_prefix (junk : Nat → Obj → Obj) (P : Heap) :
    ∀ (l : List Nat) (ex : Heap), (∀ i ∈ l, P.length ≤ i) → ∃ ex', rewrite junk (P ++ ex) l = P ++ ex' := by
  intro l
  induction l with
  | nil => intro ex _; exact ⟨ex, rfl⟩
  | cons i l ih =>
    intro ex hl
    have hi : P.length ≤ i := hl i List.mem_cons_self
    have hl' : ∀ j ∈ l, P.length ≤ j := fun j hj => hl j (List.mem_cons_of_mem _ hj)
    simp only [rewrite]
    cases ho : (P ++ ex)[i]? with
    | none => exact ih ex hl'
    | some o =>
      simp only
      rw [List.set_append]
      have : ¬ i < P.length := by omega
      simp only [this, if_false]
      exact ih _ hl'

/-- reachability through `own` references from `y` does not change when the heap grows, provided
    everything reachable from `y` exists already -/
theorem ownReach_ext {h e : Heap} {y : Nat} (hv : ∀ i, OwnReach h y i → i < h.length) :
    ∀ i, OwnReach (h ++ e) y i → OwnReach h y i := by
  intro i hi
  induction hi with
  | refl => exact OwnReach.refl y
  | step _ ed ih =>
    obtain ⟨o, ho, hc⟩ := ed
    rw [List.getElem?_append_left (hv _ ih)] at ho
    exact OwnReach.step ih ⟨o, ho, hc⟩

/-! ### termination: the fuel `deepcopy` uses is enough -/

def unmapped (n : Nat) (m : Memo) : Nat :=
  ((List.range n).filter fun a => (mget m a).isNone).length

theorem filter_length_le {α : Type} (p q : α → Bool) :
    ∀ (l : List α), (∀ a ∈ l, p a = true → q a = true) → (l.filter p).length ≤ (l.filter q).length := by
  intro l
  induction l with
  | nil => intro _; simp
  | cons a l ih =>
    intro h
    have ih' := ih (fun b hb => h b (List.mem_cons_of_mem _ hb))
    have ha := h a List.mem_cons_self
    simp only [List.filter_cons]
    cases hp : p a with
    | false =>
      cases hq : q a with
      | false => simpa using ih'
      | true => simp; omega
    | true =>
      rw [ha hp]
      simpa using ih'

theorem filter_length_lt {α : Type} (p q : α → Bool) :
    ∀ (l : List α), (∀ a ∈ l, p a = true → q a = true) → (∃ x ∈ l, q x = true ∧ p x = false) →
      (l.filter p).length < (l.filter q).length := by
  intro l
  induction l with
  | nil => intro _ ⟨x, hx, _⟩; cases hx
  | cons a l ih =>
    intro h ⟨x, hx, hqx, hpx⟩
    have hle := filter_length_le p q l (fun b hb => h b (List.mem_cons_of_mem _ hb))
    have ha := h a List.mem_cons_self
    simp only [List.filter_cons]
    rcases List.mem_cons.mp hx with hxa | hxl
    · subst hxa
      simp [hqx, hpx]; omega
    · have ih' := ih (fun b hb => h b (List.mem_cons_of_mem _ hb)) ⟨x, hxl, hqx, hpx⟩
      cases hp : p a with
      | false =>
        cases hq : q a with
        | false => simpa using ih'
        | true => simp; omega
      | true =>
        rw [ha hp]
        simpa using ih'

theorem unmapped_le_of_memoLe {n : Nat} {m m' : Memo} (hle : MemoLe m m') : unmapped n m' ≤ unmapped n m := by
  unfold unmapped
  apply filter_length_le
  intro a _ ha
  cases hm : mget m a with
  | none => rfl
  | some b => rw [hle a b hm] at ha; simp at ha

theorem unmapped_push_lt {n : Nat} {m : Memo} {x y : Nat} (hx : mget m x = none) (hn : x < n) :
    unmapped n ((x, y) :: m) < unmapped n m := by
  unfold unmapped
  apply filter_length_lt
  · intro a _ ha
    cases hm : mget m a with
    | none => rfl
    | some b => rw [MemoLe.push hx a b hm] at ha; simp at ha
  · exact ⟨x, List.mem_range.mpr hn, by simp [hx], by simp [mget_cons]⟩

theorem unmapped_nil_le (n : Nat) : unmapped n [] ≤ n := by
  unfold unmapped
  calc ((List.range n).filter _).length ≤ (List.range n).length := List.length_filter_le _ _
    _ = n := List.length_range

def RecTotal (H : Heap) (R : Nat → Prop) (f : Nat) (rec : St → Nat → Option (St × Nat)) : Prop :=
  ∀ st x, Inv H R st → R x → unmapped H.length st.memo < f → ∃ r, rec st x = some r

theorem copyFields_total {H : Heap} {R : Nat → Prop} {f : Nat}
    {rec : St → Nat → Option (St × Nat)} (hrec : RecSpec H R rec) (htot : RecTotal H R f rec) :
    ∀ (fs : List Field) (st : St), Inv H R st → (∀ g ∈ fs, R g.id) → unmapped H.length st.memo < f →
      ∃ r, copyFields rec st fs = some r := by
  intro fs
  induction fs with
  | nil => intro st _ _ _; exact ⟨_, rfl⟩
  | cons g fs ih =>
    intro st hi hin hlt
    have hin' : ∀ g' ∈ fs, R g'.id := fun g' hg' => hin g' (List.mem_cons_of_mem _ hg')
    have hg := hin g List.mem_cons_self
    cases g with
    | scp i =>
      obtain ⟨⟨st2, gs⟩, h2⟩ := ih st hi hin' hlt
      exact ⟨(st2, Field.scp i :: gs), by simp only [copyFields, h2]⟩
    | own i =>
      obtain ⟨⟨st1, j⟩, h1⟩ := htot st i hi hg hlt
      have c := hrec st i st1 j hi hg h1
      have hlt1 : unmapped H.length st1.memo < f :=
        Nat.lt_of_le_of_lt (unmapped_le_of_memoLe c.post.mono) hlt
      obtain ⟨⟨st2, gs⟩, h2⟩ := ih st1 c.post.inv hin' hlt1
      exact ⟨(st2, Field.own j :: gs), by simp only [copyFields, h1, h2]⟩
    | par i =>
      obtain ⟨⟨st1, j⟩, h1⟩ := htot st i hi hg hlt
      have c := hrec st i st1 j hi hg h1
      have hlt1 : unmapped H.length st1.memo < f :=
        Nat.lt_of_le_of_lt (unmapped_le_of_memoLe c.post.mono) hlt
      obtain ⟨⟨st2, gs⟩, h2⟩ := ih st1 c.post.inv hin' hlt1
      exact ⟨(st2, Field.par j :: gs), by simp only [copyFields, h1, h2]⟩

theorem reconstruct_total {H : Heap} {R : Nat → Prop} (hR : Region H R) {f : Nat}
    {rec : St → Nat → Option (St × Nat)} (hrec : RecSpec H R rec) (htot : RecTotal H R f rec)
    {st : St} {x : Nat} {o : Obj} (hi : Inv H R st) (hx : R x) (ho : H[x]? = some o)
    (hnone : mget st.memo x = none) (hlt : unmapped H.length st.memo < f + 1) :
    ∃ r, reconstruct rec st x o = some r := by
  unfold reconstruct
  obtain ⟨ex, hex⟩ := hi.pre
  have hi1 : Inv H R { heap := st.heap ++ [blank o], memo := (x, st.heap.length) :: st.memo } := by
    refine { pre := ⟨ex ++ [blank o], by simp [hex]⟩, dom := ?_, tgtHook := ?_ }
    · intro a b hab
      simp only [mget_cons] at hab
      by_cases hxa : x = a
      · simp only [hxa, if_true, Option.some.injEq] at hab
        subst hab; subst hxa
        exact ⟨hx, by simp⟩
      · simp only [hxa, if_false] at hab
        have := hi.dom a b hab
        exact ⟨this.1, by simp; omega⟩
    · intro a b o' hab hb
      simp only [mget_cons] at hab
      by_cases hxa : x = a
      · simp only [hxa, if_true, Option.some.injEq] at hab
        subst hab
        simp at hb
        subst hb; rfl
      · simp only [hxa, if_false] at hab
        have hlt := (hi.dom a b hab).2
        simp only [List.getElem?_append_left hlt] at hb
        exact hi.tgtHook a b o' hab hb
  have hlt1 : unmapped H.length ((x, st.heap.length) :: st.memo) < f := by
    have := unmapped_push_lt (y := st.heap.length) hnone (hR.lt hx)
    omega
  obtain ⟨⟨st2, fs⟩, h2⟩ := copyFields_total hrec htot o.fields _ hi1
    (fun g hg => hR.closed x o g hx ho hg) hlt1
  rw [h2]
  exact ⟨_, rfl⟩

theorem copy_total {H : Heap} {R : Nat → Prop} (hR : Region H R) {cfg : Cfg} (hg : cfg.Good) :
    ∀ f, RecTotal H R f (copy cfg f) := by
  intro f
  induction f with
  | zero => intro st x _ _ h; omega
  | succ f ih =>
    intro st x hi hx hlt
    simp only [copy]
    cases hm : mget st.memo x with
    | some y0 => exact ⟨_, rfl⟩
    | none =>
      obtain ⟨o, ho⟩ := hR.valid x hx
      have hso : st.heap[x]? = some o := by rw [hi.get_old hR hx]; exact ho
      have hhook : o.hook = none := hR.hooks x o hx ho
      simp only [hso, hhook, Option.getD_none]
      have hspec := copy_spec hR hg f
      by_cases hk : o.kind = .cls ∨ o.kind = .arg
      · simp only [hk, if_true]
        have sp := seed_spec hR (cfg := cfg) hg.1 hi hx ho
        have hlt0 : unmapped H.length (seed cfg st o).memo < f + 1 :=
          Nat.lt_of_le_of_lt (unmapped_le_of_memoLe sp.post.mono) hlt
        have hinner : ∃ r, hookInner cfg (copy cfg f) st x o = some r := by
          unfold hookInner
          cases hm0 : mget (seed cfg st o).memo x with
          | some y0 => exact ⟨_, rfl⟩
          | none => exact reconstruct_total hR hspec ih sp.post.inv hx ho hm0 hlt0
        obtain ⟨⟨st1, y1⟩, h1⟩ := hinner
        have : ∃ r, viaHook cfg (copy cfg f) st x = some r := by
          unfold viaHook
          rw [hso]
          simp only
          rw [h1]
          exact ⟨_, rfl⟩
        obtain ⟨⟨st2, y2⟩, h2⟩ := this
        rw [h2]
        exact ⟨_, rfl⟩
      · simp only [hk, if_false]
        exact reconstruct_total hR hspec ih hi hx ho hm hlt

theorem deepcopySt_total {H : Heap} {R : Nat → Prop} (hR : Region H R) {cfg : Cfg} (hg : cfg.Good)
    {x : Nat} (hx : R x) : ∃ r, deepcopySt cfg H x = some r := by
  unfold deepcopySt
  apply copy_total hR hg (H.length + 1) _ x (inv_init H R) hx
  have := unmapped_nil_le H.length
  simp only
  omega

end PymocaVerif.ObjGraph
