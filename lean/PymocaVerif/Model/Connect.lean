/-!
# Model of `pymoca.tree.expand_connectors` (and of the inside/outside flag set in `flatten_symbols`)

The flat class that reaches `expand_connectors` is abstracted to
* the ordered list of its flow symbols (`disconnected_flow_variables`), and
* the ordered list of its connect clauses, each with the class-instance prefix it was flattened
  under, the two references as written in the clause (`o` or `comp.c`) and the flattened variable
  list of the left connector class (name + prefixes).

`flow_connections` is an ordered association list from flow key (flat variable name, inside flag)
to the connection set the key currently belongs to.  In Python the sets are shared `OrderedDict`
objects, merged in place by `update` and re-pointed for every member.  Two readings are modelled:
`connectStep` (the set is a value, every member is re-pointed at the merged value) and `Heap.step`
(object identities, in-place mutation); `Props/C09.lean` proves that they cannot be told apart.
-/
namespace PymocaVerif.Connect

/-! ## The association list of connection sets (generic in the key type) -/
section Generic
variable {κ : Type} [DecidableEq κ]

/-- `flow_connections`: ordered association list key ↦ (ordered) connection set. -/
abbrev FlowMap (κ : Type) := List (κ × List κ)

/-- `d[k] = …` on the key order of an `OrderedDict`: an existing key keeps its place. -/
def insertKey (s : List κ) (k : κ) : List κ := if k ∈ s then s else s ++ [k]

/-- `left.update(right)` on key order. -/
def update (s t : List κ) : List κ := t.foldl insertKey s

/-- `flow_connections.get(k)` (any value type: a set value, or the identity of a set object). -/
def get? {β : Type} : List (κ × β) → κ → Option β
  | [], _ => none
  | (k', s) :: m, k => if k' = k then some s else get? m k

/-- `flow_connections.get(k, OrderedDict())`. -/
def getD (m : FlowMap κ) (k : κ) : List κ := (get? m k).getD []

/-- `flow_connections[k] = s` (existing key keeps its place, new key is appended). -/
def setEntry {β : Type} : List (κ × β) → κ → β → List (κ × β)
  | [], k, s => [(k, s)]
  | (k', s') :: m, k, s => if k' = k then (k', s) :: m else (k', s') :: setEntry m k s

/-- The merged set built for one flow variable of one connect clause. -/
def mergedSet (m : FlowMap κ) (l r : κ) : List κ :=
  insertKey (insertKey (update (getD m l) (getD m r)) l) r

/-- One flow variable of one connect clause: merge, then re-point every member. -/
def connectStep (m : FlowMap κ) (l r : κ) : FlowMap κ :=
  let s := mergedSet m l r
  s.foldl (fun m k => setEntry m k s) m

/-- All flow-level edges, in order. -/
def connectAll (m : FlowMap κ) (es : List (κ × κ)) : FlowMap κ :=
  es.foldl (fun m e => connectStep m e.1 e.2) m

/-- The `processed` loop: the distinct values of the map in order of first occurrence. -/
def distinctSets (m : FlowMap κ) : List (List κ) :=
  m.foldl (fun acc e => if e.2 ∈ acc then acc else acc ++ [e.2]) []

/-! ### The same with Python's object identities

`flow_connections` maps a key to a *reference*; the referenced `OrderedDict` is updated in place
by `left.update(right)` and by the two item assignments, which every key holding that reference
sees at once.  `Heap` keeps the objects in a list (identity = index). -/

structure Heap (κ : Type) where
  /-- the `OrderedDict` objects allocated so far (key order only; the values are functions of the keys) -/
  objs : List (List κ)
  /-- `flow_connections`: key ↦ identity of its set object -/
  fc : List (κ × Nat)

def Heap.empty : Heap κ := ⟨[], []⟩

def Heap.obj (h : Heap κ) (i : Nat) : List κ := (h.objs[i]?).getD []

/-- `flow_connections.get(k, OrderedDict())`: the object of `k`, or a fresh empty one. -/
def Heap.lookupOrAlloc (h : Heap κ) (k : κ) : Nat × Heap κ :=
  match get? h.fc k with
  | some i => (i, h)
  | none => (h.objs.length, { h with objs := h.objs ++ [[]] })

/-- One flow variable of one connect clause, on the heap: the left object is mutated in place,
    then every key of it is pointed at it. -/
def Heap.step (h : Heap κ) (l r : κ) : Heap κ :=
  let a := h.lookupOrAlloc l
  let b := a.2.lookupOrAlloc r
  let s := insertKey (insertKey (update (b.2.obj a.1) (b.2.obj b.1)) l) r
  { objs := b.2.objs.set a.1 s, fc := s.foldl (fun fc k => setEntry fc k a.1) b.2.fc }

def Heap.run (h : Heap κ) (es : List (κ × κ)) : Heap κ := es.foldl (fun h e => h.step e.1 e.2) h

/-- The `processed` loop with `not in` read as object identity. -/
def Heap.distinctIds (h : Heap κ) : List Nat :=
  h.fc.foldl (fun acc e => if e.2 ∈ acc then acc else acc ++ [e.2]) []

def Heap.sets (h : Heap κ) : List (List κ) := h.distinctIds.map h.obj

/-- What the heap looks like to a reader that follows the references. -/
def Heap.view (h : Heap κ) : FlowMap κ := h.fc.map fun e => (e.1, h.obj e.2)

end Generic

/-! ## The concrete pass -/

/-- A flow key: flat variable name and the inside flag of the connect end it came from. -/
abbrev Key := String × Bool

/-- What `expand_connectors` does with a connector variable, decided from its prefixes. -/
inductive VKind | pot | flow | skip | bad
  deriving DecidableEq, Repr

/-- The `if / elif` chain over `connector_variable.prefixes`. -/
def classify (prefixes : List String) : VKind :=
  match prefixes with
  | [] => .pot
  | p :: _ =>
    if p = "input" ∨ p = "output" then .pot
    else if prefixes = ["flow"] then .flow
    else if p = "constant" ∨ p = "parameter" then .skip
    else .bad

structure CVar where
  name : String
  prefixes : List String
  deriving Repr

/-- One connect clause as it sits in the flat class. -/
structure Edge where
  /-- instance prefix of the class holding the clause (`""` or `"c1."`) -/
  pre : String
  /-- left reference as written, split at the dots -/
  l : List String
  r : List String
  /-- flattened symbols of the left connector class, in order -/
  vars : List CVar
  deriving Repr

def sep : String := "."

def joinPath (p : List String) : String := sep.intercalate p

/-- flat connector name of a reference -/
def Edge.lname (e : Edge) : String := e.pre ++ joinPath e.l
def Edge.rname (e : Edge) : String := e.pre ++ joinPath e.r
/-- `__left_inner = len(equation.left.child) > 0` -/
def Edge.linner (e : Edge) : Bool := decide (e.l.length > 1)
def Edge.rinner (e : Edge) : Bool := decide (e.r.length > 1)

def varName (conn v : String) : String := conn ++ sep ++ v

inductive Eqn
  /-- `left = right` for a potential (or causal) connector variable -/
  | pot (l r : String)
  /-- `op₁ + (op₂ + (… + opₙ)) = 0`; the flag says the operand is negated -/
  | sum (ops : List (String × Bool))
  /-- `sym = 0` for a flow that was never popped -/
  | zero (v : String)
  deriving DecidableEq, Repr

inductive Err
  /-- `Exception("Unsupported connector variable prefixes …")` -/
  | unsupportedPrefixes (v : String) (prefixes : List String)
  deriving DecidableEq, Repr

/-- The two readings of `flow_connections` the pass can run on. -/
structure Store (σ : Type) where
  init : σ
  step : σ → Key → Key → σ
  sets : σ → List (List Key)

/-- sets as values, every member re-pointed at the merged value -/
def valueStore : Store (FlowMap Key) := ⟨[], connectStep, distinctSets⟩
/-- sets as shared heap objects mutated in place -/
def heapStore : Store (Heap Key) := ⟨Heap.empty, Heap.step, Heap.sets⟩

structure St (σ : Type) where
  eqs : List Eqn
  fc : σ
  disc : List String

/-- `disconnected_flow_variables.pop(name, None)` -/
def popName (d : List String) (n : String) : List String := d.filter (· ≠ n)

def popAll (d : List String) (ns : List String) : List String := ns.foldl popName d

/-- Which flows a connect clause takes off the list of unconnected flows.
    `byFace` is the code as it stands (since the fix `2598ca8`, proposed as C09-1): a name is
    popped only when the clause uses the inside face of the connector or the connector is a
    top-level one (`CLASS_SEPARATOR not in equation.left.name`).
    `byName` is the code before that fix: both flat names, whatever the face (finding C09-F1). -/
inductive PopPolicy | byName | byFace
  deriving DecidableEq, Repr

/-- `CLASS_SEPARATOR not in equation.left.name` (identifiers contain no separator): the clause sits
    in the top class and the reference has one part. -/
def Edge.ltop (e : Edge) : Bool := e.pre.isEmpty && decide (e.l.length ≤ 1)
def Edge.rtop (e : Edge) : Bool := e.pre.isEmpty && decide (e.r.length ≤ 1)

def popsFor (pol : PopPolicy) (e : Edge) (ln rn : String) : List String :=
  match pol with
  | .byName => [ln, rn]
  | .byFace => (if e.linner || e.ltop then [ln] else []) ++ (if e.rinner || e.rtop then [rn] else [])

/-- One connector variable of one connect clause. -/
def stepVar {σ : Type} (S : Store σ) (pol : PopPolicy) (e : Edge) (st : St σ) (v : CVar) :
    Except Err (St σ) :=
  let ln := varName e.lname v.name
  let rn := varName e.rname v.name
  match classify v.prefixes with
  | .pot => .ok { st with eqs := st.eqs ++ [.pot ln rn] }
  | .flow => .ok { st with fc := S.step st.fc (ln, e.linner) (rn, e.rinner),
                           disc := popAll st.disc (popsFor pol e ln rn) }
  | .skip => .ok st
  | .bad => .error (.unsupportedPrefixes v.name v.prefixes)

def stepVars {σ : Type} (S : Store σ) (pol : PopPolicy) (e : Edge) :
    St σ → List CVar → Except Err (St σ)
  | st, [] => .ok st
  | st, v :: vs => match stepVar S pol e st v with
    | .ok st' => stepVars S pol e st' vs
    | .error x => .error x

def stepEdges {σ : Type} (S : Store σ) (pol : PopPolicy) : St σ → List Edge → Except Err (St σ)
  | st, [] => .ok st
  | st, e :: es => match stepVars S pol e st e.vars with
    | .ok st' => stepEdges S pol st' es
    | .error x => .error x

/-- The flow-sum equation of one connection set: no minus signs when every member is an
    outside connector, otherwise a minus on the outside members. -/
def sumEqn (s : List Key) : Eqn :=
  if s.all (fun k => !k.2) then .sum (s.map fun k => (k.1, false))
  else .sum (s.map fun k => (k.1, !k.2))

structure Input where
  flowSyms : List String
  edges : List Edge
  policy : PopPolicy := .byFace
  deriving Repr

def St.init {σ : Type} (S : Store σ) (inp : Input) : St σ :=
  { eqs := [], fc := S.init, disc := inp.flowSyms }

/-- Equations contributed by the end of the pass. -/
def finish {σ : Type} (S : Store σ) (st : St σ) : List Eqn :=
  st.eqs ++ (S.sets st.fc).map sumEqn ++ st.disc.map .zero

/-- `expand_connectors`, restricted to what it derives from connect clauses. -/
def expandWith {σ : Type} (S : Store σ) (inp : Input) : Except Err (List Eqn) :=
  match stepEdges S inp.policy (St.init S inp) inp.edges with
  | .ok st => .ok (finish S st)
  | .error x => .error x

/-- The connection sets at the end. -/
def finalSetsWith {σ : Type} (S : Store σ) (inp : Input) : Except Err (List (List Key)) :=
  match stepEdges S inp.policy (St.init S inp) inp.edges with
  | .ok st => .ok (S.sets st.fc)
  | .error x => .error x

/-- The pass with sets as values (what the theorems of `Props/C09.lean` are stated about). -/
def expand (inp : Input) : Except Err (List Eqn) := expandWith valueStore inp
def finalSets (inp : Input) : Except Err (List (List Key)) := finalSetsWith valueStore inp

/-- The pass with sets as shared objects (what the driver runs; equal to `expand` by
    `Props/C09.lean: heap_pass_eq_value_pass`). -/
def expandHeap (inp : Input) : Except Err (List Eqn) := expandWith heapStore inp
def finalSetsHeap (inp : Input) : Except Err (List (List Key)) := finalSetsWith heapStore inp

end PymocaVerif.Connect
