/-!
# Model of the parse cache: `pymoca.parser.parse` and `_check_database_structure`

A state machine over an abstract cache database file, a clock, the current pymoca version and the
per-process set `parse.initialized_dbs` (one database path, so one Boolean).  `parseOp` follows
`parser.parse` statement by statement, one function per SQL transaction; a transaction that raises
leaves the file as it was (the connection is dropped without `COMMIT`).

Abstractions (each is a hypothesis of the theorems, listed in the evidence, and exercised by the
correspondence run):

* a text is identified with its SHA-256 hash (`TextId`), a parsed tree with its structure (`TreeId`);
* `pf : Ver → TextId → Option TreeId` is the uncached parser `_parse` (`none` = syntax error);
* a data blob is what `pickle.loads` does with it: returns a tree, returns `None`, or raises;
* a file that does not exist, or is empty, is a database without tables (what `sqlite3.connect` makes of it);
  a file on which `PRAGMA integrity_check` raises `DatabaseError` or answers anything but `ok` is `garbage`;
* table layouts: the expected one, the same columns without the primary key (`noPk`: statements work,
  `INSERT OR REPLACE` appends), the expected columns plus a NOT NULL column without default (`extraCol`:
  SELECT/UPDATE/DELETE work, the INSERT of `parse` raises), anything else (`alien`: every statement of
  `parse` on it raises);
* rows are kept in rowid order; time is in microseconds.
-/
namespace PymocaVerif.ParseCache

abbrev TextId := Nat
abbrev Ver := Nat
abbrev TreeId := Nat

/-- Exception classes `pickle.loads` raises on damaged blobs. -/
inductive Exc
  | unpickling | eof | attribute | moduleNotFound | type_ | value | index | key
  deriving DecidableEq, Repr

def Exc.all : List Exc := [.unpickling, .eof, .attribute, .moduleNotFound, .type_, .value, .index, .key]

/-- Does an `except <name>` clause catch `e`?  (Python's built-in hierarchy, for the names that can
    reasonably appear around `pickle.loads`; an unknown name catches nothing.) -/
def catches (name : String) (e : Exc) : Bool :=
  match name with
  | "Exception" | "BaseException" => true
  | "pickle.UnpicklingError" | "UnpicklingError" | "pickle.PickleError" | "PickleError" => e == .unpickling
  | "EOFError" => e == .eof
  | "AttributeError" => e == .attribute
  | "ImportError" | "ModuleNotFoundError" => e == .moduleNotFound
  | "TypeError" => e == .type_
  | "ValueError" => e == .value
  | "IndexError" => e == .index
  | "KeyError" => e == .key
  | "LookupError" => e == .index || e == .key
  | _ => false

/-- Facts about the source that the translator extracts (`Generated/SqlProgram.lean`). -/
structure Cfg where
  /-- the classes named in the `except` clause around `pickle.loads` -/
  caught : List String
  /-- `parse` catches a `DatabaseError` of the lookup in a process that had already initialised the database,
      discards the path from `initialized_dbs` and starts over once (the shape of proposed fix C01-1) -/
  recover : Bool := false
  /-- a `DatabaseError` of the cache *write* (the insert of a fresh tree) is not propagated: the tree is returned
      and the earlier check of the database is forgotten (the shape of proposed fix C01-2) -/
  writeTolerant : Bool := false
  deriving Repr

def Cfg.isCaught (cfg : Cfg) (e : Exc) : Bool := cfg.caught.any (catches · e)

inductive Blob
  | good (t : Option TreeId)   -- unpickles to a tree / to `None`
  | bad (e : Exc)              -- `pickle.loads` raises `e`
  deriving DecidableEq, Repr

structure Row where
  key : TextId
  ver : Ver
  blob : Blob
  lastHit : Int
  deriving DecidableEq, Repr

inductive Layout | ok | noPk | extraCol | alien
  deriving DecidableEq, Repr

structure Models where
  layout : Layout
  rows : List Row
  deriving DecidableEq, Repr

inductive MetaTbl
  | alien
  | ok (created lastPrune : Option Int)
  deriving DecidableEq, Repr

inductive DbFile
  | garbage
  | db (models : Option Models) (mt : Option MetaTbl)
  deriving DecidableEq, Repr

inductive Err
  | db                    -- sqlite3.DatabaseError (incl. OperationalError)
  | unpickle (e : Exc)    -- an exception of pickle.loads that the except clause does not catch
  deriving DecidableEq, Repr

inductive Res
  | value (t : Option TreeId)
  | raised (e : Err)
  deriving DecidableEq, Repr

structure St where
  file : DbFile
  init : Bool      -- full_db_path ∈ parse.initialized_dbs
  now : Int        -- clock, µs
  inc : Nat        -- the clock advances by this much at every read
  ver : Ver
  dirty : Bool     -- pymoca.__version__ ends with ".dirty"
  deriving DecidableEq, Repr

def St.initial (t0 : Int) : St := ⟨.db none none, false, t0, 0, 0, false⟩

def day : Int := 86400000000

/-- `_microseconds_since_epoch()`: one clock read. -/
def St.read (s : St) : Int × St := (s.now, { s with now := s.now + s.inc })

/-! ### SQL transactions on the abstract file (`.error` = the statement raised, nothing committed) -/

def matches_ (x : TextId) (v : Ver) (r : Row) : Bool := r.key == x && r.ver == v

/-- The `models` table if statements naming its columns work on it. -/
def DbFile.queryable : DbFile → Option Models
  | .db (some m) _ => if m.layout = .alien then none else some m
  | _ => none

/-- `PRAGMA integrity_check` and the `except sqlite3.DatabaseError` branch: close, `os.remove`, reconnect. -/
def txIntegrity : DbFile → DbFile
  | .garbage => .db none none
  | f => f

/-- first transaction of `_check_database_structure`: the `models` table. -/
def txCheckModels : DbFile → Except Err DbFile
  | .garbage => .error .db
  | .db (some m) t => if m.layout = .ok then .ok (.db (some m) t) else .ok (.db (some ⟨.ok, []⟩) t)
  | .db none t => .ok (.db (some ⟨.ok, []⟩) t)

/-- second transaction: the `metadata` table. -/
def txCheckMeta : DbFile → Except Err DbFile
  | .garbage => .error .db
  | .db m (some (.ok c p)) => .ok (.db m (some (.ok c p)))
  | .db m _ => .ok (.db m (some (.ok none none)))

/-- third transaction: `INSERT OR IGNORE` of `created_at`, `last_prune`. -/
def txMetaDefaults (t1 t2 : Int) : DbFile → Except Err DbFile
  | .db m (some (.ok c p)) => .ok (.db m (some (.ok (c.orElse fun _ => some t1) (p.orElse fun _ => some t2))))
  | _ => .error .db

/-- the prune transaction: `DELETE FROM models WHERE last_hit < ?`, `UPDATE metadata SET value = max(value+1, ?)`. -/
def txPrune (cutoff t : Int) : DbFile → Except Err DbFile
  | .db (some m) (some (.ok c p)) =>
    if m.layout = .alien then .error .db else
    .ok (.db (some { m with rows := m.rows.filter fun r => !(decide (r.lastHit < cutoff)) })
             (some (.ok c (p.map fun v => max (v + 1) t))))
  | _ => .error .db

/-- the lookup transaction: `SELECT last_hit, data … WHERE txt_hash=? AND pymoca_version=?`, `fetchone()`. -/
def txLookup (x : TextId) (v : Ver) (f : DbFile) : Except Err (Option (Int × Blob)) :=
  match f.queryable with
  | none => .error .db
  | some m => .ok ((m.rows.find? (matches_ x v)).map fun r => (r.lastHit, r.blob))

def DbFile.setRows (f : DbFile) (rows : List Row) : DbFile :=
  match f with
  | .db (some m) t => .db (some { m with rows := rows }) t
  | f => f

/-- `UPDATE models SET last_hit = max(last_hit + 1, ?) WHERE txt_hash = ? AND pymoca_version = ?` -/
def txTouch (x : TextId) (v : Ver) (t : Int) (f : DbFile) : Except Err DbFile :=
  match f.queryable with
  | none => .error .db
  | some m => .ok (f.setRows (m.rows.map fun r => if matches_ x v r then { r with lastHit := max (r.lastHit + 1) t } else r))

/-- `INSERT OR REPLACE INTO models …` -/
def txInsert (x : TextId) (v : Ver) (tree : TreeId) (t : Int) (f : DbFile) : Except Err DbFile :=
  match f.queryable with
  | none => .error .db
  | some m =>
    if m.layout = .extraCol then .error .db else     -- NOT NULL constraint failed (IntegrityError)
    let new : Row := ⟨x, v, .good (some tree), t⟩
    .ok (f.setRows ((if m.layout = .ok then m.rows.filter (fun r => !matches_ x v r) else m.rows) ++ [new]))

/-! ### `parse` -/

/-- the `if … not in parse.initialized_dbs` block.  On an exception the state reached so far is returned. -/
def initBlock (s : St) (days : Int) : Except (St × Err) St :=
  let s := { s with file := txIntegrity s.file }
  match txCheckModels s.file with
  | .error e => .error (s, e)
  | .ok f =>
  let s := { s with file := f }
  match txCheckMeta s.file with
  | .error e => .error (s, e)
  | .ok f =>
  let s := { s with file := f }
  let (t1, s) := s.read
  let (t2, s) := s.read
  match txMetaDefaults t1 t2 s.file with
  | .error e => .error (s, e)
  | .ok f =>
  let s := { s with file := f }
  let (tc, s) := s.read
  let (tp, s) := s.read
  match txPrune (tc - days * day) tp s.file with
  | .error e => .error (s, e)
  | .ok f => .ok { s with file := f, init := true }

/-- the part of `parse` after `tree = None` was possibly replaced by the unpickled entry. -/
def finish (cfg : Cfg) (pf : Ver → TextId → Option TreeId) (s : St) (x : TextId) (tree : Option TreeId) : St × Res :=
  match tree with
  | some t => (s, .value (some t))
  | none =>
    match pf s.ver x with
    | none => (s, .value none)
    | some t =>
      let (ti, s) := s.read
      match txInsert x s.ver t ti s.file with
      | .error e => if cfg.writeTolerant then ({ s with init := false }, .value (some t)) else (s, .raised e)
      | .ok f => ({ s with file := f }, .value (some t))

/-- the `yesterday` read and the conditional `UPDATE … last_hit` of a found entry -/
def touchStep (s : St) (x : TextId) (upd : Bool) (lastHit : Int) : Except (St × Err) St :=
  let (ty, s) := s.read
  if upd || decide (lastHit < ty - day) then
    let (tu, s) := s.read
    match txTouch x s.ver tu s.file with
    | .error e => .error (s, e)
    | .ok f => .ok { s with file := f }
  else .ok s

/-- the part of `parse` after the initialisation block: lookup, optional `last_hit` update, unpickle, and
    (on a miss) fresh parse and insert. -/
def afterInit (cfg : Cfg) (pf : Ver → TextId → Option TreeId) (s : St) (x : TextId) (upd : Bool) : St × Res :=
  match txLookup x s.ver s.file with
  | .error e => (s, .raised e)
  | .ok none => finish cfg pf s x none
  | .ok (some (lastHit, blob)) =>
    match touchStep s x upd lastHit with
    | .error (s, e) => (s, .raised e)
    | .ok s =>
      match blob with
      | .good t => finish cfg pf s x t
      | .bad e => if cfg.isCaught e then finish cfg pf s x none else (s, .raised (.unpickle e))

/-- `parse(txt, cache_expiration_days=days, always_update_last_hit=upd)` with a clean version.
    With `cfg.recover`: when the process had the database initialised and the lookup raises (the `models`
    table cannot be queried), the earlier check is forgotten and the call starts over, once. -/
def parseCached (cfg : Cfg) (pf : Ver → TextId → Option TreeId) (s : St) (x : TextId) (days : Int) (upd : Bool) :
    St × Res :=
  match (if s.init then .ok s else initBlock s days) with
  | .error (s1, e) => (s1, .raised e)
  | .ok s1 =>
    if cfg.recover && s.init && s1.file.queryable.isNone then
      match initBlock { s1 with init := false } days with
      | .error (s2, e) => (s2, .raised e)
      | .ok s2 => afterInit cfg pf s2 x upd
    else afterInit cfg pf s1 x upd

/-! ### Operations of a cache history -/

inductive Tbl | models | metadata
  deriving DecidableEq, Repr

inductive LayoutDamage | drop | alien | noPk | extraCol | delCreated | delPrune
  deriving DecidableEq, Repr

inductive FileDamage | delete | empty | text | header | freelist
  deriving DecidableEq, Repr

inductive Op
  | parse (x : TextId) (days : Int) (upd bypass : Bool)
  | reload
  | setVersion (v : Ver) (dirty : Bool)
  | tick (us : Nat)
  | setInc (us : Nat)
  | corruptEntry (x : TextId) (v : Ver) (b : Blob)
  | corruptLayout (t : Tbl) (how : LayoutDamage)
  | corruptFile (how : FileDamage)
  | foreignWrite (x : TextId) (v : Ver) (daysAgo : Int)
  deriving DecidableEq, Repr

def damageLayout (t : Tbl) (how : LayoutDamage) : DbFile → DbFile
  | .garbage => .garbage
  | .db m mt =>
    match t, how with
    | .models, .drop => .db none mt
    | .models, .alien => .db (some ⟨.alien, []⟩) mt
    | .models, .noPk =>
      .db (some ⟨.noPk, match m with | some mm => (if mm.layout = .alien then [] else mm.rows) | none => []⟩) mt
    | .models, .extraCol =>
      .db (some ⟨.extraCol, match m with | some mm => (if mm.layout = .alien then [] else mm.rows) | none => []⟩) mt
    | .models, _ => .db m mt
    | .metadata, .drop => .db m none
    | .metadata, .alien => .db m (some .alien)
    | .metadata, .delCreated => .db m (match mt with | some (.ok _ p) => some (.ok none p) | o => o)
    | .metadata, .delPrune => .db m (match mt with | some (.ok c _) => some (.ok c none) | o => o)
    | .metadata, .noPk => .db m mt
    | .metadata, .extraCol => .db m mt

/-- `freelist`: a header field is changed so that the file still opens and its tables can be read, but
    `PRAGMA integrity_check` answers rows other than `ok` (no exception) — `parse` then raises the
    `DatabaseError` itself.  (Abstraction: such a file is `garbage`; the harness lets this damage happen only
    when the process does not hold the database initialised, where the two coincide.) -/
def damageFile : FileDamage → DbFile
  | .delete | .empty => .db none none
  | .text | .header | .freelist => .garbage

def damageEntry (x : TextId) (v : Ver) (b : Blob) (f : DbFile) : DbFile :=
  match f.queryable with
  | none => f
  | some m => f.setRows (m.rows.map fun r => if matches_ x v r then { r with blob := b } else r)

/-- another pymoca (version `v`) stores its own tree for text `x`. -/
def foreignWrite (pf : Ver → TextId → Option TreeId) (x : TextId) (v : Ver) (lastHit : Int) (f : DbFile) : DbFile :=
  match pf v x with
  | none => f
  | some t =>
    match txInsert x v t lastHit f with
    | .ok f' => f'
    | .error _ => f

def step (cfg : Cfg) (pf : Ver → TextId → Option TreeId) (s : St) : Op → St × Option Res
  | .parse x days upd bypass =>
    if bypass || s.dirty then (s, some (.value (pf s.ver x)))
    else let (s', r) := parseCached cfg pf s x days upd; (s', some r)
  | .reload => ({ s with init := false }, none)
  | .setVersion v d => ({ s with ver := v, dirty := d }, none)
  | .tick us => ({ s with now := s.now + us }, none)
  | .setInc us => ({ s with inc := us }, none)
  | .corruptEntry x v b => ({ s with file := damageEntry x v b s.file }, none)
  | .corruptLayout t how => ({ s with file := damageLayout t how s.file }, none)
  | .corruptFile how => ({ s with file := damageFile how }, none)
  | .foreignWrite x v d => ({ s with file := foreignWrite pf x v (s.now - d * day) s.file }, none)

/-- Run a history; the outcome of every operation, in order. -/
def run (cfg : Cfg) (pf : Ver → TextId → Option TreeId) : St → List Op → List (St × Option Res)
  | _, [] => []
  | s, op :: ops => let (s', r) := step cfg pf s op; (s', r) :: run cfg pf s' ops

def finalState (cfg : Cfg) (pf : Ver → TextId → Option TreeId) : St → List Op → St
  | s, [] => s
  | s, op :: ops => finalState cfg pf (step cfg pf s op).1 ops

end PymocaVerif.ParseCache
