import PymocaVerif.Lemmas.SimplifyBase
/-!
# Simplify: the passes that substitute or move variables — both directions, and counting
Helper lemmas for C14/C15.
-/
set_option linter.unusedSectionVars false
set_option linter.unusedSimpArgs false
namespace PymocaVerif.Simplify
open PymocaVerif.AliasRel Lean.Grind

variable {K : Type} [Field K] [DecidableEq K]

/-! ## resolve_parameter_values -/

theorem valueOf_spec (m : Model K) (n : String) (t : Ex K) (h : valueOf m n = some t) :
    ∃ v ∈ m.params ++ m.consts, v.name = n ∧ v.value = some t := by
  unfold valueOf at h
  cases hf : (m.params ++ m.consts).find? (·.name == n) with
  | none => simp [hf] at h
  | some v =>
    simp [hf] at h
    refine ⟨v, List.mem_of_find?_eq_some hf, ?_, h⟩
    have := List.find?_some hf
    simpa using this

/-- the bindings one round of the loop substitutes -/
def readyOf (m : Model K) (cur : List String) : List (String × Ex K) :=
  cur.filterMap fun n => match valueOf m n with
    | some (.const c) => some (n, Ex.const c)
    | _ => none

def nextOf (m : Model K) (cur : List String) : List String :=
  cur.filter fun n => match valueOf m n with
    | some (.const _) => false
    | _ => true

theorem resolveLoop_succ (E : Engine K) (f : Nat) (cur : List String) (m : Model K) :
    resolveLoop E (f + 1) cur m =
      if (readyOf m cur).isEmpty then m else resolveLoop E f (nextOf m cur) (substMeta E (readyOf m cur) m) := rfl

theorem readyOf_mem {m : Model K} {cur : List String} {p : String × Ex K} (hp : p ∈ readyOf m cur) :
    ∃ c, p.2 = Ex.const c ∧ ∃ v ∈ m.params ++ m.consts, v.name = p.1 ∧ v.value = some (Ex.const c) := by
  obtain ⟨n, _, hn⟩ := List.mem_filterMap.1 hp
  split at hn
  · rename_i c hv
    simp at hn; subst hn
    exact ⟨c, rfl, valueOf_spec m n _ hv⟩
  · simp at hn

theorem holds_ready {I : Interp K} {σ : Env K} {m : Model K} (hp : ValOk I σ m.params) (hc : ValOk I σ m.consts)
    (cur : List String) : HoldsL I σ (readyOf m cur) := by
  intro p hp'
  obtain ⟨c, hc', v, hv, hname, hval⟩ := readyOf_mem hp'
  have := (valok_append.2 ⟨hp, hc⟩) v hv _ hval
  rw [hc', ← hname]; exact this

theorem holds_ready_after {I : Interp K} {E : Engine K} (hE : EngineOk I E) {σ : Env K} {m : Model K}
    (l : List (String × Ex K)) (h : Sat I σ (substMeta E l m)) (cur : List String) : HoldsL I σ (readyOf m cur) := by
  intro p hp'
  obtain ⟨c, hc', v, hv, hname, hval⟩ := readyOf_mem hp'
  have hv'' : Var.mapValue (E.sub l) v ∈ (substMeta E l m).params ++ (substMeta E l m).consts := by
    simp only [substMeta, ← List.map_append]
    exact List.mem_map_of_mem hv
  have := (valok_append.2 ⟨h.params, h.consts⟩) _ hv'' (E.sub l (Ex.const c)) (by simp [Var.mapValue, hval])
  simp only [Var.mapValue, hname] at this
  rw [hc', this]
  simp [Engine.sub, hE.norm_eval, Ex.subst]

theorem resolveLoop_sat {I : Interp K} {E : Engine K} (hE : EngineOk I E) {σ : Env K} (fuel : Nat) (cur : List String)
    (m : Model K) : Sat I σ (resolveLoop E fuel cur m) ↔ Sat I σ m := by
  induction fuel generalizing cur m with
  | zero => simp [resolveLoop]
  | succ f ih =>
    rw [resolveLoop_succ]
    split
    · rfl
    · rw [ih]
      constructor
      · intro h
        exact (sat_substMeta hE (holds_ready_after hE _ h cur) m).1 h
      · intro h
        exact (sat_substMeta hE (holds_ready h.params h.consts cur) m).2 h

theorem resolve_sat {I : Interp K} {E : Engine K} (hE : EngineOk I E) {σ : Env K} (m : Model K) :
    Sat I σ (resolveParameterValues E m) ↔ Sat I σ m := resolveLoop_sat hE _ _ _

/-! ## the substitution fixpoint -/

theorem holdsL_zip_map {I : Interp K} {σ : Env K} {f : Ex K → Ex K} :
    ∀ (syms : List String) (vs : List (Ex K)), (∀ v ∈ vs, (f v).eval I σ = v.eval I σ) →
      HoldsL I σ (syms.zip vs) → HoldsL I σ (syms.zip (vs.map f))
  | [], _, _, _ => by intro p hp; simp at hp
  | _ :: _, [], _, _ => by intro p hp; simp at hp
  | s :: ss, v :: vs, hf, h => by
    intro p hp
    simp only [List.map_cons, List.zip_cons_cons, List.mem_cons] at hp
    rcases hp with rfl | hp
    · have := h (s, v) (by simp)
      simp only at this ⊢
      rw [this, hf v (by simp)]
    · exact holdsL_zip_map ss vs (fun v hv => hf v (List.mem_cons_of_mem _ hv))
        (fun p hp => h p (by simp [hp])) p hp

theorem fixValues_holds {I : Interp K} {E : Engine K} (hE : EngineOk I E) {σ : Env K} (syms : List String) :
    ∀ (fuel : Nat) (vs : List (Ex K)), HoldsL I σ (syms.zip vs) → HoldsL I σ (syms.zip (fixValues E syms fuel vs).1)
  | 0, vs, h => by simpa [fixValues] using h
  | fuel + 1, vs, h => by
    have h' : HoldsL I σ (syms.zip (vs.map (E.sub (syms.zip vs)))) :=
      holdsL_zip_map syms vs (fun v _ => sub_eval hE h v) h
    simp only [fixValues]
    split
    · exact h'
    · exact fixValues_holds hE syms fuel _ h'

theorem zip_fst_snd {α β} : ∀ (l : List (α × β)), (l.map (·.1)).zip (l.map (·.2)) = l
  | [] => rfl
  | p :: ps => by simp [zip_fst_snd ps]

theorem exprValues_holds {I : Interp K} {σ : Env K} {vs : List (Var K)} (h : ValOk I σ vs) :
    HoldsL I σ (exprValues vs) := by
  intro p hp
  obtain ⟨v, hv, hn⟩ := List.mem_filterMap.1 hp
  split at hn
  · rename_i e he
    split at hn
    · simp at hn
    · simp at hn; subst hn; exact h v hv e he
  · simp at hn

theorem sat_substEverywhere {I : Interp K} {E : Engine K} (hE : EngineOk I E) {σ : Env K} {l : List (String × Ex K)}
    (hl : HoldsL I σ l) (m : Model K) : Sat I σ (substEverywhere E l m) ↔ Sat I σ m := by
  unfold substEverywhere
  rw [sat_substMeta hE hl]
  have hf := fun e => sub_eval hE hl e
  constructor
  · intro h; exact ⟨(eqok_map hf).1 h.eqs, h.params, h.consts, h.alias⟩
  · intro h; exact ⟨(eqok_map hf).2 h.eqs, h.params, h.consts, h.alias⟩

/-- forward direction of replace_parameter_expressions -/
theorem pexpr_sound {I : Interp K} {E : Engine K} (hE : EngineOk I E) {σ : Env K} (m : Model K)
    (h : Sat I σ m) : Sat I σ (replaceParameterExpressions E m) := by
  have h1 : Sat I σ { m with params := m.params.filter Var.simple } :=
    ⟨h.eqs, valok_filter _ h.params, h.consts, h.alias⟩
  unfold replaceParameterExpressions
  simp only
  split
  · exact h1
  · have hl0 : HoldsL I σ ((List.map (·.1) (exprValues m.params)).zip (List.map (·.2) (exprValues m.params))) := by
      rw [zip_fst_snd]; exact exprValues_holds h.params
    have hl := fixValues_holds hE _ 100 _ hl0
    have := (sat_substEverywhere hE hl { m with params := m.params.filter Var.simple }).2 h1
    exact ⟨this.eqs, this.params, this.consts, this.alias⟩

/-- forward direction of replace_constant_expressions -/
theorem cexpr_sound {I : Interp K} {E : Engine K} (hE : EngineOk I E) {σ : Env K} (m : Model K)
    (h : Sat I σ m) : Sat I σ (replaceConstantExpressions E m) := by
  have h1 : Sat I σ { m with consts := m.consts.filter Var.simple } :=
    ⟨h.eqs, h.params, valok_filter _ h.consts, h.alias⟩
  unfold replaceConstantExpressions
  simp only
  split
  · exact h1
  · have hl0 : HoldsL I σ ((List.map (·.1) (exprValues m.consts)).zip (List.map (·.2) (exprValues m.consts))) := by
      rw [zip_fst_snd]; exact exprValues_holds h.consts
    have hl := fixValues_holds hE _ 100 _ hl0
    have := (sat_substEverywhere hE hl { m with consts := m.consts.filter Var.simple }).2 h1
    exact ⟨this.eqs, this.params, this.consts, this.alias⟩

/-! ## replace_parameter_values / replace_constant_values -/

theorem constValues_holds {I : Interp K} {σ : Env K} {vs : List (Var K)} (h : ValOk I σ vs) :
    HoldsL I σ (constValues vs) := by
  intro p hp
  obtain ⟨v, hv, hn⟩ := List.mem_filterMap.1 hp
  split at hn
  · rename_i c he
    simp at hn; subst hn; exact h v hv _ he
  · simp at hn

theorem pvalues_sound {I : Interp K} {E : Engine K} (hE : EngineOk I E) {σ : Env K} {m m' : Model K}
    (h : replaceParameterValues E m = .ok m') (hs : Sat I σ m) : Sat I σ m' := by
  unfold replaceParameterValues at h
  cases hr : removeAliased (m.params.filter hasConstValue) m.ar with
  | error err => simp [hr, bind, Except.bind] at h
  | ok ar =>
    simp [hr, bind, Except.bind, pure, Except.pure] at h
    subst h
    have hl := constValues_holds hs.params
    rw [sat_substMeta hE hl]
    exact ⟨(eqok_map (fun e => sub_eval hE hl e)).2 hs.eqs, valok_filter _ hs.params, hs.consts,
      removeAliased_aliasOk hs.alias hr⟩

theorem allValues_holds {I : Interp K} {σ : Env K} : ∀ {vs : List (Var K)} {l : List (String × Ex K)},
    allValues vs = .ok l → ValOk I σ vs → HoldsL I σ l
  | [], l, h, _ => by simp [allValues] at h; subst h; intro p hp; simp at hp
  | v :: vs, l, h, hv => by
    simp only [allValues] at h
    split at h
    · simp at h
    · rename_i e he
      cases hr : allValues vs with
      | error err => simp [hr, Except.map] at h
      | ok l' =>
        simp [hr, Except.map] at h; subst h
        intro p hp
        rcases List.mem_cons.1 hp with rfl | hp
        · exact hv v (by simp) e he
        · exact allValues_holds hr (fun w hw => hv w (List.mem_cons_of_mem _ hw)) p hp

theorem cvalues_sound {I : Interp K} {E : Engine K} (hE : EngineOk I E) {σ : Env K} {m m' : Model K}
    (h : replaceConstantValues E m = .ok m') (hs : Sat I σ m) : Sat I σ m' := by
  unfold replaceConstantValues at h
  cases hv : allValues (m.consts.filter Var.simple) with
  | error err => simp [hv, bind, Except.bind] at h
  | ok l =>
    cases hr : removeAliased (m.consts.filter Var.simple) m.ar with
    | error err => simp [hv, hr, bind, Except.bind] at h
    | ok ar =>
      simp [hv, hr, bind, Except.bind, pure, Except.pure] at h
      subst h
      have hl : HoldsL I σ l := allValues_holds hv (valok_filter _ hs.consts)
      rw [sat_substMeta hE hl]
      exact ⟨(eqok_map (fun e => sub_eval hE hl e)).2 hs.eqs, hs.params, valok_filter _ hs.consts,
        removeAliased_aliasOk hs.alias hr⟩

/-! ## eliminate_constant_assignments -/

/-- the recorded value is the one the equation forces -/
theorem constAssign_iff {I : Interp K} {σ : Env K} {algs : List String} {e : Ex K} {n : String} {c : K}
    (h : constAssign? algs e = some (n, c)) : e.eval I σ = 0 ↔ σ n = c := by
  unfold constAssign? at h
  split at h
  · split at h
    · simp at h; obtain ⟨rfl, rfl⟩ := h; simp [Ex.eval]
    · simp at h
  · rename_i o a b
    split at h
    · rename_i ho
      split at h
      · rename_i n' c'
        split at h
        · simp at h; obtain ⟨rfl, rfl⟩ := h
          rcases ho with rfl | rfl
          · simp [Ex.eval]; grind
          · simp [Ex.eval]; grind
        · simp at h
      · rename_i c' n'
        split at h
        · simp at h; obtain ⟨rfl, rfl⟩ := h
          rcases ho with rfl | rfl
          · simp [Ex.eval]; grind
          · simp [Ex.eval]; grind
        · simp at h
      · simp at h
    · simp at h
  · simp at h

theorem constAssign_mem {algs : List String} {e : Ex K} {n : String} {c : K}
    (h : constAssign? algs e = some (n, c)) : n ∈ algs := by
  unfold constAssign? at h
  split at h
  · split at h
    · simp at h; obtain ⟨rfl, _⟩ := h; assumption
    · simp at h
  · split at h
    · split at h
      · split at h
        · simp at h; obtain ⟨rfl, _⟩ := h; assumption
        · simp at h
      · split at h
        · simp at h; obtain ⟨rfl, _⟩ := h; assumption
        · simp at h
      · simp at h
    · simp at h
  · simp at h

theorem constLoop_cons_some {es : List (Ex K)} {algs : List (Var K)} {e : Ex K} {n : String} {c : K}
    (h : constAssign? (names algs) e = some (n, c)) :
    constLoop (e :: es) algs =
      ((constLoop es (algs.filter (·.name != n))).1,
       ((algs.filter (·.name == n)).map fun v => { v with value := some (Ex.const c) })
         ++ (constLoop es (algs.filter (·.name != n))).2.1,
       (constLoop es (algs.filter (·.name != n))).2.2) := by
  simp [constLoop, h]

theorem constLoop_cons_none {es : List (Ex K)} {algs : List (Var K)} {e : Ex K}
    (h : constAssign? (names algs) e = none) :
    constLoop (e :: es) algs = (e :: (constLoop es algs).1, (constLoop es algs).2.1, (constLoop es algs).2.2) := by
  simp [constLoop, h]

theorem eqok_cons {I : Interp K} {σ : Env K} {e : Ex K} {es : List (Ex K)} :
    EqOk I σ (e :: es) ↔ e.eval I σ = 0 ∧ EqOk I σ es := by
  simp [EqOk]

/-- the equations say exactly what the kept equations and the recorded constants say -/
theorem constLoop_iff {I : Interp K} {σ : Env K} : ∀ (es : List (Ex K)) (algs : List (Var K)),
    EqOk I σ es ↔ EqOk I σ (constLoop es algs).1 ∧ ValOk I σ (constLoop es algs).2.1
  | [], algs => by simp [constLoop, EqOk, ValOk]
  | e :: es, algs => by
    cases h : constAssign? (names algs) e with
    | none =>
      rw [constLoop_cons_none h, eqok_cons, eqok_cons, constLoop_iff es algs]
      simp only [and_assoc]
    | some p =>
      obtain ⟨n, c⟩ := p
      rw [constLoop_cons_some h, eqok_cons, constLoop_iff es (algs.filter (·.name != n)), valok_append,
        constAssign_iff (I := I) (σ := σ) h]
      have hmem : n ∈ names algs := constAssign_mem h
      obtain ⟨v, hv, hvn⟩ := List.mem_map.1 hmem
      have key : ValOk I σ ((algs.filter (·.name == n)).map fun v => { v with value := some (Ex.const c) }) ↔ σ n = c := by
        constructor
        · intro hval
          have hv' : ({ v with value := some (Ex.const c) } : Var K) ∈
              (algs.filter (·.name == n)).map fun v => { v with value := some (Ex.const c) } :=
            List.mem_map_of_mem (List.mem_filter.2 ⟨hv, by simp [hvn]⟩)
          have := hval _ hv' (Ex.const c) rfl
          simpa [hvn, Ex.eval] using this
        · intro hn w hw t ht
          obtain ⟨w0, hw0, rfl⟩ := List.mem_map.1 hw
          have hname : w0.name = n := by simpa using (List.mem_filter.1 hw0).2
          simp at ht; subst ht
          simp [hname, hn, Ex.eval]
      rw [key]
      constructor
      · rintro ⟨h1, h2, h3⟩; exact ⟨h2, h1, h3⟩
      · rintro ⟨h2, h1, h3⟩; exact ⟨h1, h2, h3⟩

/-- eliminate_constant_assignments neither loses nor invents solutions -/
theorem cassign_sat {I : Interp K} {σ : Env K} (m : Model K) :
    Sat I σ (eliminateConstantAssignments m) ↔ Sat I σ m := by
  unfold eliminateConstantAssignments
  constructor
  · intro h
    have hc := valok_append.1 h.consts
    exact ⟨(constLoop_iff m.eqs m.algs).2 ⟨h.eqs, hc.2⟩, h.params, hc.1, h.alias⟩
  · intro h
    have := (constLoop_iff (I := I) (σ := σ) m.eqs m.algs).1 h.eqs
    exact ⟨this.1, h.params, valok_append.2 ⟨h.consts, this.2⟩, h.alias⟩

/-! counting -/

theorem filter_name_nodup {vs : List (Var K)} (p : Var K → Bool) (h : (names vs).Nodup) : (names (vs.filter p)).Nodup := by
  unfold names at *
  exact List.Nodup.sublist (List.Sublist.map _ List.filter_sublist) h

theorem filter_name_count : ∀ {vs : List (Var K)} {n : String}, (names vs).Nodup → n ∈ names vs →
    (vs.filter (·.name == n)).length = 1 ∧ (vs.filter (·.name != n)).length + 1 = vs.length
  | [], n, _, hn => by simp [names] at hn
  | v :: vs, n, hnd, hn => by
    simp only [names, List.map_cons, List.nodup_cons, List.mem_cons] at hnd hn
    by_cases hv : v.name = n
    · have hnot : n ∉ List.map (·.name) vs := by rw [← hv]; exact hnd.1
      have h0 : vs.filter (·.name == n) = [] := by
        rw [List.filter_eq_nil_iff]
        intro w hw hwn
        exact hnot (List.mem_map.2 ⟨w, hw, by simpa using hwn⟩)
      have h1 : vs.filter (·.name != n) = vs := by
        rw [List.filter_eq_self]
        intro w hw
        have : w.name ≠ n := fun hwn => hnot (List.mem_map.2 ⟨w, hw, hwn⟩)
        simpa using this
      have e1 : (v.name == n) = true := by simpa using hv
      have e2 : (v.name != n) = false := by simp [hv]
      simp only [List.filter_cons, e1, e2, h0, h1]
      simp
    · have hn' : n ∈ names vs := by
        rcases hn with h | h
        · exact absurd h.symm hv
        · exact h
      have ih := filter_name_count (vs := vs) (n := n) hnd.2 hn'
      have e1 : ¬ (v.name == n) = true := by simpa using hv
      have e2 : (v.name != n) = true := by simpa using hv
      have e1' : (v.name == n) = false := by simpa using e1
      simp only [List.filter_cons, e1', e2, if_true, List.length_cons]
      exact ⟨by simpa using ih.1, by omega⟩

/-- equations and unknowns leave in pairs -/
theorem constLoop_count : ∀ (es : List (Ex K)) (algs : List (Var K)), (names algs).Nodup →
    (constLoop es algs).1.length + (constLoop es algs).2.1.length = es.length ∧
    (constLoop es algs).2.2.length + (constLoop es algs).2.1.length = algs.length
  | [], algs, _ => by simp [constLoop]
  | e :: es, algs, hnd => by
    cases h : constAssign? (names algs) e with
    | none =>
      rw [constLoop_cons_none h]
      have ih := constLoop_count es algs hnd
      simp only [List.length_cons]
      omega
    | some p =>
      obtain ⟨n, c⟩ := p
      rw [constLoop_cons_some h]
      have hc := filter_name_count hnd (constAssign_mem h)
      have ih := constLoop_count es (algs.filter (·.name != n)) (filter_name_nodup _ hnd)
      simp only [List.length_append, List.length_map, List.length_cons]
      omega

end PymocaVerif.Simplify
