/-! Driver for C23 (stub: not built yet). -/
def main : IO Unit := pure ()
