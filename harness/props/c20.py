"""C20 — the model cache is never used when stale.

Direct oracle: histories on real folders under `ctx.scratch` (model folder + two library
folders) with modification times set by `os.utime` from a logical clock: rewrite / add `.mo`
files (always with a time strictly later than the cache file's), change options, change the
pymoca version (`api.__version__`), call `transfer_model` (cache; sampled codegen).  After every
`transfer_model` the returned model must equal — `harness.gen.a12_cache.signature`, exact — a
fresh compile of the current sources with the current options (same rewritten options,
caching off), and must not raise.  A cache file written by a call gets the next clock tick as
its modification time (the real-world order: the cache is written after the sources it was
compiled from).

Tie: the same history, in logical ticks and content ids, is replayed on the Lean state machine
`PymocaVerif.CacheState` (driver `drv_c20`); for every `transfer_model` call the decision
(hit / recompiled — observed through a spy on `api.load_model`; the reason, read off the message text,
is kept in the evidence only) and the model's verdict "result differs from the current compile" are
compared with the real code.

Option-sweep stream: one option key flipped between two calls on one folder (and back), for a
model on which almost every key changes the compile; `expand_mx` under codegen (caching forces
it, code generation does not).

Separate streams for the two open findings (see `known/C20.json`): switching
`library_folders` (C20-F1) and a code-generated model kept alive across a recompile (C20-F2).
"""
import gc
import os
import shutil

from harness.common import HarnessError
from harness.gen import a12_cache as G

DRIVERS = ["drv_c20"]
RULE = ("one case = one transfer_model call at the end of a history prefix (histories of 8-14 ops quick / 20-30 thorough over "
        "edit-main, edit-library, add file (also nested), touch, option change, version change, transfer); non-trivial = a cache "
        "file existed before the call; distinct = distinct (history id, step)")
TRUSTED = ["a pymoca version change is simulated by changing `api.__version__` and wrapping `api._compile_model` so that the compiled model records the version that compiled it (otherwise a different version would compile identically and a stale hit would be invisible)",
           "os.utime/os.path.getmtime and the file system keep modification times that differ by >= 1 microsecond distinct",
           "the fresh compile used as reference is pymoca's own _compile_model (via transfer_model with caching off)"]
ASSUMPTIONS = ["no source is edited while mtime_check is False (the documented opt-out of the source scan); version and option changes are still exercised with it off (stream mtime-check-off)",
               "modification times differ by at least 1 microsecond: load_model compares os.path.getmtime floats (~240 ns resolution)",
               "files are rewritten or added, never deleted or given an older time than the cache (the property's hypothesis)",
               "main stream: library_folders is the same list in every call of one history (forced by the proof; the other case is finding C20-F1)",
               "main stream: no CachedModel loaded from shared libraries is kept alive across a recompile (finding C20-F2)"]

LIB_TEXT = """model Lib0
  parameter Real k = %s;
  Real z(max = %s);
equation
  z = %s*k;
end Lib0;
"""
OTHER_TEXT = "model Other%d\n  Real q;\nequation\n  q = %s;\nend Other%d;\n"


# ---------------------------------------------------------------------------------------------
# history generation (plain data: replayable)
# ---------------------------------------------------------------------------------------------
def _main_text(rng, use_lib):
    gm = G.gen_model(rng, size=1, want=rng.choice([["alias", "array"], ["alias"], ["array"], []]))
    t = gm["text"]
    if use_lib:
        t = t.replace("model M\n", "model M\n  Lib0 lc0;\n", 1)
    return t


def _lib_text(rng):
    return LIB_TEXT % (G._num(rng), rng.choice(["4", "k", "2*k", "k + 1"]), G._num(rng).lstrip("-"))


def gen_history(rng, length, stream="main"):
    libs = rng.choice([[], [1], [1, 2], [2]])
    use_lib = bool(libs) and rng.random() < 0.75
    lib_folder = libs[0] if use_lib else None
    if not use_lib and rng.random() < 0.3:
        use_lib, lib_folder = True, 0          # library class kept in the model folder itself
    ops = [["write", 0, "M.mo", _main_text(rng, use_lib), 1]]
    lib_rel = rng.choice(["Lib0.mo", "Lib0.mo", "sub/Lib0.mo", "sub/deep/Lib0.mo"])   # os.walk must descend
    if use_lib:
        ops.append(["write", lib_folder, lib_rel, _lib_text(rng), rng.choice([1, 1, 5])])
    for f in (1, 2):
        if rng.random() < 0.5:
            ops.append(["write", f, "Other%d.mo" % f, OTHER_TEXT % (f, G._num(rng), f), 1])
    import zlib
    if use_lib and zlib.crc32(ops[0][3].encode()) % 5 < 2:
        # two source files with the same base name in different directories (the usual `package.mo` situation): a file of
        # an unrelated class, walked BEFORE the library file and named like it (decided from the text, not from the
        # PRNG, so that the rest of the history is the one generated before this was added)
        twin = {"Lib0.mo": "sub/Lib0.mo", "sub/Lib0.mo": "Lib0.mo", "sub/deep/Lib0.mo": "sub/Lib0.mo"}[lib_rel] \
            if lib_folder == 0 and lib_rel != "Lib0.mo" else ("Lib0.mo" if lib_folder != 0 else None)
        if twin is not None:
            ops.append(["write", 0, twin, OTHER_TEXT % (77, "1.5", 77), 1])
    opts = G.gen_options(rng, heavy=0.3)
    mode = "cache"
    ops.append(["options", dict(opts)])
    ops.append(["transfer", mode])
    nextra = 0
    while len(ops) < length:
        # blocks: (usually) make sure the cache is fresh, apply one or two changes, transfer
        if ops[-1][0] != "transfer" or rng.random() < 0.25:
            ops.append(["transfer", mode])
        for _ in range(1 if rng.random() < 0.8 else 2):
            r = rng.random()
            if r < 0.24:
                ops.append(["write", 0, "M.mo", _main_text(rng, use_lib), rng.choice([1, 1, 1, 3, 1000])])
            elif r < 0.40 and use_lib:
                ops.append(["write", lib_folder, lib_rel, _lib_text(rng), rng.choice([1, 1, 2])])
            elif r < 0.50:
                nextra += 1
                f = rng.choice([0] + libs + [rng.choice([1, 2])])
                rel = rng.choice(["Extra%d.mo", "sub/Extra%d.mo", "sub/deep/Extra%d.mo"]) % nextra
                ops.append(["write", f, rel, OTHER_TEXT % (100 + nextra, G._num(rng), 100 + nextra), 1])
            elif r < 0.55:
                ops.append(["touch", rng.choice([0] + libs)])
            elif r < 0.85:
                o = dict(opts)
                # mostly the flags that change what these models compile to
                k = rng.choice(["detect_aliases", "expand_vectors", "detect_aliases", "expand_vectors", "replace_constant_values",
                                "replace_parameter_expressions"] + G.SIMPLIFY_FLAGS + ["check_balanced"])
                o[k] = not o.get(k, k == "check_balanced")
                if rng.random() < 0.1:
                    o["expand_mx"] = not o.get("expand_mx", False)
                opts = o
                ops.append(["options", dict(opts)])
            elif r < 0.97:
                ops.append(["version", "verif-%d" % rng.randint(1, 3)])
            elif stream == "thorough-codegen":
                mode = "codegen" if mode == "cache" else "cache"
        ops.append(["transfer", mode])
    ops.append(["transfer", mode])
    h = {"stream": stream, "libs": libs, "step_ns": rng.choice([10**3, 10**6, 10**6, 10**9]), "ops": ops}
    if rng.random() < 0.2:
        h["base_ns"] = FUTURE_NS       # every file (and the cache) stamped later than the wall clock
    return h


def gen_f1_history(rng):
    """C20-F1: the library folder list changes to folders whose files are older than the cache."""
    la = _lib_text(rng)
    lb = _lib_text(rng)
    while lb == la:
        lb = _lib_text(rng)
    ops = [["write", 0, "M.mo", _main_text(rng, True), 1],
           ["write", 1, "Lib0.mo", la, 1], ["write", 2, "Lib0.mo", lb, 1],
           ["options", G.gen_options(rng, heavy=0.2)], ["libs", [1]], ["transfer", "cache"], ["transfer", "cache"],
           ["libs", [2]], ["transfer", "cache"], ["libs", [1]], ["transfer", "cache"]]
    return {"stream": "F1-library-folders", "libs": [1], "step_ns": 10**6, "ops": ops}


SWEEP_TEXT = """model M
  parameter Real p0 = 2;
  parameter Real p1;
  parameter Real pd = 2*p0;
  constant Real c0 = 3;
  constant Real c1 = 6;
  Real x(start = p0, max = pd);
  Real y(nominal = p0 + p1);
  Real w[2](each min = p0);
  Real a;
  Real b;
  Real k;
  Real z;
  input Real u(fixed = true);
  output Real o;
equation
  der(x) = -p0*x + c1 + u;
  w[1] = 4.0;
  w[2] = x*p1;
  a = b;
  b = -y;
  k = 2.0;
  2*(z - x) = 0;
  y = x + k + c0;
  o = z + w[2];
end M;
"""
SWEEP_SMALL = "model M\n  Real x;\n  Real w[2];\nequation\n  der(x) = -x;\n  w[1] = 4.0;\n  w[2] = x;\nend M;\n"
SWEEP_BASES = [{}, {"expand_vectors": True, "eliminate_constant_assignments": True}]


def gen_sweep_history(key, base, mode, text=SWEEP_TEXT):
    """One option key changed between two calls on one folder (and back): the cache written for the other value
    must not be served unless the compile is the same.  `expand_mx` only matters under codegen (caching forces it)."""
    ops = [["write", 0, "M.mo", text, 1], ["options", dict(base)], ["transfer", mode],
           ["options", G.flip(base, key)], ["transfer", mode], ["options", dict(base)], ["transfer", mode]]
    return {"stream": "option-sweep", "libs": [], "step_ns": 10**6, "ops": ops}


ITER_TEXT = """model M
  Real x(start = 0);
  Real z;
  Real f;
  Real g;
  Real h;
equation
  der(x) = 10 + z;
  f = 0;
  g = 1;
  f = (z-h);
  h = g;
end M;
"""
ITER_BASE = {"eliminate_constant_assignments": True, "factor_and_simplify_equations": True, "replace_constant_expressions": True,
             "replace_constant_values": True, "detect_aliases": True}
FUTURE_NS = 2_200_000_000 * 10**9       # year 2039: later than any wall clock this runs under


def gen_libedit_history(rng, variant):
    """Fixed part of every run: the model really uses a class of a library folder, and that file is edited.
    variants: plain library folder; nested file; library directory reached through a symbolic link inside the
    model folder (os.walk(followlinks=True)); all modification times in the future."""
    lib, rel = 1, "Lib0.mo"
    pre = []
    libs = [1]
    if variant == "nested":
        rel = "sub/deep/Lib0.mo"
    if variant == "second-folder":
        lib, libs = 2, [1, 2]
    if variant == "symlink":
        lib, libs = 2, []
        pre = [["symlink", 0, "linked", 2]]
    la = _lib_text(rng)
    lb = _lib_text(rng)
    while lb == la:
        lb = _lib_text(rng)
    ops = pre + [["write", 0, "M.mo", _main_text(rng, True), 1], ["write", lib, rel, la, 1],
                 ["options", G.gen_options(rng, heavy=0.2)], ["transfer", "cache"], ["transfer", "cache"],
                 ["write", lib, rel, lb, rng.choice([1, 2, 1000])], ["transfer", "cache"], ["transfer", "cache"],
                 ["write", lib, rel, la, 1], ["transfer", "cache"]]
    h = {"stream": "library-edit:" + variant, "libs": libs, "step_ns": 10**6, "ops": ops}
    if variant == "future":
        h["base_ns"] = FUTURE_NS
    return h


def gen_nomtime_history(rng):
    """`mtime_check = False` switches the source scan off (so no source is edited while it is off), nothing
    else: version changes and option changes must still be noticed."""
    base = dict(G.gen_options(rng, heavy=0.3), mtime_check=False)
    k = rng.choice(["detect_aliases", "expand_vectors", "replace_parameter_values", "eliminate_constant_assignments"])
    ops = [["write", 0, "M.mo", SWEEP_TEXT, 1], ["options", dict(base)], ["transfer", "cache"], ["transfer", "cache"],
           ["version", "verif-%d" % rng.randint(1, 3)], ["transfer", "cache"], ["transfer", "cache"],
           ["options", G.flip(base, k)], ["transfer", "cache"],
           ["version", "verif-%d" % rng.randint(4, 6)], ["transfer", "cache"], ["options", dict(base)], ["transfer", "cache"]]
    return {"stream": "mtime-check-off", "libs": [], "step_ns": 10**6, "ops": ops}


def gen_codegen_rebuild_history(rng):
    """codegen in ONE process: compile, hit (libraries loaded), edit the source and rebuild at the same paths, hit.
    No model of an earlier step is kept alive (that would be finding C20-F2), so the last hit must be the new code."""
    a = "model M\n  parameter Real p = 1;\n  Real x;\n  Real y;\nequation\n  der(x) = -p*x;\n  y = %s*x + p;\nend M;\n"
    k1, k2 = rng.sample(["2", "3", "5", "0.5", "8"], 2)
    ops = [["write", 0, "M.mo", a % k1, 1], ["options", {}], ["transfer", "codegen"], ["transfer", "codegen"],
           ["write", 0, "M.mo", a % k2, 1], ["transfer", "codegen"], ["transfer", "codegen"],
           ["options", {"detect_aliases": True}], ["transfer", "codegen"], ["transfer", "codegen"]]
    return {"stream": "codegen-rebuild", "libs": [], "step_ns": 10**6, "ops": ops}


def gen_f2_history(rng):
    """C20-F2: a CachedModel loaded from the shared libraries is alive while they are rebuilt."""
    a = "model M\n  parameter Real p = 1;\n  Real x;\nequation\n  x = %s*p;\nend M;\n"
    ops = [["write", 0, "M.mo", a % "2", 1], ["options", {}], ["transfer", "codegen"], ["transfer-keep", "codegen"],
           ["write", 0, "M.mo", a % "3", 1], ["transfer", "codegen"], ["transfer", "codegen"]]
    return {"stream": "F2-live-shared-library", "libs": [], "step_ns": 10**6, "ops": ops}


# ---------------------------------------------------------------------------------------------
def run_history(ctx, hist, drv, hid):
    """Replays a history on the real code; oracle after every transfer; then the model."""
    root = os.path.join(ctx.scratch, "h%05d" % hid)
    w = G.CacheWorld(root, step_ns=hist.get("step_ns", 10**6), version_marker=True, base_ns=hist.get("base_ns"))
    libs = list(hist["libs"])
    opts = {}
    kept = []           # models deliberately kept alive (F2 stream only)
    impl = []           # per transfer: (index in ops, kind, stale)
    last_text = {}
    ref_key, ref_sig = None, None
    changed_since_cache = False
    try:
        for i, op in enumerate(hist["ops"]):
            k = op[0]
            if k == "write":
                _, f, rel, text, dt = op
                w.write(f, rel, text, dt)
                last_text[(f, rel)] = text
                ref_key = None
            elif k == "symlink":
                w.symlink(op[1], op[2], op[3])
            elif k == "touch":
                cands = sorted(p for p in last_text if p[0] == op[1])
                if cands:
                    f, rel = cands[0]
                    w.write(f, rel, last_text[(f, rel)], 1)
                    ref_key = None
            elif k == "options":
                opts = dict(op[1])
                ref_key = None
            elif k == "libs":
                libs = list(op[1])
                ref_key = None
            elif k == "version":
                w.set_version(op[1])
                ref_key = None
            elif k in ("transfer", "transfer-keep"):
                mode = op[1]
                o = dict(opts)
                o[mode] = True
                had_cache = w.cache_stat() is not None
                ok, m, msg, kind = w.transfer(o, libs)
                case = {"stream": hist["stream"], "libs": hist["libs"], "step_ns": hist.get("step_ns", 10**6),
                        "base_ns": hist.get("base_ns"), "ops": hist["ops"][:i + 1]}
                ctx.case({"history": hid, "step": i, "ops": [x[0] for x in hist["ops"][:i + 1]]},
                         nontrivial=had_cache, key=[ctx.seed, hist["stream"], hid, i])
                ctx.count("decision:" + kind)
                ctx.count("mode:" + mode)
                if ref_key != mode:      # nothing changed since the last reference *and* same mode (caching forces expand_mx)
                    rok, rm, rmsg = w.reference(o, libs)
                    ref_sig = G.signature(rm, 2, 5) if rok else {"raised": rm}
                    ref_key = mode
                    del rm
                if not ok:
                    if "raised" in ref_sig and ref_sig["raised"] == m:
                        ctx.count("compile-raised-both:" + m)
                        impl.append((i, kind, False))
                        continue
                    ctx.violation("transfer_model raised %s (%s) where a fresh compile of the current sources %s" % (
                        m, msg, "succeeds" if "raised" not in ref_sig else "raises " + ref_sig["raised"]), case,
                        expected="the fresh compile", observed=m, kind="history")
                    return
                sig = G.signature(m, 2, 5)
                if k == "transfer-keep":
                    kept.append(m)
                del m
                if mode == "codegen" and not kept:
                    gc.collect()
                df = ["fresh compile raises %s, transfer_model returned a model" % ref_sig["raised"]] if "raised" in ref_sig \
                    else G.diff(ref_sig, sig)
                impl.append((i, kind, bool(df)))
                if df:
                    ctx.violation("transfer_model returned a model that differs from a fresh compile of the current sources "
                                  "(decision: %s): %s" % (kind, df[0]), case, expected="fresh compile", observed=df, kind="history")
                    if hist["stream"] in ("main", "option-sweep", "thorough-codegen", "mtime-check-off", "codegen-rebuild") or hist["stream"].startswith("library-edit"):
                        return
            else:
                raise HarnessError("unknown op " + str(k))
        # ---- the Lean model on the same history --------------------------------------------------
        if drv is not None and hist["stream"] != "F2-live-shared-library":
            ans = drv.ask({"op": "cache.run", "excl": True, "version": 1, "errs": [],
                           "err_default": {"mro": ["UnpicklingError", "PickleError", "Exception"], "deser": False},
                           "ops": w.model_ops})
            if not ans.get("ok"):
                raise HarnessError("drv_c20 rejected the history: %s" % ans)
            msteps = [s for s in ans["steps"] if "kind" in s]
            if len(msteps) != len(impl):
                raise HarnessError("model/impl transfer count differs")
            for (i, kind, stale), ms in zip(impl, msteps):
                case = {"stream": hist["stream"], "libs": hist["libs"], "step_ns": hist.get("step_ns", 10**6),
                        "ops": hist["ops"][:i + 1]}
                if G.coarse(ms["kind"]) != G.coarse(kind) and not kind.startswith("raised"):
                    ctx.disagreement("cache.decision", case, ms["kind"], kind)
                    return
                if ms["kind"] != kind:
                    ctx.count("reason-differs-from-model(info):%s/%s" % (ms["kind"], kind))
                if bool(ms.get("stale", False)) != stale:
                    ctx.disagreement("cache.stale", case, ms.get("stale", False), stale)
                    return
    finally:
        w.close()
        kept.clear()
        gc.collect()
        shutil.rmtree(root, ignore_errors=True)


def run(ctx):
    G.quiet_logging()
    drv = ctx.driver("drv_c20")
    quick = ctx.tier == "quick"
    from harness import corpus
    hid = 0
    deferred = []
    for c in corpus.load("C20"):
        h = c["case"] if "case" in c else c
        if quick and any(op[0].startswith("transfer") and op[1] == "codegen" for op in h["ops"]):
            deferred.append(h)     # gcc runs: replayed at the end of the quick tier if time remains
            continue
        hid += 1
        ctx.count("corpus")
        run_history(ctx, h, drv, hid)
    # fixed part of every run: an edit of a library class the model uses (four ways of reaching the file)
    for variant in (["plain", "symlink", "future", "nested"] if quick else ["plain", "symlink", "future", "nested", "second-folder"] * 4):
        hid += 1
        ctx.count("stream:library-edit:" + variant)
        run_history(ctx, gen_libedit_history(ctx.rng, variant), drv, hid)
    for _ in range(1 if quick else 4):
        hid += 1
        ctx.count("stream:codegen-rebuild")
        run_history(ctx, gen_codegen_rebuild_history(ctx.rng), drv, hid)
    for _ in range(1 if quick else 8):
        hid += 1
        ctx.count("stream:mtime-check-off")
        run_history(ctx, gen_nomtime_history(ctx.rng), drv, hid)
    # known-finding streams, kept apart from the main stream
    for _ in range(2 if quick else 12):
        hid += 1
        ctx.count("stream:F1")
        run_history(ctx, gen_f1_history(ctx.rng), drv, hid)
    if not quick:
        hid += 1
        ctx.count("stream:F2")
        run_history(ctx, gen_f2_history(ctx.rng), drv, hid)
    # one option key changed between calls: a sample of keys (all of them in the thorough tier), and always
    # `expand_mx` under codegen, where caching does not force it
    sweep = [(k, SWEEP_BASES[j % 2], "cache", SWEEP_TEXT) for j, k in enumerate(G.FLIP_KEYS)]
    if quick:
        sweep = ctx.rng.sample(sweep, 4)
    # an option that is not among pymoca's defaults, going from absent to True and back
    sweep.insert(0, ("iterative_simplification", ITER_BASE, "cache", ITER_TEXT))
    sweep.insert(0, ("expand_mx", SWEEP_BASES[1], "codegen", SWEEP_SMALL))
    if not quick:
        sweep += [(k, SWEEP_BASES[1], "codegen", SWEEP_SMALL) for k in ("expand_vectors", "eliminate_constant_assignments", "detect_aliases")]
    for key, base, mode, text in sweep:
        hid += 1
        ctx.count("stream:option-sweep")
        ctx.count("sweep:%s:%s" % (mode, key))
        run_history(ctx, gen_sweep_history(key, base, mode, text), drv, hid)
    n, lo, hi = (100, 8, 14) if quick else (500, 20, 30)
    slack = 14 if quick else 30
    for j in range(n):
        if ctx.time_left() < slack:
            ctx.notes.append("histories stopped by the time budget after %d of %d" % (j, n))
            break
        hid += 1
        stream = "thorough-codegen" if (not quick and j % 25 == 0) else "main"
        ctx.count("stream:" + stream)
        h = gen_history(ctx.rng, ctx.rng.randint(lo, hi), stream)
        if stream == "thorough-codegen":
            h["ops"][[x[0] for x in h["ops"]].index("transfer")] = ["transfer", "codegen"]
            h["ops"].append(["transfer", "codegen"])
        run_history(ctx, h, drv, hid)
    for h in deferred:
        if ctx.time_left() > 6:
            hid += 1
            ctx.count("corpus")
            run_history(ctx, h, drv, hid)
        else:
            ctx.notes.append("a corpus history that needs gcc was skipped for lack of time (quick tier)")
    ctx.extra["exhaustive"] = False


def search(ctx):
    G.quiet_logging()
    hid = 100000
    while ctx.time_left() > 0 and not ctx.violations:
        hid += 1
        run_history(ctx, gen_history(ctx.rng, ctx.rng.randint(10, 24)), None, hid)


def replay(ctx, payload):
    G.quiet_logging()
    run_history(ctx, payload["case"], ctx.driver("drv_c20"), 1)


MANIFEST = dict(
    level_text="Lean 4 theorems about a state machine of the model cache (sources with modification times in the model and library "
               "folders, options, version, cache file): `Fresh` is an invariant of every history whose edits are later than the cache, "
               "and every transfer_model of such a history returns the compile of the current sources/options/version, by induction "
               "over unbounded histories; the hypothesis forced by the proof (library_folders is left out of the option comparison) "
               "is shown necessary by a counterexample theorem. Tied per run to the real code by replaying generated histories on real "
               "folders with os.utime-controlled times (decision and staleness of every call compared with the model) and a direct "
               "oracle: result == fresh compile.",
    level_note="Trusted: Lean kernel + standard axioms; the harness; the file system's mtime resolution (>= 1 us steps); pymoca's own "
               "compiler as the reference. Open findings C20-F1 (library_folders switch) and C20-F2 (live shared library) are "
               "reproduced in separate streams.",
    technique="Lean 4 proof (invariant over operation histories) + model/implementation correspondence on real folders + differential oracle",
)
READY = True
