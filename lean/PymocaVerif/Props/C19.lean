/-! # C19 — property theorems (stub: not built yet) -/
