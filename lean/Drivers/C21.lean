import Drivers.Proto
import PymocaVerif.Model.CacheStateJson
/-! Driver for C21: crash / truncation histories on the `CacheState` model, the exception
    conversion of `load_model`, and two-call schedules on the byte-level `CacheFile` model. -/
open Lean Drivers

def handle (req : Json) : Except String Json := do
  match ← getStr req "op" with
  | "cache.run" => PymocaVerif.CacheState.runJson req
  | "cache.convert" => PymocaVerif.CacheState.convertJson req
  | "file.run" => PymocaVerif.CacheFile.fileRunJson req
  | o => throw s!"unknown-op {o}"

def main : IO Unit := serve handle
