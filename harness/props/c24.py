"""C24 — the SymPy backend emits code with the flat model's meaning.

Direct oracle (real code only): a generated Modelica model is parsed and flattened by pymoca,
`pymoca.backends.sympy.generator.generate` produces the module text, the text must `compile()`,
it is executed in a stub namespace (`OdeModel`/`mech`/`sympy` whose symbols record the
expression tree CPython builds), every element of `eqs` is evaluated exactly (Fraction) at
three points and compared with lhs - rhs of the flat equation evaluated by an independent
evaluator over the flat pymoca AST; the x/v/c/p/u/y lists are compared with the flat model's
prefixes; the Python identifiers and the sympy names must be pairwise distinct.

Tie: the Lean model `PyPrint` (printer, mangling, classification, Python expression grammar,
evaluator; driver `drv_c24`) gets the same flat model and must give the same identifiers, the
same sympy name strings, the same equation text as a Python token stream (blanks, line layout and
comments are free); its parser, run on
CPython's token list of the real text, must give CPython's tree; its evaluator must give the
oracle's values.  A second stream ties the grammar instance itself to CPython (minimal and
redundant parenthesisations of random trees).
"""
import copy
import json
import random
from fractions import Fraction

from harness.common import HarnessError
from harness.gen import c24lib as L

DRIVERS = ["drv_c24"]
RULE = ("one case = one generated Modelica model (3-7 equations over + - * / ^, unary sign, der, sin/cos/tan, time, "
        "literals incl. 7-17 significant digits, exponent forms, large and small magnitudes; plain, underscore, builtin-like and dotted names; parameter/constant/input/output/state/plain "
        "variables, each category also inside sub-components; der of states and of products/sums/differences/powers of "
        "states) pushed through parse, flatten, SymPy generate, compile, stubbed execution and exact evaluation at 3 "
        "points, plus the model correspondence; streams: main (arbitrary nesting unless the unparenthesised printer is "
        "detected), nested (operands that need parentheses), collide (names with equal mangling: open finding C24-F2), "
        "value (expression-valued parameters), reserved (Python keywords / template names), other-prefix (discrete) "
        "— the last four are regression streams of the fixed findings C24-F1/F3/F4/F5; grammar cases = random Python expression texts compared "
        "between CPython and the model parser. non-trivial = at least one equation of depth >= 2 was evaluated at a "
        "point where the reference is defined (grammar case: at least two operators); distinct = distinct case")
TRUSTED = ["CPython's tokenizer and parser (the Lean grammar instance is compared with them on every generated equation "
           "and on random parenthesisations, not proved equal to them)",
           "the stub namespace standing in for sympy / sympy.physics.mechanics / OdeModel (records trees; numeric "
           "literals of the generated text are wrapped into exact numbers on CPython's own parse tree)",
           "sin/cos/tan are compared by identity of the operator (injective affine stand-ins), not by value"]
ASSUMPTIONS = ["subset of the backend: scalar Real variables, equations over + - * / ^, unary + -, der of a variable, "
               "sin/cos/tan (the functions the generated module imports), time, unsigned literals; no arrays, if, "
               "relations, strings, functions, when",
               "the lists are compared as collections (order is compared only against the model)",
               "exponents are evaluated only where they are integers of modulus <= 24"]

PLAIN = ["x", "y", "z", "w", "q", "r", "s", "th", "om", "vel", "h", "g", "m", "k1", "k2", "T", "phi"]
UNDER = ["a_b", "x_1", "v_", "_k", "t_0", "n_", "_u_"]
PYBUILTIN = ["sum", "abs", "min", "max", "len", "list", "id", "pow", "hash", "all", "any", "iter", "next", "map",
             "set", "dict", "int", "float", "str", "range", "round", "bool", "print", "vars", "dir"]
INSTS = ["a", "b1", "sub", "s_x", "body"]
MEMBERS = ["b", "c1", "x", "_m", "m_", "copy", "v", "pos"]
RESERVED = ["lambda", "is", "as", "def", "del", "pass", "None", "try", "with", "yield", "from", "global", "raise",
            "assert", "async", "await", "continue", "except", "finally", "nonlocal", "elif", "True", "False",
            "self", "super", "sympy", "mech"]
OPS_W = ["+"] * 4 + ["-"] * 4 + ["*"] * 4 + ["/"] * 3 + ["^"] * 2


# ---- generators --------------------------------------------------------------------------------
class G:
    def __init__(self, rng, names, states, allow_time=True):
        self.rng, self.names, self.states, self.allow_time = rng, names, states, allow_time

    def num(self):
        if self.rng.random() < 0.3:
            return ["n", long_literal(self.rng)]
        return ["n", self.rng.choice(["1", "2", "3", "4", "5", "7", "10", "0.5", "1.5", "2.25", "0.125", "12"])]

    def var(self):
        return ["v", self.rng.choice(self.names)]

    def leaf(self):
        r = self.rng.random()
        if r < 0.62:
            return self.var()
        if r < 0.88:
            return self.num()
        if r < 0.91 and self.allow_time:
            return ["v", "time"]
        if self.states:
            return self.der()
        return self.var()

    def der(self):
        """der of a state, or of a composite of states (product, sum, difference, power, scaled, with time):
        every variable below `der` becomes a state in the flat model."""
        st = lambda: ["v", self.rng.choice(self.states)]
        r = self.rng.random()
        if r < 0.45:
            return ["d", st()]
        k = self.rng.choice(["*", "+", "-", "^", "scale", "time", "mix", "/"])
        if k in ("*", "+", "-"):
            arg = ["b", k, st(), st()]
        elif k == "^":
            arg = ["b", "^", st(), ["n", self.rng.choice(["2", "3"])]]
        elif k == "scale":
            arg = ["b", "*", ["n", self.rng.choice(["2", "0.5", "3"])], st()]
        elif k == "time":
            arg = ["b", self.rng.choice("*+-"), ["v", "time"], st()]
        elif k == "/":
            arg = ["b", "/", st(), ["b", "+", ["b", "^", st(), ["n", "2"]], ["n", "1"]]]
        else:
            arg = ["b", self.rng.choice("+-"), ["b", "*", st(), st()], ["b", "^", st(), ["n", "2"]]]
        return ["d", arg]

    def expo(self, depth, sub):
        r = self.rng.random()
        if r < 0.6:
            return ["n", self.rng.choice(["2", "3", "2", "4"])]
        if r < 0.86:
            return self.var()
        return sub(depth - 1)

    # arbitrary trees: operands of any shape below any operator
    def nested(self, depth):
        if depth <= 0 or self.rng.random() < 0.18:
            return self.leaf()
        r = self.rng.random()
        if r < 0.72:
            op = self.rng.choice(OPS_W)
            l = self.nested(depth - 1)
            rt = self.expo(depth, self.nested) if op == "^" else self.nested(depth - 1)
            return ["b", op, l, rt]
        if r < 0.86:
            return ["u", "-" if self.rng.random() < 0.7 else "+", self.nested(depth - 1)]
        return ["c", self.rng.choice(L.FUNCS), self.nested(depth - 1)]

    # trees in natural precedence form: printing them without any parentheses is right
    def p_sum(self, depth):
        n = self.rng.choice([1, 2, 2, 3, 4])
        e = self.p_term(depth, first=True)
        for _ in range(n - 1):
            e = ["b", self.rng.choice("+-"), e, self.p_term(depth, first=False)]
        return e

    def p_term(self, depth, first):
        n = self.rng.choice([1, 1, 2, 2, 3])
        e = self.p_factor(depth, signed_ok=first)
        for _ in range(n - 1):
            e = ["b", self.rng.choice("*/"), e, self.p_factor(depth, signed_ok=False)]
        return e

    def p_factor(self, depth, signed_ok):
        # a sign in front of a power is -(a^b) in Python and in the tree; as a non-leading operand of
        # + - * / a signed factor prints as `x * - y`, which Python accepts with the same tree
        if self.rng.random() < (0.22 if signed_ok else 0.08):
            return ["u", "-" if self.rng.random() < 0.75 else "+",
                    self.p_factor(depth, False) if self.rng.random() < 0.2 else self.p_power(depth)]
        return self.p_power(depth)

    def p_power(self, depth):
        base = self.p_atom(depth)
        if self.rng.random() < 0.28:
            r = self.rng.random()
            if r < 0.6:
                ex = ["n", self.rng.choice(["2", "3", "4"])]
            elif r < 0.8:
                ex = ["u", "-" if self.rng.random() < 0.8 else "+", self.p_atom(depth - 1)]
            elif r < 0.9:
                ex = self.p_power(depth - 1)       # right-associative chain
            else:
                ex = self.var()
            return ["b", "^", base, ex]
        return base

    def p_atom(self, depth):
        if depth > 0 and self.rng.random() < 0.15:
            return ["c", self.rng.choice(L.FUNCS), self.p_sum(depth - 1)]
        return self.leaf()


LONG_FIXED = ["1234567.5", "100000.5", "0.0174532925199", "3.141592653589793", "299792458", "6.02214076e23",
              "1.380649e-23", "9.80665", "101325.25", "8.314462618", "0.000123456789", "1e-05", "12345678.125",
              "2.718281828459045", "1.0000001", "999999.5", "1000000.5", "16777217", "4503599627370497.5"]


def long_literal(rng):
    """An UNSIGNED_NUMBER with 7-17 significant digits: plain decimals of large and small magnitude,
    exponent forms, long integers — values a printer that rounds to a few digits cannot keep."""
    r = rng.random()
    if r < 0.3:
        return rng.choice(LONG_FIXED)
    n = rng.randint(7, 17)
    digits = str(rng.randint(1, 9)) + "".join(rng.choice("0123456789") for _ in range(n - 2)) + str(rng.randint(1, 9))
    if r < 0.5:
        k = rng.randint(1, n - 1)
        return digits[:k] + "." + digits[k:]
    if r < 0.65:
        return "0." + "0" * rng.randint(0, 6) + digits
    if r < 0.9:
        ex = rng.randint(-18, 18)
        return digits[0] + "." + digits[1:] + rng.choice(["e", "E"]) + rng.choice(["", "+"] if ex >= 0 else [""]) + str(ex)
    return digits[:rng.randint(7, min(n, 15))]


def noparen_text(e):
    """What a printer that never parenthesises operands writes (Python operators)."""
    k = e[0]
    if k == "v":
        return _ident(e[1])
    if k == "n":
        return e[1]
    if k == "b":
        return "%s %s %s" % (noparen_text(e[2]), "**" if e[1] == "^" else e[1], noparen_text(e[3]))
    if k == "u":
        return "%s %s" % (e[1], noparen_text(e[2]))
    if k == "c":
        return "%s(%s)" % (e[1], noparen_text(e[2]))
    return "(%s).diff(self.t)" % noparen_text(e[1])


def _ident(name):
    if name == "time":
        return "self.t"
    return "n_" + "".join(c if c.isalnum() else "_%d_" % ord(c) for c in name)


def intended_tree(e):
    k = e[0]
    if k == "v":
        return ["a", _ident(e[1])]
    if k == "n":
        return ["a", e[1]]
    if k == "b":
        return ["b", L.PY_BOP["**" if e[1] == "^" else e[1]], intended_tree(e[2]), intended_tree(e[3])]
    if k == "u":
        return ["p", L.PY_POP[e[1]], intended_tree(e[2])]
    if k == "c":
        return ["c", e[1], intended_tree(e[2])]
    return ["d", intended_tree(e[1])]


def needs_parens(eq):
    """Does the equation `l - (r)` regroup when its operands are written without parentheses?
    CPython's parser is the arbiter."""
    l, r = eq
    text = "%s - (%s)" % (noparen_text(l), noparen_text(r))
    try:
        return L.py_tree(text) != ["b", 1, intended_tree(l), intended_tree(r)]
    except (SyntaxError, ValueError):
        return True


def gen_case(rng, stream, printer):
    """One model.  `printer` is the detected variant of the real printer ("cur" = operands are not
    parenthesised: equations that need parentheses are confined to the nested stream)."""
    pool = []
    nplain = rng.randint(3, 6)
    pool += rng.sample(PLAIN, nplain)
    if rng.random() < 0.6:
        pool += rng.sample(UNDER, rng.randint(1, 2))
    if rng.random() < 0.5:
        pool += rng.sample(PYBUILTIN, rng.randint(1, 2))
    bl = builtin_pool()
    if rng.random() < 0.6 and bl:
        pool += rng.sample(bl, min(len(bl), rng.randint(1, 2)))
    # the theorem's side condition in the main streams: clean names, no name is another plus underscores
    pool = _dedupe_stems(pool)
    subs, insts, dotted = [], [], []
    if rng.random() < 0.55:
        ncls = rng.randint(1, 2)
        for ci in range(ncls):
            mem = rng.sample(MEMBERS, rng.randint(1, 3))
            subs.append({"cls": "S%d" % ci, "decls": [_sub_decl(rng, m) for m in mem]})
        for iname in rng.sample(INSTS, rng.randint(1, 2)):
            s = rng.choice(subs)
            insts.append({"n": iname, "cls": s["cls"]})
            dotted += ["%s.%s" % (iname, d["n"]) for d in s["decls"]]
    decls = []
    states = []
    for n in pool:
        r = rng.random()
        d = {"n": n, "pre": ""}
        if r < 0.16:
            d["pre"] = "parameter"
            d["val"] = ["n", rng.choice(["2", "0.5", "9.81", "3", "1"])]
        elif r < 0.26:
            d["pre"] = "constant"
            d["val"] = ["n", rng.choice(["3", "1.5", "4"])]
        elif r < 0.38:
            d["pre"] = "input"
        elif r < 0.5:
            d["pre"] = "output"
        elif r < 0.62 and rng.random() < 0.5:
            d["start"] = ["n", rng.choice(["1", "0.25", "2"])]
        decls.append(d)
    rng.shuffle(decls)
    case = {"stream": stream, "name": rng.choice(["M", "Sys", "Plant_1"]), "subs": subs, "insts": insts,
            "decls": decls, "eqs": [], "pts": rng.randrange(1 << 30)}
    if stream == "collide":
        _add_collision(rng, case)
    # the inputs of the fixed findings C24-F3/F4/F5 also occur in the main stream
    feats = set()
    if stream == "main":
        feats = {f for f in ("value", "reserved", "other-prefix") if rng.random() < 0.12}
    if stream == "value" or "value" in feats:
        vn = "pv" + str(rng.randint(0, 9))
        kind = rng.choice(["parameter", "constant"])
        val = rng.choice([["u", "-", ["n", "2"]], ["b", "*", ["n", "2"], ["n", "3"]], ["u", "-", ["n", "0.5"]],
                          ["b", "+", ["n", "1"], ["n", "1"]]])
        case["decls"].append({"n": vn, "pre": kind, "val": val})
    if stream == "reserved" or "reserved" in feats:
        case["decls"].append({"n": rng.choice(RESERVED), "pre": rng.choice(["", "", "parameter", "input"])})
        if case["decls"][-1]["pre"] == "parameter":
            case["decls"][-1]["val"] = ["n", "1"]
    if stream == "other-prefix" or "other-prefix" in feats:
        case["decls"].append({"n": "dd" + str(rng.randint(0, 9)), "pre": "discrete"})
    cls_of = {x["cls"]: x for x in case["subs"]}
    dotted = ["%s.%s" % (i["n"], d["n"]) for i in case["insts"] for d in cls_of[i["cls"]]["decls"]]
    names = [d["n"] for d in case["decls"]] + dotted
    nonconst = [d["n"] for d in case["decls"] if d["pre"] in ("", "output")] + \
        ["%s.%s" % (i["n"], d["n"]) for i in case["insts"] for d in cls_of[i["cls"]]["decls"]
         if d.get("pre", "") in ("", "input", "output")]
    nstates = rng.choice([0, 1, 1, 2, 2, 3]) if nonconst else 0
    states = rng.sample(nonconst, min(nstates, len(nonconst)))
    g = G(rng, names, states)
    neq = rng.randint(3, 7)
    eqs = []
    for st in states:
        eqs.append([["d", ["v", st]], None])
    while len(eqs) < neq:
        eqs.append([None, None])
    rng.shuffle(eqs)
    want_nested = stream == "nested" or (printer != "cur" and stream == "main")
    for eq in eqs:
        for side in (0, 1):
            if eq[side] is not None:
                continue
            for _ in range(40):
                if want_nested and rng.random() < 0.75:
                    e = g.nested(rng.choice([1, 2, 2, 3, 3, 4]))
                else:
                    e = g.p_sum(rng.choice([0, 1, 1, 2]))
                if side == 0 and rng.random() < 0.5:
                    e = g.var() if rng.random() < 0.8 else e
                eq[side] = e
                if stream == "nested" or printer != "cur":
                    break
                if not needs_parens([eq[0] if eq[0] is not None else ["v", "x"], eq[1] if eq[1] is not None else ["v", "x"]]):
                    break
            else:
                eq[side] = g.var()
    if stream == "nested" and printer == "cur" and not any(needs_parens(e) for e in eqs):
        eqs[-1][1] = ["b", "*", ["b", "-", g.var(), g.var()], g.leaf()]
    # every declared name should occur somewhere, so that a wrong symbol is noticed
    used = set()
    for l, r in eqs:
        used |= L.term_vars(l) | L.term_vars(r)
    for n in names:
        if n not in used and rng.random() < 0.8:
            i = rng.randrange(len(eqs))
            eqs[i][1] = ["b", rng.choice("+-"), eqs[i][1], ["v", n]]
    case["eqs"] = eqs
    return case


def _sub_decl(rng, m):
    """Declarations inside sub-components carry every category too (flatten keeps parameter/constant and
    strips input/output below the top level), so that each list of the class contains dotted names."""
    r = rng.random()
    if r < 0.2:
        return {"n": m, "pre": "parameter", "val": ["n", rng.choice(["2", "0.5", "9.81"])]}
    if r < 0.38:
        return {"n": m, "pre": "constant", "val": ["n", rng.choice(["3", "1.5", "4"])]}
    if r < 0.48:
        return {"n": m, "pre": "input"}
    if r < 0.58:
        return {"n": m, "pre": "output"}
    if r < 0.68:
        return {"n": m, "pre": "", "start": ["n", rng.choice(["1", "0.25"])]}
    return {"n": m, "pre": ""}


def _dedupe_stems(pool):
    out = []
    for n in pool:
        if "__" in n:
            continue
        if any(a != n and (a.rstrip("_") == n.rstrip("_")) for a in out) or n in out:
            continue
        out.append(n)
    return out


def _add_collision(rng, case):
    kind = rng.choice(["dot", "dot", "edge", "builtin"])
    if kind == "dot":
        i, m = rng.choice(["a", "sub"]), rng.choice(["b", "x"])
        case["subs"].append({"cls": "SC", "decls": [{"n": m, "pre": ""}]})
        case["insts"] = [x for x in case["insts"] if x["n"] != i] + [{"n": i, "cls": "SC"}]
        case["decls"].append({"n": "%s__%s" % (i, m), "pre": ""})
    elif kind == "edge":
        case["subs"].append({"cls": "SC", "decls": [{"n": "b", "pre": ""}]})
        case["subs"].append({"cls": "SD", "decls": [{"n": "_b", "pre": ""}]})
        case["insts"] = [x for x in case["insts"] if x["n"] not in ("a", "a_")] + [{"n": "a_", "cls": "SC"}, {"n": "a", "cls": "SD"}]
    else:
        bl = builtin_pool() or ["psi"]
        b = rng.choice(bl)
        case["decls"] = [d for d in case["decls"] if d["n"].rstrip("_") != b]
        case["decls"] += [{"n": b, "pre": ""}, {"n": b + "_", "pre": ""}]


_BL = None
MODELICA_KW = set("""algorithm and annotation block break class connect connector constant constrainedby der
discrete each else elseif elsewhen encapsulated end enumeration equation expandable extends external false final
flow for function if import impure in initial inner input loop model not operator or outer output package parameter
partial protected public pure record redeclare replaceable return stream then true type when while within time""".split())


def builtin_pool():
    """Members of the real BUILTINS list usable as Modelica identifiers in the main streams."""
    import keyword
    return [b for b in builtin_like() if b.isidentifier() and not b.startswith("__") and not keyword.iskeyword(b)
            and b not in MODELICA_KW and b not in ("self", "super", "sympy", "mech", "OdeModel", "sin", "cos", "tan")]


def builtin_like():
    global _BL
    if _BL is None:
        from pymoca.backends.sympy import generator as sg
        _BL = [str(b) for b in sg.BUILTINS]
    return _BL


# ---- points ------------------------------------------------------------------------------------
def points(case, names, fixed=()):
    """Three evaluation points; `fixed` = constants and parameters (d/dt = 0)."""
    rng = random.Random(case["pts"])
    pts = []
    for k in range(3):
        env, denv = {}, {}
        for n in sorted(names) + ["time"]:
            if k == 0:
                v = Fraction(rng.choice([-3, -2, -1, 1, 2, 3]))
            elif k == 1:
                v = Fraction(rng.choice([-5, -4, -3, -2, 2, 3, 4, 5]))
            else:
                v = Fraction(rng.choice([-7, -5, -3, -1, 1, 3, 5, 7, 2, 4, -2, -4, 6]), rng.choice([1, 1, 1, 2]))
            env[n] = v
            denv[n] = Fraction(rng.choice([-9, -6, -4, 4, 6, 9, 11]), rng.choice([1, 2]))
            if n in fixed:
                denv[n] = Fraction(0)
        pts.append((env, denv))
    return pts


# ---- the real code --------------------------------------------------------------------------------
def build_expr(e, A):
    """Term -> pymoca AST, node for node what pymoca.parser builds for the fully parenthesised text."""
    k = e[0]
    if k == "v":
        return A.ComponentRef.from_string(e[1]) if "." in e[1] else A.ComponentRef(name=e[1], indices=[[None]], child=[])
    if k == "n":
        try:
            val = int(e[1])
        except ValueError:
            val = float(e[1])
        return A.Primary(value=val)
    if k == "b":
        return A.Expression(operator=e[1], operands=[build_expr(e[2], A), build_expr(e[3], A)])
    if k == "u":
        return A.Expression(operator=e[1], operands=[build_expr(e[2], A)])
    if k == "c":
        return A.Expression(operator=A.ComponentRef(name=e[1], indices=[[None]], child=[]), operands=[build_expr(e[2], A)])
    return A.Expression(operator="der", operands=[build_expr(e[1], A)])


def _front(case, via_text):
    """Modelica front end.  The declarations always go through pymoca's parser; the equations go through
    it on the `via_text` path, and are built as AST nodes directly otherwise (ANTLR needs ~0.4 s for the
    equations of one model; the two paths are compared on every 16th case)."""
    from pymoca import ast as A
    from pymoca import parser
    if via_text:
        return parser.parse(L.mo_text(case), bypass_cache=True)
    t = parser.parse(L.mo_text(dict(case, eqs=[])), bypass_cache=True)
    if t is None:
        return None
    cls = t.classes[case["name"]]
    cls.equations = [A.Equation(left=build_expr(l, A), right=build_expr(r, A)) for l, r in case["eqs"]]
    return t


def _pipeline(case, via_text):
    from pymoca import ast as A
    from pymoca import tree
    from pymoca.backends.sympy import generator as sg
    out = {"text": L.mo_text(case)}
    try:
        t = _front(case, via_text)
    except Exception as e:      # noqa: BLE001 — outcome classification
        out["error"] = ("parse", type(e).__name__, str(e)[:200])
        return out
    if t is None:
        out["error"] = ("parse", "SyntaxError", "the parser rejected the generated Modelica text")
        return out
    try:
        flat = tree.flatten(copy.deepcopy(t), A.ComponentRef.from_string(case["name"]))
        fc = flat.classes[case["name"]]
        syms = sorted(fc.symbols.values(), key=lambda s: s.order)
        out["syms"] = [{"name": s.name, "prefixes": [str(p) for p in s.prefixes]} for s in syms]
        out["eqs"] = [[L.term_of(e.left, A), L.term_of(e.right, A)] for e in fc.equations]
    except L.Unsupported as e:
        out["error"] = ("subset", "Unsupported", str(e))
        return out
    except Exception as e:      # noqa: BLE001
        out["error"] = ("flatten", type(e).__name__, str(e)[:200])
        return out
    try:
        out["src"] = sg.generate(t, case["name"])
    except Exception as e:      # noqa: BLE001
        out["error"] = ("generate", type(e).__name__, str(e)[:200])
    return out


def run_real(case, ctx=None):
    """parse -> flatten -> generate.  Returns dict with flat symbols/equations (terms) and the
    generated text, or an exception class name under "error" with the stage."""
    out = _pipeline(case, False)
    if case["pts"] % 16 == 0 or case.get("via_text"):
        full = _pipeline(case, True)
        if ctx is not None:
            ctx.count("front-end-cross-checked")
        if any(full.get(k) != out.get(k) for k in ("syms", "eqs", "src", "error")):
            if ctx is not None:
                ctx.count("front-end-paths-differ")
                ctx.notes.append("text path and AST path of the front end differ on a case (text path used)")
        out = full
    return out


def fixed_names(syms):
    return set(s["name"] for s in syms if "constant" in s["prefixes"] or "parameter" in s["prefixes"])


def expected_lists(syms):
    """The flat model's classification, from the prefixes alone."""
    def has(s, p):
        return p in s["prefixes"]
    x = [s["name"] for s in syms if has(s, "state")]
    c = [s["name"] for s in syms if has(s, "constant")]
    p = [s["name"] for s in syms if has(s, "parameter")]
    u = [s["name"] for s in syms if has(s, "input")]
    y = [s["name"] for s in syms if has(s, "output")]
    v = [s["name"] for s in syms if not (has(s, "state") or has(s, "constant") or has(s, "parameter") or has(s, "input"))]
    return {"x": x, "v": v, "c": c, "p": p, "u": u, "y": y}


def match_names(expected, shown):
    """Pair the sympy names of one list with the flat names: equal, or the flat name followed by
    underscores (builtin avoidance).  Returns list of flat names per shown entry (None = no match)."""
    left = list(expected)
    res = [None] * len(shown)
    for i, d in enumerate(shown):
        if d in left:
            res[i] = d
            left.remove(d)
    for i, d in enumerate(shown):
        if res[i] is None:
            for n in left:
                if d.startswith(n) and set(d[len(n):]) <= {"_"}:
                    res[i] = n
                    left.remove(n)
                    break
    return res, left


def check_case(ctx, case, drv, printer):
    focus = {"printer": printer, "stream": case.get("stream")}
    real = run_real(case, ctx)
    if "error" in real and real["error"][0] in ("parse", "subset", "flatten"):
        st, cls, msg = real["error"]
        if case.get("stream") in ("main", "nested") :
            raise HarnessError("generator left the backend's subset (%s: %s %s)\n%s" % (st, cls, msg, real["text"]))
        ctx.count("skipped-%s-%s" % (st, cls))
        return
    syms, feqs = real["syms"], real["eqs"]
    np_flags = [needs_parens(e) for e in feqs]
    ctx.count("eqs", len(feqs))
    ctx.count("eqs-needing-parentheses", sum(np_flags))
    for s in syms:
        ctx.count("prefix:" + ("+".join(s["prefixes"]) or "none"))

    def viol(what, extra, expected=None, observed=None):
        ctx.violation(what, dict(case, focus=dict(focus, **extra)), expected=expected, observed=observed)

    if "error" in real:
        _, cls, msg = real["error"]
        viol("generate() raised %s on a model of the subset" % cls, {"stage": "generate"}, "module text", cls + ": " + msg)
        return
    src = real["src"]
    # (1) valid Python
    try:
        compile(src, "<generated>", "exec")
    except SyntaxError as e:
        viol("the generated module is not valid Python", {"stage": "compile", "line": (e.text or "").strip()},
             "compile() succeeds", "SyntaxError: %s: %s" % (e.msg, (e.text or "").strip()))
        model_tie(ctx, case, drv, printer, real, None, np_flags)
        return
    # (2) executes in the stub namespace
    try:
        world, obj = L.run_generated(src, case["name"])
    except Exception as e:      # noqa: BLE001
        viol("the generated module fails while building its equations",
             {"stage": "exec", "exc": type(e).__name__, "msg": str(e)[:200]},
             "__init__ builds the lists", "%s: %s" % (type(e).__name__, str(e)[:200]))
        model_tie(ctx, case, drv, printer, real, None, np_flags)
        return
    if world.compute_fg_called != 1:
        viol("compute_fg() is not called exactly once", {"stage": "exec"}, 1, world.compute_fg_called)
    # (3) classification + distinct symbols
    exp = expected_lists(syms)
    node_info = {id(n): (kind, nm) for kind, nm, n in world.created}
    node_flat = {}
    lists_ok = True
    for key in ("x", "v", "c", "p", "u", "y"):
        items = list(getattr(obj, key).items) if isinstance(getattr(obj, key), L.StubMatrix) else None
        if items is None or any(id(n) not in node_info for n in items):
            viol("list self.%s does not consist of declared symbols" % key, {"stage": "lists", "list": key})
            lists_ok = False
            continue
        shown = [node_info[id(n)][1] for n in items]
        res, left = match_names(exp[key], shown)
        if None in res or left:
            viol("list self.%s does not match the flat model's classification" % key,
                 {"stage": "lists", "list": key}, sorted(exp[key]), sorted(shown))
            lists_ok = False
        for n, flatname in zip(items, res):
            if flatname is not None:
                node_flat.setdefault(id(n), flatname)
    assigns, _ = L.init_assignments(src, case["name"])
    ids = [i for a in assigns for i in a["ids"]]
    nms = [n for a in assigns for n in a["names"]]
    declared = len(set(s["name"] for s in syms if s["name"] in set(sum([exp[k] for k in "xvcpu"], []))))
    # an output that is not a state is created once (in v); a symbol with two class prefixes twice
    if len(set(ids)) != len(ids) or len(set(nms)) != len(nms):
        dup = sorted(set(i for i in ids if ids.count(i) > 1) | set(n for n in nms if nms.count(n) > 1))
        multi = [s["name"] for s in syms if len([p for p in s["prefixes"] if p in ("state", "constant", "parameter", "input")]) > 1]
        if not multi:
            viol("distinct Modelica variables share a Python symbol", {"stage": "distinct", "dup": dup},
                 "pairwise distinct identifiers / sympy names", dup)
            lists_ok = False
    elif len(ids) != declared and lists_ok:
        viol("number of created symbols differs from the number of flat variables", {"stage": "distinct"}, declared, len(ids))
    # (3b) literals: every number written in an equation is the flat equation's number, exactly
    glines = L.eq_texts(src, case["name"])
    if len(glines) == len(feqs):
        for i, (fe, ln) in enumerate(zip(feqs, glines)):
            want = L.term_lits(fe[0]) + L.term_lits(fe[1])
            if want:
                ctx.count("literals-compared", len(want))
                if any(len(t.replace(".", "").replace("-", "").replace("+", "").lstrip("0")) >= 7 for t in want):
                    ctx.count("eq-with-long-literal")
            try:
                got = L.pytree_lits(L.py_tree(ln))
            except (SyntaxError, ValueError):
                continue
            if [L.frac_of_lit(t) for t in got] != [L.frac_of_lit(t) for t in want]:
                viol("a number literal of an element of eqs denotes a different number than the flat equation's literal",
                     {"stage": "literals", "eq": i, "line": ln}, want, got)
    # (4) equations, numerically
    eqs = list(obj.eqs) if isinstance(obj.eqs, list) else None
    checked = 0
    if eqs is None or len(eqs) != len(feqs):
        viol("the equation list has %s entries for %d flat equations" % (None if eqs is None else len(eqs), len(feqs)),
             {"stage": "eqs"}, len(feqs), None if eqs is None else len(eqs))
    else:
        names = [s["name"] for s in syms]
        pts = points(case, names, fixed_names(syms))
        # a symbol made with sympy.symbols() is constant in t, one made with dynamicsymbols() is not
        sym_kind_fixed = set(node_flat[i] for i, (kind, _) in node_info.items() if kind == "sym" and i in node_flat)

        def symname(n):
            f = node_flat.get(id(n))
            return ["v", f if f is not None else "?unmatched:" + str(n.a)]
        for i, (fe, ge) in enumerate(zip(feqs, eqs)):
            try:
                gterm = L.node_term(ge, symname) if isinstance(ge, L.Node) else None
            except L.StubError:
                gterm = None
            if gterm is None:
                viol("equation %d is not an expression over the declared symbols" % i, {"stage": "eqs", "eq": i,
                     "needs_parens": np_flags[i]})
                continue
            ref_term = ["b", "-", fe[0], fe[1]]
            deep = max(L.term_depth(fe[0]), L.term_depth(fe[1])) >= 2
            anyok = False
            for k, (env, denv) in enumerate(pts):
                ref = L.outcome(lambda: L.eval_term(ref_term, env, denv, "^"))
                if ref[0] != "ok":
                    ctx.count("point-skipped:" + ref[1].split(":")[0])
                    continue
                gdenv = {n: (Fraction(0) if n in sym_kind_fixed else v) for n, v in denv.items()}
                for n in names:
                    if n not in sym_kind_fixed and n in fixed_names(syms):
                        gdenv[n] = Fraction(7, 3)       # a constant created as a function of t: d/dt is not 0
                got = L.outcome(lambda: L.eval_term(gterm, env, gdenv, "**"))
                anyok = True
                if got != ref:
                    viol("an element of eqs evaluates differently from lhs - rhs of the flat equation",
                         {"stage": "eqs", "eq": i, "needs_parens": np_flags[i], "point": k,
                          "flat": [fe[0], fe[1]], "line": (L.eq_texts(src, case["name"]) + [None] * (i + 1))[i]},
                         ref, got)
                    break
            if anyok:
                checked += 1
                ctx.count("eq-evaluated")
                if deep:
                    ctx.count("eq-evaluated-depth>=2")
                    focus["deep"] = True
            else:
                ctx.count("eq-no-valid-point")
    model_tie(ctx, case, drv, printer, real, obj, np_flags)
    return focus.get("deep", False)


def frs(v):
    return "%d/%d" % (v.numerator, v.denominator)


def model_tie(ctx, case, drv, printer, real, obj, np_flags):
    """Correspondence with the Lean model on the same flat model."""
    if drv is None:
        return
    syms, feqs, src = real["syms"], real["eqs"], real["src"]
    names = [s["name"] for s in syms]
    pts = points(case, names, fixed_names(syms))
    req = {"op": "model", "B": builtin_like(), "variant": "cur" if printer == "cur" else "fix", "other_as_var": _OTHER_AS_VAR[0],
           "syms": syms, "eqs": feqs,
           "points": [{"env": {n: frs(v) for n, v in env.items()}, "denv": {n: frs(v) for n, v in denv.items()}}
                      for env, denv in pts],
           "fn": {f: [frs(a), frs(b)] for f, (a, b) in L.FN_COEF.items()},
           "lits": sorted(set(_lits(feqs)))}
    req["litvals"] = {t: frs(L.frac_of_lit(t)) for t in req["lits"]}
    ans = drv.ask(req)
    if not ans.get("ok"):
        raise HarnessError("model driver rejected the case: %s\n%s" % (ans, json.dumps(req)[:600]))
    kcase = dict(case, focus={"printer": printer, "stream": case.get("stream"), "stage": "model"})
    # lists: identifiers and sympy names as assigned in __init__
    try:
        assigns, _ = L.init_assignments(src, case["name"])
    except SyntaxError:
        assigns = None
    order = ["x", "v", "c", "p", "u"]
    if assigns is not None:
        m_assign = [{"ids": ans["lists"][k], "names": ans["names"][k]} for k in order if ans["lists"][k]]
        r_assign = [{"ids": a["ids"], "names": a["names"]} for a in assigns]
        if m_assign != r_assign:
            ctx.disagreement("lists", dict(kcase, focus=dict(kcase["focus"], what="lists")), m_assign, r_assign)
        r_mat = dict(L.init_assignments.matrices)
        m_mat = {k: ans["lists"][k] for k in ("x", "v", "c", "p", "u", "y")}
        if r_mat != m_mat:
            ctx.disagreement("matrices", dict(kcase, focus=dict(kcase["focus"], what="matrices")), m_mat, r_mat)
    lines = L.eq_texts(src, case["name"])
    # the equation text is compared as a Python token stream: blanks, line layout and comments are free
    if len(lines) != len(ans["eq_src"]) or not all(L.same_tokens(a, b) for a, b in zip(lines, ans["eq_src"])):
        bad = [i for i in range(max(len(lines), len(ans["eq_src"])))
               if i >= len(lines) or i >= len(ans["eq_src"]) or not L.same_tokens(lines[i], ans["eq_src"][i])]
        i = bad[0]
        ctx.disagreement("equation-text", dict(kcase, focus=dict(kcase["focus"], what="text", eq=i,
                         needs_parens=np_flags[i] if i < len(np_flags) else None)),
                         ans["eq_src"][i] if i < len(ans["eq_src"]) else None, lines[i] if i < len(lines) else None)
    # the grammar instance on the real text: CPython's tokens -> model parser -> CPython's tree
    for i, ln in enumerate(lines):
        try:
            toks, tree = L.py_tokens(ln), L.py_tree(ln)
        except (SyntaxError, ValueError, IndexError):
            ctx.count("line-outside-grammar-vocabulary")
            continue
        pa = drv.ask({"op": "parse", "toks": toks})
        if not pa.get("ok"):
            raise HarnessError("model driver rejected tokens %s: %s" % (toks, pa))
        ctx.count("real-line-parsed-by-model")
        if pa["tree"] != tree:
            ctx.disagreement("python-grammar", dict(kcase, focus=dict(kcase["focus"], what="grammar", line=ln)), pa["tree"], tree)
        if i < len(ans["eq_toks"]) and i < len(ans["eq_src"]) and L.same_tokens(ans["eq_src"][i], ln) \
                and ans["eq_toks"][i] != toks:
            ctx.disagreement("tokens", dict(kcase, focus=dict(kcase["focus"], what="tokens", line=ln)), ans["eq_toks"][i], toks)
    # evaluator of the model vs the oracle's evaluator on the flat equations
    for i, fe in enumerate(feqs):
        for k, (env, denv) in enumerate(pts):
            ref = L.outcome(lambda: L.eval_term(["b", "-", fe[0], fe[1]], env, denv, "^"))
            mv = ans["values"][i][k]
            if ref[0] == "ok":
                if mv is None and (L.has_composite_der(fe[0]) or L.has_composite_der(fe[1])):
                    ctx.count("model-eval-skipped:der-of-composite")    # the model evaluates der of a variable only
                elif mv != frs(Fraction(ref[1])):
                    ctx.disagreement("eval", dict(kcase, focus=dict(kcase["focus"], what="eval", eq=i, point=k)), mv, ref)
            elif ref[1] in ("div0", "inexact", "der") and mv is not None:
                ctx.disagreement("eval", dict(kcase, focus=dict(kcase["focus"], what="eval", eq=i, point=k)), mv, ref)


def _lits(feqs):
    out = []

    def walk(e):
        if e[0] == "n":
            out.append(e[1])
        elif e[0] == "b":
            walk(e[2]), walk(e[3])
        elif e[0] in ("u", "c"):
            walk(e[2])
        elif e[0] == "d":
            walk(e[1])
    for l, r in feqs:
        walk(l), walk(r)
    return out


# ---- the grammar instance against CPython ------------------------------------------------------------
def gen_pytree(rng, depth):
    if depth <= 0 or rng.random() < 0.2:
        r = rng.random()
        if r < 0.7:
            return ["a", rng.choice(["x", "y", "z", "k_1", "copy_", "a__b", "self.t"])]
        return ["a", rng.choice(["1", "2", "3.5", "0.25", "10"])]
    r = rng.random()
    if r < 0.66:
        return ["b", rng.choice([0, 1, 2, 3, 4, 4]), gen_pytree(rng, depth - 1), gen_pytree(rng, depth - 1)]
    if r < 0.84:
        return ["p", rng.choice([0, 1, 1]), gen_pytree(rng, depth - 1)]
    if r < 0.93:
        return ["c", rng.choice(L.FUNCS), gen_pytree(rng, depth - 1)]
    return ["d", gen_pytree(rng, depth - 1)]


def tree_ops(t):
    if t[0] == "a":
        return 0
    if t[0] == "b":
        return 1 + tree_ops(t[2]) + tree_ops(t[3])
    if t[0] in ("p", "c"):
        return 1 + tree_ops(t[2])
    return 1 + tree_ops(t[1])


def check_grammar(ctx, case, drv):
    """case = {"kind": "grammar", "tree": t, "extra": seed}: the model's minimal printing and a
    randomly over-parenthesised printing are parsed by CPython; the model parser gets CPython's tokens."""
    if drv is None:
        return
    t = case["tree"]
    for mode in ("min", "extra", "fix"):
        pr = drv.ask({"op": "print", "tree": t, "mode": mode, "seed": case.get("extra", 0)})
        if not pr.get("ok"):
            raise HarnessError("model driver rejected %s: %s" % (case, pr))
        text = pr["text"]
        try:
            ctree, ctoks = L.py_tree(text), L.py_tokens(text)
        except (SyntaxError, ValueError) as e:
            ctx.disagreement("python-grammar", dict(case, focus={"what": "printed text rejected by CPython", "mode": mode}),
                             text, type(e).__name__)
            continue
        if ctoks != pr["toks"]:
            ctx.disagreement("tokens", dict(case, focus={"what": "tokens", "mode": mode, "text": text}), pr["toks"], ctoks)
        if ctree != t:
            ctx.disagreement("python-grammar", dict(case, focus={"what": "CPython regroups the model's printing", "mode": mode,
                             "text": text}), t, ctree)
        pa = drv.ask({"op": "parse", "toks": ctoks})
        if pa.get("tree") != ctree:
            ctx.disagreement("python-grammar", dict(case, focus={"what": "parse", "mode": mode, "text": text}), pa.get("tree"), ctree)
    # a text printed with no parentheses at all: both parsers must regroup it alike
    pr = drv.ask({"op": "print", "tree": t, "mode": "none", "seed": 0})
    try:
        ctree, ctoks = L.py_tree(pr["text"]), L.py_tokens(pr["text"])
    except (SyntaxError, ValueError):
        ctx.count("grammar-noparen-rejected-by-cpython")
        return
    pa = drv.ask({"op": "parse", "toks": ctoks})
    if pa.get("tree") != ctree:
        ctx.disagreement("python-grammar", dict(case, focus={"what": "parse of unparenthesised text", "text": pr["text"]}),
                         pa.get("tree"), ctree)


# ---- printer variant ---------------------------------------------------------------------------------
PROBE = {"stream": "probe", "name": "M", "subs": [], "insts": [],
         "decls": [{"n": "a", "pre": ""}, {"n": "b", "pre": ""}, {"n": "c", "pre": ""}, {"n": "y", "pre": ""}],
         "eqs": [[["v", "y"], ["b", "*", ["b", "+", ["v", "a"], ["v", "b"]], ["v", "c"]]]], "pts": 1}


PROBE2 = {"stream": "probe", "name": "M", "subs": [], "insts": [],
          "decls": [{"n": "dq", "pre": "discrete"}, {"n": "y", "pre": ""}],
          "eqs": [[["v", "y"], ["n", "1"]]], "pts": 1}
_OTHER_AS_VAR = [False]


def detect_printer(ctx):
    """Which of the two modelled variants of the real code is in the tree: operands pasted as they
    are ("cur", finding C24-F1 open) or parenthesised (fix C24-1); and whether a symbol with only
    a `discrete` prefix is listed as a variable (fix C24-4).  Anything else is treated as the fixed
    variant, so that it shows up as a disagreement with the model."""
    real2 = run_real(PROBE2)
    _OTHER_AS_VAR[0] = False
    if "src" in real2:
        try:
            assigns, _ = L.init_assignments(real2["src"], "M")
            _OTHER_AS_VAR[0] = any("dq" in a["ids"] for a in assigns)
        except SyntaxError:
            pass
    real = run_real(PROBE)
    if "src" not in real:
        return "unknown"
    lines = L.eq_texts(real["src"], "M")
    try:
        tree = L.py_tree(lines[0]) if len(lines) == 1 else None
    except (SyntaxError, ValueError):
        tree = None
    A = lambda n: ["a", n]
    if tree == ["b", 1, A("y"), ["b", 0, A("a"), ["b", 2, A("b"), A("c")]]]:
        return "cur"
    if tree == ["b", 1, A("y"), ["b", 2, ["b", 0, A("a"), A("b")], A("c")]]:
        return "fix"
    return "unknown"


# ---- run / replay ------------------------------------------------------------------------------------
def dispatch(ctx, case, drv, printer):
    if case.get("kind") == "grammar":
        ctx.case(case, nontrivial=tree_ops(case["tree"]) >= 2)
        ctx.count("grammar-case")
        check_grammar(ctx, case, drv)
        return
    ctx.count("stream:" + str(case.get("stream")))
    n0 = ctx.evaluations
    deep = check_case(ctx, case, drv, printer)
    ctx.case(case, nontrivial=bool(deep))
    assert ctx.evaluations == n0 + 1


def run(ctx):
    drv = ctx.driver("drv_c24")
    quick = ctx.tier == "quick"
    printer = detect_printer(ctx)
    ctx.extra["printer_variant_detected"] = printer
    ctx.extra["other_prefix_listed_as_variable"] = _OTHER_AS_VAR[0]
    from harness import corpus
    for c in corpus.load("C24"):
        c = dict(c)
        c.pop("_file", None)
        ctx.count("corpus")
        dispatch(ctx, c.get("case", c), drv, printer)
    n_models = 170 if quick else 3000
    n_gram = 220 if quick else 3600
    streams = ["main"] * 11 + ["nested"] * 4 + ["collide"] * 2 + ["value", "reserved", "other-prefix"]
    # two sub-streams seeded from the run's PRNG, so that cutting one short (time budget on a loaded
    # machine) does not change the cases of the other
    rng_m = random.Random(ctx.rng.getrandbits(64))
    rng_g = random.Random(ctx.rng.getrandbits(64))
    done_g = 0
    for i in range(n_models):
        if ctx.time_left() < 0:
            ctx.notes.append("stopped by time budget after %d models and %d grammar cases" % (i, done_g))
            break
        stream = rng_m.choice(streams)
        case = gen_case(rng_m, stream, printer)
        dispatch(ctx, case, drv, printer)
        while done_g * n_models < (i + 1) * n_gram:
            t = gen_pytree(rng_g, rng_g.choice([1, 2, 3, 3, 4, 5]))
            dispatch(ctx, {"kind": "grammar", "tree": t, "extra": rng_g.randrange(1 << 30)}, drv, printer)
            done_g += 1


def search(ctx):
    """A tie is broken but no input violating the property was found in the run: spend the extra
    time on the direct oracle alone (no model), over deeper trees in every stream."""
    printer = detect_printer(ctx)
    n = 0
    while ctx.time_left() > 0 and not ctx.violations:
        stream = ctx.rng.choice(["main", "main", "nested", "nested", "collide", "value", "reserved", "other-prefix"])
        case = gen_case(ctx.rng, stream, "fix" if stream in ("main", "nested") else printer)
        ctx.count("search-case")
        check_case(ctx, case, None, printer)
        n += 1
    ctx.notes.append("failing-input search: %d further models" % n)


def replay(ctx, payload):
    case = payload["case"]
    case = dict(case)
    case.pop("focus", None)
    dispatch(ctx, case, ctx.driver("drv_c24"), detect_printer(ctx))


MANIFEST = dict(
    level_text="Lean 4 theorems about an executable model of the SymPy source printer (expression printing, name mangling, "
               "classification) and a table-driven Python expression grammar: the text of every equation parses back to lhs - rhs "
               "of the flat equation and evaluates like it under every interpretation (parenthesising printer of the current tree; "
               "for the printer before fix C24-1 only on expressions in natural precedence form, with a proved counterexample "
               "otherwise), mangling is injective under a stated side condition (with proved colliding pairs, open finding "
               "C24-F2), and the lists are the prefix classes. Tied to the real generator on every run by token-exact "
               "correspondence and to CPython's parser by differential parsing; direct oracle = compile + stubbed execution + "
               "exact evaluation of every equation at three points.",
    level_note="Trusted: Lean kernel + standard axioms; the harness; CPython's tokenizer/parser as the meaning of the printed "
               "text (exercised, not proved); the model, not the Python, is what the theorems are about.",
    technique="Lean 4 proof (structural induction, parse-print round trip by a follow-set invariant) + model/implementation correspondence",
)
READY = True
