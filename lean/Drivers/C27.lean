/-! Driver for C27 (stub: not built yet). -/
def main : IO Unit := pure ()
