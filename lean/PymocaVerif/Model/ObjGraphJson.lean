import Lean.Data.Json
import PymocaVerif.Model.ObjGraph
/-!
JSON interface of the `ObjGraph` model, shared by the drivers of C05 and C06.

Requests (`heap` = list of `{"k": kind, "n": name, "l": label, "f": [[tag, id], …], "h": null | id}`,
`cfg` = `{"memoById", "hookRebind", "argRebind", "rootCopy", "innerCopy", "constCopy"}`):

* `graph.deepcopy`  `{heap, cfg, x}`                         → shape of the result
* `graph.findclass` `{heap, cfg, root, path, copy}`          → shape of the result
* `graph.flatten`   `{heap, cfg, root, path, inner, consts}` → old objects written, number of new ones

A shape lists the objects that did not exist before, numbered in depth-first discovery order from
the result (fields in order), with references to old objects by their index.
-/
open Lean

namespace PymocaVerif.ObjGraph

def parseKind (s : String) : Kind :=
  if s = "cls" then .cls else if s = "sym" then .sym else if s = "arg" then .arg else .other

def showKind : Kind → String
  | .cls => "cls" | .sym => "sym" | .arg => "arg" | .other => "other"

def parseField (j : Json) : Except String Field := do
  let a ← j.getArr?
  let t ← (a[0]?.getD Json.null).getStr?
  let i ← (a[1]?.getD Json.null).getNat?
  if t = "own" then pure (.own i) else if t = "par" then pure (.par i) else if t = "scp" then pure (.scp i)
  else throw s!"bad-field-tag {t}"

def parseObj (j : Json) : Except String Obj := do
  let k ← j.getObjValAs? String "k"
  let n ← j.getObjValAs? String "n"
  let l ← j.getObjValAs? String "l"
  let fs ← (← (← j.getObjVal? "f").getArr?).toList.mapM parseField
  let h := match j.getObjVal? "h" with
    | .ok v => (v.getNat?).toOption
    | .error _ => none
  pure { kind := parseKind k, name := n, label := l, fields := fs, hook := h }

def parseHeap (j : Json) : Except String Heap := do
  (← j.getArr?).toList.mapM parseObj

def parseRebind (s : String) : Except String HookRebind :=
  if s = "removed" then pure .removed else if s = "toOriginal" then pure .toOriginal else throw s!"bad-rebind {s}"

def parseCfg (j : Json) : Except String Cfg := do
  let byId ← j.getObjValAs? Bool "memoById"
  let hr ← parseRebind (← j.getObjValAs? String "hookRebind")
  let ar ← parseRebind (← j.getObjValAs? String "argRebind")
  pure { memoTest := if byId then .byId else .byObject, hookRebind := hr, argRebind := ar,
         rootCopy := ← j.getObjValAs? Bool "rootCopy", innerCopy := ← j.getObjValAs? Bool "innerCopy",
         constCopy := ← j.getObjValAs? Bool "constCopy" }

def indexOf (xs : List Nat) (x : Nat) : Nat :=
  match xs with
  | [] => 0
  | y :: r => if y = x then 0 else indexOf r x + 1

def refJson (n : Nat) (order : List Nat) (i : Nat) : Json :=
  if i < n then Json.arr #[Json.str "o", Json.num i] else Json.arr #[Json.str "n", Json.num (indexOf order i)]

def tagName : Field → String
  | .own _ => "own" | .par _ => "par" | .scp _ => "scp"

def shapeJson (h' : Heap) (n : Nat) (y : Nat) : Json :=
  let order := shapeOrder h' n y
  let rows := order.map fun i =>
    match h'[i]? with
    | none => Json.null
    | some o =>
      Json.mkObj [
        ("k", Json.str (showKind o.kind)), ("n", Json.str o.name), ("l", Json.str o.label),
        ("f", Json.arr (o.fields.map fun f =>
          match refJson n order f.id with
          | Json.arr a => Json.arr (#[Json.str (tagName f)] ++ a)
          | j => j).toArray),
        ("h", match o.hook with | none => Json.null | some t => refJson n order t)]
  Json.mkObj [("root", refJson n order y), ("objs", Json.arr rows.toArray)]

def natsJson (xs : List Nat) : Json := Json.arr (xs.map fun (i : Nat) => Json.num i).toArray

/-- hooks of old objects after the operation (only those that are set) -/
def oldHooks (h' : Heap) (n : Nat) : Json :=
  Json.arr (((List.range n).filterMap fun i =>
    match h'[i]? with
    | some o => match o.hook with
      | some t => some (Json.arr #[Json.num i, Json.num t])
      | none => none
    | none => none).toArray)

def getNats (j : Json) (k : String) : Except String (List Nat) := do
  (← (← j.getObjVal? k).getArr?).toList.mapM (·.getNat?)

def getStrs (j : Json) (k : String) : Except String (List String) := do
  (← (← j.getObjVal? k).getArr?).toList.mapM (·.getStr?)

/-- the hypotheses of the theorems, evaluated on a snapshot (`rank` = proposed depth function) -/
def checksJson (h : Heap) (req : Json) : Json :=
  match getNats req "rank" with
  | .ok d => Json.mkObj [("wf", wfCheck h), ("tree", treeCheck h), ("rank", rankCheck h d), ("noscope", noScopeCheck h)]
  | .error _ => Json.null

def handleGraph (req : Json) : Except String Json := do
  let op ← req.getObjValAs? String "op"
  let h ← parseHeap (← req.getObjVal? "heap")
  let cfg ← parseCfg (← req.getObjVal? "cfg")
  match op with
  | "graph.deepcopy" => do
    let x ← req.getObjValAs? Nat "x"
    match deepcopy cfg h x with
    | none => pure (Json.mkObj [("ok", true), ("result", Json.null), ("checks", checksJson h req)])
    | some (h', y) =>
      pure (Json.mkObj [("ok", true), ("result", shapeJson h' h.length y), ("written", natsJson (writtenOld h h')),
                        ("oldhooks", oldHooks h' h.length), ("checks", checksJson h req)])
  | "graph.findclass" => do
    let root ← req.getObjValAs? Nat "root"
    let path ← getStrs req "path"
    let cp ← req.getObjValAs? Bool "copy"
    match findClass cfg h root path cp with
    | none => pure (Json.mkObj [("ok", true), ("result", Json.null)])
    | some (h', y) =>
      pure (Json.mkObj [("ok", true), ("result", shapeJson h' h.length y), ("written", natsJson (writtenOld h h')),
                        ("oldhooks", oldHooks h' h.length)])
  | "graph.graft" => do
    -- add to `holder` a copy of class `c` (find_class(copy=True) / deepcopy, then add_class)
    let c ← req.getObjValAs? Nat "c"
    let holder ← req.getObjValAs? Nat "holder"
    match deepcopy cfg h c with
    | none => pure (Json.mkObj [("ok", true), ("result", Json.null)])
    | some (h1, y) =>
      let h2 := applyEdit h1 (addClassEdit h1 holder y)
      pure (Json.mkObj [("ok", true), ("result", shapeJson h2 h.length y), ("written", natsJson (writtenOld h h2))])
  | "graph.removeclass" => do
    let holder ← req.getObjValAs? Nat "holder"
    let name ← req.getObjValAs? String "name"
    let registered ← req.getObjValAs? Bool "registered"
    let h2 := applyEdit h (removeClassEdit h holder name registered)
    pure (Json.mkObj [("ok", true), ("result", Json.str "done"), ("written", natsJson (writtenOld h h2))])
  | "graph.flatten" => do
    let root ← req.getObjValAs? Nat "root"
    let path ← getStrs req "path"
    let inner ← getNats req "inner"
    let consts ← getNats req "consts"
    -- the junk write makes every object of the footprint differ from what it was
    let junk : Nat → Obj → Obj := fun _ o => { o with label := o.label ++ "\x00written" }
    match flattenImpl cfg junk h root { path := path, inner := inner, consts := consts } with
    | none => pure (Json.mkObj [("ok", true), ("result", Json.null)])
    | some h' =>
      pure (Json.mkObj [("ok", true), ("result", Json.str "done"), ("written", natsJson (writtenOld h h')),
                        ("fresh", Json.num (h'.length - h.length)), ("checks", checksJson h req)])
  | o => throw s!"unknown-op {o}"

end PymocaVerif.ObjGraph
