/-! # C06 — property theorems (stub: not built yet) -/
