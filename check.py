#!/venv/bin/python
"""Entry point of every registered check:

    /venv/bin/python /verif/check.py <ID> [--tier quick|thorough] [--replay PATH]

exit 0  property held on everything explored (known findings printed as KNOWN-FINDING lines)
exit 1  at least one unlisted violation; each with `VIOLATION property=<id> replay=<path>`
exit 2  failure of the checking machinery itself (never a verdict)
"""
import argparse
import fcntl
import importlib
import json
import os
import sys
import tempfile
import time
import traceback

VERIF = os.path.dirname(os.path.abspath(__file__))
sys.path.insert(0, VERIF)


def main():
    ap = argparse.ArgumentParser()
    ap.add_argument("pid")
    ap.add_argument("--tier", default=os.environ.get("VERIF_TIER") or "quick", choices=["quick", "thorough"])
    ap.add_argument("--replay")
    args = ap.parse_args()
    pid = args.pid.upper()
    try:
        seed = int(os.environ.get("VERIF_SEED") or 0)
    except ValueError:
        seed = 0

    # isolation: the user-level parse cache must never leak between runs
    cache_home = tempfile.mkdtemp(prefix="verif-xdg-")
    os.environ["XDG_CACHE_HOME"] = cache_home
    os.environ.setdefault("PYMOCA_VERIF", "1")

    # the implementation under test: /repo's working tree (editable install), or a private copy
    src = os.environ.get("VERIF_PYMOCA_SRC")
    if src:
        sys.path.insert(0, src)
        root = os.path.dirname(os.path.abspath(src))
        sys.path.insert(1, root if os.path.isdir(os.path.join(root, "tools")) else "/repo")
    else:
        sys.path.insert(1, "/repo")  # for `tools.compiler`

    from harness import common
    from harness.common import Ctx, HarnessError

    t0 = time.time()
    ctx = Ctx(pid, args.tier, seed)
    mod = None
    rc = 2
    try:
        mod = importlib.import_module("harness.props." + pid.lower())
        # one lock for translate + build + audit: checks that share a generated file
        # (C01/C02 SqlProgram, C05/C06 CopyFlags) must not rebuild it under each other's feet
        with open(os.path.join(common.LEAN_DIR, ".verif-build.lock"), "w") as lk:
            fcntl.flock(lk, fcntl.LOCK_EX)
            has_translator = hasattr(mod, "translate")
            if has_translator:
                mod.translate(ctx)
            targets = ["PymocaVerif.Props." + pid] + list(getattr(mod, "DRIVERS", []))
            brc, out, dt = common.lake_build(targets)
            ctx.extra["lake_build_s"] = round(dt, 1)
            if brc != 0:
                if not has_translator:
                    raise HarnessError("lake build failed:\n" + out[-3000:])
                err = [l for l in out.splitlines() if "error" in l][:8]
                ctx.tie_broken("lake-build:PymocaVerif.Props." + pid, err or out[-1500:])
                # the model drivers do not depend on the generated obligations: keep the correspondence
                drc, dout, _ = common.lake_build(list(getattr(mod, "DRIVERS", [])))
                ctx.driver_ok = drc == 0
            else:
                common.audit(ctx, pid)
                if args.tier == "thorough" and not os.environ.get("VERIF_SKIP_LEANCHECKER"):
                    lrc, lout = common.sh(["lake", "env", "leanchecker", "PymocaVerif.Props." + pid],
                                          cwd=common.LEAN_DIR, timeout=1800)
                    ctx.extra["leanchecker"] = "ok" if lrc == 0 else lout[-500:]
                    if lrc != 0:
                        ctx.tie_broken("leanchecker", lout[-1500:])
        ctx.start_run_clock()
        try:
            if args.replay:
                with open(args.replay) as f:
                    mod.replay(ctx, json.load(f))
            else:
                mod.run(ctx)
                if ctx.broken and not ctx.violations and hasattr(mod, "search"):
                    ctx.budget_s += 60 if args.tier == "quick" else 600
                    mod.search(ctx)
        except HarnessError:
            raise
        except Exception as e:  # an exception escaping the real code inside the harness
            if common.impl_frames(e.__traceback__):
                ctx.tie_broken("impl-exception-escaped-harness",
                               traceback.format_exc()[-3000:])
            else:
                raise
        rc = report(ctx, mod, time.time() - t0)
    except HarnessError as e:
        print("HARNESS-ERROR: %s" % e, file=sys.stderr)
        rc = 2
    except Exception:
        traceback.print_exc()
        rc = 2
    finally:
        ctx.cleanup()
        import shutil
        shutil.rmtree(cache_home, ignore_errors=True)
    sys.stdout.flush()
    os._exit(rc)


def report(ctx, mod, wall):
    from harness import common
    for kid, k in ctx.known_hits.items():
        print("KNOWN-FINDING: property=%s %s [%s]" % (ctx.pid, k["what"], kid))
    for k in ctx.known:
        if k.get("status") == "open" and k["id"] not in ctx.known_hits:
            print("note: listed finding %s did not reproduce in this run" % k["id"])
    nviol = 0
    if ctx.violations:
        seen = set()
        for v in ctx.violations:
            if v["what"] in seen or len(seen) >= 5:
                continue
            seen.add(v["what"])
            path = common.write_replay(ctx, len(seen), dict(kind=v["kind"], what=v["what"], case=v["case"],
                                                           expected=v["expected"], observed=v["observed"]))
            print("VIOLATION property=%s replay=%s" % (ctx.pid, path))
        nviol = len(ctx.violations)
    elif ctx.broken:
        path = common.write_replay(ctx, 0, dict(kind="broken-tie", broken=[b.get("broken") for b in ctx.broken][:20],
                                               details=ctx.broken[:5],
                                               what="the theorem/correspondence named in `broken` no longer checks; "
                                                    "the failing-input search on the real code found no input violating the property"))
        print("VIOLATION property=%s replay=%s no-failing-input-found" % (ctx.pid, path))
        nviol = 1
    common.write_evidence(ctx, mod, nviol, wall)
    print("%s tier=%s seed=%d cases=%d distinct=%d theorems=%d/%d broken=%d violations=%d known=%s wall=%.1fs" % (
        ctx.pid, ctx.tier, ctx.seed, ctx.evaluations, len(ctx._distinct), ctx.discharged, ctx.obligations,
        len(ctx.broken), len(ctx.violations), list(ctx.known_hits), wall))
    return 1 if nviol else 0


if __name__ == "__main__":
    main()
