import PymocaVerif.Lemmas.Connect
import Mathlib.Algebra.Field.Defs
/-!
# C09 — connections produce exactly the connection-set equations

Property theorems only (definitions and helper lemmas live in `Model/Connect.lean` and
`Lemmas/Connect.lean`).  `Conn es` is the equivalence closure of an edge list, `Touched es k`
says `k` is an end of an edge, `IsComponent es S` says the duplicate-free list `S` is exactly
the connected component of a touched key.  All statements hold for every edge list, in every
order, of every length.
-/
namespace PymocaVerif.Connect

/-! ## Graph part (any key type) -/

/-- After processing *any* edge list, the distinct values of the association list are exactly the
    connected components of the edge graph on the touched keys: every value is a duplicate-free
    component, every touched key lies in one of them, and no two of them share a key (so each
    component occurs exactly once and gets exactly one flow-sum equation).  Chains, stars, cycles,
    duplicate edges, self edges and merges of two previously separate sets are all covered. -/
theorem sets_are_components {κ : Type} [DecidableEq κ] (es : List (κ × κ)) :
    (∀ S ∈ distinctSets (connectAll [] es), IsComponent es S) ∧
    (∀ k, Touched es k → ∃ S ∈ distinctSets (connectAll [] es), k ∈ S) ∧
    (distinctSets (connectAll [] es)).Pairwise (fun S T => ∀ k, k ∈ S → k ∉ T) := by
  have inv := (MapInv.empty (κ := κ)).connectAll es
  simp only [List.nil_append] at inv
  exact inv.sets

-- non-vacuity: two pairs built separately and merged by a third edge between non-first members
example : distinctSets (connectAll ([] : FlowMap Nat) [(1, 2), (3, 4), (4, 2), (5, 5)])
    = [[3, 4, 1, 2], [5]] := by decide

/-- All members of a connection set hold the same list *object* (value): looking a member up
    gives the list it is a member of.  This is what makes the re-pointing loop of the code
    necessary and sufficient. -/
theorem members_share_their_set {κ : Type} [DecidableEq κ] (es : List (κ × κ)) (k k' : κ)
    (S : List κ) (h : get? (connectAll [] es) k = some S) (hk' : k' ∈ S) :
    get? (connectAll [] es) k' = some S := by
  have inv := (MapInv.empty (κ := κ)).connectAll es
  simp only [List.nil_append] at inv
  exact inv.shared k S k' h hk'

example : get? (connectAll ([] : FlowMap Nat) [(1, 2), (3, 4), (4, 2)]) 1 = some [3, 4, 1, 2] ∧
    (2 : Nat) ∈ [3, 4, 1, 2] := by decide

/-! ## The pass over a flat class -/

/-- The connection sets the pass ends with are exactly the connected components of the
    flow-level edge graph (keys = flat flow variable with its inside/outside face). -/
theorem final_sets_are_components (inp : Input) (sets : List (List Key))
    (h : finalSets inp = .ok sets) :
    (∀ S ∈ sets, IsComponent (flowEdges inp.edges) S) ∧
    (∀ k, Touched (flowEdges inp.edges) k → ∃ S ∈ sets, k ∈ S) ∧
    sets.Pairwise (fun S T => ∀ k, k ∈ S → k ∉ T) := by
  cases hx : expand inp with
  | error x =>
    simp only [expand] at hx
    simp only [finalSets] at h
    split at hx
    · cases hx
    · rename_i x' hx'
      rw [hx'] at h
      cases h
  | ok eqs =>
    obtain ⟨_, st, hst, _, _, inv⟩ := expand_ok inp eqs hx
    simp only [finalSets, hst] at h
    cases h
    exact inv.sets

example : finalSets exInput = .ok [[("c1.a.i", true), ("c2.a.i", true), ("o.i", false)]] := by decide

/-- The pass raises (the code's `Exception("Unsupported connector variable prefixes")`) exactly
    when some connector variable of some connect clause has a prefix list outside the four
    recognised shapes; otherwise it returns equations. -/
theorem expand_raises_iff (inp : Input) :
    (∃ x, expand inp = .error x) ↔ ¬ Supported inp.edges := by
  constructor
  · rintro ⟨x, hx⟩ hs
    obtain ⟨st, h1, _⟩ := stepEdges_ok inp.edges (St.init inp) hs
    simp [expand, h1] at hx
  · intro hs
    obtain ⟨x, hx⟩ := stepEdges_bad inp.edges (St.init inp) hs
    exact ⟨x, by simp [expand, hx]⟩

example : ¬ Supported [⟨"", ["a"], ["b"], [⟨"d", ["discrete"]⟩]⟩] := by
  intro h
  exact h ⟨"", ["a"], ["b"], [⟨"d", ["discrete"]⟩]⟩ (List.mem_singleton.2 rfl) ⟨"d", ["discrete"]⟩
    (List.mem_singleton.2 rfl) (by decide)

/-! ## Potentials (values of any type) -/

/-- One equality per edge is as strong as equality throughout every connected component. -/
theorem potential_equiv {α β : Type} (es : List (α × α)) (σ : α → β) :
    (∀ p ∈ es, σ p.1 = σ p.2) ↔ (∀ a b, Conn es a b → σ a = σ b) := by
  constructor
  · intro h a b c
    exact conn_eq_of_edges es σ h c
  · intro h p hp
    exact h p.1 p.2 (.edge hp)

example : Conn [((1 : Nat), 2), (3, 2)] 1 3 :=
  (Conn.edge (a := 1) (b := 2) (by simp)).trans (Conn.edge (a := 3) (b := 2) (by simp)).symm

/-! ## Algebra part (values in any additive commutative group, e.g. any field) -/

section Algebra
variable {K : Type} [AddCommGroup K]

/-- The equation emitted for a connection set states: (sum over inside members) − (sum over
    outside members) = 0; this includes the all-outside form, which is written without minus
    signs and is the same equation multiplied by −1. -/
theorem flow_sum_sign (S : List Key) (σ : String → K) :
    (sumEqn S).holds σ ↔
      ((S.filter fun k => k.2).map fun k => σ k.1).sum -
      ((S.filter fun k => !k.2).map fun k => σ k.1).sum = 0 := by
  rw [sumEqn_holds, signed_sum_split]

example : sumEqn [("o1.i", false), ("o2.i", false)] = .sum [("o1.i", false), ("o2.i", false)] ∧
    sumEqn [("o.i", false), ("c.a.i", true)] = .sum [("o.i", true), ("c.a.i", false)] := by decide

/-- The pass emits `f = 0` exactly for the flow symbols no end of a connect clause refers to
    (under either face). -/
theorem unconnected_zero (inp : Input) (eqs : List Eqn) (h : expand inp = .ok eqs) (f : String) :
    Eqn.zero f ∈ eqs ↔ f ∈ inp.flowSyms ∧ ∀ b, ¬ Touched (flowEdges inp.edges) (f, b) := by
  obtain ⟨_, st, _, he, adv, _⟩ := expand_ok inp eqs h
  subst he
  rw [touched_key_iff]
  have hd := adv.disc f
  simp only [St.init] at hd
  rw [← hd]
  simp only [finish, List.mem_append, List.mem_map]
  constructor
  · rintro ((h1 | ⟨S, _, h1⟩) | ⟨n, hn, h1⟩)
    · rw [adv.eqs] at h1
      simp [St.init] at h1
    · unfold sumEqn at h1
      split at h1 <;> cases h1
    · cases h1
      exact hn
  · intro h1
    exact Or.inr ⟨f, h1, rfl⟩

example : ∃ eqs, expand exInput = .ok eqs ∧ Eqn.zero "c1.b.i" ∈ eqs ∧ Eqn.zero "c1.a.i" ∉ eqs := by
  refine ⟨_, rfl, ?_, ?_⟩ <;> decide

/-- The equations derived by the pass have exactly the solutions of the reference connection
    semantics — for every flat class the pass accepts, whatever the number, order and shape of
    its connect clauses. -/
theorem solutions_equal (inp : Input) (eqs : List Eqn) (h : expand inp = .ok eqs)
    (σ : String → K) : Sol eqs σ ↔ RefSol inp σ := by
  obtain ⟨_, st, _, he, adv, inv⟩ := expand_ok inp eqs h
  subst he
  obtain ⟨comp, cover, _⟩ := inv.sets
  unfold finish
  rw [sol_append, sol_append]
  -- the three groups of equations, one by one
  have hp : Sol st.eqs σ ↔ ∀ p ∈ potEdges inp.edges, σ p.1 = σ p.2 := by
    rw [adv.eqs]
    simp only [St.init, List.nil_append, Sol, List.mem_map]
    constructor
    · intro h1 p hp
      exact h1 _ ⟨p, hp, rfl⟩
    · rintro h1 e ⟨p, hp, rfl⟩
      exact h1 p hp
  have hf : Sol ((distinctSets st.fc).map sumEqn) σ ↔
      ∀ S, IsComponent (flowEdges inp.edges) S → (S.map (signed σ)).sum = 0 := by
    simp only [Sol, List.mem_map]
    constructor
    · intro h1 S' hS'
      obtain ⟨nd', k0, t0, m0⟩ := hS'
      obtain ⟨S, hS, hk0⟩ := cover k0 t0
      obtain ⟨nd, k1, _, m1⟩ := comp S hS
      have hperm : S.Perm S' := by
        rw [List.perm_ext_iff_of_nodup nd nd']
        intro k
        rw [m1, m0]
        have c10 : Conn (flowEdges inp.edges) k1 k0 := (m1 k0).1 hk0
        constructor
        · exact fun c => c10.symm.trans c
        · exact fun c => c10.trans c
      have := (sumEqn_holds S σ).1 (h1 _ ⟨S, hS, rfl⟩)
      rw [← perm_sum (hperm.map (signed σ))]
      exact this
    · rintro h1 e ⟨S, hS, rfl⟩
      exact (sumEqn_holds S σ).2 (h1 S (comp S hS))
  have hz : Sol (st.disc.map Eqn.zero) σ ↔
      ∀ f ∈ inp.flowSyms, (∀ b, ¬ Touched (flowEdges inp.edges) (f, b)) → σ f = 0 := by
    simp only [Sol, List.mem_map]
    constructor
    · intro h1 f hf ht
      have : f ∈ st.disc := (adv.disc f).2 ⟨hf, (touched_key_iff _ f).1 ht⟩
      exact h1 _ ⟨f, this, rfl⟩
    · rintro h1 e ⟨f, hf, rfl⟩
      have := (adv.disc f).1 hf
      exact h1 f this.1 ((touched_key_iff _ f).2 this.2)
  rw [hp, hf, hz, potential_equiv]
  constructor
  · rintro ⟨⟨a, b⟩, c⟩
    exact ⟨a, b, c⟩
  · intro r
    exact ⟨⟨r.potential, r.flow⟩, r.unconnected⟩

-- non-vacuity: the small circuit is accepted and yields two potential equations, one mixed
-- inside/outside flow sum and one zero
example : expand exInput = .ok [.pot "c1.a.v" "c2.a.v", .pot "o.v" "c1.a.v",
    .sum [("c1.a.i", false), ("c2.a.i", false), ("o.i", true)], .zero "c1.b.i"] := by decide

end Algebra

/-- `solutions_equal` for the case the property names: values in a field. -/
theorem solutions_equal_field {F : Type} [Field F] (inp : Input) (eqs : List Eqn)
    (h : expand inp = .ok eqs) (σ : String → F) : Sol eqs σ ↔ RefSol inp σ :=
  solutions_equal inp eqs h σ

example : ∃ eqs, expand exInput = .ok eqs := ⟨_, rfl⟩

end PymocaVerif.Connect
