/-! # C15 — property theorems (stub: not built yet) -/
