import PymocaVerif.Lemmas.Gen
import PymocaVerif.Lemmas.GenRange
/-!
# Lemmas for C11: equations, if-equations, for-equations, ranges, whole residual functions
-/
namespace PymocaVerif.Gen
open PymocaVerif.ExprSem

theorem genL_refines (P : Prims K) (o : Opts) (T : FTab K) (F : FSem K) (hT : TabOK P T F)
    (hS : NoShadow T) : ∀ (es : List (MExpr K)) (ts : List (CTerm K)), genL P o T es = .ok ts →
    ∀ ρ : Env K, Refines (evalCL P ρ ts) (evalML P F ρ es)
  | [], ts, h, ρ => by simp [genL] at h; subst h; simp [evalCL, evalML]; exact Refines.refl
  | e :: es, ts, h, ρ => by
    simp only [genL] at h
    obtain ⟨t, ht, h2⟩ := bind_ok.mp h
    obtain ⟨ts', hts, hc⟩ := bind_ok.mp h2
    cases hc
    simp only [evalCL, evalML]
    exact Refines.bind (gen_refines P o T F hT hS e t ht ρ)
      (fun _ => Refines.bind (genL_refines P o T F hT hS es ts' hts ρ) (fun _ => Refines.refl))

theorem rhsIsCall_congr (k1 k2 : String → Bool) (h : ∀ f, k1 f = k2 f) (e : MExpr K) :
    rhsIsCall k1 e = rhsIsCall k2 e := by
  cases e <;> simp [rhsIsCall, h]

/-- Left-hand side of an equation: a single term, or the `vertcat` of a tuple. -/
theorem evalC_lhs (P : Prims K) (ρ : Env K) (tl : List (CTerm K)) (lv : List (List K))
    (h : evalCL P ρ tl = some lv) :
    evalC P ρ (lhsTerm tl) = some lv.flatten := by
  unfold lhsTerm
  match tl, h with
  | [t], h =>
    simp only [evalCL] at h
    cases ht : evalC P ρ t with
    | none => simp [ht] at h
    | some v => simp [ht] at h; subst h; simp
  | [], h => simp [evalCL] at h; subst h; simp [evalC, CTerms.ofList, evalCs]
  | t1 :: t2 :: rest, h => simp [evalC, evalCs_ofList, h]

/-- `exitEquation`: the residual term evaluates to `lhs - rhs` (with the outputs of a called function
    truncated to the left-hand side). -/
theorem genSEq_refines (P : Prims K) (o : Opts) (T : FTab K) (F : FSem K) (hT : TabOK P T F)
    (hS : NoShadow T) (e : SEq K) (c : CTerm K) (h : genSEq P o T e = .ok c) (ρ : Env K) :
    Refines (evalC P ρ c) (residualSEq P F ρ e) := by
  unfold genSEq at h
  obtain ⟨tl, htl, h2⟩ := bind_ok.mp h
  obtain ⟨tr, htr, hc⟩ := bind_ok.mp h2
  simp only [Except.ok.injEq] at hc
  intro v hv
  unfold residualSEq at hv
  cases hlv : evalML P F ρ e.ls with
  | none => simp [hlv] at hv
  | some lv =>
    cases hr : evalM P F ρ e.r with
    | none => simp [hlv, hr] at hv
    | some r =>
      simp only [hlv, hr, Option.bind_eq_bind, Option.bind_some] at hv
      have h1 := genL_refines P o T F hT hS e.ls tl htl ρ lv hlv
      have h2 := gen_refines P o T F hT hS e.r tr htr ρ r hr
      have hL := evalC_lhs P ρ tl lv h1
      have hk : rhsIsCall (knownFn T) e.r = rhsIsCall (fun f => (F f).isSome) e.r :=
        rhsIsCall_congr _ _ (fun f => by simp [knownFn, hT.dom f]) e.r
      rw [← hc]
      generalize lhsTerm tl = L at hL ⊢
      by_cases hcall : rhsIsCall (fun f => (F f).isSome) e.r = true
      · simp only [hk, hcall, if_true] at hv ⊢
        simp only [evalC, hL, h2, evalOp2, methPrim2, Option.bind_eq_bind, Option.bind_some]
        simpa using hv
      · have hcall' : rhsIsCall (fun f => (F f).isSome) e.r = false := by simpa using hcall
        simp only [hk, hcall', Bool.false_eq_true, if_false] at hv ⊢
        simp only [evalC, hL, h2, evalOp2, methPrim2, Option.bind_eq_bind, Option.bind_some]
        simpa using hv

theorem genBlock_refines (P : Prims K) (o : Opts) (T : FTab K) (F : FSem K) (hT : TabOK P T F)
    (hS : NoShadow T) : ∀ (b : List (SEq K)) (ts : List (CTerm K)), genBlock P o T b = .ok ts →
    ∀ ρ : Env K, Refines (evalC P ρ (.vcat (CTerms.ofList ts))) (residualBlock P F ρ b)
  | [], ts, h, ρ => by
    simp [genBlock] at h; subst h
    simp [evalC, CTerms.ofList, evalCs, residualBlock]; exact Refines.refl
  | e :: es, ts, h, ρ => by
    simp only [genBlock] at h
    obtain ⟨t, ht, h2⟩ := bind_ok.mp h
    obtain ⟨ts', hts, hc⟩ := bind_ok.mp h2
    cases hc
    have ih := genBlock_refines P o T F hT hS es ts' hts ρ
    have h1 := genSEq_refines P o T F hT hS e t ht ρ
    intro v hv
    simp only [residualBlock] at hv
    cases hv1 : residualSEq P F ρ e with
    | none => simp [hv1] at hv
    | some v1 =>
      cases hv2 : residualBlock P F ρ es with
      | none => simp [hv1, hv2] at hv
      | some v2 =>
        simp [hv1, hv2] at hv
        have e1 := h1 v1 hv1
        have e2 := ih v2 hv2
        simp only [evalC, evalCs_ofList] at e2
        cases hts' : evalCL P ρ ts' with
        | none => simp [hts'] at e2
        | some vs' =>
          simp [hts'] at e2
          simp [evalC, evalCs_ofList, evalCL, e1, hts', e2, hv]

theorem genBlocks_refines (P : Prims K) (o : Opts) (T : FTab K) (F : FSem K) (hT : TabOK P T F)
    (hS : NoShadow T) : ∀ (bs : List (List (SEq K))) (ts : List (CTerm K)), genBlocks P o T bs = .ok ts →
    ∀ ρ : Env K, Refines (evalCL P ρ ts) (residualBlocks P F ρ bs)
  | [], ts, h, ρ => by
    simp [genBlocks] at h; subst h; simp [evalCL, residualBlocks]; exact Refines.refl
  | b :: bs, ts, h, ρ => by
    simp only [genBlocks] at h
    obtain ⟨tb, htb, h2⟩ := bind_ok.mp h
    obtain ⟨rest, hrest, hc⟩ := bind_ok.mp h2
    cases hc
    simp only [evalCL, residualBlocks]
    exact Refines.bind (genBlock_refines P o T F hT hS b tb htb ρ)
      (fun _ => Refines.bind (genBlocks_refines P o T F hT hS bs rest hrest ρ) (fun _ => Refines.refl))

/-- An if-equation: the chain built from the translated conditions and blocks picks the block of the
    first true condition. -/
theorem nestAll_refines_residualIf (P : Prims K) (o : Opts) (T : FTab K) (F : FSem K) (hT : TabOK P T F)
    (hS : NoShadow T) (ρ : Env K) : ∀ (cs : List (MExpr K)) (bs : List (List (SEq K)))
    (tcs tbs : List (CTerm K)), genL P o T cs = .ok tcs → genBlocks P o T bs = .ok tbs →
    Refines (evalC P ρ (nestAll tcs tbs)) (residualIf P F ρ cs bs)
  | [], [], tcs, tbs, _, _ => by intro v hv; simp [residualIf] at hv
  | [], [b], tcs, tbs, hc, hb => by
    simp [genL] at hc; subst hc
    simp only [genBlocks] at hb
    obtain ⟨tb, htb, h2⟩ := bind_ok.mp hb
    obtain ⟨rest, hrest, hc⟩ := bind_ok.mp h2
    simp at hrest; subst hrest; cases hc
    simpa [nestAll, residualIf] using genBlock_refines P o T F hT hS b tb htb ρ
  | [], _ :: _ :: _, tcs, tbs, _, _ => by intro v hv; simp [residualIf] at hv
  | _ :: _, [], tcs, tbs, _, _ => by intro v hv; simp [residualIf] at hv
  | c :: cs, b :: bs, tcs, tbs, hc, hb => by
    simp only [genL] at hc
    obtain ⟨tc, htc, h2⟩ := bind_ok.mp hc
    obtain ⟨tcs', htcs', hc'⟩ := bind_ok.mp h2
    cases hc'
    simp only [genBlocks] at hb
    obtain ⟨tb, htb, h3⟩ := bind_ok.mp hb
    obtain ⟨tbs', htbs', hb'⟩ := bind_ok.mp h3
    cases hb'
    simp only [nestAll, evalC, residualIf]
    refine Refines.bind (gen_refines P o T F hT hS c tc htc ρ) (fun vc => Refines.bind_same (fun t => ?_))
    cases t
    · simpa using nestAll_refines_residualIf P o T F hT hS ρ cs bs tcs' tbs' htcs' htbs'
    · simpa [evalC] using genBlock_refines P o T F hT hS b tb htb ρ

theorem genBlocks_length (P : Prims K) (o : Opts) (T : FTab K) : ∀ (bs : List (List (SEq K)))
    (ts : List (CTerm K)), genBlocks P o T bs = .ok ts → ts.length = bs.length
  | [], ts, h => by simp [genBlocks] at h; subst h; rfl
  | b :: bs, ts, h => by
    simp only [genBlocks] at h
    obtain ⟨tb, _, h2⟩ := bind_ok.mp h
    obtain ⟨rest, hrest, hc⟩ := bind_ok.mp h2
    cases hc
    simp [genBlocks_length P o T bs rest hrest]

theorem rowsOver_refines (f g : Int → Option (List K)) (h : ∀ v, Refines (f v) (g v)) :
    ∀ vals : List Int, Refines (rowsOver f vals) (rowsOver g vals)
  | [] => by simp [rowsOver]; exact Refines.refl
  | v :: vs => by
    simp only [rowsOver]
    exact Refines.bind (h v) (fun _ => Refines.bind (rowsOver_refines f g h vs) (fun _ => Refines.refl))

theorem genMEq_refines (P : Prims K) (o : Opts) (T : FTab K) (F : FSem K) (hT : TabOK P T F)
    (hS : NoShadow T) (ienv : String → Option Int) (q : MEq K) (c : CTerm K)
    (h : genMEq P o T ienv q = .ok c) (ρ : Env K) (hidx : ρ.idx = ienv) :
    Refines (evalC P ρ c) (residualM P F ρ q) := by
  cases q with
  | simple e =>
    simp only [genMEq] at h
    simpa [residualM] using genSEq_refines P o T F hT hS e c h ρ
  | ifeq cs bs =>
    simp only [genMEq] at h
    obtain ⟨tcs, htcs, h2⟩ := bind_ok.mp h
    obtain ⟨tbs, htbs, h3⟩ := bind_ok.mp h2
    split at h3
    · cases h3
    · split at h3
      · rename_i hlen
        cases h3
        rw [foldFromLast_eq_nestAll tcs tbs hlen]
        simpa [residualM] using nestAll_refines_residualIf P o T F hT hS ρ cs bs tcs tbs htcs htbs
      · cases h3
  | foreq i start stop step body =>
    simp only [genMEq] at h
    cases hstop : stop.eval ienv with
    | none => simp [hstop, bind, Except.bind] at h
    | some hi =>
      simp only [hstop] at h
      have hro : arangeCode start step hi = modelicaRange start step hi := arangeCode_eq start step hi
      simp only [pure, Except.pure, bind, Except.bind] at h
      split at h
      · cases h
      · cases hts : genBlock P o T body with
          | error e => simp [hts] at h
          | ok ts =>
            simp only [hts] at h
            intro v hv
            simp only [residualM, hidx, hstop, Option.bind_eq_bind, Option.bind_some] at hv
            rw [← hro] at hv
            split at h
            · rename_i hemp
              cases h
              have hnil : arangeCode start step hi = [] := by simpa using hemp
              simp [hnil, rowsOver, bodyMajor] at hv
              subst hv
              simp [evalC, evalCs]
            · cases h
              cases hrows : rowsOver (fun v => residualBlock P F (ρ.bind i v) body) (arangeCode start step hi) with
              | none => simp [hrows] at hv
              | some rows =>
                simp [hrows] at hv
                have := rowsOver_refines
                  (fun v => evalC P (ρ.bind i v) (.vcat (CTerms.ofList ts)))
                  (fun v => residualBlock P F (ρ.bind i v) body)
                  (fun v => genBlock_refines P o T F hT hS body ts hts (ρ.bind i v))
                  (arangeCode start step hi) rows hrows
                rw [evalC, this]
                simp [hv]

theorem genMEqs_refines (P : Prims K) (o : Opts) (T : FTab K) (F : FSem K) (hT : TabOK P T F)
    (hS : NoShadow T) (ienv : String → Option Int) : ∀ (qs : List (MEq K)) (ts : List (CTerm K)),
    genMEqs P o T ienv qs = .ok ts → ∀ ρ : Env K, ρ.idx = ienv →
    Refines (evalCL P ρ ts) (residualsM P F ρ qs)
  | [], ts, h, ρ, _ => by
    simp [genMEqs] at h; subst h; simp [evalCL, residualsM]; exact Refines.refl
  | q :: qs, ts, h, ρ, hidx => by
    simp only [genMEqs] at h
    obtain ⟨t, ht, h2⟩ := bind_ok.mp h
    obtain ⟨ts', hts, hc⟩ := bind_ok.mp h2
    cases hc
    simp only [evalCL, residualsM]
    exact Refines.bind (genMEq_refines P o T F hT hS ienv q t ht ρ hidx)
      (fun _ => Refines.bind (genMEqs_refines P o T F hT hS ienv qs ts' hts ρ hidx) (fun _ => Refines.refl))

end PymocaVerif.Gen
