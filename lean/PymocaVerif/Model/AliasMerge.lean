import PymocaVerif.Model.ExtRat
/-!
# Model of the attribute merge of alias elimination (C16)

`Model._simplify_once`, option `detect_aliases`, the loop

    for canonical, aliases in self.alias_relation:
        ... start/min/max/nominal/fixed/python_type of the canonical state ...
        for alias in aliases:
            if len(old_alias_relation.aliases(alias)) > 1 and alias not in old_alias_relation.canonical_variables:
                continue                      # "already handled in a previous pass"
            sign, alias = (-1, alias[1:]) if alias[0] == "-" else (1, alias)
            ...
            m = fmax(m, alias.min if sign == 1 else -alias.max)
            M = fmin(M, alias.max if sign == 1 else -alias.min)
            nominal = fmax(nominal, alias.nominal);  fixed = fmax(fixed, alias.fixed)
            start adopted (sign * alias.start) only while the canonical's start is the default marker

as a fold of `step` over the aliases in iteration order.  The number type is a parameter: the
driver instantiates it with `ExtRat`, the theorems hold over every linear order with an
order-reversing involutive negation (every ordered field in particular).  Core Lean only.
-/
namespace PymocaVerif.AliasMerge

/-- `Variable.python_type` -/
inductive PType where
  | float | int | bool
deriving DecidableEq, Repr, Inhabited

/-- The attributes of a `Variable` the loop reads and writes.  `start = none` is the
    `_DefaultValue` marker (no explicit start).  `fixed` is 0/1 in the code (folded with `fmax`). -/
structure Attrs (α : Type) where
  min : α
  max : α
  nominal : α
  fixed : Bool
  start : Option α
  ptype : PType
deriving Repr

/-- One element of the set of (signed) alias names the loop iterates over, with the facts the loop
    reads about it. -/
structure Entry (α : Type) where
  /-- the name starts with `-` -/
  neg : Bool
  /-- `len(old_alias_relation.aliases(alias)) > 1` -/
  oldMulti : Bool
  /-- the outcome of the code's test `alias in old_alias_relation.canonical_variables`.  The code looks
      the *signed* string up in a set of unsigned names, so for a negative alias this is `false` whatever
      the variable was (finding C16-F2); the harness supplies the outcome as the current code computes it. -/
  inCanon : Bool
  attrs : Attrs α
deriving Repr

/-- The `continue` test ("already handled in a previous pass"). -/
def Entry.skipped {α : Type} (e : Entry α) : Bool :=
  e.oldMulti && !e.inCanon

section
variable {α : Type} [Max α] [Min α] [Neg α]

/-- lower bound an alias contributes: `alias.min if sign == 1 else -alias.max` -/
def lo (neg : Bool) (a : Attrs α) : α := if neg then -a.max else a.min
/-- upper bound an alias contributes: `alias.max if sign == 1 else -alias.min` -/
def hi (neg : Bool) (a : Attrs α) : α := if neg then -a.min else a.max
/-- `sign * v` -/
def sgn (neg : Bool) (v : α) : α := if neg then -v else v

/-- the body of the loop for an alias that is not skipped -/
def absorb (c : Attrs α) (neg : Bool) (a : Attrs α) : Attrs α :=
  { min := Max.max c.min (lo neg a)
    max := Min.min c.max (hi neg a)
    nominal := Max.max c.nominal a.nominal
    fixed := c.fixed || a.fixed
    start := match c.start with
      | some v => some v
      | none => a.start.map (sgn neg)
    ptype := if a.ptype = PType.float then c.ptype else a.ptype }

/-- one iteration of the inner loop -/
def step (c : Attrs α) (e : Entry α) : Attrs α :=
  if e.skipped then c else absorb c e.neg e.attrs

/-- the inner loop: the canonical's attributes after all aliases (in iteration order) -/
def merge (c : Attrs α) (es : List (Entry α)) : Attrs α := es.foldl step c

/-- what the loop may adopt as start from one entry -/
def adopt (e : Entry α) : Option α :=
  if e.skipped then none else e.attrs.start.map (sgn e.neg)

/-- The starts the merged canonical can end up with when the iteration order of the (unordered)
    set of aliases is not known: its own explicit start, else any merged alias' explicit
    sign-adjusted start, else the default marker. -/
def startChoices (c : Attrs α) (es : List (Entry α)) : List (Option α) :=
  match c.start with
  | some v => [some v]
  | none =>
    let xs := es.filterMap adopt
    if xs.isEmpty then [none] else xs.map some

/-- The Python types the merged canonical can end up with for an unknown iteration order: the
    type of any merged alias that is not `float` (the last one met wins), else its own. -/
def ptypeChoices (c : Attrs α) (es : List (Entry α)) : List PType :=
  let xs := (es.filter fun e => !e.skipped && !(e.attrs.ptype = PType.float)).map fun e => e.attrs.ptype
  if xs.isEmpty then [c.ptype] else xs

end

/-- an alias met for the first time (no earlier pass knew it) -/
def fresh {α : Type} (neg : Bool) (a : Attrs α) : Entry α :=
  { neg := neg, oldMulti := false, inCanon := false, attrs := a }

end PymocaVerif.AliasMerge
