/-! # C16 — property theorems (stub: not built yet) -/
