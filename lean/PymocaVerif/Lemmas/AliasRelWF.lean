import PymocaVerif.Lemmas.AliasRel
/-!
The full invariant of `AliasRelation` (classes, canonical map, canonical-variables set) and its
preservation by `add` and `remove` (C17).
-/
namespace PymocaVerif.AliasRel

/-- the union `aliases(a) | aliases(b)` that `add` builds -/
abbrev AA (s : AR) (a b : SName) : List SName := s.aliases a ++ s.aliases b

/-- the state `add(a, b)` produces when the early return is not taken -/
def AR.addRes (s : AR) (a b : SName) : AR :=
  { al := fun k => if k ∈ AA s a b then some (AA s a b)
                   else if tog k ∈ AA s a b then some (s.aliases (tog a) ++ s.aliases (tog b)) else s.al k,
    cmap := fun k => if tog k ∈ AA s a b then some (flipIf true (s.canonicalSigned a))
                     else if k ∈ AA s a b then some (s.canonicalSigned a) else s.cmap k,
    cv := (if (s.canonicalSigned a).1 ∈ s.cv then s.cv else s.cv ++ [(s.canonicalSigned a).1]).filter
            (· != (s.canonicalSigned b).1) }

theorem add_eff (s : AR) (a b : SName) (hb : b ∉ s.aliases a) : s.add a b = some (s.addRes a b) := by
  simp only [AR.add, hb, if_false]; rfl

theorem add_noop (s : AR) (h : ARInv s) (a b : SName) (hb : b ∈ s.aliases a) : s.add a b = some s := by
  have : a ∈ s.aliases b := aliases_symm s h hb
  simp [AR.add, hb, this]

theorem addRes_al (s : AR) (a b : SName) : (s.addRes a b).al = s.addAl a b := rfl

theorem can_addRes (s : AR) (a b k : SName) :
    (s.addRes a b).canonicalSigned k =
      if tog k ∈ AA s a b then flipIf true (s.canonicalSigned a)
      else if k ∈ AA s a b then s.canonicalSigned a else s.canonicalSigned k := by
  unfold AR.canonicalSigned AR.addRes
  simp only
  split
  · rfl
  · split <;> rfl

structure WFR (s : AR) : Prop where
  cls : ARInv s
  dom : ∀ x, s.cmap x = none ↔ s.al x = none
  nontriv : ∀ x A, s.al x = some A → ∃ y, y ∈ A ∧ y ≠ x
  can_mem : ∀ x, ((s.canonicalSigned x).2, (s.canonicalSigned x).1) ∈ s.aliases x
  can_eq : ∀ x y, y ∈ s.aliases x → s.canonicalSigned y = s.canonicalSigned x
  can_neg : ∀ x, s.canonicalSigned (tog x) = flipIf true (s.canonicalSigned x)
  cv_iff : ∀ c, c ∈ s.cv ↔ s.cmap (false, c) = some (c, false)
  cv_nodup : s.cv.Nodup

theorem empty_wfr : WFR AR.empty where
  cls := empty_inv
  dom := by intro x; simp [AR.empty]
  nontriv := by intro x A h; cases h
  can_mem := by intro x; simp [AR.empty, AR.canonicalSigned, AR.aliases]
  can_eq := by
    intro x y h; simp [AR.empty, AR.aliases] at h; subst h; rfl
  can_neg := by intro x; simp [AR.empty, AR.canonicalSigned, flipIf, tog]
  cv_iff := by intro c; simp [AR.empty]
  cv_nodup := by simp [AR.empty]

/-! ### facts about the merged class -/

theorem closedA (s : AR) (h : ARInv s) (a b x y : SName) (hx : x ∈ AA s a b) (hy : y ∈ s.aliases x) :
    y ∈ AA s a b := by
  simp only [AA, List.mem_append] at hx ⊢
  rcases hx with hx | hx
  · exact Or.inl (aliases_trans s h hx hy)
  · exact Or.inr (aliases_trans s h hx hy)

theorem memI (s : AR) (h : ARInv s) (a b z : SName) :
    z ∈ s.aliases (tog a) ++ s.aliases (tog b) ↔ tog z ∈ AA s a b := by
  simp only [AA, List.mem_append, aliases_tog s h]

theorem outsideA (s : AR) (h : ARInv s) (a b x y : SName) (hx : x ∉ AA s a b) (hnx : tog x ∉ AA s a b)
    (hy : y ∈ s.aliases x) : y ∉ AA s a b ∧ tog y ∉ AA s a b := by
  constructor
  · intro hyA; exact hx (closedA s h a b y x hyA (aliases_symm s h hy))
  · intro hnyA
    have : tog x ∈ s.aliases (tog y) := (aliases_tog s h y (tog x)).2 (by simpa using aliases_symm s h hy)
    exact hnx (closedA s h a b (tog y) (tog x) hnyA this)

theorem a_mem_AA (s : AR) (h : ARInv s) (a b : SName) : a ∈ AA s a b :=
  List.mem_append.2 (Or.inl (mem_aliases_self s h a))

theorem b_mem_AA (s : AR) (h : ARInv s) (a b : SName) : b ∈ AA s a b :=
  List.mem_append.2 (Or.inr (mem_aliases_self s h b))

theorem tog_mem_AA_iff (s : AR) (a b k : SName) : tog (tog k) ∈ AA s a b ↔ k ∈ AA s a b := by simp

/-- classes after an effective `add` -/
theorem aliases_addRes (s : AR) (a b x y : SName) :
    y ∈ (s.addRes a b).aliases x ↔
      (if x ∈ AA s a b then y ∈ AA s a b
       else if tog x ∈ AA s a b then y ∈ s.aliases (tog a) ++ s.aliases (tog b)
       else y ∈ s.aliases x) :=
  mem_aliases_add s _ a b x y rfl

theorem flipIf_flipIf (p : String × Bool) : flipIf true (flipIf true p) = p := by
  cases p with | mk c sg => cases sg <;> rfl

theorem tog_pair (sg : Bool) (c : String) : tog (sg, c) = (!sg, c) := rfl

/-- a canonical name with both signs cannot be shared by `a`'s and `b`'s class when `b` is in
    neither `a`'s class nor that of `-a` -/
theorem can_ne (s : AR) (w : WFR s) (a b : SName) (hb : b ∉ s.aliases a) (hpre : b ∉ s.aliases (tog a)) :
    (s.canonicalSigned a).1 ≠ (s.canonicalSigned b).1 := by
  intro e
  have h := w.cls
  have ma := w.can_mem a
  have mb := w.can_mem b
  rw [← e] at mb
  by_cases hs : (s.canonicalSigned a).2 = (s.canonicalSigned b).2
  · rw [← hs] at mb
    -- the same signed name is in both classes
    have : b ∈ s.aliases a := aliases_trans s h ma (aliases_symm s h mb)
    exact hb this
  · have e2 : ((s.canonicalSigned b).2, (s.canonicalSigned a).1) = tog ((s.canonicalSigned a).2, (s.canonicalSigned a).1) := by
      simp only [tog]
      cases h1 : (s.canonicalSigned a).2 <;> cases h2 : (s.canonicalSigned b).2 <;> simp_all
    rw [e2] at mb
    -- tog m ∈ class b, m ∈ class a  ⇒  b ∈ class (tog a)
    have h1 : tog ((s.canonicalSigned a).2, (s.canonicalSigned a).1) ∈ s.aliases (tog a) :=
      (aliases_tog s h a _).2 (by simpa using ma)
    exact hpre (aliases_trans s h h1 (aliases_symm s h mb))

theorem addRes_wfr (s : AR) (w : WFR s) (a b : SName) (hb : b ∉ s.aliases a) (hpre : b ∉ s.aliases (tog a)) :
    WFR (s.addRes a b) := by
  have h := w.cls
  have disj := disjoint_neg s h a b hpre
  have hA := a_mem_AA s h a b
  have hB := b_mem_AA s h a b
  have hab : a ≠ b := fun e => hb (e ▸ mem_aliases_self s h a)
  have hcm : ((s.canonicalSigned a).2, (s.canonicalSigned a).1) ∈ AA s a b :=
    List.mem_append.2 (Or.inl (w.can_mem a))
  have hcmb : ((s.canonicalSigned b).2, (s.canonicalSigned b).1) ∈ AA s a b :=
    List.mem_append.2 (Or.inr (w.can_mem b))
  have hcne := can_ne s w a b hb hpre
  refine ⟨addAl_inv s _ h a b hpre rfl, ?_, ?_, ?_, ?_, ?_, ?_, ?_⟩
  · -- dom
    intro x
    simp only [AR.addRes]
    by_cases h1 : x ∈ AA s a b
    · have h2 : tog x ∉ AA s a b := disj x h1
      simp [h1, h2]
    · by_cases h2 : tog x ∈ AA s a b
      · simp [h1, h2]
      · simp [h1, h2, w.dom x]
  · -- nontriv
    intro x S hS
    simp only [AR.addRes] at hS
    by_cases h1 : x ∈ AA s a b
    · simp only [h1, if_true, Option.some.injEq] at hS
      subst hS
      by_cases e : x = a
      · exact ⟨b, hB, fun e' => hab (e'.trans e).symm⟩
      · exact ⟨a, hA, fun e' => e e'.symm⟩
    · by_cases h2 : tog x ∈ AA s a b
      · simp only [h1, h2, if_true, if_false, Option.some.injEq] at hS
        subst hS
        have ta : tog a ∈ s.aliases (tog a) ++ s.aliases (tog b) := (memI s h a b _).2 (by simpa using hA)
        have tb : tog b ∈ s.aliases (tog a) ++ s.aliases (tog b) := (memI s h a b _).2 (by simpa using hB)
        by_cases e : x = tog a
        · exact ⟨tog b, tb, fun e' => hab (tog_inj (e'.trans e)).symm⟩
        · exact ⟨tog a, ta, fun e' => e e'.symm⟩
      · simp only [h1, h2, if_false] at hS
        exact w.nontriv x S hS
  · -- can_mem
    intro x
    rw [can_addRes, aliases_addRes]
    by_cases h2 : tog x ∈ AA s a b
    · have h1 : x ∉ AA s a b := fun hx => disj x hx h2
      simp only [h1, h2, if_true, if_false]
      rw [memI s h a b]
      simpa [flipIf, tog] using hcm
    · by_cases h1 : x ∈ AA s a b
      · simp only [h1, h2, if_true, if_false]; exact hcm
      · simp only [h1, h2, if_false]; exact w.can_mem x
  · -- can_eq
    intro x y hy
    rw [aliases_addRes] at hy
    rw [can_addRes, can_addRes]
    by_cases h1 : x ∈ AA s a b
    · simp only [h1, if_true] at hy
      have nx : tog x ∉ AA s a b := disj x h1
      have ny : tog y ∉ AA s a b := disj y hy
      simp [h1, hy, nx, ny]
    · by_cases h2 : tog x ∈ AA s a b
      · simp only [h1, h2, if_true, if_false] at hy
        have ty : tog y ∈ AA s a b := (memI s h a b y).1 hy
        simp [h2, ty]
      · simp only [h1, h2, if_false] at hy
        obtain ⟨oy1, oy2⟩ := outsideA s h a b x y h1 h2 hy
        simp only [h1, h2, oy1, oy2, if_false]
        exact w.can_eq x y hy
  · -- can_neg
    intro x
    rw [can_addRes, can_addRes]
    simp only [tog_tog]
    by_cases h1 : x ∈ AA s a b
    · have nx : tog x ∉ AA s a b := disj x h1
      simp [h1, nx]
    · by_cases h2 : tog x ∈ AA s a b
      · simp [h1, h2, flipIf_flipIf]
      · simp only [h1, h2, if_false]; exact w.can_neg x
  · -- cv_iff
    intro c
    have hmemcv : c ∈ (s.addRes a b).cv ↔
        (c ∈ s.cv ∨ c = (s.canonicalSigned a).1) ∧ c ≠ (s.canonicalSigned b).1 := by
      simp only [AR.addRes, List.mem_filter, bne_iff_ne, ne_eq]
      by_cases hc : (s.canonicalSigned a).1 ∈ s.cv
      · simp only [hc, if_true]
        constructor
        · intro ⟨h1, h2⟩; exact ⟨Or.inl h1, h2⟩
        · intro ⟨h1, h2⟩
          rcases h1 with h1 | h1
          · exact ⟨h1, h2⟩
          · exact ⟨h1 ▸ hc, h2⟩
      · simp [hc]
    rw [hmemcv]
    -- the canonical sign of a name in the merged class or its negation has canonical `ca.1`
    have key : ∀ k : SName, (k ∈ AA s a b ∨ tog k ∈ AA s a b) →
        ((s.canonicalSigned k).1 = (s.canonicalSigned a).1 ∨ (s.canonicalSigned k).1 = (s.canonicalSigned b).1) := by
      intro k hk
      have base : ∀ k, k ∈ AA s a b →
          ((s.canonicalSigned k).1 = (s.canonicalSigned a).1 ∨ (s.canonicalSigned k).1 = (s.canonicalSigned b).1) := by
        intro k hk
        rcases List.mem_append.1 hk with hk | hk
        · exact Or.inl (by rw [w.can_eq a k hk])
        · exact Or.inr (by rw [w.can_eq b k hk])
      rcases hk with hk | hk
      · exact base k hk
      · have := base (tog k) hk
        rw [w.can_neg k] at this
        simpa [flipIf] using this
    by_cases ht : (false, c) ∈ AA s a b ∨ tog (false, c) ∈ AA s a b
    · -- touched: the new entry has canonical name `ca.1`
      have kk := key (false, c) ht
      have hX : ∃ X : String × Bool, (s.addRes a b).cmap (false, c) = some X ∧ X.1 = (s.canonicalSigned a).1 ∧
          (X.2 = false ↔ ((false, c) ∈ AA s a b ↔ (s.canonicalSigned a).2 = false)) := by
        simp only [AR.addRes]
        by_cases h2 : tog (false, c) ∈ AA s a b
        · have h1 : (false, c) ∉ AA s a b := fun hx => disj _ hx h2
          refine ⟨flipIf true (s.canonicalSigned a), by simp only [h2, if_true], rfl, ?_⟩
          simp only [flipIf, h1, false_iff]
          cases (s.canonicalSigned a).2 <;> simp
        · have h1 : (false, c) ∈ AA s a b := by rcases ht with ht | ht; exact ht; exact absurd ht h2
          refine ⟨s.canonicalSigned a, by simp only [h2, h1, if_true, if_false], rfl, ?_⟩
          simp [h1]
      obtain ⟨X, hX1, hX2, hX3⟩ := hX
      rw [hX1]
      constructor
      · intro ⟨hh, hne⟩
        have hc : c = (s.canonicalSigned a).1 := by
          rcases hh with hh | hh
          · have hc : s.canonicalSigned (false, c) = (c, false) := by
              simp [AR.canonicalSigned, (w.cv_iff c).1 hh]
            rw [hc] at kk
            rcases kk with kk | kk
            · exact kk
            · exact absurd kk hne
          · exact hh
        subst hc
        have hsign : X.2 = false := by
          rw [hX3]
          constructor
          · intro h1
            cases hsg : (s.canonicalSigned a).2 with
            | false => rfl
            | true =>
              exfalso
              rw [hsg] at hcm
              exact disj _ h1 (by simpa [tog] using hcm)
          · intro hsg
            rw [hsg] at hcm; exact hcm
        congr 1
        exact Prod.ext hX2 hsign
      · intro e
        simp only [Option.some.injEq] at e
        subst e
        simp only at hX2
        exact ⟨Or.inr hX2, fun e' => hcne (hX2.symm.trans e')⟩
    · have h1 : (false, c) ∉ AA s a b := fun hx => ht (Or.inl hx)
      have h2 : tog (false, c) ∉ AA s a b := fun hx => ht (Or.inr hx)
      simp only [AR.addRes, h1, h2, if_false]
      rw [← w.cv_iff c]
      constructor
      · intro ⟨hh, _⟩
        rcases hh with hh | hh
        · exact hh
        · exfalso
          subst hh
          cases hsg : (s.canonicalSigned a).2 with
          | false => rw [hsg] at hcm; exact h1 hcm
          | true => rw [hsg] at hcm; exact h2 (by simpa [tog] using hcm)
      · intro hh
        refine ⟨Or.inl hh, ?_⟩
        intro e
        subst e
        cases hsg : (s.canonicalSigned b).2 with
        | false => rw [hsg] at hcmb; exact h1 hcmb
        | true => rw [hsg] at hcmb; exact h2 (by simpa [tog] using hcmb)
  · -- nodup
    have hn : (if (s.canonicalSigned a).1 ∈ s.cv then s.cv else s.cv ++ [(s.canonicalSigned a).1]).Nodup := by
      by_cases hc : (s.canonicalSigned a).1 ∈ s.cv
      · simp only [hc, if_true]; exact w.cv_nodup
      · simp only [hc, if_false]
        rw [List.nodup_append]
        exact ⟨w.cv_nodup, by simp, by intro x hx y hy; simp at hy; subst hy; intro e; exact hc (e ▸ hx)⟩
    exact List.Pairwise.filter _ hn

end PymocaVerif.AliasRel
