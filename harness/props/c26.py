"""C26 — the compiler CLI's exit status counts exactly the errors.

Real code: `tools.compiler.main(argv)` run in-process (cwd = a scratch "world" directory,
`SystemExit`, escaping exceptions, the `pymoca` logger and stderr captured).

Direct oracle (written from the property text, independent of the Lean model): the status must
be  2 for argument errors;  else the number of usage errors (output directory, missing paths,
ill-formed -O, no Modelica file at all);  else the number of files that do not parse;  else the
number of requested models that fail to flatten / generate — where "fails" is established by
calling pymoca's own API (`tree.flatten`, `sympy generate`, `casadi transfer_model`) directly,
outside the CLI.  Second oracle (per-model independence): an invocation with several models
must return the sum of the statuses of the same invocation with each model alone, and must
leave the same generated files.

Tie: every invocation is abstracted (argparse verdict, path kinds, listed files with parse
outcome, option strings, per-model outcome labels) and given to the Lean model `Cli.main`
(driver `drv_c26`, `Variant.fixed` = the code as it is since commit c313463); outcome kind, status
and the set of generated files must be equal.

Findings C26-F1..F4 (exceptions escaping / failures not counted with -t sympy, -t casadi without a
matching file, undecodable file) were fixed by that commit (proposed_fixes/C26-1.diff); their input
classes stay in the run as the streams `sympyfail`, `nomatch`, `undecodable` and as corpus cases.
"""
import contextlib
import io
import json
import logging
import os
import random
import shutil

from harness.common import HarnessError

DRIVERS = ["drv_c26"]
RULE = ("one case = one invocation of tools.compiler.main over a generated scratch library (2-4 directories, valid / "
        "failing / syntactically broken files, duplicate stems, same-named but different files in different directories "
        "(the second one broken or defining the requested model), blockers in the output directory) with generated PATH "
        "lists, 0-3 -m models, -t none|sympy|casadi, -O well/ill-formed, -o existing/missing/file, -v levels and "
        "argparse-level defects; non-trivial = the invocation passes argparse (so the tool's own counting logic is "
        "exercised); distinct = distinct (world files, argv)")
TRUSTED = ["argparse's verdict on the generated argv spellings is predicted by the generator (exit 2 / exit 0 / accepted) and "
           "checked against the real parser on every case",
           "whether a model 'fails to flatten or generate' is established by calling pymoca's API directly, outside the CLI"]
ASSUMPTIONS = [
    "staged reading of the property: usage errors stop the tool before parsing, parse errors stop it before flattening/"
    "generating, so later-stage errors of such an invocation are not attempted and not counted",
    "'no Modelica files in the given PATHs' counts as one usage error (as the repository's tests expect)",
    "-t casadi: the tool does not parse files itself; a model with no unique file, or whose transfer_model raises for any "
    "reason (including a broken file in its directory), is one failing model",
    "a file listed twice (PATHs overlapping) is parsed twice and would be counted twice; the generator does not overlap "
    "PATHs that contain broken files",
    "codegen=true is not generated as a -O option (would invoke the C compiler)",
    "which -O spellings are malformed is implementation-defined: `name=value` with one '=' (non-empty name, non-integer "
    "value) counts as accepted and a string without '=' as one usage error by construction; other spellings (`a=b=c`, "
    "`=v`, ` a = 1`, `x=1`, `a=`) are classified by running the tool on that option alone and then must be counted the same "
    "way in every invocation",
]

MOD = {
    "good": "model {n} Real x(start=1); parameter Real k = 2; equation der(x) = -k*x; end {n};",
    "uses": "model {n} {g} g; Real y; equation y = g.x; end {n};",
    "ext": "model {n} extends {g}; Real w; equation w = 2*x; end {n};",
    "pkg": "package {n} constant Real c = 3; model In Real z; equation z = c; end In; end {n};",
    "fail": "model {n} Missing{n} m; end {n};",
    "failext": "model {n} extends Nowhere{n}; Real x; equation x = 1; end {n};",
    "arr": "model {n} Real x[2]; equation x = {{1,2}}; end {n};",
    "ife": "model {n} Real x; equation x = if time > 1 then 1 else 2; end {n};",
    "huge": "model {n} parameter Real huge = 1e400; Real x(max = 1e999, nominal = 1e-400); equation x = 1e-400 * huge; end {n};",
    "bad": "model {n} Real x; equation x = ; end {n};",
    "bad2": "model {n} Real x equation x = 1; end {n}",
    "latin1": "model {n} Real x; // café\n equation x = 1; end {n};",
}
CONNLIB = ("package {n} connector Port Real p; flow Real q; end Port; "
           "model Pipe Port a; Port b; parameter Real k = 2.0; equation a.q + b.q = 0; a.q = k * (a.p - b.p); end Pipe; "
           "model Long extends Pipe; Real len; equation len = 2 * k; end Long; "
           "model Network Pipe first(k = 3.0); Pipe second; Real inlet; equation connect(first.b, second.a); "
           "first.a.p = inlet; inlet = 1.0; second.b.p = 0.0; end Network; end {n};")
CONNFLAT = {
    "Port": "connector {p}Port Real p; flow Real q; end {p}Port;",
    "Pipe": "model {p}Pipe {p}Port a; {p}Port b; parameter Real k = 2.0; equation a.q + b.q = 0; a.q = k * (a.p - b.p); end {p}Pipe;",
    "Net": "model {p}Net {p}Pipe first(k = 3.0); {p}Pipe second; Real inlet; equation connect(first.b, second.a); "
           "first.a.p = inlet; inlet = 1.0; second.b.p = 0.0; end {p}Net;",
}
IMPLIB = ("package {n}A model M1 Real x; equation x = 1; end M1; end {n}A; package {n}B constant Real k = 1; end {n}B; "
          "package {n} import {n}A.*; import {n}B.*; model U M1 a; Real y; equation y = a.x; end U; "
          "model V M1 b; Real z; equation z = b.x; end V; end {n};")
GOODKINDS = ["good", "good", "uses", "ext", "pkg", "huge"]
# -O strings.  Which spellings the tool accepts is implementation-defined and outside the property, so only the two
# clear classes are classified by construction; the ambiguous spellings are classified by asking the implementation
# (the option alone in an invocation where nothing else can fail) and then counted accordingly.
WELL_FORMED = ["detect_aliases=true", "expand_vectors=False", "spam=eggs", "check_balanced=True", "cache=False",
               "replace_constant_values=TRUE", "x=one", "resolve_parameter_values=false"]
MALFORMED = ["eggs", "NAME", "k:v", "novalue", "cache"]
AMBIGUOUS = ["a=b=c", "a==", "=v", " a = 1", "x=1", "a=", "library_path=p=q"]
FAILKINDS = ["fail", "failext"]
SYMPYBAD = ["arr", "ife"]


# ------------------------------------------------------------------------------------------
# worlds
# ------------------------------------------------------------------------------------------
def gen_world(rng, wid):
    """A scratch library: {"id", "files": {relpath: [kind, text]}, "dirs": [...]}."""
    files, models = {}, {}
    counter = [0]

    def name(prefix):
        counter[0] += 1
        return "%s%d" % (prefix, counter[0])

    def add(d, kind, n=None, dep=None):
        n = n or name({"good": "G", "uses": "U", "ext": "E", "pkg": "P", "huge": "H", "fail": "F", "failext": "X", "arr": "A",
                       "ife": "I", "bad": "B", "bad2": "B", "latin1": "L"}[kind])
        text = MOD[kind].format(n=n, g=dep or "")
        files["%s/%s.mo" % (d, n)] = [kind, text]
        if kind not in ("bad", "bad2", "latin1"):
            models.setdefault(n, kind)
        return n

    libs = ["libA", "libB"]
    goods = {}
    chains = []      # [used model, model that uses it] with the PATHs that list both
    for d in libs:
        g = add(d, "good")
        goods[d] = [g]
        for _ in range(rng.randint(1, 4)):
            k = rng.choice(GOODKINDS + FAILKINDS + SYMPYBAD)
            if k in ("uses", "ext"):
                # mostly a dependency in the same directory; sometimes across libraries
                dd = d if rng.random() < 0.75 or d == libs[0] else libs[0]
                dep = rng.choice(goods[dd])
                u = add(d, k, dep=dep)
                chains.append({"paths": sorted(set([d, dd])), "models": [dep, u]})
            else:
                n = add(d, k)
                if k == "good":
                    goods[d].append(n)
    # a nested directory, sometimes with a copy of a model of its parent (ambiguous stem for -t casadi)
    sub = "libA/sub"
    add(sub, rng.choice(["good", "pkg", "fail"]))
    if rng.random() < 0.6:
        src = rng.choice([p for p in files if p.startswith("libA/") and p.count("/") == 1])
        files[sub + "/" + os.path.basename(src)] = list(files[src])
    # broken files live in their own directory and, sometimes, inside libB
    nbad = rng.randint(1, 2)
    for _ in range(nbad):
        add("broken", rng.choice(["bad", "bad2"]))
    if rng.random() < 0.35:
        add("broken", "latin1")
    if rng.random() < 0.25:
        add("libB/attic", "bad")
    # models with connector components, inside a package (one file) and as top-level classes (one file each)
    ln = name("Lib")
    files["conn/%s.mo" % ln] = ["good", CONNLIB.format(n=ln)]
    for m in ("Pipe", "Long", "Network"):
        models.setdefault("%s.%s" % (ln, m), "good")
    chains.append({"paths": ["conn"], "models": [ln + ".Pipe", ln + ".Network"]})
    chains.append({"paths": ["conn"], "models": [ln + ".Pipe", ln + ".Long"]})
    # valid files that define no class at all (comments only / empty): they parse, so they are no errors
    files["conn/Notes.mo"] = ["good", "// notes on the connector library; no class in here\n"]
    files["libA/Blank.mo"] = ["good", ""]
    cp = name("C")
    for part, text in CONNFLAT.items():
        files["conn/%s%s.mo" % (cp, part)] = ["good", text.format(p=cp)]
    models.setdefault(cp + "Pipe", "good")
    models.setdefault(cp + "Net", "good")
    chains.append({"paths": ["conn"], "models": [cp + "Pipe", cp + "Net"]})
    # a package with two unqualified imports whose models use an imported class (input class of finding C26-F5, fixed by 68cd940)
    il = name("Imp")
    files["imp/%s.mo" % il] = ["good", IMPLIB.format(n=il)]
    models.setdefault(il + ".U", "good")
    models.setdefault(il + ".V", "good")
    # the same model file in 2..5 directories (candidates for the model directory of -t casadi)
    rn = name("R")
    nrep = rng.choice([2, 3, 3, 4, 5])
    for i in range(nrep):
        files["site%d/%s.mo" % (i, rn)] = ["good", MOD["good"].format(n=rn, g="")]
    models.setdefault(rn, "good")
    on = name("G")
    files["site0/%s.mo" % on] = ["good", MOD["good"].format(n=on, g="")]
    models.setdefault(on, "good")
    replicas = {"model": rn, "other": on, "n": nrep}
    # same file name in two directories, different content: the second one is broken, or defines another model
    twins = []
    for da, db, second in (("core", "draft", "bad"), ("core", "vendor", "other")):
        n = name("T")
        files["%s/%s.mo" % (da, n)] = ["good", MOD["good"].format(n=n, g="")]
        models.setdefault(n, "good")
        if second == "bad":
            files["%s/%s.mo" % (db, n)] = [rng.choice(["bad", "bad2"]), MOD[rng.choice(["bad", "bad2"])].format(n=n, g="")]
            twins.append({"a": "%s/%s.mo" % (da, n), "b": "%s/%s.mo" % (db, n), "second": "bad", "models": [n]})
        else:
            v = "V" + n
            files["%s/%s.mo" % (db, n)] = ["good", MOD[rng.choice(["good", "uses"])].format(n=v, g=n)]
            models.setdefault(v, "good")
            twins.append({"a": "%s/%s.mo" % (da, n), "b": "%s/%s.mo" % (db, n), "second": "other", "models": [v, n]})
    dirs = ["empty", "out"]
    blockers = []
    # output files that cannot be written: the name is taken by a directory
    for d in libs:
        if rng.random() < 0.75:
            m = rng.choice(goods[d])
            blockers.append(m)
            dirs.append("out/%s.py" % m)
    return {"id": wid, "files": files, "dirs": dirs, "other": {"empty/notes.txt": "no models here\n", "README.txt": "x\n"},
            "models": models, "blockers": blockers, "twins": twins, "chains": chains, "replicas": replicas, "implib": il}


def materialise(ctx, world):
    root = os.path.join(ctx.scratch, "c26-" + str(world["id"]))
    if os.path.isdir(root):
        return root
    os.makedirs(root)
    for d in world["dirs"]:
        os.makedirs(os.path.join(root, d), exist_ok=True)
    for rel, (kind, text) in world["files"].items():
        p = os.path.join(root, rel)
        os.makedirs(os.path.dirname(p), exist_ok=True)
        with open(p, "wb") as f:
            f.write(text.encode("latin-1" if kind == "latin1" else "utf-8"))
    for rel, text in world.get("other", {}).items():
        p = os.path.join(root, rel)
        os.makedirs(os.path.dirname(p), exist_ok=True)
        with open(p, "w") as f:
            f.write(text)
    return root


# ------------------------------------------------------------------------------------------
# invocations
# ------------------------------------------------------------------------------------------
def render_argv(inv, rng):
    """Spell a structured invocation as an argv list (spelling variants argparse accepts)."""
    opts = []

    def opt(short, long_, val, abbrev=None):
        r = rng.random()
        if val[:1] in ("=", " ", "-") and 0.35 <= r < 0.5:
            r = 0.1     # `-O=v` would be read as value "v": keep such values in a token of their own
        if r < 0.35:
            opts.append([short, val])
        elif r < 0.5:
            opts.append([short + val])
        elif r < 0.75:
            opts.append([long_, val])
        elif r < 0.9 or not abbrev:
            opts.append([long_ + "=" + val])
        else:
            opts.append([abbrev, val])

    for m in inv["models"]:
        opt("-m", "--model", m, "--mod")
    if inv["target"]:
        opt("-t", "--target", inv["target"], "--tar")
    for o in inv["options"]:
        opt("-O", "--option", o, "--opt")
    if inv["outdir"] is not None:
        opt("-o", "--outdir", inv["outdir"], "--out")
    v = inv["verbose"]
    if v == 1:
        opts.append([rng.choice(["-v", "--verbose"])])
    elif v >= 2:
        opts.append(rng.choice([["-vv"], ["-v", "-v"], ["--verbose", "-v"]]))
    # models keep their relative order (the model loop is ordered); shuffle the rest around them
    idx = list(range(len(opts)))
    nm = len(inv["models"])
    rest = idx[nm:]
    rng.shuffle(rest)
    order, mi = [], 0
    slots = sorted(rng.sample(range(len(idx)), nm)) if nm else []
    ri = iter(rest)
    for pos in range(len(idx)):
        if pos in slots:
            order.append(mi)
            mi += 1
        else:
            order.append(next(ri))
    flat = [tok for i in order for tok in opts[i]]
    paths = list(inv["paths"])
    d = inv.get("defect")
    if d == "unknown-flag":
        flat.insert(rng.randint(0, len(flat)), rng.choice(["--frobnicate", "-x", "--models"]))
    elif d in ("help", "version"):
        tok = rng.choice(["-h", "--help"]) if d == "help" else "--version"
        flat = [tok] + flat if rng.random() < 0.5 else flat + [tok]
    elif d == "bad-target":
        flat += ["-t", rng.choice(["sausage", "Sympy", "c"])]
    elif d == "missing-value":
        return paths + flat + [rng.choice(["-m", "-t", "-O", "-o", "--model"])]
    elif d == "no-path":
        return flat
    elif d == "split-paths" and len(paths) >= 2 and flat:
        return paths[:1] + flat + paths[1:]
    return paths + flat if rng.random() < 0.5 else flat + paths


def gen_invocation(rng, world, stream):
    """Structured invocation; `stream` selects the region of the domain:
    main: everything else; sympyfail / nomatch / undecodable: the input classes of the (fixed) findings C26-F1..F4."""
    files = world["files"]
    models = world["models"]
    clean_dirs = ["libA", "libB", "libA/sub"]
    has_attic = any(p.startswith("libB/attic/") for p in files)
    if has_attic:
        clean_dirs = ["libA", "libA/sub"]
    good_files = [p for p, (k, _) in files.items() if k not in ("bad", "bad2", "latin1")]
    bad_files = [p for p, (k, _) in files.items() if k in ("bad", "bad2")]
    latin = [p for p, (k, _) in files.items() if k == "latin1"]
    inv = {"paths": [], "models": [], "target": None, "options": [], "outdir": None, "verbose": rng.choice([0, 0, 1, 2, 2]),
           "defect": None}
    r = rng.random()
    # ---- PATHs
    npaths = rng.choice([1, 1, 2, 2, 3])
    pool = []
    for _ in range(npaths):
        q = rng.random()
        if q < 0.5:
            pool.append(rng.choice(clean_dirs))
        elif q < 0.8:
            pool.append(rng.choice(good_files))
        else:
            pool.append(rng.choice(["libA", "libB"]))
    # no overlapping / repeated PATHs by default
    paths = []
    for p in pool:
        if not any(p == q or p.startswith(q + "/") or q.startswith(p + "/") for q in paths):
            paths.append(p)
    inv["paths"] = paths
    kind = stream
    if stream == "main":
        kind = rng.choice(["models"] * 6 + ["parse"] * 2 + ["usage"] * 3 + ["argparse"] * 2 + ["nofiles"] + ["twins"] * 2 + ["deporder"] * 3 + ["replicas"] * 3 + ["incwd"] * 3 + ["importcache"])
    inv["kind"] = kind
    # ---- target and models
    inv["target"] = rng.choice([None, None, "sympy", "casadi", "casadi"])
    listed_stems = set()
    for p in paths:
        for f in files:
            if f == p or f.startswith(p + "/"):
                listed_stems.add(os.path.basename(f)[:-3])
    names_all = sorted(models) + [m + ".In" for m, k in models.items() if k == "pkg"]

    def pick_models(n, cands):
        return [rng.choice(cands) for _ in range(n)] if cands else []

    nm = rng.choice([0, 1, 1, 2, 2, 3])
    if inv["target"] and nm == 0:
        nm = 1
    if inv["target"] == "casadi":
        cands = sorted(n for n in listed_stems if n in models)
        inv["models"] = pick_models(nm, cands)
    elif inv["target"] == "sympy":
        cands = sorted(n for n in names_all if models.get(n.split(".")[0]) in ("good", "uses", "ext", "pkg")
                       and n.split(".")[0] in listed_stems)
        inv["models"] = pick_models(nm, cands)
    else:
        inv["models"] = pick_models(nm, names_all + ["Nope"])
    if inv["target"] and not inv["models"]:
        inv["target"] = None
    # ---- options, outdir
    for _ in range(rng.choice([0, 0, 1, 2])):
        inv["options"].append(rng.choice(WELL_FORMED))
    inv["outdir"] = rng.choice(["out", "out", None]) if inv["target"] != "sympy" else "out"
    # ---- stream-specific edits
    if kind == "usage":
        for _ in range(rng.randint(1, 3)):
            q = rng.random()
            if q < 0.35:
                inv["paths"].insert(rng.randint(0, len(inv["paths"])), rng.choice(["nowhere", "libA/Nope.mo", "libZ/x"]))
            elif q < 0.6:
                inv["outdir"] = rng.choice(["missing-out", "README.txt", "libA/" + sorted(os.path.basename(f) for f in files
                                                                                       if f.startswith("libA/") and f.count("/") == 1)[0]])
            else:
                inv["options"].insert(rng.randint(0, len(inv["options"])), rng.choice(MALFORMED if rng.random() < 0.75 else AMBIGUOUS))
        if rng.random() < 0.3:   # usage errors hide later-stage errors
            inv["paths"].append("broken")
        if rng.random() < 0.2:   # ... but not argument errors: -t without -m stays status 2
            inv["defect"] = "target-without-model"
            inv["models"] = []
            inv["target"] = rng.choice(["sympy", "casadi"])
    elif kind == "parse":
        if inv["target"] == "casadi":
            inv["target"] = None
        nb = rng.randint(1, 2)
        for _ in range(nb):
            q = rng.random()
            cand = "broken" if q < 0.4 or not bad_files else rng.choice(bad_files)
            if latin and cand == "broken":
                cand = rng.choice(bad_files)
            if not any(cand == q2 or cand.startswith(q2 + "/") or q2.startswith(cand + "/") for q2 in inv["paths"]):
                inv["paths"].insert(rng.randint(0, len(inv["paths"])), cand)
        if has_attic and rng.random() < 0.5 and not any(p.startswith("libB") for p in inv["paths"]):
            inv["paths"].append("libB")
    elif kind == "twins" and world.get("twins"):
        # two different files with the same name: as file arguments or through their directories, either order
        tw = rng.choice(world["twins"])
        a, b = tw["a"], tw["b"]
        if rng.random() < 0.5:
            a, b = os.path.dirname(a), os.path.dirname(b)
        elif rng.random() < 0.3:
            b = os.path.dirname(b)
        pair = [a, b] if rng.random() < 0.7 else [b, a]
        extra = [rng.choice(["libA", "libA/sub"])] if rng.random() < 0.3 else []
        inv["paths"] = extra + pair if rng.random() < 0.5 else pair + extra
        inv["target"] = rng.choice([None, None, None, "sympy", "casadi"])
        inv["outdir"] = "out" if inv["target"] == "sympy" else rng.choice(["out", None])
        nm2 = rng.choice([0, 1, 1, 2]) if tw["second"] == "other" else rng.choice([0, 0, 1])
        if inv["target"]:
            nm2 = max(nm2, 1)
        inv["models"] = [rng.choice(tw["models"]) if rng.random() < 0.8 else tw["models"][0] for _ in range(nm2)]
    elif kind == "deporder" and world.get("chains"):
        # a model requested before / after / together with a model that uses it, or twice, in one call
        ch = rng.choice(world["chains"])
        dep, user = ch["models"]
        inv["paths"] = list(ch["paths"])
        rng.shuffle(inv["paths"])
        inv["target"] = rng.choice([None, None, None, None, "sympy"])
        inv["outdir"] = "out" if inv["target"] else rng.choice(["out", None])
        inv["models"] = rng.choice([[dep, user], [dep, user], [user, dep], [dep, dep], [dep, user, dep], [dep, dep, user],
                                    [user, user], [dep, user, user]])
    elif kind == "importcache" and world.get("implib"):
        # several models of a package with two unqualified imports in one flatten-only call (C26-F5, fixed)
        il = world["implib"]
        inv["paths"] = [rng.choice(["imp", "imp/%s.mo" % il])]
        inv["target"] = rng.choice([None, None, None, "sympy"])
        inv["outdir"] = "out" if inv["target"] else None
        inv["models"] = [il + "." + rng.choice("UV") for _ in range(rng.choice([2, 2, 3]))]
    elif kind == "replicas" and world.get("replicas"):
        # 1..n directories that each hold a file named <Model>.mo
        rp = world["replicas"]
        j = min(rp["n"], rng.choice([1, 2, 3, 3, 4, 5, 5]))
        sites = ["site%d" % i for i in range(rp["n"])]
        inv["paths"] = rng.sample(sites, j)
        if rng.random() < 0.3:
            inv["paths"] = ["site%d/%s.mo" % (int(p[4:]), rp["model"]) if rng.random() < 0.5 else p for p in inv["paths"]]
        inv["target"] = rng.choice(["casadi", "casadi", "casadi", None, "sympy"])
        inv["outdir"] = "out" if inv["target"] == "sympy" else rng.choice(["out", None])
        ms = [rp["model"]]
        for _ in range(rng.choice([0, 0, 1, 2])):
            ms.insert(rng.randint(0, len(ms)), rng.choice([rp["model"], rp["other"]]))
        inv["models"] = ms
    elif kind == "incwd":
        # the tool is run from inside a library directory: bare file names, `.`, `./x`, sub-directories, `../other`
        wd = rng.choice(["libA", "libB", "conn", "site0", "core", "libA/sub"])
        up = "../" * (wd.count("/") + 1)
        here = sorted(os.path.basename(f) for f, (k, _t) in files.items()
                      if os.path.dirname(f) == wd and k not in ("bad", "bad2", "latin1"))
        cands = [rng.choice(here), rng.choice(here), ".", "./" + rng.choice(here)]
        if wd == "libA":
            cands.append("sub")
        others = {"libA": ["libB"], "libB": ["libA"], "site0": ["site1"], "core": ["vendor", "draft"], "conn": ["libA"],
                  "libA/sub": ["libA", "libB"]}[wd]
        ps = [rng.choice(cands)]
        if rng.random() < 0.5:
            q = rng.choice(cands + [up + o for o in others] + [up + o for o in others])
            if q not in ps and not (q == "." or "." in ps):
                ps.insert(rng.randint(0, 1), q)
        inv["paths"] = ps
        inv["cwd"] = wd
        inv["target"] = rng.choice(["casadi", "casadi", None, "sympy"])
        inv["outdir"] = up + "out" if inv["target"] == "sympy" or rng.random() < 0.3 else None
        listed = set()
        for p in ps:
            rp = os.path.normpath(os.path.join(wd, p))
            for f in files:
                if f == rp or f.startswith(rp + "/"):
                    listed.add(os.path.basename(f)[:-3])
        pool = sorted(n for n in listed if n in models)
        nm3 = rng.choice([1, 1, 2, 3]) if inv["target"] else rng.choice([0, 1, 2])
        inv["models"] = [rng.choice(pool) for _ in range(nm3)] if pool else []
        if inv["target"] and not inv["models"]:
            inv["target"] = None
    elif kind == "nofiles":
        inv["paths"] = rng.choice([["empty"], ["README.txt"], ["empty", "empty/notes.txt"], ["out"]])
        if inv["target"] == "casadi" or rng.random() < 0.5:
            inv["models"] = inv["models"] or ["Nope"]
    elif kind == "argparse":
        inv["defect"] = rng.choice(["unknown-flag", "bad-target", "missing-value", "no-path", "split-paths", "help", "version",
                                    "target-without-model"])
        if inv["defect"] == "target-without-model":
            inv["models"] = []
            inv["target"] = rng.choice(["sympy", "casadi"])
        if inv["defect"] == "split-paths":
            if len(inv["paths"]) < 2:
                inv["paths"] = ["libA", "libA/sub"][:2] if rng.random() < 0.5 else [rng.choice(good_files), "nowhere"]
            if not (inv["models"] or inv["options"] or inv["verbose"] or inv["target"] or inv["outdir"]):
                inv["verbose"] = 1
        if rng.random() < 0.4:  # argparse errors win over everything else
            inv["paths"].append("nowhere")
            inv["options"].append("eggs")
    elif kind == "sympyfail":       # C26-F1 / C26-F2 input classes
        inv["target"] = "sympy"
        inv["outdir"] = "out"
        inv["paths"] = [rng.choice(["libA", "libB"])] if rng.random() < 0.7 else ["libA", "libB"]
        if has_attic:
            inv["paths"] = ["libA"]
        lib = [os.path.basename(f)[:-3] for f in files if any(f.startswith(p + "/") for p in inv["paths"])]
        failing = sorted(n for n in lib if models.get(n) in FAILKINDS + SYMPYBAD) + ["Nope"] + \
            [b for b in world["blockers"] if b in lib]
        okm = sorted(n for n in lib if models.get(n) in ("good", "pkg"))
        blocked = [b for b in world["blockers"] if b in lib]
        ms = [rng.choice(blocked) if blocked and rng.random() < 0.4 else rng.choice(failing)]
        for _ in range(rng.choice([0, 1, 2])):
            ms.insert(rng.randint(0, len(ms)), rng.choice(failing + blocked + okm + okm))
        inv["models"] = ms
    elif kind == "nomatch":         # C26-F3 input class
        inv["target"] = "casadi"
        stems = sorted(n for n in listed_stems if n in models)
        absent = ["Nope"] + sorted(n for n in models if n not in listed_stems)[:3] + \
            [m + ".In" for m, k in models.items() if k == "pkg"][:1]
        ms = [rng.choice(absent)]
        for _ in range(rng.choice([0, 1, 2])):
            ms.insert(rng.randint(0, len(ms)), rng.choice(stems + absent) if stems else rng.choice(absent))
        inv["models"] = ms
    elif kind == "undecodable":     # C26-F4 input class
        if not latin:
            return None
        if inv["target"] == "casadi":
            inv["target"] = rng.choice([None, "sympy"])
            inv["outdir"] = "out"
            inv["models"] = [m for m in inv["models"] if m in models][:1] or ([sorted(models)[0]] if inv["target"] else [])
        inv["paths"].append(rng.choice(latin + ["broken"]))
    return inv


# ------------------------------------------------------------------------------------------
# ground truth by direct API calls (outside the CLI), memoised per world
# ------------------------------------------------------------------------------------------
class Truth:
    def __init__(self, root, world):
        self.root, self.world, self.memo = root, world, {}

    def listing(self, paths):
        """Which files an invocation reads: [(relpath, path-index)] (files named directly must end in .mo;
        directories are searched recursively)."""
        out = []
        for i, p in enumerate(paths):
            full = os.path.join(self.root, p)
            if os.path.isfile(full):
                if p.endswith(".mo"):
                    out.append((p, i))
            elif os.path.isdir(full):
                found = []
                for r, _d, fs in os.walk(full):
                    for f in fs:
                        if f.endswith(".mo"):
                            found.append(os.path.relpath(os.path.join(r, f), self.root))
                out += [(f, i) for f in sorted(found)]
        return out

    def parse(self, rel):
        key = ("parse", rel)
        if key not in self.memo:
            from pymoca import parser
            try:
                with open(os.path.join(self.root, rel), encoding="utf-8") as f:
                    txt = f.read()
                t = parser.parse(txt)
                self.memo[key] = "ok" if t is not None else "error"
            except (KeyError, AttributeError, OSError):
                self.memo[key] = "error"
            except Exception:
                self.memo[key] = "raise"
        return self.memo[key]

    def library(self, rels):
        from pymoca import parser, ast
        lib = ast.Tree(name="ModelicaTree")
        for rel in rels:
            with open(os.path.join(self.root, rel), encoding="utf-8") as f:
                lib.extend(parser.parse(f.read()))
        return lib

    def flatten(self, rels, model):
        key = ("flatten", tuple(rels), model)
        if key not in self.memo:
            from pymoca import ast, tree
            try:
                tree.flatten(self.library(rels), ast.ComponentRef.from_string(model))
                self.memo[key] = True
            except Exception:
                self.memo[key] = False
        return self.memo[key]

    def sympy(self, rels, model, outdir):
        """ok / false (the two exception classes translate() turns into a False return) / raise."""
        key = ("sympy", tuple(rels), model)
        if key not in self.memo:
            import pymoca.backends.sympy.generator as sympy_gen
            try:
                sympy_gen.generate(self.library(rels), model, {})
                self.memo[key] = "ok"
            except (KeyError, OSError):
                self.memo[key] = "false"
            except Exception:
                self.memo[key] = "raise"
        r = self.memo[key]
        if r == "ok" and os.path.isdir(os.path.join(self.root, outdir, model + ".py")):
            r = "false"   # the output file cannot be written
        return r

    def casadi(self, d, model, options):
        key = ("casadi", d, model, json.dumps(options, sort_keys=True))
        if key not in self.memo:
            import pymoca.backends.casadi.api as api
            try:
                api.transfer_model(os.path.join(self.root, d) if d else self.root, model, dict(options))
                self.memo[key] = True
            except Exception:
                self.memo[key] = False
        return self.memo[key]


def option_values(options):
    """The clearly well-formed -O strings as the dict the backends get (the ambiguous spellings only use names no
    backend knows, so they do not influence whether a model generates)."""
    good = {}
    for o in options:
        if o in WELL_FORMED:
            k, v = o.split("=")
            good[k] = True if v.lower() == "true" else False if v.lower() == "false" else v
    return good


_OPTION_VERDICT = {}


def option_ok(ctx, opt):
    """Does the tool accept `opt` as NAME=VALUE?  By construction for the two clear classes; for the ambiguous spellings
    the implementation is asked once per run: `main([<one valid file>, "-O", opt])`, where nothing else can be counted."""
    if opt in WELL_FORMED:
        return True
    if "=" not in opt:
        return False
    if opt not in _OPTION_VERDICT:
        root = os.path.join(ctx.scratch, "c26-option-probe")
        os.makedirs(root, exist_ok=True)
        with open(os.path.join(root, "Probe.mo"), "w") as f:
            f.write(MOD["good"].format(n="Probe", g=""))
        out = run_main(root, ["Probe.mo", "--option=" + opt])
        st = status_of(out)
        if st not in (0, 1) or out["kind"] != "return":
            ctx.violation("exception escaped main" if out["kind"] == "raised" else "exit status differs from the error count",
                          {"probe": True, "opt": opt, "argv": ["Probe.mo", "--option=" + opt]},
                          expected="0 or 1", observed=st, kind="input")
            st = 1
        _OPTION_VERDICT[opt] = (st == 0)
        ctx.count("option-probe:%s:%s" % (opt, "accepted" if st == 0 else "rejected"))
    return _OPTION_VERDICT[opt]


def abstract(ctx, truth, inv):
    """Everything the property (and the Lean model) needs to know about one invocation."""
    root = truth.root
    d = inv.get("defect")
    if d in ("help", "version"):
        verdict = "exit0"
    elif d in ("unknown-flag", "bad-target", "missing-value", "no-path", "split-paths"):
        verdict = "error"
    else:
        verdict = "ok"
    wd = inv.get("cwd") or ""
    rooted = lambda p: os.path.normpath(os.path.join(wd, p))
    outdir = rooted(inv["outdir"] if inv["outdir"] is not None else ".")
    opts = option_values(inv["options"])
    optok = [option_ok(ctx, o) for o in inv["options"]]
    nbad = sum(1 for b in optok if not b)
    inv_paths = [rooted(p) for p in inv["paths"]]
    lst = truth.listing(inv_paths)
    rels = [f for f, _ in lst]
    target = inv["target"] or "none"
    dirs = sorted(set(os.path.dirname(f) for f in rels))
    paths = []
    for i, p in enumerate(inv_paths):
        fs = []
        for f, j in lst:
            if j == i:
                po = truth.parse(f) if target != "casadi" else "ok"
                fs.append({"stem": os.path.basename(f)[:-3], "dir": dirs.index(os.path.dirname(f)), "parse": po, "rel": f})
        paths.append({"exists": os.path.exists(os.path.join(root, p)), "files": fs})
    usage0 = (0 if os.path.isdir(os.path.join(root, outdir)) else 1) + sum(1 for p in paths if not p["exists"]) + nbad
    parse_clean = all(f["parse"] == "ok" for p in paths for f in p["files"])
    models = []
    for m in inv["models"]:
        lab = {"name": m, "flatten_ok": True, "sympy": "ok", "casadi": []}
        if verdict == "ok" and usage0 == 0 and rels:
            if target == "none" and parse_clean:
                lab["flatten_ok"] = truth.flatten(rels, m)
            elif target == "sympy" and parse_clean:
                lab["sympy"] = truth.sympy(rels, m, outdir)
            elif target == "casadi":
                ds = sorted(set(os.path.dirname(f) for f in rels if os.path.basename(f)[:-3] == m))
                lab["casadi"] = [[dirs.index(x), truth.casadi(x, m, opts)] for x in ds]
        models.append(lab)
    return {"argparse": verdict, "target": target, "outdir_ok": os.path.isdir(os.path.join(root, outdir)), "paths": paths,
            "options": optok, "option_strings": list(inv["options"]), "models": models}


# ------------------------------------------------------------------------------------------
# the property, stated directly
# ------------------------------------------------------------------------------------------
def model_fails(ab, lab):
    t = ab["target"]
    if t == "none":
        return not lab["flatten_ok"]
    if t == "sympy":
        return lab["sympy"] != "ok"
    files = [f for p in ab["paths"] for f in p["files"]]
    n = sum(1 for f in files if f["stem"] == lab["name"])
    if n != 1:
        return True
    d = [f["dir"] for f in files if f["stem"] == lab["name"]][0]
    return not dict((a, b) for a, b in lab["casadi"])[d]


def expected_status(ab):
    """(status, stage) by the property text."""
    if ab["argparse"] == "error":
        return 2, "argparse"
    if ab["argparse"] == "exit0":
        return 0, "argparse-exit0"
    if ab["target"] != "none" and not ab["models"]:
        return 2, "argparse"
    usage = (0 if ab["outdir_ok"] else 1) + sum(1 for p in ab["paths"] if not p["exists"]) + \
        sum(1 for ok in ab["options"] if not ok)
    if usage:
        return usage, "usage"
    files = [f for p in ab["paths"] for f in p["files"]]
    if not files:
        return 1, "nofiles"
    if ab["target"] != "casadi":
        bad = sum(1 for f in files if f["parse"] != "ok")
        if bad:
            return bad, "parse"
    n = sum(1 for lab in ab["models"] if model_fails(ab, lab))
    return n, "models" if ab["models"] else "parse-only"


# ------------------------------------------------------------------------------------------
# running the real code
# ------------------------------------------------------------------------------------------
class _Collect(logging.Handler):
    def __init__(self):
        super().__init__(level=logging.DEBUG)
        self.errors = 0

    def emit(self, record):
        if record.levelno >= logging.ERROR:
            self.errors += 1


def clean_out(root):
    out = os.path.join(root, "out")
    if os.path.isdir(out):
        for f in os.listdir(out):
            p = os.path.join(out, f)
            if os.path.isfile(p):
                os.remove(p)
    for r, _d, fs in os.walk(root):   # casadi cache files, if an option asked for them
        for f in fs:
            if f.endswith((".pymoca_cache", ".c", ".so", ".o")):
                os.remove(os.path.join(r, f))


def run_main(root, argv, workdir=""):
    from tools import compiler
    log = logging.getLogger("pymoca")
    saved = (log.level, log.propagate)
    h = _Collect()
    log.addHandler(h)
    log.propagate = False
    cwd = os.getcwd()
    clean_out(root)
    os.chdir(os.path.join(root, workdir) if workdir else root)
    try:
        with contextlib.redirect_stderr(io.StringIO()), contextlib.redirect_stdout(io.StringIO()):
            try:
                r = compiler.main(list(argv))
                out = {"kind": "return", "code": r if isinstance(r, int) and not isinstance(r, bool) else repr(r)}
            except SystemExit as e:
                out = {"kind": "sysexit", "code": e.code if isinstance(e.code, int) else repr(e.code)}
            except Exception as e:  # noqa: BLE001 - the property: nothing escapes main
                out = {"kind": "raised", "exc": type(e).__name__}
    finally:
        os.chdir(cwd)
        log.removeHandler(h)
        log.setLevel(saved[0])
        log.propagate = saved[1]
    outdir = os.path.join(root, "out")
    written = {}
    if os.path.isdir(outdir):
        for f in sorted(os.listdir(outdir)):
            p = os.path.join(outdir, f)
            if os.path.isfile(p):
                with open(p, "rb") as fh:
                    written[f] = len(fh.read())
    out["written"] = written
    out["error_records"] = h.errors
    return out


def status_of(out):
    if out["kind"] in ("return", "sysexit"):
        return out["code"]
    return "raised:" + out["exc"]


def ask_model(drv, ab, variant):
    req = {"op": "cli.main", "variant": variant, "argparse": ab["argparse"], "target": ab["target"],
           "outdir_ok": ab["outdir_ok"], "options": ab["options"],
           "paths": [{"exists": p["exists"], "files": [{"stem": f["stem"], "dir": f["dir"], "parse": f["parse"]}
                                                     for f in p["files"]]} for p in ab["paths"]],
           "models": ab["models"]}
    ans = drv.ask(req)
    if not ans.get("ok"):
        raise HarnessError("model driver rejected %s: %s" % (json.dumps(req)[:300], ans))
    return ans


_TRUTH = {}


def check_invocation(ctx, case, drv, independence=True):
    world, inv, argv = case["world"], case["inv"], case["argv"]
    root = materialise(ctx, world)
    truth = _TRUTH.get((root, world["id"]))
    if truth is None:
        truth = _TRUTH[(root, world["id"])] = Truth(root, world)
    plog = logging.getLogger("pymoca")
    keep, nh = plog.propagate, logging.NullHandler()
    plog.addHandler(nh)
    plog.propagate = False
    try:
        with contextlib.redirect_stderr(io.StringIO()):   # ANTLR's console error listener
            ab = abstract(ctx, truth, inv)
    finally:
        plog.removeHandler(nh)
        plog.propagate = keep
    exp, stage = expected_status(ab)
    obs = run_main(root, argv, inv.get("cwd") or "")
    st = status_of(obs)
    small = {"world": world, "inv": inv, "argv": argv, "stage": stage,
             "labels": [{k: v for k, v in m.items()} for m in ab["models"]],
             "target": ab["target"], "parse": [f["parse"] for p in ab["paths"] for f in p["files"]],
             "matches": [sum(1 for p in ab["paths"] for f in p["files"] if f["stem"] == m["name"]) for m in ab["models"]],
             "expected": exp, "observed": st}
    ctx.count("stage:" + stage)
    ctx.count("target:" + ab["target"])
    ctx.count("models:%d" % len(inv["models"]))
    ctx.count("status:%s" % (st if isinstance(st, int) else "raised"))
    # ---- direct oracle 1: the count
    if obs["kind"] == "raised":
        ctx.violation("exception escaped main", small, expected=exp, observed=st, kind="input")
    elif st != exp:
        ctx.violation("exit status differs from the error count", small, expected=exp, observed=st, kind="input")
    elif (stage in ("argparse", "argparse-exit0")) != (obs["kind"] == "sysexit"):
        ctx.violation("argument errors must leave through argparse (SystemExit 2), counted errors through the return value",
                      small, expected=stage, observed=obs["kind"], kind="input")
    # generated files: exactly the successful sympy models
    if ab["target"] == "sympy" and stage == "models" and obs["kind"] == "return" and st == exp:
        want = sorted(set(m["name"] + ".py" for m in ab["models"] if m["sympy"] == "ok"))
        if sorted(obs["written"]) != want:
            ctx.violation("generated files differ from the models that succeed", small, expected=want,
                          observed=sorted(obs["written"]), kind="input")
    # ---- direct oracle 2: per-model independence (each model alone, same everything else)
    if independence and stage == "models" and len(inv["models"]) >= 2 and obs["kind"] == "return":
        total, singles, files1 = 0, [], {}
        for i, m in enumerate(inv["models"]):
            inv1 = dict(inv, models=[m])
            argv1 = render_argv(inv1, random.Random(i))
            o1 = run_main(root, argv1, inv.get("cwd") or "")
            singles.append(status_of(o1))
            files1.update(o1["written"])
            if o1["kind"] == "return" and isinstance(o1["code"], int):
                total += o1["code"]
            else:
                total = None
                break
        ctx.count("independence-checked")
        if total is not None and st != total:
            ctx.violation("status with several models differs from the sum of the statuses with each model alone",
                          dict(small, singles=singles), expected=total, observed=st, kind="input")
        elif total is not None and ab["target"] == "sympy" and files1 != obs["written"]:
            ctx.violation("generated files with several models differ from those with each model alone",
                          dict(small, singles=singles), expected=files1, observed=obs["written"], kind="input")
    # ---- the tie: Lean model of the code as it is (`Variant.fixed`, commit c313463)
    if drv is not None:
        a = ask_model(drv, ab, "fixed")
        implc = {"kind": obs["kind"], "code": obs.get("code")} if obs["kind"] != "raised" else {"kind": "raised"}

        def same(a):
            if a["kind"] != implc["kind"]:
                return False
            if a["kind"] != "raised" and a["code"] != implc["code"]:
                return False
            if a["kind"] == "return" and ab["target"] == "sympy" and stage == "models":
                return sorted(set(a["written"])) == sorted(n[:-3] for n in obs["written"])
            return True
        if not same(a):
            o = ask_model(drv, ab, "old")
            ctx.disagreement("cli.main", small, model={k: a.get(k) for k in ("kind", "code", "written")},
                             impl=dict(implc, written=sorted(obs["written"]),
                                       note="equals the model of the code before c313463" if same(o) else None))
        # cross-check the Python oracle against the proved model
        if a["kind"] == "raised" or a["code"] != exp:
            raise HarnessError("direct oracle and Cli.main differ on %s: %s vs %s" % (argv, exp, a))
    return obs, exp, stage


def nontrivial(case_inv, ab_stage):
    return ab_stage not in ("argparse", "argparse-exit0")


def make_case(ctx, rng, world, stream):
    inv = gen_invocation(rng, world, stream)
    if inv is None:
        return None
    sub = random.Random(rng.getrandbits(32))
    argv = render_argv(inv, sub)
    return {"world": world, "inv": inv, "argv": argv, "stream": stream}


def run(ctx):
    drv = ctx.driver("drv_c26")
    _TRUTH.clear()
    _OPTION_VERDICT.clear()
    quick = ctx.tier == "quick"
    from harness import corpus
    for c in corpus.load("C26"):
        ctx.count("corpus")
        ctx.case({"argv": c["argv"], "world": c["world"]["id"]}, nontrivial=True)
        check_invocation(ctx, c, drv)
    nworlds = 20 if quick else 1000
    per_world = 15 if quick else 16
    n = 0
    for w in range(nworlds):
        if ctx.time_left() < 0:
            ctx.notes.append("stopped by time budget after %d worlds" % w)
            break
        world = gen_world(ctx.rng, "s%d-w%d" % (ctx.seed, w))
        for i in range(per_world):
            if ctx.time_left() < 0:
                break
            stream = "main" if i % 5 != 4 else ctx.rng.choice(["sympyfail", "sympyfail", "nomatch", "nomatch", "undecodable"])
            case = make_case(ctx, ctx.rng, world, stream)
            if case is None:
                continue
            ctx.count("stream:" + stream)
            ctx.count("kind:" + case["inv"]["kind"])
            _obs, _exp, stage = check_invocation(ctx, case, drv)
            ctx.case({"argv": case["argv"], "world": world["id"]}, nontrivial=nontrivial(case["inv"], stage),
                     key=[world["files"], case["argv"]])
            n += 1
        shutil.rmtree(os.path.join(ctx.scratch, "c26-" + world["id"]), ignore_errors=True)
        _TRUTH.clear()
    ctx.extra["exhaustive"] = False


def search(ctx):
    """Tie broken but no direct-oracle violation yet: more invocations, direct oracle only."""
    w = 0
    while ctx.time_left() > 0 and not ctx.violations:
        world = gen_world(ctx.rng, "search-%d" % w)
        w += 1
        for i in range(20):
            case = make_case(ctx, ctx.rng, world, "main" if i % 4 else ctx.rng.choice(["sympyfail", "nomatch", "undecodable"]))
            if case is None:
                continue
            check_invocation(ctx, case, None)
        shutil.rmtree(os.path.join(ctx.scratch, "c26-" + world["id"]), ignore_errors=True)


def replay(ctx, payload):
    if payload["case"].get("probe"):
        option_ok(ctx, payload["case"]["opt"])
        return
    check_invocation(ctx, payload["case"], ctx.driver("drv_c26"))


MANIFEST = dict(
    level_text="Lean 4 theorems about an executable model of tools.compiler.main's decision logic (exit status = usage errors + "
               "files with parse errors + failing models for invocations of any size; argparse errors give 2; each model's "
               "contribution is independent of the other requested models), tied to the real CLI by a per-run differential "
               "correspondence on generated invocations over scratch libraries, plus a direct oracle whose ground truth about "
               "each model comes from pymoca's API called outside the CLI, and a per-model independence oracle.",
    level_note="Trusted: Lean kernel + standard axioms; the harness (generator, abstraction of an invocation, the staged reading "
               "of the property stated in ASSUMPTIONS); argparse. The theorems are about the model; the model is compared with "
               "the code on every run.",
    technique="Lean 4 proof (induction over the model / file lists) + model/implementation correspondence + direct oracle",
)
READY = True
