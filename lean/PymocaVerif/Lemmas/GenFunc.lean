import PymocaVerif.Lemmas.GenEq
/-!
# Lemmas for C11: `get_function` — sequential substitution computes what imperative execution does
-/
namespace PymocaVerif.Gen
open PymocaVerif.ExprSem

/-! ## Terms without `map` nodes (everything `gen` produces from an expression) -/

mutual
def noMap : CTerm K → Bool
  | .const _ => true
  | .ref _ _ => true
  | .idx _ => true
  | .op1 _ a => noMap a
  | .op2 _ a b => noMap a && noMap b
  | .ifElse c t f => noMap c && noMap t && noMap f
  | .vcat ts => noMaps ts
  | .map _ _ _ _ _ => false
  | .call _ _ args => noMaps args
def noMaps : CTerms K → Bool
  | .nil => true
  | .cons t ts => noMap t && noMaps ts
end

theorem noMaps_ofList : ∀ ts : List (CTerm K), noMaps (CTerms.ofList ts) = ts.all noMap
  | [] => by simp [CTerms.ofList, noMaps]
  | t :: ts => by simp [CTerms.ofList, noMaps, noMaps_ofList ts]

theorem foldl_ifElse_noMap : ∀ (ps : List (CTerm K × CTerm K)) (acc : CTerm K), noMap acc = true →
    (∀ p ∈ ps, noMap p.1 = true ∧ noMap p.2 = true) →
    noMap (ps.foldl (fun acc p => CTerm.ifElse p.1 p.2 acc) acc) = true
  | [], acc, h, _ => by simpa using h
  | p :: ps, acc, h, hp => by
    simp only [List.foldl_cons]
    apply foldl_ifElse_noMap ps
    · have := hp p (by simp)
      simp [noMap, this.1, this.2, h]
    · intro q hq; exact hp q (by simp [hq])

theorem foldFromLast_noMap (cs es : List (CTerm K)) (hc : cs.all noMap = true) (he : es.all noMap = true) :
    noMap (foldFromLast cs es) = true := by
  unfold foldFromLast
  cases hr : es.reverse with
  | nil => simp [noMap, noMaps]
  | cons last restRev =>
    simp only
    have hmem : ∀ x ∈ es.reverse, noMap x = true := by
      intro x hx; exact (List.all_eq_true.mp he) x (by simpa using hx)
    rw [hr] at hmem
    apply foldl_ifElse_noMap
    · exact hmem last (by simp)
    · intro p hp
      have := List.of_mem_zip hp
      exact ⟨(List.all_eq_true.mp hc) p.1 (by simpa using this.1), hmem p.2 (by simp [this.2])⟩

mutual
theorem gen_noMap (P : Prims K) (o : Opts) (T : FTab K) : ∀ (e : MExpr K) (c : CTerm K),
    gen P o T e = .ok c → noMap c = true
  | .num q, c, h => by simp [gen] at h; subst h; rfl
  | .ref n s, c, h => by simp [gen] at h; subst h; rfl
  | .idx i, c, h => by simp [gen] at h; subst h; rfl
  | .un op a, c, h => by
    simp only [gen] at h
    obtain ⟨ta, hta, hc⟩ := bind_ok.mp h
    have ha := gen_noMap P o T a ta hta
    cases op with
    | neg => simp [genUn] at hc; subst hc; simpa [noMap] using ha
    | pos => simp [genUn] at hc; subst hc; exact ha
    | not => simp [genUn] at hc; subst hc; simp [noMap, ha]
    | abs => simp [genUn] at hc; subst hc; simpa [noMap] using ha
    | sum => simp [genUn] at hc; subst hc; simpa [noMap] using ha
    | elem e =>
      simp only [genUn] at hc
      split at hc
      · cases hc; simpa [noMap] using ha
      · obtain ⟨fn, _, rfl⟩ := userCall_ok hc
        simp [noMap, noMaps_ofList, ha]
  | .bin op a b, c, h => by
    simp only [gen] at h
    obtain ⟨ta, hta, h2⟩ := bind_ok.mp h
    obtain ⟨tb, htb, hc⟩ := bind_ok.mp h2
    have ha := gen_noMap P o T a ta hta
    have hb := gen_noMap P o T b tb htb
    unfold genBin at hc
    split at hc
    · cases hc; simp [noMap, ha, hb]
    · split at hc
      · split at hc
        · cases hc; simp [noMap, ha, hb]
        · cases hc
      · obtain ⟨fn, _, rfl⟩ := userCall_ok hc
        simp [noMap, noMaps_ofList, ha, hb]
  | .ife bs, c, h => by
    simp only [gen] at h
    obtain ⟨ce, hce, hc⟩ := bind_ok.mp h
    cases hc
    have := genBr_noMap P o T bs ce hce
    exact foldFromLast_noMap ce.1 ce.2 this.1 this.2
  | .call f args, c, h => by
    simp only [gen] at h
    obtain ⟨tas, htas, hc⟩ := bind_ok.mp h
    obtain ⟨fn, _, rfl⟩ := userCall_ok hc
    simp [noMap, noMaps_ofList, gens_noMap P o T args tas htas]
theorem gens_noMap (P : Prims K) (o : Opts) (T : FTab K) : ∀ (es : MExprs K) (cs : List (CTerm K)),
    gens P o T es = .ok cs → cs.all noMap = true
  | .nil, cs, h => by simp [gens] at h; subst h; rfl
  | .cons e es, cs, h => by
    simp only [gens] at h
    obtain ⟨t, ht, h2⟩ := bind_ok.mp h
    obtain ⟨ts, hts, hc⟩ := bind_ok.mp h2
    cases hc
    simp [gen_noMap P o T e t ht, gens_noMap P o T es ts hts]
theorem genBr_noMap (P : Prims K) (o : Opts) (T : FTab K) : ∀ (bs : MBranches K)
    (ce : List (CTerm K) × List (CTerm K)), genBr P o T bs = .ok ce →
    ce.1.all noMap = true ∧ ce.2.all noMap = true
  | .last e, ce, h => by
    simp only [genBr] at h
    obtain ⟨t, ht, hc⟩ := bind_ok.mp h
    cases hc
    simp [gen_noMap P o T e t ht]
  | .cons c e rest, ce, h => by
    simp only [genBr] at h
    obtain ⟨tc, htc, h2⟩ := bind_ok.mp h
    obtain ⟨te, hte, h3⟩ := bind_ok.mp h2
    obtain ⟨ce', hce', hc⟩ := bind_ok.mp h3
    cases hc
    have ih := genBr_noMap P o T rest ce' hce'
    simp [gen_noMap P o T c tc htc, gen_noMap P o T e te hte, ih.1, ih.2]
end

/-! ## Substitution -/

/-- The environment in which the symbols of `σ` stand for the values of their terms. -/
def over (P : Prims K) (ρ : Env K) (σ : SymVals K) : Env K :=
  { ρ with val := fun x => match SymVals.get σ x with
      | some s => evalC P ρ s
      | none => ρ.val x }

mutual
/-- `ca.substitute` on a term is evaluation of the term with the substituted symbols bound to the
    values of their replacements. -/
theorem evalC_subst (P : Prims K) (σ : SymVals K) (ρ : Env K)
    (hsh : ∀ x s, SymVals.get σ x = some s → ρ.shape x = none) :
    ∀ t : CTerm K, noMap t = true → evalC P ρ (subst σ t) = evalC P (over P ρ σ) t
  | .const q, _ => by simp [subst, evalC]
  | .ref n [], _ => by
    simp only [subst]
    cases hg : SymVals.get σ n with
    | none => simp [evalC, Env.lookup, over, hg]
    | some s => simp [evalC, Env.lookup, over, hg]
  | .ref n (s :: ss), _ => by
    simp only [subst, evalC, Env.lookup, over]
    cases hg : SymVals.get σ n with
    | none => rfl
    | some t => simp [hsh n t hg]
  | .idx i, _ => by simp [subst, evalC, over]
  | .op1 f a, h => by
    simp only [noMap] at h
    simp [subst, evalC, evalC_subst P σ ρ hsh a h]
  | .op2 f a b, h => by
    simp only [noMap, Bool.and_eq_true] at h
    simp [subst, evalC, evalC_subst P σ ρ hsh a h.1, evalC_subst P σ ρ hsh b h.2]
  | .ifElse c t f, h => by
    simp only [noMap, Bool.and_eq_true] at h
    simp [subst, evalC, evalC_subst P σ ρ hsh c h.1.1, evalC_subst P σ ρ hsh t h.1.2,
      evalC_subst P σ ρ hsh f h.2]
  | .vcat ts, h => by
    simp only [noMap] at h
    simp [subst, evalC, evalCs_substs P σ ρ hsh ts h]
  | .map _ _ _ _ _, h => by simp [noMap] at h
  | .call inl fn args, h => by
    simp only [noMap] at h
    simp [subst, evalC, evalCs_substs P σ ρ hsh args h]
theorem evalCs_substs (P : Prims K) (σ : SymVals K) (ρ : Env K)
    (hsh : ∀ x s, SymVals.get σ x = some s → ρ.shape x = none) :
    ∀ ts : CTerms K, noMaps ts = true → evalCs P ρ (substs σ ts) = evalCs P (over P ρ σ) ts
  | .nil, _ => by simp [substs, evalCs]
  | .cons t ts, h => by
    simp only [noMaps, Bool.and_eq_true] at h
    simp [substs, evalCs, evalC_subst P σ ρ hsh t h.1, evalCs_substs P σ ρ hsh ts h.2]
end

/-! ## Monotonicity of `evalC` in the symbol values -/

/-- `ρ'` knows every symbol `ρ` knows, with the same value. -/
def Env.le (ρ ρ' : Env K) : Prop :=
  (∀ x v, ρ.val x = some v → ρ'.val x = some v) ∧ ρ.shape = ρ'.shape ∧ ρ.idx = ρ'.idx

theorem Env.le_bind {ρ ρ' : Env K} (h : Env.le ρ ρ') (i : String) (v : Int) :
    Env.le (ρ.bind i v) (ρ'.bind i v) := by
  refine ⟨h.1, h.2.1, ?_⟩
  simp [Env.bind, h.2.2]

theorem lookup_mono {ρ ρ' : Env K} (h : Env.le ρ ρ') (n : String) (subs : List Sub) :
    Refines (ρ'.lookup n subs) (ρ.lookup n subs) := by
  intro v hv
  cases subs with
  | nil => simp only [Env.lookup] at hv ⊢; exact h.1 n v hv
  | cons s ss =>
    simp only [Env.lookup] at hv ⊢
    rw [← h.2.1, ← h.2.2]
    cases hd : ρ.shape n with
    | none => simp [hd] at hv
    | some dims =>
      cases hp : positions ρ.idx dims (s :: ss) with
      | none => simp [hd, hp] at hv
      | some ps =>
        cases hval : ρ.val n with
        | none => simp [hd, hval] at hv
        | some vals =>
          simp [hd, hp, hval] at hv
          simp [hp, h.1 n vals hval, hv]

mutual
theorem evalC_mono (P : Prims K) : ∀ (t : CTerm K) (ρ ρ' : Env K), Env.le ρ ρ' →
    Refines (evalC P ρ' t) (evalC P ρ t)
  | .const q, ρ, ρ', _ => by simp [evalC]; exact Refines.refl
  | .ref n s, ρ, ρ', h => by simpa [evalC] using lookup_mono h n s
  | .idx i, ρ, ρ', h => by simp [evalC, h.2.2]; exact Refines.refl
  | .op1 f a, ρ, ρ', h => by
    simp only [evalC]
    exact Refines.bind (evalC_mono P a ρ ρ' h) (fun _ => Refines.refl)
  | .op2 f a b, ρ, ρ', h => by
    simp only [evalC]
    exact Refines.bind (evalC_mono P a ρ ρ' h)
      (fun _ => Refines.bind (evalC_mono P b ρ ρ' h) (fun _ => Refines.refl))
  | .ifElse c t f, ρ, ρ', h => by
    simp only [evalC]
    refine Refines.bind (evalC_mono P c ρ ρ' h) (fun _ => Refines.bind_same (fun b => ?_))
    cases b
    · simpa using evalC_mono P f ρ ρ' h
    · simpa using evalC_mono P t ρ ρ' h
  | .vcat ts, ρ, ρ', h => by
    simp only [evalC]
    exact Refines.bind (evalCs_mono P ts ρ ρ' h) (fun _ => Refines.refl)
  | .map m i vals tr body, ρ, ρ', h => by
    simp only [evalC]
    exact Refines.bind (rowsOver_refines _ _ (fun v => evalC_mono P body (ρ.bind i v) (ρ'.bind i v)
      (Env.le_bind h i v)) vals) (fun _ => Refines.refl)
  | .call inl fn args, ρ, ρ', h => by
    simp only [evalC]
    exact Refines.bind (evalCs_mono P args ρ ρ' h) (fun _ => Refines.refl)
theorem evalCs_mono (P : Prims K) : ∀ (ts : CTerms K) (ρ ρ' : Env K), Env.le ρ ρ' →
    Refines (evalCs P ρ' ts) (evalCs P ρ ts)
  | .nil, ρ, ρ', _ => by simp [evalCs]; exact Refines.refl
  | .cons t ts, ρ, ρ', h => by
    simp only [evalCs]
    exact Refines.bind (evalC_mono P t ρ ρ' h)
      (fun _ => Refines.bind (evalCs_mono P ts ρ ρ' h) (fun _ => Refines.refl))
end

end PymocaVerif.Gen

namespace PymocaVerif.Gen
open PymocaVerif.ExprSem

/-! ## Statements that translate to one symbolic assignment -/

theorem genL_noMap (P : Prims K) (o : Opts) (T : FTab K) : ∀ (es : List (MExpr K)) (ts : List (CTerm K)),
    genL P o T es = .ok ts → ts.all noMap = true
  | [], ts, h => by simp [genL] at h; subst h; rfl
  | e :: es, ts, h => by
    simp only [genL] at h
    obtain ⟨t, ht, h2⟩ := bind_ok.mp h
    obtain ⟨ts', hts, hc⟩ := bind_ok.mp h2
    cases hc
    simp [gen_noMap P o T e t ht, genL_noMap P o T es ts' hts]

theorem genL_length (P : Prims K) (o : Opts) (T : FTab K) : ∀ (es : List (MExpr K)) (ts : List (CTerm K)),
    genL P o T es = .ok ts → ts.length = es.length
  | [], ts, h => by simp [genL] at h; subst h; rfl
  | e :: es, ts, h => by
    simp only [genL] at h
    obtain ⟨t, _, h2⟩ := bind_ok.mp h
    obtain ⟨ts', hts, hc⟩ := bind_ok.mp h2
    cases hc
    simp [genL_length P o T es ts' hts]

/-- Blocks of a single-target if-statement: every branch is the one assignment `x := eₖ`. -/
def singleBlocks (x : String) (es : List (MExpr K)) : List (List (String × MExpr K)) :=
  es.map (fun e => [(x, e)])

theorem genRhsBlocks_single (P : Prims K) (o : Opts) (T : FTab K) (x : String) :
    ∀ (es : List (MExpr K)) (tbs : List (List (String × CTerm K))),
    genRhsBlocks P o T (singleBlocks x es) = .ok tbs →
    ∃ ts, genL P o T es = .ok ts ∧ tbs = ts.map (fun t => [(x, t)])
  | [], tbs, h => by
    simp [singleBlocks, genRhsBlocks] at h; subst h
    exact ⟨[], by simp [genL], rfl⟩
  | e :: es, tbs, h => by
    simp only [singleBlocks, List.map_cons, genRhsBlocks] at h
    obtain ⟨b, hb, h2⟩ := bind_ok.mp h
    obtain ⟨rest, hrest, hc⟩ := bind_ok.mp h2
    cases hc
    simp only [genRhs] at hb
    obtain ⟨t, ht, h3⟩ := bind_ok.mp hb
    obtain ⟨r0, hr0, hc'⟩ := bind_ok.mp h3
    simp at hr0; subst hr0; cases hc'
    obtain ⟨ts, hts, hrest'⟩ := genRhsBlocks_single P o T x es rest hrest
    exact ⟨t :: ts, by simp [genL, ht, hts, bind, Except.bind], by simp [hrest']⟩

theorem expandInto_single (x : String) (ts : List (CTerm K)) (t : CTerm K) :
    expandInto [(x, ts)] x t = [(x, ts ++ [t])] := by
  simp [expandInto]

theorem foldl_expand_single (x : String) : ∀ (ts acc : List (CTerm K)),
    (ts.map (fun t => (x, t))).foldl (fun a p => expandInto a p.1 p.2) [(x, acc)] = [(x, acc ++ ts)]
  | [], acc => by simp
  | t :: ts, acc => by
    simp only [List.map_cons, List.foldl_cons, expandInto_single]
    rw [foldl_expand_single x ts (acc ++ [t])]
    simp

theorem expandBlocks_single (x : String) (t : CTerm K) (ts : List (CTerm K)) :
    expandBlocks ((t :: ts).map (fun t => (x, t))) = [(x, t :: ts)] := by
  simp only [expandBlocks, List.map_cons, List.foldl_cons, expandInto]
  simpa using foldl_expand_single x ts [t]

theorem mergeIf_eq_foldFromLast (tcs ts : List (CTerm K)) : mergeIf tcs ts = foldFromLast tcs ts := rfl

/-- One statement, one symbolic assignment: target, right-hand term, and what it has to compute. -/
structure StmtOK (P : Prims K) (F : FSem K) (s : Stmt K) (x : String) (t : CTerm K) : Prop where
  nomap : noMap t = true
  sem : ∀ σ : Store K, Refines ((evalC P (storeEnv σ (fun _ => none)) t).map (fun v => (x, v) :: σ))
      (execStmt P F σ s)

theorem nestAll_refines_execIf (P : Prims K) (o : Opts) (T : FTab K) (F : FSem K) (hT : TabOK P T F)
    (hS : NoShadow T) (x : String) (σ : Store K) : ∀ (cs es : List (MExpr K)) (tcs ts : List (CTerm K)),
    genL P o T cs = .ok tcs → genL P o T es = .ok ts →
    Refines ((evalC P (storeEnv σ (fun _ => none)) (nestAll tcs ts)).map (fun v => (x, v) :: σ))
      (execIf P F cs (singleBlocks x es) σ)
  | [], [], tcs, ts, _, _ => by intro v hv; simp [singleBlocks, execIf] at hv
  | [], [e], tcs, ts, hc, he => by
    simp [genL] at hc; subst hc
    simp only [genL] at he
    obtain ⟨t, ht, h2⟩ := bind_ok.mp he
    obtain ⟨r0, hr0, hc'⟩ := bind_ok.mp h2
    simp at hr0; subst hr0; cases hc'
    intro v hv
    simp only [singleBlocks, List.map_cons, List.map_nil, execIf, execAssigns] at hv
    cases hv1 : evalM P F (storeEnv σ fun _ => none) e with
    | none => simp [hv1] at hv
    | some v1 =>
      simp [hv1] at hv
      have := gen_refines P o T F hT hS e t ht (storeEnv σ fun _ => none) v1 hv1
      simp [nestAll, this, hv]
  | [], _ :: _ :: _, tcs, ts, _, _ => by intro v hv; simp [singleBlocks, execIf] at hv
  | _ :: _, [], tcs, ts, _, _ => by intro v hv; simp [singleBlocks, execIf] at hv
  | c :: cs, e :: es, tcs, ts, hc, he => by
    simp only [genL] at hc he
    obtain ⟨tc, htc, h2⟩ := bind_ok.mp hc
    obtain ⟨tcs', htcs', hc'⟩ := bind_ok.mp h2
    cases hc'
    obtain ⟨te, hte, h3⟩ := bind_ok.mp he
    obtain ⟨ts', hts', he'⟩ := bind_ok.mp h3
    cases he'
    have ih := nestAll_refines_execIf P o T F hT hS x σ cs es tcs' ts' htcs' hts'
    intro v hv
    simp only [singleBlocks, List.map_cons, execIf] at hv
    cases hvc : evalM P F (storeEnv σ fun _ => none) c with
    | none => simp [hvc] at hv
    | some vc =>
      have hc1 := gen_refines P o T F hT hS c tc htc (storeEnv σ fun _ => none) vc hvc
      cases hb : condOf P vc with
      | none => simp [hvc, hb] at hv
      | some b =>
        simp only [hvc, hb, Option.bind_eq_bind, Option.bind_some] at hv
        cases b
        · simp only [Bool.false_eq_true, if_false] at hv
          have := ih v (by simpa [singleBlocks] using hv)
          simpa [nestAll, evalC, hc1, hb] using this
        · simp only [if_true, execAssigns] at hv
          cases hv1 : evalM P F (storeEnv σ fun _ => none) e with
          | none => simp [hv1] at hv
          | some v1 =>
            simp [hv1] at hv
            have := gen_refines P o T F hT hS e te hte (storeEnv σ fun _ => none) v1 hv1
            simp [nestAll, evalC, hc1, hb, this, hv]

/-- The statements covered by the function theorem: plain assignments and if-statements whose
    branches each assign the same single variable. -/
inductive SafeStmt : Stmt K → Prop
  | assign (x : String) (e : MExpr K) : SafeStmt (.assign x e)
  | ifs (cs : List (MExpr K)) (x : String) (es : List (MExpr K)) (h : es.length = cs.length + 1) :
      SafeStmt (.ifs cs (singleBlocks x es))

theorem flatten_map_single (f : α → β) : ∀ l : List α, (l.map (fun t => [f t])).flatten = l.map f
  | [] => rfl
  | a :: l => by simp [flatten_map_single f l]

theorem sameLengths_single (x : String) (es : List (MExpr K)) : sameLengths (singleBlocks x es) = true := by
  cases es with
  | nil => rfl
  | cons e es => simp [singleBlocks, sameLengths]

theorem genStmt_safe (P : Prims K) (o : Opts) (T : FTab K) (F : FSem K) (hT : TabOK P T F)
    (hS : NoShadow T) (s : Stmt K) (hs : SafeStmt s) (as : List (String × CTerm K))
    (h : genStmt P o T s = .ok as) : ∃ x t, as = [(x, t)] ∧ StmtOK P F s x t := by
  cases hs with
  | assign x e =>
    simp only [genStmt] at h
    obtain ⟨t, ht, hc⟩ := bind_ok.mp h
    cases hc
    refine ⟨x, t, rfl, gen_noMap P o T e t ht, fun σ => ?_⟩
    simp only [execStmt, execAssigns]
    intro v hv
    cases hv1 : evalM P F (storeEnv σ fun _ => none) e with
    | none => simp [hv1] at hv
    | some v1 =>
      simp [hv1] at hv
      simp [gen_refines P o T F hT hS e t ht (storeEnv σ fun _ => none) v1 hv1, hv]
  | ifs cs x es hlen =>
    simp only [genStmt] at h
    obtain ⟨tcs, htcs, h2⟩ := bind_ok.mp h
    obtain ⟨tbs, htbs, h3⟩ := bind_ok.mp h2
    obtain ⟨ts, hts, rfl⟩ := genRhsBlocks_single P o T x es tbs htbs
    have hl : ts.length = es.length := genL_length P o T es ts hts
    have hlc : tcs.length = cs.length := genL_length P o T cs tcs htcs
    cases ts with
    | nil => simp at hl; omega
    | cons t0 ts' =>
      have hflat : ((t0 :: ts').map (fun t => [(x, t)])).flatten = (t0 :: ts').map (fun t => (x, t)) :=
        flatten_map_single (fun t => (x, t)) (t0 :: ts')
      simp only [sameLengths_single, Bool.not_true, Bool.false_eq_true, if_false, hflat,
        expandBlocks_single] at h3
      simp only [List.map_cons, List.map_nil, sameLengths, List.all_nil, Bool.not_true,
        Bool.false_eq_true, if_false, Except.ok.injEq] at h3
      subst h3
      have hnest : mergeIf tcs (t0 :: ts') = nestAll tcs (t0 :: ts') := by
        rw [mergeIf_eq_foldFromLast, foldFromLast_eq_nestAll]
        simp at hl ⊢; omega
      refine ⟨x, mergeIf tcs (t0 :: ts'), rfl, ?_, fun σ => ?_⟩
      · rw [mergeIf_eq_foldFromLast]
        exact foldFromLast_noMap _ _ (genL_noMap P o T cs tcs htcs) (genL_noMap P o T es _ hts)
      · rw [hnest]
        simpa [execStmt] using nestAll_refines_execIf P o T F hT hS x σ cs es tcs (t0 :: ts') htcs hts

end PymocaVerif.Gen

namespace PymocaVerif.Gen
open PymocaVerif.ExprSem

/-! ## Whole functions -/

theorem get_cons (x y : String) (s : CTerm K) (σ : SymVals K) :
    SymVals.get ((x, s) :: σ) y = if x = y then some s else SymVals.get σ y := by
  simp [SymVals.get]

theorem store_get_cons (x y : String) (v : List K) (σ : Store K) :
    Store.get ((x, v) :: σ) y = if x = y then some v else Store.get σ y := by
  simp [Store.get]

mutual
theorem subst_noMap (σ : SymVals K) (hσ : ∀ x s, SymVals.get σ x = some s → noMap s = true) :
    ∀ t : CTerm K, noMap t = true → noMap (subst σ t) = true
  | .const q, _ => by simp [subst, noMap]
  | .ref n [], _ => by
    simp only [subst]
    cases hg : SymVals.get σ n with
    | none => simp [noMap]
    | some s => simpa using hσ n s hg
  | .ref n (s :: ss), _ => by simp [subst, noMap]
  | .idx i, _ => by simp [subst, noMap]
  | .op1 f a, h => by simp only [noMap] at h; simp [subst, noMap, subst_noMap σ hσ a h]
  | .op2 f a b, h => by
    simp only [noMap, Bool.and_eq_true] at h
    simp [subst, noMap, subst_noMap σ hσ a h.1, subst_noMap σ hσ b h.2]
  | .ifElse c t f, h => by
    simp only [noMap, Bool.and_eq_true] at h
    simp [subst, noMap, subst_noMap σ hσ c h.1.1, subst_noMap σ hσ t h.1.2, subst_noMap σ hσ f h.2]
  | .vcat ts, h => by simp only [noMap] at h; simp [subst, noMap, substs_noMap σ hσ ts h]
  | .map _ _ _ _ _, h => by simp [noMap] at h
  | .call inl fn args, h => by simp only [noMap] at h; simp [subst, noMap, substs_noMap σ hσ args h]
theorem substs_noMap (σ : SymVals K) (hσ : ∀ x s, SymVals.get σ x = some s → noMap s = true) :
    ∀ ts : CTerms K, noMaps ts = true → noMaps (substs σ ts) = true
  | .nil, _ => by simp [substs, noMaps]
  | .cons t ts, h => by
    simp only [noMaps, Bool.and_eq_true] at h
    simp [substs, noMaps, subst_noMap σ hσ t h.1, substs_noMap σ hσ ts h.2]
end

/-- The symbolic values describe the store: every variable's term evaluates (over the inputs) to what
    the store holds, and unassigned variables are unassigned on both sides. -/
def Inv (P : Prims K) (ρin : Env K) (vals : SymVals K) (σ : Store K) : Prop :=
  (∀ x, (over P ρin vals).val x = Store.get σ x) ∧ (∀ x s, SymVals.get vals x = some s → noMap s = true)

def SafeFunc (f : MFunc K) : Prop :=
  (∀ s ∈ f.body, SafeStmt s) ∧ (∀ x ∈ f.locals, x ∉ f.inputs)

theorem over_eq_storeEnv (P : Prims K) (ρin : Env K) (vals : SymVals K) (σ : Store K)
    (hsh : ρin.shape = fun _ => none) (hix : ρin.idx = fun _ => none)
    (h : ∀ x, (over P ρin vals).val x = Store.get σ x) :
    over P ρin vals = storeEnv σ (fun _ => none) := by
  have hv : (over P ρin vals).val = fun x => Store.get σ x := funext h
  simp only [over] at hv ⊢
  simp only [storeEnv]
  rw [hv, hsh, hix]

theorem genStmts_inv (P : Prims K) (o : Opts) (T : FTab K) (F : FSem K) (hT : TabOK P T F)
    (hS : NoShadow T) (ρin : Env K) (hsh : ρin.shape = fun _ => none) (hix : ρin.idx = fun _ => none) :
    ∀ (body : List (Stmt K)), (∀ s ∈ body, SafeStmt s) → ∀ (vals vals' : SymVals K) (σ σ' : Store K),
    genStmts P o T body vals = .ok vals' → execBody P F body σ = some σ' →
    Inv P ρin vals σ → Inv P ρin vals' σ'
  | [], _, vals, vals', σ, σ', hg, he, hinv => by
    simp [genStmts] at hg; simp [execBody] at he; subst hg; subst he; exact hinv
  | s :: ss, hs, vals, vals', σ, σ', hg, he, hinv => by
    simp only [genStmts] at hg
    obtain ⟨as, has, hg2⟩ := bind_ok.mp hg
    obtain ⟨x, t, rfl, hok⟩ := genStmt_safe P o T F hT hS s (hs s (by simp)) as has
    simp only [execBody] at he
    cases he1 : execStmt P F σ s with
    | none => simp [he1] at he
    | some σ1 =>
      simp [he1] at he
      have hsem := hok.sem σ σ1 he1
      cases hv : evalC P (storeEnv σ fun _ => none) t with
      | none => simp [hv] at hsem
      | some v =>
        simp [hv] at hsem
        have henv := over_eq_storeEnv P ρin vals σ hsh hix hinv.1
        have hsub : evalC P ρin (subst vals t) = some v := by
          rw [evalC_subst P vals ρin (fun y s _ => by simp [hsh]) t hok.nomap, henv, hv]
        have hinv1 : Inv P ρin (applyAssigns vals [(x, t)]) σ1 := by
          subst hsem
          refine ⟨fun y => ?_, fun y s hy => ?_⟩
          · simp only [applyAssigns, over, get_cons, store_get_cons]
            by_cases hxy : x = y
            · simp [hxy, ← hsub]
            · simp only [hxy, if_false]
              have := hinv.1 y
              simpa [over] using this
          · simp only [applyAssigns, get_cons] at hy
            by_cases hxy : x = y
            · simp [hxy] at hy; subst hy
              exact subst_noMap vals hinv.2 t hok.nomap
            · simp [hxy] at hy; exact hinv.2 y s hy
        exact genStmts_inv P o T F hT hS ρin hsh hix ss (fun s' hs' => hs s' (by simp [hs']))
          _ vals' σ1 σ' hg2 he hinv1

theorem get_init (inputs : List String) (y : String) :
    SymVals.get (inputs.map (fun x => (x, (CTerm.ref x [] : CTerm K)))) y =
      if y ∈ inputs then some (.ref y []) else none := by
  induction inputs with
  | nil => simp [SymVals.get]
  | cons a rest ih =>
    simp only [List.map_cons, SymVals.get, ih, List.mem_cons]
    by_cases h : a = y
    · subst h; simp
    · have h' : ¬ y = a := fun e => h e.symm
      simp [h, h']

theorem store_get_mem : ∀ (xs : List String) (vs : List (List K)) (y : String) (v : List K),
    Store.get (xs.zip vs) y = some v → y ∈ xs
  | [], vs, y, v, h => by simp [Store.get] at h
  | x :: xs, [], y, v, h => by simp [Store.get] at h
  | x :: xs, w :: vs, y, v, h => by
    simp only [List.zip_cons_cons, Store.get] at h
    by_cases hxy : x = y
    · simp [hxy]
    · simp only [hxy, if_false] at h
      simp [store_get_mem xs vs y v h]

theorem lookupAll_cons_ok {vals : SymVals K} {x : String} {xs : List String}
    {ps : List (String × CTerm K)} (h : lookupAll vals (x :: xs) = .ok ps) :
    ∃ t rest, SymVals.get vals x = some t ∧ lookupAll vals xs = .ok rest ∧ ps = (x, t) :: rest := by
  simp only [lookupAll] at h
  cases hg : SymVals.get vals x with
  | none => simp [hg] at h
  | some t =>
    simp only [hg] at h
    obtain ⟨rest, hrest, hc⟩ := bind_ok.mp h
    cases hc
    exact ⟨t, rest, rfl, hrest, rfl⟩

theorem lookupAll_spec (vals : SymVals K) : ∀ (xs : List String) (ps : List (String × CTerm K)),
    lookupAll vals xs = .ok ps →
    ps.map (·.1) = xs ∧ ∀ p ∈ ps, SymVals.get vals p.1 = some p.2
  | [], ps, h => by simp [lookupAll] at h; subst h; simp
  | x :: xs, ps, h => by
    obtain ⟨t, rest, hget, hrest, rfl⟩ := lookupAll_cons_ok h
    have ih := lookupAll_spec vals xs rest hrest
    refine ⟨by simp [ih.1], ?_⟩
    intro p hp
    simp only [List.mem_cons] at hp
    cases hp with
    | inl h1 => subst h1; exact hget
    | inr h1 => exact ih.2 p h1

theorem get_of_lookupAll (vals : SymVals K) (xs : List String) (ps : List (String × CTerm K))
    (h : lookupAll vals xs = .ok ps) (y : String) (s : CTerm K) (hy : SymVals.get ps y = some s) :
    y ∈ xs := by
  have hk := (lookupAll_spec vals xs ps h).1
  have : y ∈ ps.map (·.1) := by
    clear hk h
    induction ps with
    | nil => simp [SymVals.get] at hy
    | cons p rest ih =>
      simp only [SymVals.get] at hy
      by_cases hp : p.1 = y
      · simp [hp]
      · simp only [hp, if_false] at hy
        simp [ih hy]
  rwa [hk] at this

/-- `get_function`: the translated function computes what running the algorithm section computes,
    for bodies made of assignments and single-target if-statements. -/
theorem genFunc_refines (P : Prims K) (o : Opts) (T : FTab K) (F : FSem K) (hT : TabOK P T F)
    (hS : NoShadow T) (f : MFunc K) (hf : SafeFunc f) (fn : CFunc K) (h : genFunc P o T f = .ok fn)
    (vs : List (List K)) : Refines (evalCF P fn vs) (funcSem P F f vs) := by
  unfold genFunc at h
  obtain ⟨vals, hvals, h2⟩ := bind_ok.mp h
  obtain ⟨outs, houts, h3⟩ := bind_ok.mp h2
  obtain ⟨tmps, htmps, hc⟩ := bind_ok.mp h3
  cases hc
  intro r hr
  unfold funcSem at hr
  split at hr
  · rename_i hlen
    cases hσ : execBody P F f.body (f.inputs.zip vs) with
    | none => simp [hσ] at hr
    | some σ =>
      cases hov : getAll σ f.outputs with
      | none => simp [hσ, hov] at hr
      | some ovs =>
        simp [hσ, hov] at hr
        let ρin : Env K := funcEnv f.inputs vs
        have hsh : ρin.shape = fun _ => none := rfl
        have hix : ρin.idx = fun _ => none := rfl
        have hinit : Inv P ρin (f.inputs.map (fun x => (x, .ref x []))) (f.inputs.zip vs) := by
          refine ⟨fun y => ?_, fun y s hy => ?_⟩
          · simp only [over, get_init]
            by_cases hy : y ∈ f.inputs
            · simp [hy, evalC, Env.lookup, ρin, funcEnv, storeEnv]
            · simp [hy, ρin, funcEnv, storeEnv]
          · rw [get_init] at hy
            split at hy
            · cases hy; rfl
            · cases hy
        have hinv := genStmts_inv P o T F hT hS ρin hsh hix f.body hf.1 _ vals _ σ hvals hσ hinit
        -- the outputs, one by one
        have hle : Env.le ρin (over P ρin tmps) := by
          refine ⟨fun x v hx => ?_, rfl, rfl⟩
          simp only [over]
          cases hg : SymVals.get tmps x with
          | none => exact hx
          | some s =>
            have hloc := get_of_lookupAll vals f.locals tmps htmps x s hg
            have hin : x ∈ f.inputs := store_get_mem f.inputs vs x v (by simpa [ρin, funcEnv, storeEnv] using hx)
            exact absurd hin (hf.2 x hloc)
        have key : ∀ (xs : List String) (ps : List (String × CTerm K)) (ws : List (List K)),
            lookupAll vals xs = .ok ps → getAll σ xs = some ws →
            evalCL P ρin (ps.map fun p => subst tmps p.2) = some ws := by
          intro xs
          induction xs with
          | nil =>
            intro ps ws hp hw
            simp [lookupAll] at hp; simp [getAll] at hw; subst hp; subst hw; simp [evalCL]
          | cons x xs ih =>
            intro ps ws hp hw
            obtain ⟨t, rest, hget, hrest, rfl⟩ := lookupAll_cons_ok hp
            simp only [getAll] at hw
            cases hw1 : Store.get σ x with
            | none => simp [hw1] at hw
            | some w =>
              cases hw2 : getAll σ xs with
              | none => simp [hw1, hw2] at hw
              | some ws' =>
                simp [hw1, hw2] at hw; subst hw
                have hval : evalC P ρin t = some w := by
                  have := hinv.1 x
                  simpa [over, hget, hw1] using this
                have hnm : noMap t = true := hinv.2 x t hget
                have hsub : evalC P ρin (subst tmps t) = some w := by
                  rw [evalC_subst P tmps ρin (fun y s _ => by simp [hsh]) t hnm]
                  exact evalC_mono P t ρin (over P ρin tmps) hle w hval
                simp [evalCL, hsub, ih rest ws' hrest hw2]
        have := key f.outputs outs ovs houts hov
        simp [evalCF, hlen, evalCs_ofList, ρin] at this ⊢
        simp [this, hr]
  · cases hr

end PymocaVerif.Gen
