import PymocaVerif.Lemmas.CacheState
/-!
# C20 — the model cache is never used when stale

Property theorems over the state machine of `Model/CacheState.lean` (`transfer_model`,
`load_model`, `save_model`).  Histories are arbitrary finite lists of: rewrite/add a `.mo`
file in the model folder or a library folder, change the pymoca version, call
`transfer_model` with any options; also (shared with C21) interrupted transfers and
truncations of the cache file.  The hypotheses of the property are `Admissible`:
every edit gets a modification time strictly later than the cache file's, `mtime_check`
stays on, and — forced by the proof, because `load_model` leaves `library_folders` out of
the option comparison (`Cfg.exclLibs`) — the transfers of one history name the same
library folders `L`.  `libs_excluded_stale` shows that last hypothesis cannot be dropped
for the code as it is; with `exclLibs = false` it is vacuous.
-/
namespace PymocaVerif.CacheState

variable {M : Type}

/-- `Fresh` is an invariant of every admissible history (no bound on its length). -/
theorem fresh_invariant (cfg : Cfg M) (L : List Folder) (hlaw : Lawful cfg) (hist : List Op)
    (w : World M) (h0 : FreshInv cfg L w) (hadm : Admissible cfg L w hist) :
    FreshInv cfg L (run cfg w hist).1 :=
  (history_spec hlaw hist w h0 hadm).2

/-- Every `transfer_model` call of every admissible history returns (never raises) a model,
    and that model is the compile of the sources, options and version current at the call.
    PARTIAL with respect to the property text: `Admissible` also demands that the calls of one
    history name the same `library_folders` while that key is excluded from the option
    comparison.  The missing part (histories that change `library_folders`) is false for the
    code as it is — `libs_excluded_stale`, finding C20-F1 — and true once the key is compared
    (`transfer_correct_libs_compared`). -/
theorem transfer_correct_partial (cfg : Cfg M) (L : List Folder) (hlaw : Lawful cfg) (hist : List Op)
    (w : World M) (h0 : FreshInv cfg L w) (hadm : Admissible cfg L w hist) :
    AllCorrect cfg w hist :=
  (history_spec hlaw hist w h0 hadm).1

/-- The same, spelled out for one call after an arbitrary admissible history that starts
    without a cache file: the result equals `compile version (current sources) options`.
    PARTIAL in the same sense (hypothesis `hl` / the library clause of `Admissible`). -/
theorem transfer_after_history_partial (cfg : Cfg M) (L : List Folder) (hlaw : Lawful cfg)
    (fs : Folder → List SrcFile) (v : Nat) (hist : List Op)
    (hadm : Admissible cfg L ⟨fs, none, v⟩ hist) (o : Opts) (now size : Nat)
    (hm : o.norm.mtimeCheck = true) (hl : cfg.exclLibs = true → o.libs = L) :
    let w := (run cfg ⟨fs, none, v⟩ hist).1
    (transfer cfg w o now size).2.model? =
      some (cfg.compile w.version (srcs w.fs o.norm) o.norm) := by
  intro w
  have h0 : FreshInv cfg L ⟨fs, none, v⟩ := by intro c hc; cases hc
  have hinv := fresh_invariant cfg L hlaw hist _ h0 hadm
  exact (transfer_spec o now size .done hlaw hinv hm hl).1

/-- When `library_folders` takes part in the option comparison (`exclLibs = false`) no
    hypothesis on the library folders is needed: a hit returns the current compile. -/
theorem transfer_correct_libs_compared (cfg : Cfg M) (hex : cfg.exclLibs = false)
    (hlaw : Lawful cfg) (L : List Folder) (w : World M) (h0 : FreshInv cfg L w) (o : Opts)
    (now size : Nat) (hm : o.norm.mtimeCheck = true) :
    Correct cfg w o (transfer cfg w o now size).2 :=
  (transfer_spec o now size .done hlaw h0 hm (by simp [hex])).1

/-- Full statement of the property for the code variant that compares `library_folders`
    (`exclLibs = false`): the library clause of `Admissible` is vacuous (any `L` will do), so
    only the hypotheses of the property text remain — edits later than the cache, `mtime_check`
    on — and every transfer of every such history, with any option changes including the
    library folders, returns the compile of the current sources. -/
theorem transfer_correct_full_if_libs_compared (cfg : Cfg M) (hex : cfg.exclLibs = false)
    (hlaw : Lawful cfg) (L L' : List Folder) (hist : List Op) (w : World M)
    (h0 : FreshInv cfg L' w) (hadm : Admissible cfg L w hist) : AllCorrect cfg w hist := by
  have hany : ∀ (hist : List Op) (w : World M), Admissible cfg L w hist → Admissible cfg L' w hist := by
    intro hist
    induction hist with
    | nil => intro _ _; trivial
    | cons op rest ih =>
      intro w hadm
      refine ⟨?_, ih _ hadm.2⟩
      have hok := hadm.1
      cases op with
      | write f p t c => exact hok
      | setVersion v => trivial
      | transfer o now size => exact ⟨hok.1, by simp [hex]⟩
      | crashedTransfer o now size i => exact ⟨hok.1, by simp [hex]⟩
      | truncate k t => trivial
  exact (history_spec hlaw hist w h0 (hany hist w hadm)).1

/-- `mtime_check = False` only switches off the scan of the source folders: as long as no
    source was edited after the cache was written, every call — whatever the version and the
    options have become — still returns the compile of the current sources under the current
    version and options (seed C20-6: the version test guarded by `mtime_check`). -/
theorem version_and_options_checked_without_mtime_check (cfg : Cfg M) (L : List Folder)
    (hlaw : Lawful cfg) (w : World M) (h0 : FreshInv cfg L w) (o : Opts) (now size : Nat)
    (hl : cfg.exclLibs = true → o.libs = L)
    (hquiet : ∀ c, w.cache = some c → ∀ f ∈ folders o.norm, stale c (w.fs f) = false) :
    (transfer cfg w o now size).2.model? = some (compileNow cfg w o.norm) := by
  unfold transfer
  simp only
  split
  · rfl
  · split
    · rename_i m hload
      simp only [Outcome.model?]
      rw [hit_correct_no_scan h0 (by simpa using hl) hquiet hload]
    · rename_i e hload
      obtain ⟨n, hn⟩ := load_raised hload
      have := hlaw n
      rw [hn] at this
      cases this
    · rfl

/-- Modification times are compared with the cache file's only — there is no wall clock in
    `load_model`: a source file newer than the cache, by any amount and however far in the
    future, is never served from the cache (seed C20-3: an upper bound `<= time.time()`). -/
theorem newer_file_is_never_served (cfg : Cfg M) (w : World M) (o : Opts) (c : CacheFile M)
    (hc : w.cache = some c) (hm : o.mtimeCheck = true) (f : Folder) (hf : f ∈ folders o)
    (x : SrcFile) (hx : x ∈ w.fs f) (hnew : c.mtime < x.mtime) :
    load cfg w o = .miss .outOfDate := by
  have hst : (folders o).any (fun f => stale c (w.fs f)) = true := by
    rw [List.any_eq_true]
    refine ⟨f, hf, ?_⟩
    simp only [stale, List.any_eq_true, decide_eq_true_eq]
    exact ⟨x, hx, hnew⟩
  unfold load
  simp [hc, hm, hst]

/-- An option change in *any* key — the rest list holds every key that is passed, default or
    not (seed C20-4: `iterative_simplification` going from absent to `True`) — makes the call
    recompile, and the result is the compile under the new options. -/
theorem changed_option_is_recompiled (cfg : Cfg M) (hlaw : Lawful cfg) (w : World M) (o : Opts) (now size : Nat) (c : CacheFile M) (hc : w.cache = some c)
    (hdiff : c.db.opts.rest ≠ o.norm.rest) (hcg : (o.norm.cache || o.norm.codegen) = true) :
    ∃ r, (transfer cfg w o now size).2 = .compiled (compileNow cfg w o.norm) r := by
  unfold transfer
  simp only [hcg, Bool.not_true]
  cases hload : load cfg w o.norm with
  | hit m =>
    obtain ⟨c', hc', _, _, _, hopts, _⟩ := load_hit hload
    rw [hc] at hc'
    cases hc'
    simp only [optsMatch, Bool.and_eq_true, beq_iff_eq] at hopts
    exact absurd hopts.2 hdiff
  | raised e =>
    obtain ⟨n, hn⟩ := load_raised hload
    have := hlaw n
    rw [hn] at this
    cases this
  | miss r => exact ⟨r, rfl⟩

section examples
/-- a compile function that keeps everything it is given -/
abbrev Src := Nat × List (List (String × Nat)) × Opts
def exOpts (l : List Folder) (r : String) : Opts :=
  { libs := l, mtimeCheck := true, cache := true, codegen := false, expandMx := false, rest := [("detect_aliases", r)] }
def exCfg (excl : Bool) : Cfg Src :=
  { compile := fun v s o => (v, s, o), truncErr := fun n => ⟨[if n = 0 then "EOFError" else "UnpicklingError", "Exception"], false⟩,
    exclLibs := excl }
def exW : World Src := ⟨fun _ => [], none, 1⟩
/-- edits after the cache, an option change, a version change, a library file added -/
def exHist : List Op :=
  [.write 0 "M.mo" 1 1, .write 1 "L.mo" 1 10, .transfer (exOpts [1] "False") 5 100,
   .transfer (exOpts [1] "False") 6 100, .write 0 "M.mo" 7 2, .transfer (exOpts [1] "False") 9 100,
   .transfer (exOpts [1] "True") 11 120, .setVersion 2, .transfer (exOpts [1] "True") 12 120,
   .write 1 "K.mo" 13 30, .transfer (exOpts [1] "True") 14 130]

example (b : Bool) : Lawful (exCfg b) := by
  intro n; by_cases h : n = 0 <;> simp [exCfg, convert, caughtClasses, h]

-- the hypotheses of the theorems are satisfiable by a history that exercises hit, edit,
-- option change, version change and addition
example : FreshInv (exCfg true) [1] exW ∧ Admissible (exCfg true) [1] exW exHist := by
  refine ⟨(by intro c hc; cases hc), ?_⟩
  simp [Admissible, exHist, OpOk, step, exW, transfer, load, exOpts, Opts.norm, exCfg, folders, stale,
    CacheFile.complete, optsMatch, writeFile]
-- … and the run really contains a hit and recompiles for four different reasons
example : (run (exCfg true) exW exHist).2.map Outcome.kind =
    ["compiled:no-file", "hit", "compiled:out-of-date", "compiled:options", "compiled:version",
     "compiled:out-of-date"] := by
  decide
-- a file stamped far in the future is newer than the cache; a non-default key changes `rest`
def exFuture : World Src :=
  ⟨fun _ => [⟨"M.mo", 2200000000000, 1⟩], some ⟨5, ⟨1, exOpts [] "False", (1, [], exOpts [] "False")⟩, 10, 10⟩, 1⟩
example : (match load (exCfg true) exFuture (exOpts [] "False") with | .miss r => r.name | _ => "") = "out-of-date" := by decide
-- mtime_check off, version changed since the cache was written: recompiled because of the version
example : ((transfer (exCfg true) (run (exCfg true) exW
    [.write 0 "M.mo" 1 1, .transfer { exOpts [] "False" with mtimeCheck := false } 5 100, .setVersion 2]).1
    { exOpts [] "False" with mtimeCheck := false } 9 100).2).kind = "compiled:version" := by decide
end examples

/-- The hypothesis on `library_folders` cannot be dropped for the code as it is
    (`exclLibs = true`): switching to another library folder whose files are older than the
    cache is a history satisfying the mtime hypothesis on which `transfer_model` returns a
    model compiled from the *old* library folder (DESIGN §6 row 11, finding C20-F1). -/
theorem libs_excluded_stale :
    ∃ (hist : List Op) (o : Opts) (m : Src),
      Admissible (exCfg false) [] exW hist ∧  -- the mtime hypotheses hold (library clause vacuous)
      (transfer (exCfg true) (run (exCfg true) exW hist).1 o 9 100).2 = .hit m ∧
      m ≠ compileNow (exCfg true) (run (exCfg true) exW hist).1 o.norm := by
  refine ⟨[.write 0 "M.mo" 1 1, .write 1 "A.mo" 1 10, .write 2 "A.mo" 1 20,
           .transfer (exOpts [1] "False") 5 100], exOpts [2] "False",
          (1, [[("M.mo", 1)], [("A.mo", 10)]], (exOpts [1] "False").norm), ?_, ?_, ?_⟩
  · simp [Admissible, OpOk, step, exW, exOpts, Opts.norm, exCfg]
  · rfl
  · decide

/-- The mtime hypothesis cannot be dropped either: an edit whose modification time is not
    later than the cache file's is served from the cache. -/
theorem old_mtime_edit_is_served_stale :
    ∃ (hist : List Op) (o : Opts) (m : Src),
      (transfer (exCfg true) (run (exCfg true) exW hist).1 o 9 100).2 = .hit m ∧
      m ≠ compileNow (exCfg true) (run (exCfg true) exW hist).1 o.norm := by
  refine ⟨[.write 0 "M.mo" 1 1, .transfer (exOpts [] "False") 5 100, .write 0 "M.mo" 5 2],
          exOpts [] "False", (1, [[("M.mo", 1)]], (exOpts [] "False").norm), ?_, ?_⟩
  · rfl
  · decide

end PymocaVerif.CacheState
