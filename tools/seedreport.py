#!/venv/bin/python
"""Promote validated seeds from seeded/pending/<ID>-<k> to seeded/<ID>-<k> and write seeded/README.md.

A seed is kept when its latest entry in seeded/results.jsonl shows: demo passes on the clean tree, patch applies,
demo fails with the patch and (when --tests was used) the baseline's stable tests still pass.  meta.json gets a
`verified` block recording what was run and what the check reported."""
import glob, json, os, shutil
VERIF = os.path.dirname(os.path.dirname(os.path.abspath(__file__)))
latest = {}
for l in open(os.path.join(VERIF, "seeded", "results.jsonl")):
    try:
        o = json.loads(l)
    except Exception:
        continue
    name = os.path.basename(o.get("dir", ""))
    prev = latest.get(name, {})
    if "baseline_missing" in prev and "baseline_missing" not in o:
        o["baseline_missing"] = prev["baseline_missing"]
    latest[name] = o
rows = []
for name in sorted(latest):
    o = latest[name]
    src = None
    for cand in (os.path.join(VERIF, "seeded", name), os.path.join(VERIF, "seeded", "pending", name)):
        if os.path.isdir(cand):
            src = cand
            break
    if not src:
        continue
    valid = o.get("demo_clean_rc") == 0 and o.get("apply_rc") == 0 and o.get("demo_patched_rc") not in (0, None) \
        and not o.get("baseline_missing")
    meta = json.load(open(os.path.join(src, "meta.json")))
    meta["verified"] = dict(
        ran=["tools/seedcheck.py %s%s: scratch worktree of /repo HEAD, demo.py on the clean tree (rc %s), git apply patch.diff (rc %s), "
             "demo.py on the patched tree (rc %s)%s, then `check.py %s --tier quick` with VERIF_PYMOCA_SRC at the patched worktree"
             % (name, " --tests" if "baseline_missing" in o else "", o.get("demo_clean_rc"), o.get("apply_rc"), o.get("demo_patched_rc"),
                ", repository test suite (baseline stable tests missing: %s)" % o.get("baseline_missing") if "baseline_missing" in o else "",
                meta["property"])],
        valid=valid, caught=o.get("caught"), caught_with_concrete_input=o.get("caught_with_input"),
        checks={k: dict(rc=v.get("rc"), violation_lines=v.get("violation_lines")) for k, v in (o.get("checks") or {}).items()})
    json.dump(meta, open(os.path.join(src, "meta.json"), "w"), indent=1)
    dst = os.path.join(VERIF, "seeded", name)
    if valid and src != dst:
        shutil.move(src, dst)
    rows.append((name, meta["property"], valid, o.get("caught"), o.get("caught_with_input"), meta.get("summary", "")[:110].replace("|", "/").replace("\n", " ")))
with open(os.path.join(VERIF, "seeded", "README.md"), "w") as f:
    f.write("# Seeded changes (written by independent sub-agents from the property text only)\n\n"
            "`valid` = demo passes on the clean tree, fails with the patch, patch applies to /repo HEAD (suite unchanged where run).\n"
            "`caught` = the property's quick check exits 1 with a VIOLATION line on the patched tree; `input` = with a concrete replay\n"
            "(not `no-failing-input-found`).  Seeds still under `pending/` are not (or no longer) valid against the current HEAD.\n\n"
            "| seed | property | valid | caught | input | change |\n|---|---|---|---|---|---|\n")
    for r in rows:
        f.write("| %s | %s | %s | %s | %s | %s |\n" % r)
    v = [r for r in rows if r[2]]
    f.write("\nvalid seeds: %d, caught: %d, caught with concrete input: %d\n" % (len(v), sum(1 for r in v if r[3]), sum(1 for r in v if r[4])))
print(open(os.path.join(VERIF, "seeded", "README.md")).read()[-200:])
