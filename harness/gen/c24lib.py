"""Helpers of the C24 check (SymPy backend): case -> Modelica text, flat AST -> expression
terms, exact evaluator, stub namespace in which the generated module is executed, CPython
tokens/AST -> the token and tree vocabulary of the Lean model `PyGrammar`.

Expression terms (JSON): ["v", name] | ["n", literal-text] | ["b", op, l, r] (op in + - * / ^)
| ["u", op, e] (op in + -) | ["c", fname, e] | ["d", e].
On the Python side of the generated code the same shape is used with op "**" for "^".
"""
import ast as pyast
import builtins
import hashlib
import io
import keyword
import tokenize
from fractions import Fraction

BINOPS = ["+", "-", "*", "/", "^"]
FUNCS = ["sin", "cos", "tan"]


# ---- case -> Modelica source ---------------------------------------------------------------
def _compound(e):
    return e[0] in ("b", "u")


def mo_expr(e):
    """Fully parenthesised Modelica text of a term (every compound operand in parentheses),
    so that the Modelica parser has no precedence decision to take."""
    k = e[0]
    if k == "v" or k == "n":
        return e[1]
    if k == "b":
        l, r = mo_expr(e[2]), mo_expr(e[3])
        if _compound(e[2]):
            l = "(" + l + ")"
        if _compound(e[3]):
            r = "(" + r + ")"
        return "%s %s %s" % (l, e[1], r)
    if k == "u":
        s = mo_expr(e[2])
        if _compound(e[2]):
            s = "(" + s + ")"
        return e[1] + s
    if k == "c":
        return "%s(%s)" % (e[1], mo_expr(e[2]))
    if k == "d":
        return "der(%s)" % mo_expr(e[1])
    raise ValueError(e)


def mo_decl(d):
    pre = (d["pre"] + " ") if d.get("pre") else ""
    mods = ""
    if d.get("start") is not None:
        mods = "(start=%s)" % mo_expr(d["start"])
    val = ""
    if d.get("val") is not None:
        val = " = %s" % mo_expr(d["val"])
    return "  %s%s %s%s%s;" % (pre, d.get("type", "Real"), d["n"], mods, val)


def mo_text(case):
    out = ["model %s" % case["name"]]
    for s in case.get("subs", []):
        out.append("  model %s" % s["cls"])
        for d in s["decls"]:
            out.append("  " + mo_decl(d))
        out.append("  end %s;" % s["cls"])
    for i in case.get("insts", []):
        out.append("  %s %s;" % (i["cls"], i["n"]))
    for d in case["decls"]:
        out.append(mo_decl(d))
    out.append("equation")
    for l, r in case["eqs"]:
        out.append("  %s = %s;" % (mo_expr(l), mo_expr(r)))
    out.append("end %s;" % case["name"])
    return "\n".join(out) + "\n"


# ---- flat pymoca AST -> term ---------------------------------------------------------------
class Unsupported(Exception):
    pass


def lit_text(v):
    if isinstance(v, bool) or not isinstance(v, (int, float)):
        raise Unsupported("literal %r" % (v,))
    return str(v)


def term_of(node, A):
    """pymoca AST node (flat) -> term; A is the pymoca.ast module."""
    if isinstance(node, A.Symbol):
        return ["v", node.name]
    if isinstance(node, A.ComponentRef):
        if node.child or any(i != [None] for i in node.indices):
            raise Unsupported("component reference with subscripts or children")
        return ["v", node.name]
    if isinstance(node, A.Primary):
        return ["n", lit_text(node.value)]
    if isinstance(node, A.Expression):
        op = node.operator
        n = len(node.operands)
        if isinstance(op, A.ComponentRef):
            if n != 1 or op.name not in FUNCS:
                raise Unsupported("call of %s/%d" % (op.name, n))
            return ["c", op.name, term_of(node.operands[0], A)]
        op = str(op)
        if op == "der" and n == 1:
            return ["d", term_of(node.operands[0], A)]
        if op in BINOPS and n == 2:
            return ["b", op, term_of(node.operands[0], A), term_of(node.operands[1], A)]
        if op in ("+", "-") and n == 1:
            return ["u", op, term_of(node.operands[0], A)]
        raise Unsupported("operator %s/%d" % (op, n))
    raise Unsupported(type(node).__name__)


def term_vars(e, acc=None):
    acc = set() if acc is None else acc
    if e[0] == "v":
        acc.add(e[1])
    elif e[0] == "b":
        term_vars(e[2], acc), term_vars(e[3], acc)
    elif e[0] in ("u", "c"):
        term_vars(e[2], acc)
    elif e[0] == "d":
        term_vars(e[1], acc)
    return acc


def term_size(e):
    if e[0] in ("v", "n"):
        return 1
    if e[0] == "b":
        return 1 + term_size(e[2]) + term_size(e[3])
    if e[0] in ("u", "c"):
        return 1 + term_size(e[2])
    return 1 + term_size(e[1])


def term_depth(e):
    if e[0] in ("v", "n"):
        return 0
    if e[0] == "b":
        return 1 + max(term_depth(e[2]), term_depth(e[3]))
    if e[0] in ("u", "c"):
        return 1 + term_depth(e[2])
    return 1 + term_depth(e[1])


# ---- exact evaluation ----------------------------------------------------------------------
class EvalError(Exception):
    """div0 / inexact / toobig / unbound:<name> / der — the outcome class of an evaluation."""


FN_COEF = {"sin": (Fraction(3), Fraction(1, 3)), "cos": (Fraction(5), Fraction(1, 5)),
           "tan": (Fraction(7), Fraction(1, 7))}


def fn_value(f, v):
    """Functions are compared by identity of the operator: an injective affine stand-in."""
    a, b = FN_COEF[f]
    return a * v + b


def frac_of_lit(text):
    """The number a literal text denotes for Python (and for pymoca's parser, which uses int()/float()):
    an integer exactly, anything else the IEEE double nearest to the decimal — exactly that double."""
    try:
        return Fraction(int(text))
    except ValueError:
        return Fraction(float(text))


def term_lits(e, acc=None):
    """Literal texts of a term, left to right."""
    acc = [] if acc is None else acc
    if e[0] == "n":
        acc.append(e[1])
    elif e[0] == "b":
        term_lits(e[2], acc), term_lits(e[3], acc)
    elif e[0] in ("u", "c"):
        term_lits(e[2], acc)
    elif e[0] == "d":
        term_lits(e[1], acc)
    return acc


def pytree_lits(t, acc=None):
    """Number literals of a `py_tree` result, left to right."""
    acc = [] if acc is None else acc
    if t[0] == "a":
        if t[1][:1].isdigit() or t[1][:1] == ".":
            acc.append(t[1])
    elif t[0] == "b":
        pytree_lits(t[2], acc), pytree_lits(t[3], acc)
    elif t[0] in ("p", "c"):
        pytree_lits(t[2], acc)
    elif t[0] == "d":
        pytree_lits(t[1], acc)
    return acc


def pow_exact(a, b):
    if b.denominator != 1:
        raise EvalError("inexact")
    n = b.numerator
    if abs(n) > 24:
        raise EvalError("toobig")
    if n < 0 and a == 0:
        raise EvalError("div0")
    r = a ** n
    if r.numerator.bit_length() > 4000 or r.denominator.bit_length() > 4000:
        raise EvalError("toobig")
    return Fraction(r)


def _ev(e, env, denv, powop):
    """Dual-number evaluation: (value, d/dt value); the derivative part is None where it is not
    exactly representable (non-constant exponent) or after a `der` (no second derivatives)."""
    k = e[0]
    if k == "v":
        if e[1] not in env:
            raise EvalError("unbound:" + e[1])
        if e[1] == "time":
            return env[e[1]], Fraction(1)
        return env[e[1]], denv.get(e[1])
    if k == "n":
        return frac_of_lit(e[1]), Fraction(0)
    if k == "b":
        a, da = _ev(e[2], env, denv, powop)
        b, db = _ev(e[3], env, denv, powop)
        both = da is not None and db is not None
        op = e[1]
        if op == "+":
            return a + b, (da + db) if both else None
        if op == "-":
            return a - b, (da - db) if both else None
        if op == "*":
            return a * b, (da * b + a * db) if both else None
        if op == "/":
            if b == 0:
                raise EvalError("div0")
            return a / b, ((da * b - a * db) / (b * b)) if both else None
        if op == powop:
            v = pow_exact(a, b)
            d = None
            if both and db == 0:
                n = b.numerator
                if n == 0 or da == 0:
                    d = Fraction(0)
                elif not (a == 0 and n - 1 < 0):
                    d = n * pow_exact(a, Fraction(n - 1)) * da
            return v, d
        raise EvalError("op:" + op)
    if k == "u":
        a, da = _ev(e[2], env, denv, powop)
        if e[1] == "-":
            return -a, (-da if da is not None else None)
        return a, da
    if k == "c":
        a, da = _ev(e[2], env, denv, powop)
        return fn_value(e[1], a), (FN_COEF[e[1]][0] * da if da is not None else None)
    if k == "d":
        _, d = _ev(e[1], env, denv, powop)
        if d is None:
            raise EvalError("der")
        return d, None
    raise EvalError("term")


def eval_term(e, env, denv, powop="^"):
    """env: name -> Fraction; denv: name -> Fraction (value of der(name); 0 for constants and
    parameters).  `der` of a composite expression is evaluated by the sum/product/quotient/power
    rules (symbols are dual numbers in t); the function stand-ins are affine, so their chain rule is exact."""
    return _ev(e, env, denv, powop)[0]


def has_composite_der(e):
    if e[0] == "d":
        return e[1][0] != "v" or has_composite_der(e[1])
    if e[0] == "b":
        return has_composite_der(e[2]) or has_composite_der(e[3])
    if e[0] in ("u", "c"):
        return has_composite_der(e[2])
    return False


def outcome(fn):
    try:
        return ["ok", str(fn())]
    except EvalError as ex:
        return ["err", str(ex)]
    except RecursionError:
        return ["err", "toobig"]


# ---- stub namespace for the generated module -------------------------------------------------
class Node:
    """Expression recorded while the generated `__init__` runs (precedence decided by CPython)."""
    __slots__ = ("k", "a", "b", "c")

    def __init__(self, k, a=None, b=None, c=None):
        self.k, self.a, self.b, self.c = k, a, b, c

    def _bin(op):
        def f(self, o):
            return Node("b", op, self, lift(o))
        return f

    def _rbin(op):
        def f(self, o):
            return Node("b", op, lift(o), self)
        return f

    __add__, __radd__ = _bin("+"), _rbin("+")
    __sub__, __rsub__ = _bin("-"), _rbin("-")
    __mul__, __rmul__ = _bin("*"), _rbin("*")
    __truediv__, __rtruediv__ = _bin("/"), _rbin("/")
    __pow__, __rpow__ = _bin("**"), _rbin("**")

    def __neg__(self):
        return Node("u", "-", self)

    def __pos__(self):
        return Node("u", "+", self)

    def diff(self, t):
        if not (isinstance(t, Node) and t.k == "t"):
            raise StubError("diff with respect to something that is not self.t")
        return Node("d", self)

    def __repr__(self):
        return "Node(%s)" % (node_term(self, lambda n: ["v", "?" + str(n.a)]),)


class StubError(Exception):
    pass


def lift(o):
    if isinstance(o, Node):
        return o
    raise StubError("operand of type %s reached the equations" % type(o).__name__)


def node_term(n, symname):
    """Node -> term (Python vocabulary: '**'); `symname(node)` gives the variable of a symbol."""
    k = n.k
    if k in ("sym", "dyn"):
        return symname(n)
    if k == "t":
        return ["v", "time"]
    if k == "num":
        return ["n", n.a]
    if k == "b":
        return ["b", n.a, node_term(n.b, symname), node_term(n.c, symname)]
    if k == "u":
        return ["u", n.a, node_term(n.b, symname)]
    if k == "c":
        return ["c", n.a, node_term(n.b, symname)]
    if k == "d":
        return ["d", node_term(n.a, symname)]
    raise StubError("node " + k)


class StubMatrix:
    def __init__(self, items=()):
        self.items = list(items)

    def __len__(self):
        return len(self.items)

    def __iter__(self):
        return iter(self.items)


def _split_names(s):
    return [x.strip() for x in s.split(",") if x.strip()]


class World:
    """One execution of a generated module."""

    def __init__(self):
        self.created = []   # (kind, sympy-name, node) in creation order
        self.compute_fg_called = 0
        world = self

        class _Sympy:
            __name__ = "sympy"

            @staticmethod
            def Matrix(items=()):
                return StubMatrix(items)

            @staticmethod
            def symbols(names):
                return world._make("sym", names)

            @staticmethod
            def sin(x):
                return Node("c", "sin", lift(x))

            @staticmethod
            def cos(x):
                return Node("c", "cos", lift(x))

            @staticmethod
            def tan(x):
                return Node("c", "tan", lift(x))

        class _Mech:
            __name__ = "sympy.physics.mechanics"

            @staticmethod
            def dynamicsymbols(names):
                return world._make("dyn", names)

        class _Physics:
            mechanics = _Mech

        _Sympy.physics = _Physics

        class OdeModel:
            def __init__(self):
                self.t = Node("t")
                self.x = StubMatrix()
                self.u = StubMatrix()
                self.y = StubMatrix()
                self.p = StubMatrix()
                self.c = StubMatrix()
                self.v = StubMatrix()
                self.x0, self.u0, self.p0, self.c0 = {}, {}, {}, {}
                self.eqs = []

            def compute_fg(self):
                world.compute_fg_called += 1

        class _Runtime:
            pass

        _Runtime.OdeModel = OdeModel
        self.modules = {"sympy": _Sympy, "sympy.physics": _Physics, "sympy.physics.mechanics": _Mech,
                        "pymoca.backends.sympy.runtime": _Runtime}
        self.OdeModel = OdeModel

    def _make(self, kind, names):
        ns = _split_names(names)
        nodes = []
        for n in ns:
            node = Node(kind, n)
            self.created.append((kind, n, node))
            nodes.append(node)
        if len(nodes) == 1 and "," not in names:
            return nodes[0]
        return tuple(nodes)

    def importer(self, name, globals=None, locals=None, fromlist=(), level=0):
        if name == "__future__":
            return __import__(name, globals, locals, fromlist, level)
        if name in self.modules:
            if fromlist:
                return self.modules[name]
            return self.modules[name.split(".")[0]]
        raise ImportError("generated module imports %s" % name)


class _ConstWrap(pyast.NodeTransformer):
    """Numeric literals become exact numbers (precedence is untouched: this runs on the tree
    CPython's own parser built from the generated text)."""

    def visit_Constant(self, node):
        if isinstance(node.value, (int, float)) and not isinstance(node.value, bool):
            new = pyast.Call(func=pyast.Name(id="_K_", ctx=pyast.Load()),
                             args=[pyast.Constant(value=repr(node.value))], keywords=[])
            return pyast.copy_location(new, node)
        return node


def run_generated(src, clsname):
    """compile + execute the generated module text with the stub namespace.
    Returns (world, instance).  Raises SyntaxError / any execution error."""
    compile(src, "<generated>", "exec")          # the text itself must be valid Python
    tree = pyast.parse(src)
    tree = _ConstWrap().visit(tree)
    pyast.fix_missing_locations(tree)
    code = compile(tree, "<generated>", "exec")
    w = World()
    b = dict(vars(builtins))
    b["__import__"] = w.importer
    g = {"__builtins__": b, "__name__": "generated", "_K_": lambda t: Node("num", t)}
    exec(code, g)
    cls = g.get(clsname)
    if cls is None:
        raise StubError("generated module defines no class %s" % clsname)
    return w, cls()


def init_assignments(src, clsname):
    """From the generated text (CPython ast): the identifier tuples assigned from
    dynamicsymbols()/symbols() calls, with the sympy names, in order; and the text of the
    elements of `self.eqs`."""
    tree = pyast.parse(src)
    out, eqs = [], None
    matrices = {}
    for cls in [n for n in tree.body if isinstance(n, pyast.ClassDef) and n.name == clsname]:
        for fn in [n for n in cls.body if isinstance(n, pyast.FunctionDef) and n.name == "__init__"]:
            for st in fn.body:
                if not isinstance(st, pyast.Assign) or len(st.targets) != 1:
                    continue
                t, v = st.targets[0], st.value
                if isinstance(v, pyast.Call) and isinstance(v.func, pyast.Attribute) and \
                        v.func.attr in ("dynamicsymbols", "symbols"):
                    ids = [x.id for x in (t.elts if isinstance(t, pyast.Tuple) else [t]) if isinstance(x, pyast.Name)]
                    arg = v.args[0].value if v.args and isinstance(v.args[0], pyast.Constant) else ""
                    out.append({"fn": v.func.attr, "ids": ids, "names": _split_names(arg)})
                if isinstance(t, pyast.Attribute) and t.attr == "eqs" and isinstance(v, pyast.List):
                    eqs = split_list_text(pyast.get_source_segment(src, v))
                if isinstance(t, pyast.Attribute) and t.attr in ("x", "v", "c", "p", "u", "y") and \
                        isinstance(v, pyast.Call) and isinstance(v.func, pyast.Attribute) and v.func.attr == "Matrix" \
                        and v.args and isinstance(v.args[0], pyast.List):
                    matrices[t.attr] = [pyast.get_source_segment(src, el) for el in v.args[0].elts]
    init_assignments.matrices = matrices
    return out, eqs


def split_list_text(seg):
    """Element texts of the source of a list display `[e1, e2, ...]` (split at the top-level commas by
    CPython's tokenizer; parentheses that open an element stay with it)."""
    lines = seg.split("\n")
    starts = [0]
    for ln in lines:
        starts.append(starts[-1] + len(ln) + 1)
    off = lambda pos: starts[pos[0] - 1] + pos[1]
    depth, cur, out = 0, None, []
    for t in tokenize.generate_tokens(io.StringIO(seg).readline):
        if t.type in (tokenize.NL, tokenize.NEWLINE, tokenize.COMMENT, tokenize.INDENT, tokenize.DEDENT, tokenize.ENDMARKER):
            continue
        if t.string in "([{" and t.type == tokenize.OP:
            depth += 1
            if depth == 1:
                cur = None
                continue
        elif t.string in ")]}" and t.type == tokenize.OP:
            depth -= 1
            if depth == 0:
                if cur is not None:
                    out.append(seg[cur[0]:cur[1]])
                break
        elif t.string == "," and t.type == tokenize.OP and depth == 1:
            if cur is not None:
                out.append(seg[cur[0]:cur[1]])
            cur = None
            continue
        if depth >= 1:
            cur = (off(t.start), off(t.end)) if cur is None else (cur[0], off(t.end))
    return out


def eq_lines(src):
    """The raw text lines of the equation list (what the printer produced, verbatim)."""
    lines = src.split("\n")
    out, on = [], False
    for ln in lines:
        s = ln.strip()
        if s.startswith("self.eqs = ["):
            on = True
            continue
        if on:
            if s == "]":
                break
            if s.endswith(","):
                out.append(s[:-1])
            elif s:
                out.append(s)
    return out


def eq_texts(src, clsname):
    """The source text of every element of `self.eqs`, through CPython's ast when the module parses
    (independent of the template's line layout), else from the raw lines."""
    try:
        _, eqs = init_assignments(src, clsname)
    except SyntaxError:
        eqs = None
    return eqs if eqs is not None else eq_lines(src)


def raw_tokens(text):
    """CPython's token strings of a piece of source, without whitespace, line structure and comments
    (None if the tokenizer rejects it)."""
    skip = (tokenize.NEWLINE, tokenize.NL, tokenize.ENDMARKER, tokenize.INDENT, tokenize.DEDENT, tokenize.COMMENT)
    try:
        return [t.string for t in tokenize.generate_tokens(io.StringIO(text).readline) if t.type not in skip]
    except (tokenize.TokenError, SyntaxError, IndentationError):
        return None


def same_tokens(a, b):
    """Equal as Python token streams (layout and comments ignored); falls back to the texts without
    blanks where the tokenizer gives up."""
    if a is None or b is None:
        return a == b
    ta, tb = raw_tokens(a), raw_tokens(b)
    if ta is None or tb is None:
        return "".join(a.split()) == "".join(b.split())
    return ta == tb


# ---- CPython tokens / tree in the vocabulary of the Lean model --------------------------------
PY_BOP = {"+": 0, "-": 1, "*": 2, "/": 3, "**": 4}
PY_POP = {"+": 0, "-": 1}


def py_tokens(text):
    """Token list of a Python expression text: ["a", s] atom, ["b", o], ["p", q], ["("], [")"],
    ["f", name] (a name directly followed by '('), ["diff"] for `.diff(self.t)`.
    A '+'/'-' is a prefix operator iff it does not follow an operand."""
    raw = []
    for t in tokenize.generate_tokens(io.StringIO(text).readline):
        if t.type in (tokenize.NEWLINE, tokenize.NL, tokenize.ENDMARKER, tokenize.INDENT, tokenize.DEDENT):
            continue
        raw.append((t.type, t.string))
    out = []
    i = 0
    n = len(raw)

    def strs(j, k):
        return [s for _, s in raw[j:j + k]]

    while i < n:
        ty, s = raw[i]
        if strs(i, 7) == [".", "diff", "(", "self", ".", "t", ")"]:
            out.append(["diff"])
            i += 7
            continue
        if strs(i, 3) == ["self", ".", "t"]:
            out.append(["a", "self.t"])
            i += 3
            continue
        if ty == tokenize.NAME and not keyword.iskeyword(s) or s in ("True", "False"):
            if i + 1 < n and raw[i + 1][1] == "(":
                out.append(["f", s])
            else:
                out.append(["a", s])
        elif ty == tokenize.NUMBER:
            out.append(["a", s])
        elif s == "(":
            out.append(["("])
        elif s == ")":
            out.append([")"])
        elif s in PY_BOP:
            prev = out[-1] if out else None
            operand_before = prev is not None and prev[0] in ("a", ")", "diff")
            if operand_before:
                out.append(["b", PY_BOP[s]])
            elif s in PY_POP:
                out.append(["p", PY_POP[s]])
            else:
                raise ValueError("operator %s in prefix position" % s)
        else:
            raise ValueError("token %r outside the modelled vocabulary" % s)
        i += 1
    return out


_PYOPS = {pyast.Add: 0, pyast.Sub: 1, pyast.Mult: 2, pyast.Div: 3, pyast.Pow: 4}


def py_tree(text):
    """CPython's parse of an expression, as the Lean model's tree JSON:
    ["a", s] | ["b", o, l, r] | ["p", q, e] | ["c", f, e] | ["d", e]."""
    node = pyast.parse(text.strip(), mode="eval").body

    def conv(n):
        if isinstance(n, pyast.BinOp) and type(n.op) in _PYOPS:
            return ["b", _PYOPS[type(n.op)], conv(n.left), conv(n.right)]
        if isinstance(n, pyast.UnaryOp) and isinstance(n.op, (pyast.USub, pyast.UAdd)):
            return ["p", 1 if isinstance(n.op, pyast.USub) else 0, conv(n.operand)]
        if isinstance(n, pyast.Name):
            return ["a", n.id]
        if isinstance(n, pyast.Constant):
            return ["a", pyast.get_source_segment(text.strip(), n)]
        if isinstance(n, pyast.Attribute) and isinstance(n.value, pyast.Name) and n.value.id == "self" and n.attr == "t":
            return ["a", "self.t"]
        if isinstance(n, pyast.Call) and not n.keywords:
            if isinstance(n.func, pyast.Name) and len(n.args) == 1:
                return ["c", n.func.id, conv(n.args[0])]
            if isinstance(n.func, pyast.Attribute) and n.func.attr == "diff" and len(n.args) == 1 \
                    and conv(n.args[0]) == ["a", "self.t"]:
                return ["d", conv(n.func.value)]
        raise ValueError("python construct outside the modelled vocabulary: " + pyast.dump(n)[:80])

    return conv(node)


def sha(text):
    return hashlib.sha1(text.encode()).hexdigest()
