import PymocaVerif.Lemmas.SimplifyBase
/-!
# Simplify: the class structure of the alias relation (invariant `WF` of `AliasRelation.add`, the
counting lemma "one more non-canonical name per effective add", and — for a later pass under
iterative simplification — the names handled before: `Ext`, `handledB`, `elim_now_count`)
Helper lemmas for C14/C15.  Self-contained (does not use C17's lemma files): the invariant here is
list-level (members of a class share *the same* list; the class of `-x` is the image of the class of `x`).
-/
set_option linter.unusedSectionVars false
set_option linter.unusedSimpArgs false
namespace PymocaVerif.Simplify
open PymocaVerif.AliasRel

/-! ## the class structure of the alias relation -/

@[simp] theorem tog_tog' (v : SName) : tog (tog v) = v := by
  obtain ⟨s, n⟩ := v; cases s <;> rfl

theorem tog_ne' (v : SName) : tog v ≠ v := by
  obtain ⟨s, n⟩ := v; cases s <;> simp [tog]

theorem tog_inj' {u v : SName} (h : tog u = tog v) : u = v := by
  have := congrArg tog h; simpa using this

theorem mem_map_tog {A : List SName} {x : SName} : x ∈ A.map tog ↔ tog x ∈ A := by
  constructor
  · intro h
    obtain ⟨y, hy, rfl⟩ := List.mem_map.1 h
    simpa using hy
  · intro h
    exact List.mem_map.2 ⟨tog x, h, by simp⟩

/-- the invariant of `AliasRelation`: classes are shared lists closed under negation, every class
    of more than one name has one canonical member recorded for all its members, and
    `canonical_variables` lists exactly the canonical names -/
structure WF (s : AR) : Prop where
  self : ∀ x A, s.al x = some A → x ∈ A
  shared : ∀ x A y, s.al x = some A → y ∈ A → s.al y = some A
  neg : ∀ x A, s.al x = some A → s.al (tog x) = some (A.map tog)
  nodup : ∀ x A, s.al x = some A → A.Nodup
  noself : ∀ x A, s.al x = some A → tog x ∉ A
  size : ∀ x A, s.al x = some A → 2 ≤ A.length
  cm_some : ∀ x A, s.al x = some A → ∃ c, s.cmap x = some c ∧ (c.2, c.1) ∈ A
  cm_none : ∀ x, s.al x = none → s.cmap x = none
  cm_class : ∀ x A y, s.al x = some A → y ∈ A → s.cmap y = s.cmap x
  cm_neg : ∀ x c, s.cmap x = some c → s.cmap (tog x) = some (c.1, !c.2)
  cv_nodup : s.cv.Nodup
  cv_iff : ∀ c, c ∈ s.cv ↔ s.cmap (false, c) = some (c, false)

theorem wf_empty : WF AR.empty := by
  constructor <;> simp [AR.empty]

namespace WF
variable {s : AR} (h : WF s)
include h

theorem aliases_self (x : SName) : x ∈ s.aliases x := by
  unfold AR.aliases
  cases hx : s.al x with
  | none => simp
  | some A => simpa using h.self x A hx

theorem aliases_tog (x : SName) : s.aliases (tog x) = (s.aliases x).map tog := by
  unfold AR.aliases
  cases hx : s.al x with
  | none =>
    cases hnx : s.al (tog x) with
    | none => simp
    | some B =>
      have := h.neg (tog x) B hnx
      simp [hx] at this
  | some A => simp [h.neg x A hx]

theorem aliases_shared {x y : SName} (hy : y ∈ s.aliases x) : s.aliases y = s.aliases x := by
  unfold AR.aliases at hy ⊢
  cases hx : s.al x with
  | none =>
    simp [hx] at hy; subst hy; simp [hx]
  | some A =>
    simp [hx] at hy
    simp [h.shared x A y hx hy]

theorem aliases_nodup (x : SName) : (s.aliases x).Nodup := by
  unfold AR.aliases
  cases hx : s.al x with
  | none => simp
  | some A => simpa using h.nodup x A hx

theorem aliases_noself (x : SName) : tog x ∉ s.aliases x := by
  unfold AR.aliases
  cases hx : s.al x with
  | none => simp; exact tog_ne' x
  | some A => simpa using h.noself x A hx

/-- no class contains a name together with its negation -/
theorem no_both {x y : SName} (hy : y ∈ s.aliases x) : tog y ∉ s.aliases x := by
  intro ht
  have e1 := h.aliases_shared hy
  rw [← e1] at ht
  exact h.aliases_noself y ht

theorem aliases_symm {x y : SName} (hy : y ∈ s.aliases x) : x ∈ s.aliases y := by
  rw [h.aliases_shared hy]; exact h.aliases_self x

/-- the canonical member (with its sign) of the class of `x` -/
theorem canon_mem (x : SName) : ((s.canonicalSigned x).2, (s.canonicalSigned x).1) ∈ s.aliases x := by
  unfold AR.canonicalSigned AR.aliases
  cases hx : s.al x with
  | none => simp [h.cm_none x hx]
  | some A =>
    obtain ⟨c, hc, hm⟩ := h.cm_some x A hx
    simpa [hc] using hm

theorem canon_class {x y : SName} (hy : y ∈ s.aliases x) : s.canonicalSigned y = s.canonicalSigned x := by
  unfold AR.aliases at hy
  unfold AR.canonicalSigned
  cases hx : s.al x with
  | none => simp [hx] at hy; subst hy; rfl
  | some A =>
    simp [hx] at hy
    rw [h.cm_class x A y hx hy]
    obtain ⟨c, hc, _⟩ := h.cm_some x A hx
    simp [hc]

theorem canon_tog (x : SName) : s.canonicalSigned (tog x) = ((s.canonicalSigned x).1, !(s.canonicalSigned x).2) := by
  unfold AR.canonicalSigned
  cases hx : s.cmap x with
  | none =>
    cases hnx : s.cmap (tog x) with
    | none => simp [tog]
    | some c =>
      have := h.cm_neg (tog x) c hnx
      simp [hx] at this
  | some c => simp [h.cm_neg x c hx]

end WF

/-- the result of an `add` that does not return early -/
theorem add_eq {s s' : AR} {a b : SName} (hb : b ∉ s.aliases a) (hs : s.add a b = some s') :
    s' = { al := fun k => if k ∈ s.aliases a ++ s.aliases b then some (s.aliases a ++ s.aliases b)
                          else if tog k ∈ s.aliases a ++ s.aliases b then some (s.aliases (tog a) ++ s.aliases (tog b))
                          else s.al k,
           cmap := fun k => if tog k ∈ s.aliases a ++ s.aliases b then some (flipIf true (s.canonicalSigned a))
                            else if k ∈ s.aliases a ++ s.aliases b then some (s.canonicalSigned a) else s.cmap k,
           cv := (if (s.canonicalSigned a).1 ∈ s.cv then s.cv else s.cv ++ [(s.canonicalSigned a).1]).filter
                   (· != (s.canonicalSigned b).1) } := by
  unfold AR.add at hs
  simp only [hb, if_false, Option.some.injEq] at hs
  exact hs.symm

section add
variable {s : AR} (h : WF s) {a b : SName} (hb : b ∉ s.aliases a) (hadm : b ∉ s.aliases (tog a))
include h hb hadm

theorem add_disjoint {y : SName} (h1 : y ∈ s.aliases a) (h2 : y ∈ s.aliases b) : False := by
  have e1 := h.aliases_shared h1
  have e2 := h.aliases_shared h2
  apply hb
  rw [← e1, e2]; exact h.aliases_self b

theorem add_P2 {k : SName} (hk : k ∈ s.aliases a ++ s.aliases b) : tog k ∉ s.aliases a ++ s.aliases b := by
  intro ht
  rcases List.mem_append.1 hk with hk | hk <;> rcases List.mem_append.1 ht with ht | ht
  · exact h.no_both hk ht
  · -- k ~ a, -k ~ b
    have e1 : s.aliases (tog k) = s.aliases b := h.aliases_shared ht
    have : tog k ∈ s.aliases (tog a) := by rw [h.aliases_tog a]; exact List.mem_map_of_mem hk
    have e2 : s.aliases (tog k) = s.aliases (tog a) := h.aliases_shared this
    apply hadm; rw [← e2, e1]; exact h.aliases_self b
  · -- k ~ b, -k ~ a
    have e1 : s.aliases k = s.aliases b := h.aliases_shared hk
    have : k ∈ s.aliases (tog a) := by
      rw [h.aliases_tog a]; exact mem_map_tog.2 ht
    have e2 : s.aliases k = s.aliases (tog a) := h.aliases_shared this
    apply hadm; rw [← e2, e1]; exact h.aliases_self b
  · exact h.no_both hk ht

theorem add_I_eq : s.aliases (tog a) ++ s.aliases (tog b) = (s.aliases a ++ s.aliases b).map tog := by
  rw [h.aliases_tog a, h.aliases_tog b, List.map_append]

/-- a class that does not meet the joined classes is not touched -/
theorem add_P5 {k : SName} {A : List SName} (hk : k ∉ s.aliases a ++ s.aliases b) (hk' : tog k ∉ s.aliases a ++ s.aliases b)
    (hA : s.al k = some A) {y : SName} (hy : y ∈ A) :
    y ∉ s.aliases a ++ s.aliases b ∧ tog y ∉ s.aliases a ++ s.aliases b := by
  have hyk : y ∈ s.aliases k := by simp [AR.aliases, hA, hy]
  have e1 : s.aliases y = s.aliases k := h.aliases_shared hyk
  constructor
  · intro hin
    apply hk
    rcases List.mem_append.1 hin with hin | hin
    · have e2 := h.aliases_shared hin
      exact List.mem_append_left _ (by rw [← e2, e1]; exact h.aliases_self k)
    · have e2 := h.aliases_shared hin
      exact List.mem_append_right _ (by rw [← e2, e1]; exact h.aliases_self k)
  · intro hin
    apply hk'
    have hty : tog y ∈ s.aliases (tog k) := by rw [h.aliases_tog k]; exact List.mem_map_of_mem hyk
    have e3 : s.aliases (tog y) = s.aliases (tog k) := h.aliases_shared hty
    rcases List.mem_append.1 hin with hin | hin
    · have e2 := h.aliases_shared hin
      exact List.mem_append_left _ (by rw [← e2, e3]; exact h.aliases_self (tog k))
    · have e2 := h.aliases_shared hin
      exact List.mem_append_right _ (by rw [← e2, e3]; exact h.aliases_self (tog k))

theorem add_nodup : (s.aliases a ++ s.aliases b).Nodup := by
  rw [List.nodup_append]
  refine ⟨h.aliases_nodup a, h.aliases_nodup b, ?_⟩
  intro x hx y hy hxy
  subst hxy
  exact add_disjoint h hb hadm hx hy

theorem add_canon_ne : (s.canonicalSigned a).1 ≠ (s.canonicalSigned b).1 := by
  intro he
  have ha := h.canon_mem a
  have hb' := h.canon_mem b
  by_cases hs : (s.canonicalSigned a).2 = (s.canonicalSigned b).2
  · rw [he, hs] at ha
    exact add_disjoint h hb hadm ha hb'
  · have : ((s.canonicalSigned b).2, (s.canonicalSigned b).1) = tog ((s.canonicalSigned a).2, (s.canonicalSigned a).1) := by
      rw [← he]
      cases h1 : (s.canonicalSigned a).2 <;> cases h2 : (s.canonicalSigned b).2 <;> simp_all [tog]
    rw [this] at hb'
    exact add_P2 h hb hadm (List.mem_append_left _ ha) (List.mem_append_right _ hb')

end add

theorem nodup_map_tog : ∀ (l : List SName), l.Nodup → (l.map tog).Nodup
  | [], _ => by simp
  | x :: xs, h => by
    simp only [List.nodup_cons, List.map_cons] at h ⊢
    refine ⟨?_, nodup_map_tog xs h.2⟩
    intro hin
    exact h.1 (by simpa using mem_map_tog.1 hin)

theorem flipIf_true (p : String × Bool) : flipIf true p = (p.1, !p.2) := by
  simp [flipIf]

/-- an `add` that joins two unrelated classes keeps the invariant -/
theorem WF.add_wf {s s' : AR} (h : WF s) {a b : SName} (hb : b ∉ s.aliases a) (hadm : b ∉ s.aliases (tog a))
    (hs : s.add a b = some s') : WF s' := by
  have hP2 := @add_P2 s h a b hb hadm
  have hI := add_I_eq h hb hadm
  have hP5 := @add_P5 s h a b hb hadm
  have hnd := add_nodup h hb hadm
  have hne := add_canon_ne h hb hadm
  have hca : ((s.canonicalSigned a).2, (s.canonicalSigned a).1) ∈ s.aliases a ++ s.aliases b :=
    List.mem_append_left _ (h.canon_mem a)
  have hcb : ((s.canonicalSigned b).2, (s.canonicalSigned b).1) ∈ s.aliases a ++ s.aliases b :=
    List.mem_append_right _ (h.canon_mem b)
  rw [add_eq hb hs]
  generalize hA' : s.aliases a ++ s.aliases b = A' at *
  rw [hI]
  refine ⟨?_, ?_, ?_, ?_, ?_, ?sz, ?_, ?_, ?_, ?_, ?_, ?_⟩
  · -- self
    intro x B hx
    simp only at hx
    split at hx
    · simp at hx; subst hx; assumption
    · split at hx
      · simp at hx; subst hx; exact mem_map_tog.2 (by assumption)
      · exact h.self x B hx
  · -- shared
    intro x B y hx hy
    simp only at hx ⊢
    split at hx
    · simp at hx; subst hx; simp [hy]
    · split at hx
      · rename_i hx1 hx2
        simp at hx; subst hx
        have hty : tog y ∈ A' := mem_map_tog.1 hy
        have hny : y ∉ A' := fun hin => hP2 hin hty
        simp [hny, hty]
      · rename_i hx1 hx2
        have := hP5 hx1 hx2 hx hy
        simp [this.1, this.2]
        exact h.shared x B y hx hy
  · -- neg
    intro x B hx
    simp only at hx ⊢
    split at hx
    · rename_i hx1
      simp at hx; subst hx
      have := hP2 hx1
      simp [this, hx1]
    · split at hx
      · rename_i hx1 hx2
        simp at hx; subst hx
        simp [hx2, List.map_map, Function.comp_def]
      · rename_i hx1 hx2
        simp [hx2, hx1]
        exact h.neg x B hx
  · -- nodup
    intro x B hx
    simp only at hx
    split at hx
    · simp at hx; subst hx; exact hnd
    · split at hx
      · simp at hx; subst hx
        exact nodup_map_tog _ hnd
      · exact h.nodup x B hx
  · -- noself
    intro x B hx
    simp only at hx
    split at hx
    · rename_i hx1
      simp at hx; subst hx; exact hP2 hx1
    · split at hx
      · rename_i hx1 hx2
        simp at hx; subst hx
        intro hin
        exact hx1 (by simpa using mem_map_tog.1 hin)
      · exact h.noself x B hx
  case sz =>
    have hla : 1 ≤ (s.aliases a).length := List.length_pos_of_mem (h.aliases_self a)
    have hlb : 1 ≤ (s.aliases b).length := List.length_pos_of_mem (h.aliases_self b)
    have hlen : 2 ≤ A'.length := by rw [← hA', List.length_append]; omega
    intro x B hx
    simp only at hx
    split at hx
    · simp at hx; subst hx; exact hlen
    · split at hx
      · simp at hx; subst hx; simpa using hlen
      · exact h.size x B hx
  · -- cm_some
    intro x B hx
    simp only at hx ⊢
    split at hx
    · rename_i hx1
      simp at hx; subst hx
      have := hP2 hx1
      simp [this, hx1]
      exact hca
    · split at hx
      · rename_i hx1 hx2
        simp at hx; subst hx
        simp only [hx2, if_true, flipIf_true]
        refine ⟨_, rfl, ?_⟩
        apply mem_map_tog.2
        have : tog (!(s.canonicalSigned a).2, (s.canonicalSigned a).1) = ((s.canonicalSigned a).2, (s.canonicalSigned a).1) := by
          simp [tog]
        rw [this]; exact hca
      · rename_i hx1 hx2
        simp only [hx2, hx1, if_false]
        exact h.cm_some x B hx
  · -- cm_none
    intro x hx
    simp only at hx ⊢
    split at hx
    · simp at hx
    · split at hx
      · simp at hx
      · rename_i hx1 hx2
        simp only [hx2, hx1, if_false]
        exact h.cm_none x hx
  · -- cm_class
    intro x B y hx hy
    simp only at hx ⊢
    split at hx
    · rename_i hx1
      simp at hx; subst hx
      simp [hP2 hx1, hP2 hy, hx1, hy]
    · split at hx
      · rename_i hx1 hx2
        simp at hx; subst hx
        have hty : tog y ∈ A' := mem_map_tog.1 hy
        simp [hty, hx2]
      · rename_i hx1 hx2
        have := hP5 hx1 hx2 hx hy
        simp only [this.1, this.2, hx1, hx2, if_false]
        exact h.cm_class x B y hx hy
  · -- cm_neg
    intro x c hx
    simp only at hx ⊢
    split at hx
    · rename_i hx2
      simp at hx; subst hx
      have hnx : x ∉ A' := fun hin => hP2 hin hx2
      simp [hnx, hx2, flipIf_true]
    · split at hx
      · rename_i hx2 hx1
        simp at hx; subst hx
        simp [hx1, flipIf_true]
      · rename_i hx2 hx1
        simp only [tog_tog', hx1, hx2, if_false]
        exact h.cm_neg x c hx
  · -- cv_nodup
    apply List.Nodup.sublist List.filter_sublist
    split
    · exact h.cv_nodup
    · rename_i hnin
      rw [List.nodup_append]
      refine ⟨h.cv_nodup, by simp, ?_⟩
      intro x hx y hy hxy
      simp at hy; subst hy; subst hxy
      exact hnin hx
  · -- cv_iff
    intro c
    have hlist : ∀ n, n ∈ (if (s.canonicalSigned a).1 ∈ s.cv then s.cv else s.cv ++ [(s.canonicalSigned a).1]) ↔
        (n ∈ s.cv ∨ n = (s.canonicalSigned a).1) := by
      intro n
      split
      · rename_i hin
        constructor
        · exact Or.inl
        · rintro (h1 | rfl); exact h1; exact hin
      · simp
    simp only [List.mem_filter, hlist, bne_iff_ne, ne_eq]
    -- classification of (false, c) with respect to the joined class
    have F1 : c ∈ s.cv → c ≠ (s.canonicalSigned a).1 → c ≠ (s.canonicalSigned b).1 →
        (false, c) ∉ A' ∧ tog (false, c) ∉ A' := by
      intro hc hna hnb
      have hcm := (h.cv_iff c).1 hc
      have hcs : s.canonicalSigned (false, c) = (c, false) := by simp [AR.canonicalSigned, hcm]
      have hcs' : s.canonicalSigned (tog (false, c)) = (c, true) := by rw [h.canon_tog, hcs]; rfl
      subst hA'
      constructor
      · intro hin
        rcases List.mem_append.1 hin with hin | hin
        · have := h.canon_class hin; rw [hcs] at this; exact hna (by rw [← this])
        · have := h.canon_class hin; rw [hcs] at this; exact hnb (by rw [← this])
      · intro hin
        rcases List.mem_append.1 hin with hin | hin
        · have := h.canon_class hin; rw [hcs'] at this; exact hna (by rw [← this])
        · have := h.canon_class hin; rw [hcs'] at this; exact hnb (by rw [← this])
    constructor
    · rintro ⟨hc, hncb⟩
      by_cases hca1 : c = (s.canonicalSigned a).1
      · subst hca1
        cases hsg : (s.canonicalSigned a).2 with
        | false =>
          rw [hsg] at hca
          have hnt : tog (false, (s.canonicalSigned a).1) ∉ A' := hP2 hca
          simp only [hnt, hca, if_true, if_false]
          congr 1
          exact Prod.ext rfl hsg
        | true =>
          rw [hsg] at hca
          have ht : tog (false, (s.canonicalSigned a).1) ∈ A' := by simpa [tog] using hca
          simp only [ht, if_true, flipIf_true, hsg]
          rfl
      · have hcv : c ∈ s.cv := by
          rcases hc with h1 | h1
          · exact h1
          · exact absurd h1 hca1
        have := F1 hcv hca1 hncb
        simp only [this.1, this.2, if_false]
        exact (h.cv_iff c).1 hcv
    · intro hcm
      split at hcm
      · simp only [flipIf_true, Option.some.injEq, Prod.mk.injEq] at hcm
        exact ⟨Or.inr hcm.1.symm, by rw [← hcm.1]; exact hne⟩
      · split at hcm
        · simp only [Option.some.injEq] at hcm
          have : (s.canonicalSigned a).1 = c := by rw [hcm]
          exact ⟨Or.inr this.symm, by rw [← this]; exact hne⟩
        · rename_i hk2 hk1
          have hcv := (h.cv_iff c).2 hcm
          refine ⟨Or.inl hcv, ?_⟩
          intro hcb1
          subst hcb1
          cases hsg : (s.canonicalSigned b).2 with
          | false => rw [hsg] at hcb; exact hk1 hcb
          | true => rw [hsg] at hcb; exact hk2 (by simpa [tog] using hcb)

/-! ## counting: one more eliminated name per effective `add` -/

/-- the number of names `for canonical, aliases in alias_relation` walks over -/
def elimCount (s : AR) : Nat := (s.cv.map fun c => (s.aliases (false, c)).length - 1).sum

theorem sum_filter_ne (f : String → Nat) : ∀ (L : List String) (x : String), L.Nodup →
    (L.map f).sum = (if x ∈ L then f x else 0) + ((L.filter (· != x)).map f).sum
  | [], x, _ => by simp
  | y :: ys, x, hnd => by
    simp only [List.nodup_cons] at hnd
    have ih := sum_filter_ne f ys x hnd.2
    by_cases hyx : y = x
    · subst hyx
      have hnot : y ∉ ys := hnd.1
      have : ys.filter (· != y) = ys := by
        rw [List.filter_eq_self]; intro z hz
        have : z ≠ y := fun e => hnot (e ▸ hz)
        simpa using this
      simp [List.filter_cons, this]
    · have h1 : (y != x) = true := by simpa using hyx
      have h2 : (x ∈ y :: ys) ↔ x ∈ ys := by
        simp only [List.mem_cons]
        constructor
        · rintro (e | e); exact absurd e.symm hyx; exact e
        · exact Or.inr
      simp only [List.map_cons, List.sum_cons, List.filter_cons, h1, if_true, h2]
      rw [ih]; omega

/-- the class of the canonical name has the size of the class, and a class whose canonical name is
    not listed is a singleton -/
theorem WF.len_canon {s : AR} (h : WF s) (a : SName) :
    ((s.canonicalSigned a).1 ∈ s.cv → (s.aliases (false, (s.canonicalSigned a).1)).length = (s.aliases a).length) ∧
    ((s.canonicalSigned a).1 ∉ s.cv → (s.aliases a).length = 1) := by
  have hm := h.canon_mem a
  constructor
  · intro _
    cases hsg : (s.canonicalSigned a).2 with
    | false =>
      rw [hsg] at hm
      rw [h.aliases_shared hm]
    | true =>
      rw [hsg] at hm
      have e1 := h.aliases_shared hm
      have e2 := h.aliases_tog (true, (s.canonicalSigned a).1)
      have : tog (true, (s.canonicalSigned a).1) = (false, (s.canonicalSigned a).1) := rfl
      rw [this] at e2
      rw [e2, e1, List.length_map]
  · intro hnot
    cases hal : s.al a with
    | none => simp [AR.aliases, hal]
    | some A =>
      exfalso
      apply hnot
      rw [h.cv_iff]
      have hcl := h.canon_class hm
      obtain ⟨c, hc, _⟩ := h.cm_some a A hal
      have hcs : s.canonicalSigned a = c := by simp [AR.canonicalSigned, hc]
      cases hsg : (s.canonicalSigned a).2 with
      | false =>
        rw [hsg] at hcl hm
        -- cmap (false, c.1) = cmap a
        have hmA : (false, (s.canonicalSigned a).1) ∈ A := by simpa [AR.aliases, hal] using hm
        rw [h.cm_class a A _ hal hmA, hc, ← hcs]
        exact congrArg some (Prod.ext rfl hsg)
      | true =>
        rw [hsg] at hm
        have hmA : (true, (s.canonicalSigned a).1) ∈ A := by simpa [AR.aliases, hal] using hm
        have e1 : s.cmap (true, (s.canonicalSigned a).1) = some c := by rw [h.cm_class a A _ hal hmA, hc]
        have e2 := h.cm_neg _ _ e1
        have : tog (true, (s.canonicalSigned a).1) = (false, (s.canonicalSigned a).1) := rfl
        rw [this] at e2
        rw [e2, ← hcs, hsg]; rfl

theorem aliases_mk (al : SName → Option (List SName)) (cm : SName → Option (String × Bool)) (cv : List String) (x : SName) :
    AR.aliases ⟨al, cm, cv⟩ x = (al x).getD [x] := rfl

theorem canonicalSigned_mk (al : SName → Option (List SName)) (cm : SName → Option (String × Bool)) (cv : List String) (x : SName) :
    AR.canonicalSigned ⟨al, cm, cv⟩ x = (cm x).getD (x.2, x.1) := rfl

section addfacts
variable {s s' : AR} (h : WF s) {a b : SName} (hb : b ∉ s.aliases a) (hadm : b ∉ s.aliases (tog a))
  (hs : s.add a b = some s')
include h hb hadm hs

theorem add_aliases_in {x : SName} (hx : x ∈ s.aliases a ++ s.aliases b) :
    s'.aliases x = s.aliases a ++ s.aliases b := by
  rw [add_eq hb hs, aliases_mk]; simp only [hx, if_true, Option.getD_some]

theorem add_aliases_out {x : SName} (hx : x ∉ s.aliases a ++ s.aliases b) (hx' : tog x ∉ s.aliases a ++ s.aliases b) :
    s'.aliases x = s.aliases x := by
  rw [add_eq hb hs, aliases_mk]; simp only [hx, hx', if_false]; rfl

theorem add_canon_in {x : SName} (hx : x ∈ s.aliases a ++ s.aliases b) :
    s'.canonicalSigned x = s.canonicalSigned a := by
  have := add_P2 h hb hadm hx
  rw [add_eq hb hs, canonicalSigned_mk]; simp only [hx, this, if_true, if_false, Option.getD_some]

theorem add_cv_mem (n : String) : n ∈ s'.cv ↔ (n ∈ s.cv ∨ n = (s.canonicalSigned a).1) ∧ n ≠ (s.canonicalSigned b).1 := by
  rw [add_eq hb hs]
  simp only [List.mem_filter, bne_iff_ne, ne_eq]
  constructor
  · rintro ⟨h1, h2⟩
    refine ⟨?_, h2⟩
    split at h1
    · exact Or.inl h1
    · simpa using h1
  · rintro ⟨h1, h2⟩
    refine ⟨?_, h2⟩
    split
    · rename_i hin
      rcases h1 with h1 | rfl
      · exact h1
      · exact hin
    · simpa using h1

theorem add_F1 {c : String} (hc : c ∈ s.cv) (hna : c ≠ (s.canonicalSigned a).1) (hnb : c ≠ (s.canonicalSigned b).1) :
    (false, c) ∉ s.aliases a ++ s.aliases b ∧ tog (false, c) ∉ s.aliases a ++ s.aliases b := by
  have hcm := (h.cv_iff c).1 hc
  have hcs : s.canonicalSigned (false, c) = (c, false) := by simp [AR.canonicalSigned, hcm]
  have hcs' : s.canonicalSigned (tog (false, c)) = (c, true) := by rw [h.canon_tog, hcs]; rfl
  constructor
  · intro hin
    rcases List.mem_append.1 hin with hin | hin
    · have := h.canon_class hin; rw [hcs] at this; exact hna (by rw [← this])
    · have := h.canon_class hin; rw [hcs] at this; exact hnb (by rw [← this])
  · intro hin
    rcases List.mem_append.1 hin with hin | hin
    · have := h.canon_class hin; rw [hcs'] at this; exact hna (by rw [← this])
    · have := h.canon_class hin; rw [hcs'] at this; exact hnb (by rw [← this])

/-- classes only grow -/
theorem add_mono {x y : SName} (hy : y ∈ s.aliases x) : y ∈ s'.aliases x := by
  by_cases hx : x ∈ s.aliases a ++ s.aliases b
  · rw [add_aliases_in h hb hadm hs hx]
    rcases List.mem_append.1 hx with hx | hx
    · exact List.mem_append_left _ (by rw [← h.aliases_shared hx]; exact hy)
    · exact List.mem_append_right _ (by rw [← h.aliases_shared hx]; exact hy)
  · by_cases hx' : tog x ∈ s.aliases a ++ s.aliases b
    · have hI := add_I_eq h hb hadm
      have : s'.aliases x = (s.aliases a ++ s.aliases b).map tog := by
        rw [add_eq hb hs, aliases_mk]; simp only [hx, hx', if_true, if_false, Option.getD_some, hI]
      rw [this]
      apply mem_map_tog.2
      have hty : tog y ∈ s.aliases (tog x) := by rw [h.aliases_tog x]; exact List.mem_map_of_mem hy
      rcases List.mem_append.1 hx' with hx' | hx'
      · exact List.mem_append_left _ (by rw [← h.aliases_shared hx']; exact hty)
      · exact List.mem_append_right _ (by rw [← h.aliases_shared hx']; exact hty)
    · rw [add_aliases_out h hb hadm hs hx hx']; exact hy

theorem add_joined : b ∈ s'.aliases a := by
  rw [add_aliases_in h hb hadm hs (List.mem_append_left _ (h.aliases_self a))]
  exact List.mem_append_right _ (h.aliases_self b)

theorem elimCount_add : elimCount s' = elimCount s + 1 := by
  have h' : WF s' := h.add_wf hb hadm hs
  have hne := add_canon_ne h hb hadm
  have hla : 1 ≤ (s.aliases a).length := List.length_pos_of_mem (h.aliases_self a)
  have hlb : 1 ≤ (s.aliases b).length := List.length_pos_of_mem (h.aliases_self b)
  have hain : a ∈ s.aliases a ++ s.aliases b := List.mem_append_left _ (h.aliases_self a)
  have hca' : s'.canonicalSigned a = s.canonicalSigned a := add_canon_in h hb hadm hs hain
  have hcv_ca : (s.canonicalSigned a).1 ∈ s'.cv := (add_cv_mem h hb hadm hs _).2 ⟨Or.inr rfl, hne⟩
  -- value at the new canonical name
  have hnew : (s'.aliases (false, (s.canonicalSigned a).1)).length = (s.aliases a).length + (s.aliases b).length := by
    have := (h'.len_canon a).1 (by rw [hca']; exact hcv_ca)
    rw [hca'] at this
    rw [this, add_aliases_in h hb hadm hs hain, List.length_append]
  -- unchanged classes
  have hsame : ∀ c ∈ (s.cv.filter (· != (s.canonicalSigned b).1)).filter (· != (s.canonicalSigned a).1),
      (s'.aliases (false, c)).length - 1 = (s.aliases (false, c)).length - 1 := by
    intro c hc
    have h1 := List.mem_filter.1 hc
    have h2 := List.mem_filter.1 h1.1
    have := add_F1 h hb hadm hs h2.1 (by simpa using h1.2) (by simpa using h2.2)
    rw [add_aliases_out h hb hadm hs this.1 this.2]
  -- the list of the other canonical names
  have hrest : s'.cv.filter (· != (s.canonicalSigned a).1) =
      (s.cv.filter (· != (s.canonicalSigned b).1)).filter (· != (s.canonicalSigned a).1) := by
    rw [add_eq hb hs]
    simp only
    split
    · rfl
    · rw [List.filter_append, List.filter_append]
      have hcb : ((s.canonicalSigned a).1 != (s.canonicalSigned b).1) = true := by simpa using hne
      simp [List.filter_cons, hcb]
  unfold elimCount
  rw [sum_filter_ne _ s'.cv (s.canonicalSigned a).1 h'.cv_nodup, if_pos hcv_ca, hrest, List.map_congr_left hsame,
    sum_filter_ne (fun c => (s.aliases (false, c)).length - 1) s.cv (s.canonicalSigned b).1 h.cv_nodup,
    sum_filter_ne (fun c => (s.aliases (false, c)).length - 1) (s.cv.filter (· != (s.canonicalSigned b).1))
      (s.canonicalSigned a).1 (h.cv_nodup.sublist List.filter_sublist)]
  have hmem : (s.canonicalSigned a).1 ∈ s.cv.filter (· != (s.canonicalSigned b).1) ↔ (s.canonicalSigned a).1 ∈ s.cv := by
    simp [List.mem_filter, hne]
  have ha1 := h.len_canon a
  have hb1 := h.len_canon b
  by_cases hca : (s.canonicalSigned a).1 ∈ s.cv <;> by_cases hcb : (s.canonicalSigned b).1 ∈ s.cv
  · have e1 := ha1.1 hca; have e2 := hb1.1 hcb
    simp only [hmem, hca, hcb, if_true, hnew, e1, e2]; omega
  · have e1 := ha1.1 hca; have e2 := hb1.2 hcb
    simp only [hmem, hca, hcb, if_true, if_false, hnew, e1]; omega
  · have e1 := ha1.2 hca; have e2 := hb1.1 hcb
    simp only [hmem, hca, hcb, if_true, if_false, hnew, e2]; omega
  · have e1 := ha1.2 hca; have e2 := hb1.2 hcb
    simp only [hmem, hca, hcb, if_false, hnew]; omega

end addfacts

/-- the canonical name of a recorded class is listed in `canonical_variables` -/
theorem WF.canon_in_cv' {s : AR} (h : WF s) {a : SName} {A : List SName} (hal : s.al a = some A) :
    (s.canonicalSigned a).1 ∈ s.cv := by
  have hm := h.canon_mem a
  rw [h.cv_iff]
  obtain ⟨c, hc, _⟩ := h.cm_some a A hal
  have hcs : s.canonicalSigned a = c := by simp [AR.canonicalSigned, hc]
  cases hsg : (s.canonicalSigned a).2 with
  | false =>
    rw [hsg] at hm
    have hmA : (false, (s.canonicalSigned a).1) ∈ A := by simpa [AR.aliases, hal] using hm
    rw [h.cm_class a A _ hal hmA, hc, ← hcs]
    exact congrArg some (Prod.ext rfl hsg)
  | true =>
    rw [hsg] at hm
    have hmA : (true, (s.canonicalSigned a).1) ∈ A := by simpa [AR.aliases, hal] using hm
    have e1 : s.cmap (true, (s.canonicalSigned a).1) = some c := by rw [h.cm_class a A _ hal hmA, hc]
    have e2 := h.cm_neg _ _ e1
    have : tog (true, (s.canonicalSigned a).1) = (false, (s.canonicalSigned a).1) := rfl
    rw [this] at e2
    rw [e2, ← hcs, hsg]; rfl

/-! ## the base names the elimination loop walks over -/

/-- `n` belongs to a recorded class without being its canonical name -/
def NonCanon (s : AR) (n : String) : Prop := s.al (false, n) ≠ none ∧ n ∉ s.cv

/-- the non-canonical members of the class of the canonical name `c` -/
def classRest (s : AR) (c : String) : List SName := (s.aliases (false, c)).filter (· != (false, c))

/-- base names of all non-canonical members, class by class -/
def restNames (s : AR) : List String := s.cv.flatMap fun c => (classRest s c).map (·.2)

theorem WF.al_tog {s : AR} (h : WF s) {x : SName} (hx : s.al x ≠ none) : s.al (tog x) ≠ none := by
  cases hal : s.al x with
  | none => exact absurd hal hx
  | some A => rw [h.neg x A hal]; simp

theorem WF.al_of_mem {s : AR} (h : WF s) {x y : SName} (hx : s.al x ≠ none) (hy : y ∈ s.aliases x) : s.al y ≠ none := by
  cases hal : s.al x with
  | none => exact absurd hal hx
  | some A =>
    have : y ∈ A := by simpa [AR.aliases, hal] using hy
    rw [h.shared x A y hal this]; simp

theorem WF.cv_al {s : AR} (h : WF s) {c : String} (hc : c ∈ s.cv) : s.al (false, c) ≠ none := by
  intro hal
  have := (h.cv_iff c).1 hc
  rw [h.cm_none _ hal] at this
  simp at this

theorem WF.cv_canon {s : AR} (h : WF s) {c : String} (hc : c ∈ s.cv) : s.canonicalSigned (false, c) = (c, false) := by
  simp [AR.canonicalSigned, (h.cv_iff c).1 hc]

/-- a non-canonical member of the class of a canonical name has another base name, which is not canonical -/
theorem WF.rest_base {s : AR} (h : WF s) {c : String} (hc : c ∈ s.cv) {a : SName} (ha : a ∈ classRest s c) :
    a.2 ≠ c ∧ a.2 ∉ s.cv := by
  obtain ⟨hmem, hne⟩ := List.mem_filter.1 ha
  have hne' : a ≠ (false, c) := by simpa using hne
  have hcs := h.cv_canon hc
  have hbase : a.2 ≠ c := by
    intro e
    obtain ⟨sg, n⟩ := a
    simp only at e; subst e
    cases sg
    · exact hne' rfl
    · exact h.aliases_noself (false, n) (by simpa [tog] using hmem)
  refine ⟨hbase, ?_⟩
  intro hcv
  have h1 := h.cv_canon hcv
  have h2 : s.canonicalSigned a = (c, false) := by rw [h.canon_class hmem, hcs]
  obtain ⟨sg, n⟩ := a
  cases sg
  · rw [h1] at h2; exact hbase (by simpa using congrArg Prod.fst h2)
  · have h3 := h.canon_tog (false, n)
    rw [h1] at h3
    have : tog (false, n) = (true, n) := rfl
    rw [this, h2] at h3
    exact hbase (by simpa using (congrArg Prod.fst h3).symm)

theorem WF.mem_restNames {s : AR} (h : WF s) (n : String) : n ∈ restNames s ↔ NonCanon s n := by
  unfold restNames NonCanon
  simp only [List.mem_flatMap, List.mem_map]
  constructor
  · rintro ⟨c, hc, a, ha, rfl⟩
    have hb := h.rest_base hc ha
    refine ⟨?_, hb.2⟩
    have hmem := (List.mem_filter.1 ha).1
    have hal := h.al_of_mem (h.cv_al hc) hmem
    obtain ⟨sg, m⟩ := a
    cases sg
    · exact hal
    · exact h.al_tog hal
  · rintro ⟨hal, hncv⟩
    cases hA : s.al (false, n) with
    | none => exact absurd hA hal
    | some A =>
      have hcv := h.canon_in_cv' hA
      have hm := h.canon_mem (false, n)
      have hne : (s.canonicalSigned (false, n)).1 ≠ n := by
        intro e
        cases hsg : (s.canonicalSigned (false, n)).2 with
        | false =>
          apply hncv
          rw [h.cv_iff]
          obtain ⟨c, hc, _⟩ := h.cm_some _ A hA
          have : s.canonicalSigned (false, n) = c := by simp [AR.canonicalSigned, hc]
          rw [hc, ← this]
          exact congrArg some (Prod.ext e hsg)
        | true =>
          rw [hsg, e] at hm
          exact h.aliases_noself (false, n) (by simpa [tog] using hm)
      refine ⟨(s.canonicalSigned (false, n)).1, hcv, ?_⟩
      cases hsg : (s.canonicalSigned (false, n)).2 with
      | false =>
        rw [hsg] at hm
        refine ⟨(false, n), List.mem_filter.2 ⟨h.aliases_symm hm, ?_⟩, rfl⟩
        simpa using fun e => hne e.symm
      | true =>
        rw [hsg] at hm
        have h1 : tog (true, (s.canonicalSigned (false, n)).1) ∈ s.aliases (tog (false, n)) := by
          rw [h.aliases_tog]; exact List.mem_map_of_mem hm
        have h2 := h.aliases_symm h1
        refine ⟨(true, n), List.mem_filter.2 ⟨by simpa [tog] using h2, by simp⟩, rfl⟩

theorem filter_ne_length'' {α} [BEq α] [LawfulBEq α] : ∀ (xs : List α) (a : α), xs.Nodup → a ∈ xs →
    (xs.filter (· != a)).length + 1 = xs.length
  | [], a, _, h => by simp at h
  | x :: xs, a, hnd, hmem => by
    simp only [List.nodup_cons] at hnd
    by_cases hx : x = a
    · subst hx
      have : xs.filter (· != x) = xs := by
        rw [List.filter_eq_self]; intro y hy
        have : y ≠ x := fun e => hnd.1 (e ▸ hy)
        simpa using this
      simp [List.filter_cons, this]
    · have hm : a ∈ xs := by
        rcases List.mem_cons.1 hmem with h | h
        · exact absurd h.symm hx
        · exact h
      have hx' : (x != a) = true := by simpa using hx
      simp only [List.filter_cons, hx', if_true, List.length_cons]
      have := filter_ne_length'' xs a hnd.2 hm
      omega

theorem WF.classRest_length {s : AR} (h : WF s) (c : String) : (classRest s c).length = (s.aliases (false, c)).length - 1 := by
  have := filter_ne_length'' (s.aliases (false, c)) (false, c) (h.aliases_nodup (false, c)) (h.aliases_self (false, c))
  exact Nat.eq_sub_of_add_eq this

theorem WF.restNames_length {s : AR} (h : WF s) : (restNames s).length = elimCount s := by
  unfold restNames elimCount
  rw [List.length_flatMap]
  congr 1
  apply List.map_congr_left
  intro c _
  rw [List.length_map, h.classRest_length]

/-- two members of one class with the same base name are the same signed name -/
theorem WF.same_base {s : AR} (h : WF s) {x a a' : SName} (ha : a ∈ s.aliases x) (ha' : a' ∈ s.aliases x) (hb : a.2 = a'.2) :
    a = a' := by
  obtain ⟨s1, n1⟩ := a
  obtain ⟨s2, n2⟩ := a'
  simp only at hb; subst hb
  by_cases hs : s1 = s2
  · rw [hs]
  · exfalso
    have : (s2, n1) = tog (s1, n1) := by cases s1 <;> cases s2 <;> simp_all [tog]
    rw [this] at ha'
    exact h.no_both ha ha'

theorem WF.classRest_names_nodup {s : AR} (h : WF s) (c : String) : ((classRest s c).map (·.2)).Nodup := by
  have hnd : (classRest s c).Nodup := (h.aliases_nodup (false, c)).sublist List.filter_sublist
  have hsub : ∀ a ∈ classRest s c, a ∈ s.aliases (false, c) := fun a ha => (List.mem_filter.1 ha).1
  generalize classRest s c = l at hnd hsub
  induction l with
  | nil => simp
  | cons x xs ih =>
    simp only [List.map_cons, List.nodup_cons] at hnd ⊢
    refine ⟨?_, ih hnd.2 (fun a ha => hsub a (List.mem_cons_of_mem _ ha))⟩
    intro hin
    obtain ⟨y, hy, hyx⟩ := List.mem_map.1 hin
    have := h.same_base (hsub y (List.mem_cons_of_mem _ hy)) (hsub x (by simp)) hyx
    subst this
    exact hnd.1 hy

theorem WF.classRest_disjoint {s : AR} (h : WF s) {c c' : String} (hc : c ∈ s.cv) (hc' : c' ∈ s.cv) (hne : c ≠ c')
    {n : String} (h1 : n ∈ (classRest s c).map (·.2)) (h2 : n ∈ (classRest s c').map (·.2)) : False := by
  obtain ⟨a, ha, rfl⟩ := List.mem_map.1 h1
  obtain ⟨a', ha', hb⟩ := List.mem_map.1 h2
  have hm := (List.mem_filter.1 ha).1
  have hm' := (List.mem_filter.1 ha').1
  have k1 : s.canonicalSigned a = (c, false) := by rw [h.canon_class hm, h.cv_canon hc]
  have k2 : s.canonicalSigned a' = (c', false) := by rw [h.canon_class hm', h.cv_canon hc']
  obtain ⟨s1, n1⟩ := a
  obtain ⟨s2, n2⟩ := a'
  simp only at hb; subst hb
  by_cases hs : s1 = s2
  · subst hs
    rw [k1] at k2
    exact hne (by simpa using congrArg Prod.fst k2)
  · have : (s2, n2) = tog (s1, n2) := by cases s1 <;> cases s2 <;> simp_all [tog]
    rw [this, h.canon_tog, k1] at k2
    simp at k2

theorem WF.restNames_nodup {s : AR} (h : WF s) : (restNames s).Nodup := by
  unfold restNames
  have key : ∀ (cs : List String), cs.Nodup → (∀ c ∈ cs, c ∈ s.cv) →
      (cs.flatMap fun c => (classRest s c).map (·.2)).Nodup := by
    intro cs
    induction cs with
    | nil => intro _ _; simp
    | cons c cs ih =>
      intro hnd hsub
      simp only [List.nodup_cons] at hnd
      simp only [List.flatMap_cons, List.nodup_append]
      refine ⟨h.classRest_names_nodup c, ih hnd.2 (fun x hx => hsub x (List.mem_cons_of_mem _ hx)), ?_⟩
      intro n hn m hm hnm
      subst hnm
      obtain ⟨c', hc', hin⟩ := List.mem_flatMap.1 hm
      exact h.classRest_disjoint (hsub c (by simp)) (hsub c' (List.mem_cons_of_mem _ hc'))
        (fun e => hnd.1 (e ▸ hc')) hn hin
  exact key s.cv h.cv_nodup (fun c hc => hc)

/-! ## a later pass: what was handled before -/

/-- `s` extends `old`: recorded classes stay recorded, and a canonical name of `s` was canonical or unrecorded in `old` -/
structure Ext (old s : AR) : Prop where
  al : ∀ x, old.al x ≠ none → s.al x ≠ none
  cv : ∀ c ∈ s.cv, c ∈ old.cv ∨ old.al (false, c) = none

theorem Ext.refl (s : AR) : Ext s s := ⟨fun _ h => h, fun c hc => Or.inl hc⟩

theorem Ext.add {old s s' : AR} (he : Ext old s) (h : WF s) {a b : SName} (hb : b ∉ s.aliases a)
    (hs : s.add a b = some s') : Ext old s' := by
  constructor
  · intro x hx
    have := he.al x hx
    rw [add_eq hb hs]
    simp only
    split
    · simp
    · split
      · simp
      · exact this
  · intro c hc
    rw [add_eq hb hs] at hc
    simp only [List.mem_filter] at hc
    have hc1 := hc.1
    split at hc1
    · exact he.cv c hc1
    · rcases List.mem_append.1 hc1 with h1 | h1
      · exact he.cv c h1
      · simp at h1; subst h1
        cases hal : s.al a with
        | some A => exact he.cv _ (h.canon_in_cv' hal)
        | none =>
          right
          have hcs : s.canonicalSigned a = (a.2, a.1) := by simp [AR.canonicalSigned, h.cm_none a hal]
          rw [hcs]
          by_cases hn : old.al (false, a.2) = none
          · exact hn
          · exfalso
            have h2 := he.al _ hn
            obtain ⟨sg, n⟩ := a
            cases sg
            · exact h2 hal
            · exact h.al_tog h2 hal

theorem Ext.nonCanon {old s : AR} (he : Ext old s) {n : String} (hn : NonCanon old n) : NonCanon s n := by
  refine ⟨he.al _ hn.1, ?_⟩
  intro hc
  rcases he.cv n hc with h1 | h1
  · exact hn.2 h1
  · exact hn.1 h1

/-- "handled in a previous pass", as a function of the base name -/
def handledB (old : AR) (n : String) : Bool := (old.al (false, n)).isSome && !(old.cv.contains n)

theorem handledB_iff (old : AR) (n : String) : handledB old n = true ↔ NonCanon old n := by
  unfold handledB NonCanon
  cases h : old.al (false, n) <;> simp

theorem eraseDups_of_nodup' {α} [BEq α] [LawfulBEq α] : ∀ (l : List α), l.Nodup → l.eraseDups = l
  | [], _ => by simp
  | x :: xs, h => by
    simp only [List.nodup_cons] at h
    rw [List.eraseDups_cons]
    have : xs.filter (fun b => !b == x) = xs := by
      rw [List.filter_eq_self]; intro y hy
      have : y ≠ x := fun e => h.1 (e ▸ hy)
      simpa using this
    rw [this, eraseDups_of_nodup' xs h.2]

theorem WF.alreadyHandled_eq {old : AR} (h : WF old) (a : SName) : alreadyHandled old a = handledB old a.2 := by
  unfold alreadyHandled handledB
  rw [eraseDups_of_nodup' _ (h.aliases_nodup a)]
  have hlen : decide ((old.aliases a).length > 1) = (old.al (false, a.2)).isSome := by
    cases hal : old.al a with
    | none =>
      have : old.al (false, a.2) = none := by
        by_cases hn : old.al (false, a.2) = none
        · exact hn
        · exfalso
          obtain ⟨sg, n⟩ := a
          cases sg
          · exact hn hal
          · exact h.al_tog hn hal
      simp [AR.aliases, hal, this]
    | some A =>
      have h2 := h.size a A hal
      have : old.al (false, a.2) ≠ none := by
        obtain ⟨sg, n⟩ := a
        cases sg
        · rw [hal]; simp
        · have := h.al_tog (x := (true, n)) (by rw [hal]; simp)
          simpa [tog] using this
      cases h3 : old.al (false, a.2) with
      | none => exact absurd h3 this
      | some B => simp [AR.aliases, hal]; omega
  rw [hlen]

theorem WF.newAliases_eq {old ar : AR} (ho : WF old) (hw : WF ar) (c : String) :
    newAliases old ar c = (classRest ar c).filter (fun a => !handledB old a.2) := by
  unfold newAliases classRest
  rw [eraseDups_of_nodup' _ (hw.aliases_nodup (false, c))]
  apply List.filter_congr
  intro a _
  rw [ho.alreadyHandled_eq]

theorem newAliases_total {old ar : AR} (ho : WF old) (hw : WF ar) :
    ∀ (cs : List String), (cs.map fun c => (newAliases old ar c).length).sum =
      ((cs.flatMap fun c => (classRest ar c).map (·.2)).filter (fun n => !handledB old n)).length
  | [] => by simp
  | c :: cs => by
    simp only [List.map_cons, List.sum_cons, List.flatMap_cons, List.filter_append, List.length_append]
    rw [newAliases_total ho hw cs, ho.newAliases_eq hw, List.filter_map, List.length_map]
    rfl

/-- the names a pass eliminates now: as many as `elimCount` grew since the pass started -/
theorem elim_now_count {old ar : AR} (ho : WF old) (hw : WF ar) (he : Ext old ar) :
    (ar.cv.map fun c => (newAliases old ar c).length).sum + elimCount old = elimCount ar := by
  rw [newAliases_total ho hw ar.cv]
  have hsplit := (List.filter_append_perm (fun n => handledB old n) (restNames ar)).length_eq
  rw [List.length_append] at hsplit
  have hperm : ((restNames ar).filter (fun n => handledB old n)).Perm (restNames old) := by
    rw [List.perm_ext_iff_of_nodup (hw.restNames_nodup.sublist List.filter_sublist) ho.restNames_nodup]
    intro n
    rw [List.mem_filter, hw.mem_restNames, ho.mem_restNames, handledB_iff]
    constructor
    · exact fun h => h.2
    · exact fun h => ⟨he.nonCanon h, h⟩
  have := hperm.length_eq
  rw [ho.restNames_length] at this
  rw [hw.restNames_length] at hsplit
  unfold restNames at hsplit this
  omega

end PymocaVerif.Simplify
