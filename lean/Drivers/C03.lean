import Drivers.Proto
import PymocaVerif.Model.ExprGrammar
import PymocaVerif.Model.ExprSpec
/-! Driver for C03: the table-driven expression parser, the Modelica printer and the literal values of
    `PymocaVerif.Model.ExprGrammar` over JSON.

    trees:  ["num",lexeme] ["str",s] ["bool",b] ["ref",name] ["bin",op,l,r] ["pre",op,e] ["pow",op,a,b]
            ["paren",e] ["if",[[c,t],…],else] ["call",f,[args…]]
    tokens: "(" ")" "," "if" "then" "elseif" "else", operator lexemes, atoms as ["num",lexeme] … -/
open Lean Drivers PymocaVerif.ExprGrammar

def atomToJson : Atom → Json
  | .num l => Json.arr #[Json.str "num", Json.str l]
  | .str s => Json.arr #[Json.str "str", Json.str s]
  | .bool b => Json.arr #[Json.str "bool", Json.bool b]
  | .ref n => Json.arr #[Json.str "ref", Json.str n]

def atomOfJson (kind : String) (v : Json) : Except String Atom :=
  match kind with
  | "num" => do pure (.num (← v.getStr?))
  | "str" => do pure (.str (← v.getStr?))
  | "ref" => do pure (.ref (← v.getStr?))
  | "bool" => do pure (.bool (← v.getBool?))
  | k => throw s!"bad-atom {k}"

def tokToJson : Tok → Json
  | .atom a => atomToJson a
  | .op s => Json.str s.lexeme
  | .lp => Json.str "(" | .rp => Json.str ")" | .comma => Json.str ","
  | .kif => Json.str "if" | .kthen => Json.str "then" | .kelseif => Json.str "elseif" | .kelse => Json.str "else"

def tokOfJson (j : Json) : Except String Tok :=
  match j with
  | .str "(" => pure .lp | .str ")" => pure .rp | .str "," => pure .comma
  | .str "if" => pure .kif | .str "then" => pure .kthen | .str "elseif" => pure .kelseif | .str "else" => pure .kelse
  | .str s => match Sym.ofLexeme? s with
    | some y => pure (.op y)
    | none => throw s!"bad-token {s}"
  | .arr a => do
    let k ← (a[0]?.getD Json.null).getStr?
    pure (.atom (← atomOfJson k (a[1]?.getD Json.null)))
  | _ => throw "bad-token"

def bopOf (s : String) : Except String BOp :=
  match (Sym.ofLexeme? s).bind Sym.bin? with
  | some o => pure o | none => throw s!"bad-binary-operator {s}"
def popOf (s : String) : Except String POp :=
  match (Sym.ofLexeme? s).bind Sym.pre? with
  | some o => pure o | none => throw s!"bad-prefix-operator {s}"
def wopOf (s : String) : Except String WOp :=
  match (Sym.ofLexeme? s).bind Sym.pow? with
  | some o => pure o | none => throw s!"bad-power-operator {s}"

partial def treeOfJson (j : Json) : Except String E := do
  let a ← j.getArr?
  let k ← (a[0]?.getD Json.null).getStr?
  let el (i : Nat) : Json := a[i]?.getD Json.null
  match k with
  | "bin" => do pure (.bin (← bopOf (← (el 1).getStr?)) (← treeOfJson (el 2)) (← treeOfJson (el 3)))
  | "pre" => do pure (.pre (← popOf (← (el 1).getStr?)) (← treeOfJson (el 2)))
  | "pow" => do pure (.pow (← wopOf (← (el 1).getStr?)) (← treeOfJson (el 2)) (← treeOfJson (el 3)))
  | "paren" => do pure (.paren (← treeOfJson (el 1)))
  | "if" => do
    let bs ← (el 1).getArr?
    if bs.size == 0 then throw "if-without-branch"
    let pairs ← bs.toList.mapM fun b => do
      let p ← b.getArr?
      pure ((← treeOfJson (p[0]?.getD Json.null)), (← treeOfJson (p[1]?.getD Json.null)))
    let elseE ← treeOfJson (el 2)
    match pairs with
    | [] => throw "if-without-branch"
    | (c, t) :: more =>
      pure (.ite c t (more.foldr (fun ct acc => Els.elif ct.1 ct.2 acc) (Els.els elseE)))
  | "call" => do
    let f ← (el 1).getStr?
    let args ← (← (el 2).getArr?).toList.mapM treeOfJson
    pure (.call f (args.foldr Args.cons Args.nil))
  | k => do pure (.atom (← atomOfJson k (el 1)))

mutual
partial def treeToJson : E → Json
  | .atom a => atomToJson a
  | .bin o l r => Json.arr #[Json.str "bin", Json.str o.sym.lexeme, treeToJson l, treeToJson r]
  | .pre q e => Json.arr #[Json.str "pre", Json.str q.sym.lexeme, treeToJson e]
  | .pow w a b => Json.arr #[Json.str "pow", Json.str w.sym.lexeme, treeToJson a, treeToJson b]
  | .paren e => Json.arr #[Json.str "paren", treeToJson e]
  | .ite c t r =>
    let (bs, el) := elsToJson r
    Json.arr #[Json.str "if", Json.arr (#[Json.arr #[treeToJson c, treeToJson t]] ++ bs), el]
  | .call f as => Json.arr #[Json.str "call", Json.str f, Json.arr (argsToJson as)]
partial def elsToJson : Els → Array Json × Json
  | .els e => (#[], treeToJson e)
  | .elif c t r =>
    let (bs, el) := elsToJson r
    (#[Json.arr #[treeToJson c, treeToJson t]] ++ bs, el)
partial def argsToJson : Args → Array Json
  | .nil => #[]
  | .cons e r => #[treeToJson e] ++ argsToJson r
end

def optTree : Option E → Json
  | some e => treeToJson e
  | none => Json.null

def fuelFor (ts : List Tok) : Nat := 12 * ts.length + 24

def handle (req : Json) : Except String Json := do
  let op ← getStr req "op"
  match op with
  | "mprint" => do
    let e ← treeOfJson (← getObj req "tree")
    let ts := mprint e
    pure (Json.mkObj [("ok", true),
      ("tokens", Json.arr (ts.map tokToJson).toArray),
      ("expected", treeToJson (expected e)),
      ("stripped", treeToJson (strip e)),
      ("parsed", optTree (parseTop modelicaTbl (fuelFor ts) ts)),
      ("spec", optTree (specParse (fuelFor ts) ts))])
  | "print" => do
    let e ← treeOfJson (← getObj req "tree")
    let ts := pr modelicaTbl 0 e
    pure (Json.mkObj [("ok", true),
      ("tokens", Json.arr (ts.map tokToJson).toArray),
      ("stripped", treeToJson (strip e)),
      ("parsed", optTree (parseTop modelicaTbl (fuelFor ts) ts))])
  | "parse" => do
    let ts ← (← getArr req "tokens").toList.mapM tokOfJson
    let r := parseTop modelicaTbl (fuelFor ts) ts
    -- a result at some fuel is the result at every larger fuel (theorem parse_fuel_mono); a `none` is re-tried
    -- with much more fuel so that it means "syntax error", not "fuel"
    let r := match r with
      | some e => some e
      | none => parseTop modelicaTbl (64 * ts.length + 64) ts
    let s := match specParse (fuelFor ts) ts with
      | some e => some e
      | none => specParse (64 * ts.length + 64) ts
    pure (Json.mkObj [("ok", true), ("tree", optTree r), ("spec", optTree s)])
  | "lit" => do
    let lex ← getStr req "lexeme"
    match litValue lex with
    | none => pure (Json.mkObj [("ok", true), ("valid", false), ("int", false), ("num", "0"), ("den", "1")])
    | some l => pure (Json.mkObj [("ok", true), ("valid", true), ("int", l.isInt),
        ("num", Json.str (toString l.value.num)), ("den", Json.str (toString l.value.den))])
  | "strlit" => do
    let lex ← getStr req "lexeme"
    match strLitValue lex with
    | none => pure (Json.mkObj [("ok", true), ("valid", false), ("value", Json.null)])
    | some v => pure (Json.mkObj [("ok", true), ("valid", true), ("value", Json.str v)])
  | o => throw s!"unknown-op {o}"

def main : IO Unit := serve handle
