import json
from pymoca import parser, tree, ast
def eqs(txt, name):
    t = parser.parse(txt, bypass_cache=True)
    try:
        f = tree.flatten(t, ast.ComponentRef.from_string(name))
        c = f.classes[name]
        def s(e):
            if isinstance(e, ast.ComponentRef): return e.name
            if isinstance(e, ast.Symbol): return e.name
            if isinstance(e, ast.Primary): return str(e.value)
            if isinstance(e, ast.Expression):
                if len(e.operands)==1: return "(%s%s)" % (e.operator, s(e.operands[0]))
                return "(" + (" %s " % e.operator).join(s(o) for o in e.operands) + ")"
            return repr(e)
        return sorted(c.symbols), [s(e.left)+" = "+s(e.right) for e in c.equations]
    except Exception as e:
        import traceback; traceback.print_exc()
        return "EXC %s: %s" % (type(e).__name__, str(e)[:150])
base = """
connector P Real v; flow Real i; end P;
model C P a; P b; equation a.v = b.v; a.i + b.i = 0; end C;
"""
print(eqs(base + "model T C c1; C c2; C c3; equation connect(c1.b, c2.a); connect(c2.b, c3.a); connect(c3.b, c1.a); end T;", "T"))
print(eqs(base + "model T C c1; C c2; C c3; C c4; equation connect(c1.a, c2.a); connect(c3.a, c4.a); connect(c2.a, c3.a); end T;", "T"))
print(eqs(base + "model T P o; C c1; C c2; equation connect(o, c1.a); connect(o, c2.a); connect(c1.a, c2.a); end T;", "T"))
print(eqs(base + "model T C c1; C c2; equation connect(c1.a, c2.a); connect(c2.a, c1.a); connect(c1.a, c2.a);  end T;", "T"))
