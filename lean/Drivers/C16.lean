import Drivers.Proto
import PymocaVerif.Model.AliasMerge
/-! Driver for C16: folds the merge step of alias elimination over the aliases of one canonical
    variable (in the given iteration order) on extended rationals. -/
open Lean Drivers PymocaVerif PymocaVerif.AliasMerge

def parseExt (j : Json) : Except String ExtRat :=
  match j with
  | .str "inf" => pure .pinf
  | .str "-inf" => pure .ninf
  | .arr a => do
    let n ← (a[0]?.getD Json.null).getInt?
    let d ← (a[1]?.getD Json.null).getNat?
    if d == 0 then throw "zero denominator" else pure (.fin (mkRat n d))
  | _ => throw s!"bad number {j.compress}"

def showExt : ExtRat → Json
  | .pinf => Json.str "inf"
  | .ninf => Json.str "-inf"
  | .fin q => Json.arr #[Json.num (JsonNumber.fromInt q.num), Json.num (JsonNumber.fromNat q.den)]

def parsePType (s : String) : Except String PType :=
  match s with
  | "float" => pure .float
  | "int" => pure .int
  | "bool" => pure .bool
  | _ => throw s!"bad python type {s}"

def showPType : PType → String
  | .float => "float" | .int => "int" | .bool => "bool"

def parseAttrs (j : Json) : Except String (Attrs ExtRat) := do
  let mn ← parseExt (← getObj j "min")
  let mx ← parseExt (← getObj j "max")
  let nom ← parseExt (← getObj j "nominal")
  let fx ← getBool j "fixed"
  let st ← match (← getObj j "start") with
    | Json.null => pure none
    | v => (parseExt v).map some
  let pt ← parsePType (← getStr j "ptype")
  pure { min := mn, max := mx, nominal := nom, fixed := fx, start := st, ptype := pt }

def showAttrs (a : Attrs ExtRat) : Json :=
  Json.mkObj [("min", showExt a.min), ("max", showExt a.max), ("nominal", showExt a.nominal),
    ("fixed", Json.bool a.fixed), ("start", match a.start with | none => Json.null | some v => showExt v),
    ("ptype", Json.str (showPType a.ptype))]

def parseEntry (j : Json) : Except String (Entry ExtRat) := do
  let neg ← getBool j "neg"
  let om ← getBool j "oldMulti"
  let oc ← getBool j "inCanon"
  let a ← parseAttrs (← getObj j "attrs")
  pure { neg := neg, oldMulti := om, inCanon := oc, attrs := a }

def handle (req : Json) : Except String Json := do
  let op ← getStr req "op"
  match op with
  | "merge" => do
    let c ← parseAttrs (← getObj req "canon")
    let es ← (← getArr req "aliases").toList.mapM parseEntry
    let optExt : Option ExtRat → Json := fun o => match o with | none => Json.null | some v => showExt v
    pure (Json.mkObj [("ok", true), ("merged", showAttrs (merge c es)),
      ("starts", Json.arr ((startChoices c es).map optExt).toArray),
      ("ptypes", Json.arr ((ptypeChoices c es).map fun t => Json.str (showPType t)).toArray),
      ("skipped", Json.arr (es.map fun e => Json.bool e.skipped).toArray)])
  | o => throw s!"unknown-op {o}"

def main : IO Unit := serve handle
