import Drivers.Proto
import PymocaVerif.Model.ParseCache
/-! Driver for C01: replays a cache history on the `ParseCache` model and reports, after every
    operation, the outcome and an abstract snapshot of the state (same shape as the harness reads
    from the real SQLite file). -/
open Lean Drivers PymocaVerif.ParseCache

def excOfName : String → Except String Exc
  | "unpickling" => pure .unpickling | "eof" => pure .eof | "attribute" => pure .attribute
  | "module" => pure .moduleNotFound | "type" => pure .type_ | "value" => pure .value
  | "index" => pure .index | "key" => pure .key
  | s => throw s!"bad-exc {s}"

def excName : Exc → String
  | .unpickling => "unpickling" | .eof => "eof" | .attribute => "attribute" | .moduleNotFound => "module"
  | .type_ => "type" | .value => "value" | .index => "index" | .key => "key"

def at_ (a : Array Json) (i : Nat) : Json := a[i]?.getD Json.null

def parseOp (j : Json) : Except String Op := do
  let a ← j.getArr?
  let kind ← (at_ a 0).getStr?
  match kind with
  | "parse" => pure (.parse (← (at_ a 1).getNat?) (← (at_ a 2).getInt?) (← (at_ a 3).getBool?) (← (at_ a 4).getBool?))
  | "reload" => pure .reload
  | "setver" => pure (.setVersion (← (at_ a 1).getNat?) (← (at_ a 2).getBool?))
  | "tick" => pure (.tick (← (at_ a 1).getNat?))
  | "setinc" => pure (.setInc (← (at_ a 1).getNat?))
  | "centry" => do
    let x ← (at_ a 1).getNat?
    let v ← (at_ a 2).getNat?
    match ← (at_ a 3).getStr? with
    | "none" => pure (.corruptEntry x v (.good none))
    | "bad" => pure (.corruptEntry x v (.bad (← excOfName (← (at_ a 4).getStr?))))
    | k => throw s!"bad-blob {k}"
  | "clayout" => do
    let t ← match ← (at_ a 1).getStr? with
      | "models" => pure Tbl.models | "meta" => pure Tbl.metadata | k => throw s!"bad-table {k}"
    let how ← match ← (at_ a 2).getStr? with
      | "drop" => pure LayoutDamage.drop | "alien" => pure .alien | "nopk" => pure .noPk | "extracol" => pure .extraCol
      | "delcreated" => pure .delCreated | "delprune" => pure .delPrune | k => throw s!"bad-damage {k}"
    pure (.corruptLayout t how)
  | "cfile" => do
    let how ← match ← (at_ a 1).getStr? with
      | "delete" => pure FileDamage.delete | "empty" => pure .empty | "text" => pure .text
      | "header" => pure .header | "freelist" => pure .freelist | k => throw s!"bad-damage {k}"
    pure (.corruptFile how)
  | "foreign" => pure (.foreignWrite (← (at_ a 1).getNat?) (← (at_ a 2).getNat?) (← (at_ a 3).getInt?))
  | k => throw s!"bad-op {k}"

def optNat : Option Nat → Json
  | none => Json.null
  | some n => Json.num (n : Int)

def optInt : Option Int → Json
  | none => Json.null
  | some n => Json.num n

def blobJson : Blob → Json
  | .good t => Json.arr #[Json.str "good", optNat t]
  | .bad e => Json.arr #[Json.str "bad", Json.str (excName e)]

def snapJson : DbFile → Json
  | .garbage => Json.mkObj [("file", "garbage")]
  | .db m mt =>
    let mj := match m with
      | none => Json.null
      | some mm =>
        let lay := match mm.layout with | .ok => "ok" | .noPk => "nopk" | .extraCol => "extracol" | .alien => "alien"
        Json.mkObj [("layout", lay),
          ("rows", Json.arr ((if mm.layout = .alien then [] else mm.rows).map fun r =>
            Json.arr #[Json.num (r.key : Int), Json.num (r.ver : Int), blobJson r.blob, Json.num r.lastHit]).toArray)]
    let tj := match mt with
      | none => Json.null
      | some .alien => Json.str "alien"
      | some (.ok c p) => Json.mkObj [("created", optInt c), ("prune", optInt p)]
    Json.mkObj [("file", "db"), ("models", mj), ("meta", tj)]

def resJson : Option Res → Json
  | none => Json.null
  | some (.value t) => Json.mkObj [("value", optNat t)]
  | some (.raised .db) => Json.mkObj [("raised", "db")]
  | some (.raised (.unpickle e)) => Json.mkObj [("raised", Json.str ("unpickle:" ++ excName e))]

/-- the table `[[version, text, tree|null], …]` as a function (absent = `none`) -/
def pfOf (tbl : List (Nat × Nat × Option Nat)) (v x : Nat) : Option Nat :=
  match tbl.find? (fun e => e.1 == v && e.2.1 == x) with
  | some e => e.2.2
  | none => none

def handle (req : Json) : Except String Json := do
  let op ← getStr req "op"
  match op with
  | "cache.run" => do
    let caught ← (← getArr req "caught").toList.mapM (·.getStr?)
    let tbl ← (← getArr req "pf").toList.mapM fun e => do
      let a ← e.getArr?
      let t : Option Nat ← (match at_ a 2 with
        | Json.null => pure none
        | j => do pure (some (← j.getNat?)))
      pure ((← (at_ a 0).getNat?), (← (at_ a 1).getNat?), t)
    let t0 ← getInt req "t0"
    let ops ← (← getArr req "ops").toList.mapM parseOp
    let recover := (req.getObjValAs? Bool "recover").toOption.getD false
    let tolerant := (req.getObjValAs? Bool "writeTolerant").toOption.getD false
    let cfg : Cfg := { caught := caught, recover := recover, writeTolerant := tolerant }
    let outs := run cfg (pfOf tbl) (St.initial t0) ops
    let js := outs.map fun (s, r) =>
      Json.mkObj [("res", resJson r), ("snap", snapJson s.file), ("init", s.init), ("now", Json.num s.now)]
    pure (Json.mkObj [("ok", true), ("steps", Json.arr js.toArray)])
  | o => throw s!"unknown-op {o}"

def main : IO Unit := serve handle
