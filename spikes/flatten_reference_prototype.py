"""Prototype: core-Modelica generator + reference flattener, compared with pymoca (design-phase probe)."""
import random, json, sys, traceback
from collections import OrderedDict
from pymoca import parser, tree, ast

ATTRS = ["start", "min", "max", "nominal"]
# ---------- abstract syntax -------------------------------------------------
# Class: dict(name, kind, extends=[(ref, mods)], classes=[Class], comps=[Comp], eqs=[(lhs_ref, rhs_expr)])
# Comp: dict(name, type(ref str), prefixes=[...], dim=None|int, mods=[Mod])
# Mod: dict(path=[names], attr=None|str, value=expr)    path=[] means the declared component itself
#   e.g. Real x(start=1)=2  -> [Mod([], 'start', 1), Mod([], None, 2)]
#        Sub a(p=3, x(start=2)) -> [Mod(['p'], None, 3), Mod(['x'],'start',2)]
# expr: ('num', k) | ('ref', [names]) | ('bin', op, e1, e2)

def rnd_expr(rng, refs, depth=0):
    if depth > 1 or rng.random() < 0.4 or not refs:
        if refs and rng.random() < 0.6: return ('ref', rng.choice(refs))
        return ('num', rng.randint(1, 9))
    return ('bin', rng.choice(['+', '-', '*']), rnd_expr(rng, refs, depth+1), rnd_expr(rng, refs, depth+1))

def show_expr(e):
    if e[0] == 'num': return str(e[1])
    if e[0] == 'ref': return ".".join(e[1])
    return "(%s %s %s)" % (show_expr(e[2]), e[1], show_expr(e[3]))

def show_mods(mods):
    # dotted spelling, grouped per (path) with attribute sub-modification
    parts = []; val = None
    for m in mods:
        if m['path'] == [] and m['attr'] is None: val = m['value']; continue
        p = ".".join(m['path'])
        if m['attr'] is None: parts.append("%s = %s" % (p, show_expr(m['value'])))
        elif m['path'] == []: parts.append("%s = %s" % (m['attr'], show_expr(m['value'])))
        else: parts.append("%s(%s = %s)" % (p, m['attr'], show_expr(m['value'])))
    s = "(" + ", ".join(parts) + ")" if parts else ""
    if val is not None: s += " = " + show_expr(val)
    return s

def show_class(c, ind=""):
    if c['kind'] == 'type':
        return "%stype %s = %s%s;\n" % (ind, c['name'], c['base'], show_mods(c['mods']))
    s = "%s%s %s\n" % (ind, c['kind'], c['name'])
    for sub in c['classes']: s += show_class(sub, ind + "  ")
    for (r, mods) in c['extends']: s += "%s  extends %s%s;\n" % (ind, r, show_mods(mods))
    for k in c['comps']:
        pre = " ".join(k['prefixes']) + (" " if k['prefixes'] else "")
        dim = "[%d]" % k['dim'] if k['dim'] else ""
        s += "%s  %s%s %s%s%s;\n" % (ind, pre, k['type'], k['name'], dim, show_mods(k['mods']))
    if c['eqs']:
        s += ind + "equation\n"
        for (l, r) in c['eqs']: s += "%s  %s = %s;\n" % (ind, ".".join(l), show_expr(r))
    s += "%send %s;\n" % (ind, c['name'])
    return s

# ---------- generator --------------------------------------------------------
def leaf_paths(lib_index, cname, seen=()):
    """all (path, elem_type, is_param) of elementary leaves of class cname (for choosing refs / mod targets)"""
    c = lib_index[cname]; out = []
    if c['kind'] == 'type': return [([], c['base'], False)]
    for (r, _) in c['extends']: out += leaf_paths(lib_index, r)
    for k in c['comps']:
        if k['type'] in ('Real', 'Integer', 'Boolean'):
            out.append(([k['name']], k['type'], 'parameter' in k['prefixes'] or 'constant' in k['prefixes']))
        else:
            out += [([k['name']] + p, t, ip) for (p, t, ip) in leaf_paths(lib_index, k['type'])]
    return out

def gen_lib(rng, n_classes=5):
    lib = []; index = {}
    names = ["C%d" % i for i in range(n_classes)]
    if rng.random() < 0.5:
        t = dict(name="T0", kind='type', base='Real', mods=[dict(path=[], attr=rng.choice(ATTRS), value=('num', rng.randint(1, 9)))], classes=[], extends=[], comps=[], eqs=[])
        lib.append(t); index["T0"] = t
    for i, n in enumerate(names):
        c = dict(name=n, kind='model', extends=[], classes=[], comps=[], eqs=[])
        avail = [x for x in names[:i]]
        # extends
        used = set()
        inh_names = set()
        for _ in range(rng.choice([0, 0, 1, 1, 2])):
            if not avail: break
            b = rng.choice(avail)
            if b in used: continue
            bn = set(p[0] for (p, _, _) in leaf_paths(index, b))
            if bn & inh_names: continue
            inh_names |= bn
            used.add(b)
            mods = []
            lp = leaf_paths(index, b)
            for _ in range(rng.choice([0, 1, 2])):
                if not lp: break
                p, t, ip = rng.choice(lp)
                if t == 'Boolean': continue
                attr = rng.choice([None] + ATTRS) if ip else rng.choice(ATTRS)
                mods.append(dict(path=p, attr=attr, value=('num', rng.randint(10, 99))))
            c['extends'].append((b, mods))
        inherited = set()
        for (b, _) in c['extends']:
            for (p, _, _) in leaf_paths(index, b): inherited.add(p[0])
        # components
        ncomp = rng.randint(1, 4); k = 0
        while k < ncomp:
            cn = "%s%d" % (rng.choice("abxyz"), rng.randint(0, 9))
            if cn in inherited or any(q['name'] == cn for q in c['comps']): continue
            k += 1
            if avail and rng.random() < 0.4:
                ty = rng.choice([a for a in avail if a not in used] or avail)
                mods = []
                lp = leaf_paths(index, ty)
                for _ in range(rng.choice([0, 1, 2])):
                    if not lp: break
                    p, t, ip = rng.choice(lp)
                    if t == 'Boolean': continue
                    attr = rng.choice([None] + ATTRS) if ip else rng.choice(ATTRS)
                    own_params = [[q['name']] for q in c['comps'] if 'parameter' in q['prefixes'] and q['type'] == 'Real' and not q['dim']]
                    val = ('ref', rng.choice(own_params)) if own_params and rng.random() < 0.4 else ('num', rng.randint(100, 999))
                    mods.append(dict(path=p, attr=attr, value=val))
                c['comps'].append(dict(name=cn, type=ty, prefixes=[], dim=None, mods=mods))
            else:
                ty = rng.choice(['Real', 'Real', 'Real', 'Integer', 'Boolean'] + (['T0'] if 'T0' in index else []))
                pre = rng.choice([[], [], [], ['parameter'], ['constant'], ['input'], ['output'], ['discrete']])
                if ty == 'T0': pre = rng.choice([[], ['input'], ['output']])
                dim = rng.choice([None, None, None, 2, 3]) if ty == 'Real' else None
                mods = []
                if ty != 'Boolean' and not dim:
                    if pre in (['parameter'], ['constant']): mods.append(dict(path=[], attr=None, value=('num', rng.randint(1, 9))))
                    if rng.random() < 0.4: mods.append(dict(path=[], attr=rng.choice(ATTRS), value=('num', rng.randint(1, 9))))
                c['comps'].append(dict(name=cn, type=ty, prefixes=pre, dim=dim, mods=mods))
        index[n] = c
        # equations over scalar Real leaves
        lp = [p for (p, t, ip) in leaf_paths(index, n) if t in ('Real', 'T0')]
        def is_scalar(p):
            # crude: no array comps along path
            cc = c
            return True
        scal = []
        for (p, t, ip) in leaf_paths(index, n):
            if t not in ('Real',): continue
            scal.append(p)
        # drop array leaves
        def has_dim(cn_, p):
            cc = index[cn_]
            for (b, _) in cc['extends']:
                if any(pp == p for (pp, _, _) in leaf_paths(index, b)): return has_dim(b, p)
            for q in cc['comps']:
                if q['name'] == p[0]:
                    if q['dim']: return True
                    if len(p) == 1: return False
                    return has_dim(q['type'], p[1:])
            return False
        scal = [p for p in scal if not has_dim(n, p)]
        for _ in range(rng.randint(0, 3)):
            if not scal: break
            c['eqs'].append((rng.choice(scal), rnd_expr(rng, scal)))
        lib.append(c)
    return lib, index

# ---------- reference flattener ---------------------------------------------
ELEM = ('Real', 'Integer', 'Boolean')
def ref_flatten(index, cname):
    """returns (OrderedDict name -> dict(type, prefixes, dims, attrs{...}, value), [equations as strings])"""
    syms = OrderedDict(); eqs = []
    def rename(e, prefix, scope_leaves):
        if e[0] == 'num': return e
        if e[0] == 'ref': return ('ref', prefix + e[1])
        return ('bin', e[1], rename(e[2], prefix, scope_leaves), rename(e[3], prefix, scope_leaves))
    def inst(cn, prefix, mods, dims, depth):
        """mods: list of (path, attr, value_expr(already renamed)) ordered inner -> outer (later wins)"""
        c = index[cn]
        # collect members: extends first then own
        def members(cn_, env):
            cc = index[cn_]
            out_c = []; out_e = []
            for (b, bm) in cc['extends']:
                bmods = [(m['path'], m['attr'], rename(m['value'], prefix, None)) for m in bm]
                mc, me = members(b, None)
                # mods of extends clause apply to inherited comps: attach
                out_c += [(k, km + [x for x in bmods]) for (k, km) in mc]
                out_e += me
            out_c += [(k, []) for k in cc['comps']]
            out_e += [(l, r) for (l, r) in cc['eqs']]
            return out_c, out_e
        comps, ceqs = members(cn, None)
        for (k, extmods) in comps:
            name = k['name']
            # modifications for this component: declaration (innermost), extends-clause mods, then outer mods
            decl = [(m['path'], m['attr'], rename(m['value'], prefix, None)) for m in k['mods']]
            fromext = [(p[1:], a, v) for (p, a, v) in extmods if p and p[0] == name]
            outer = [(p[1:], a, v) for (p, a, v) in mods if p and p[0] == name]
            allm = decl + fromext + outer
            kdims = dims + ([k['dim']] if k['dim'] else [])
            if k['type'] in ELEM or index[k['type']]['kind'] == 'type':
                ty = k['type']; attrs = {}; value = None
                if ty not in ELEM:
                    t = index[ty]
                    for m in t['mods']:
                        if m['attr'] is None: value = m['value']
                        else: attrs[m['attr']] = m['value']
                    ty = t['base']
                for (p, a, v) in allm:
                    if p != []: raise Exception("mod into elementary %s %s" % (name, p))
                    if a is None: value = v
                    else: attrs[a] = v
                pre = [x for x in k['prefixes'] if depth == 0 or x not in ('input', 'output')]
                syms[".".join(prefix + [name])] = dict(type=ty, prefixes=pre, dims=kdims, attrs=attrs, value=value)
            else:
                inst(k['type'], prefix + [name], allm, kdims, depth + 1)
        for (l, r) in ceqs:
            eqs.append((rename(('ref', l), prefix, None), rename(r, prefix, None)))
    inst(cname, [], [], [], 0)
    # value equations for non-parameter/constant symbols
    for n, s in syms.items():
        if s['value'] is not None and not ({'parameter', 'constant'} & set(s['prefixes'])):
            eqs.append((('ref', n.split(".")), s['value'])); s['value'] = None
    return syms, eqs

def canon_expr(e):
    if e[0] == 'num': return str(e[1])
    if e[0] == 'ref': return ".".join(e[1])
    return "(%s %s %s)" % (canon_expr(e[2]), e[1], canon_expr(e[3]))

# ---------- pymoca side ------------------------------------------------------
def py_expr(e):
    if isinstance(e, ast.Primary): return str(e.value)
    if isinstance(e, ast.ComponentRef):
        return e.name + ("." + py_expr(e.child[0]) if e.child else "")
    if isinstance(e, ast.Symbol): return e.name
    if isinstance(e, ast.Expression):
        if len(e.operands) == 2: return "(%s %s %s)" % (py_expr(e.operands[0]), e.operator, py_expr(e.operands[1]))
        return "%s(%s)" % (e.operator, ",".join(py_expr(o) for o in e.operands))
    return repr(e)
def py_flatten(txt, cname):
    t = parser.parse(txt, bypass_cache=True)
    f = tree.flatten(t, ast.ComponentRef.from_string(cname))
    c = f.classes[cname]
    syms = OrderedDict()
    for n, s in c.symbols.items():
        dims = [py_expr(d) for dl in s.dimensions for d in dl if not (isinstance(d, ast.Primary) and d.value is None)]
        attrs = {a: py_expr(getattr(s, a)) for a in ATTRS if not (isinstance(getattr(s, a), ast.Primary) and getattr(s, a).value is None)}
        val = None if (isinstance(s.value, ast.Primary) and s.value.value is None) else py_expr(s.value)
        syms[n] = dict(type=str(s.type), prefixes=[p for p in s.prefixes if p != 'state'], dims=dims, attrs=attrs, value=val)
    eqs = [(py_expr(e.left), py_expr(e.right)) for e in c.equations]
    return syms, eqs

def compare(seed):
    rng = random.Random(seed)
    lib, index = gen_lib(rng, rng.randint(2, 5))
    txt = "".join(show_class(c) for c in lib)
    target = lib[-1]['name']
    try:
        rs, re_ = ref_flatten(index, target)
        rsy = OrderedDict((n, dict(type=s['type'], prefixes=s['prefixes'], dims=[str(d) for d in s['dims']], attrs={a: canon_expr(v) for a, v in s['attrs'].items()}, value=None if s['value'] is None else canon_expr(s['value']))) for n, s in rs.items())
        req = [(canon_expr(l), canon_expr(r)) for (l, r) in re_]
        ref = ("ok", rsy, req)
    except Exception as e:
        ref = ("exc", str(e), None)
    try:
        ps, pe = py_flatten(txt, target)
        py = ("ok", ps, pe)
    except Exception as e:
        py = ("exc", "%s: %s" % (type(e).__name__, str(e)[:100]), None)
    if ref[0] != py[0]: return txt, "status", ref[:2] if ref[0]=="exc" else "ref ok", py[:2] if py[0]=="exc" else "py ok"
    if ref[0] == "exc": return None
    if list(ref[1].keys()) != list(py[1].keys()):
        if set(ref[1]) != set(py[1]): return txt, "symset", sorted(set(ref[1]) ^ set(py[1])), ""
        return txt, "symorder", list(ref[1].keys()), list(py[1].keys())
    for n in ref[1]:
        if ref[1][n] != py[1][n]: return txt, "sym " + n, ref[1][n], py[1][n]
    if sorted(ref[2]) != sorted(py[2]): return txt, "eqs", sorted(set(ref[2]) ^ set(py[2])), ""
    if ref[2] != py[2]: return txt, "eqorder", ref[2], py[2]
    return None

if __name__ == "__main__":
    from collections import Counter
    cnt = Counter(); shown = Counter()
    N = int(sys.argv[1])
    for seed in range(N):
        try:
            r = compare(seed)
        except Exception as e:
            traceback.print_exc(); cnt["harness-exc"] += 1; continue
        if r is None: cnt["agree"] += 1
        else:
            kind = r[1].split()[0]
            cnt[kind] += 1
            if shown[kind] < 2:
                shown[kind] += 1
                print("=== seed", seed, r[1]); print(r[0]); print("REF:", r[2]); print("PY :", r[3])
    print(cnt)
