import itertools, json
from pymoca import parser, tree, ast
def flat_json(t, name):
    try:
        f = tree.flatten(t, ast.ComponentRef.from_string(name))
        c = f.classes[name]
        return json.dumps({"syms": {k: [str(v.type), v.prefixes, ast.Node.to_json(v.value), ast.Node.to_json(v.start)] for k,v in c.symbols.items()}, "eqs": ast.Node.to_json(c.equations)}, sort_keys=True, default=str)
    except Exception as e:
        return "EXC %s: %s" % (type(e).__name__, str(e)[:100])
files = {
 "pkg": "package P constant Real k = 2; model Base Real b; equation b = k; end Base; end P;",
 "m1": "within P; model M1 extends Base; Real x; equation x = k*b; end M1;",
 "sub": "within P; package Q model M2 P.M1 m; Real y; equation y = m.x; end M2; end Q;",
}
print({p: 1 for p in []})
for model in ["P.M1", "P.Q.M2", "P.Base"]:
    results = {}
    for perm in itertools.permutations(files):
        t = None
        for f in perm:
            ft = parser.parse(files[f], bypass_cache=True)
            if t is None: t = ft
            else: t.extend(ft)
        results[perm] = flat_json(t, model)
    vals = set(results.values())
    print(model, len(vals), "distinct")
    if len(vals) > 1:
        for p, v in results.items(): print("   ", p, v[:150])
