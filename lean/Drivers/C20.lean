/-! Driver for C20 (stub: not built yet). -/
def main : IO Unit := pure ()
