"""C01 — the parse cache is transparent over any cache history.

Real code: `pymoca.parser.parse` on a real SQLite file in a scratch folder; `pymoca.__version__` is set
explicitly, the name `time` inside `pymoca.parser` is a clock shim, "module reload" is
`del parser.parse.initialized_dbs`; corruptions are performed on the real file through a separate
connection / by overwriting bytes.

Direct oracle (independent of the Lean model): every `parse` of a history returns a tree whose canonical
form (own recursive walk, no pickle, no `to_json`) equals that of `parser._parse(txt)`, `None` exactly when
the fresh parse is `None`, raises nothing; a bypassing / dirty-version parse leaves the file untouched; every
row the call wrote unpickles to the fresh tree of its own text and version; no row unpickles to `None`
except blobs the harness planted itself.

Correspondence: the same history is replayed on `PymocaVerif.Model.ParseCache` (driver `drv_c01`); after
every operation the outcome class and an abstract snapshot of the file (read through a separate read-only
connection: integrity / layout per table / rows in rowid order as (text, version, blob kind by trial
unpickle, last_hit) / metadata values), `initialized_dbs` membership and the clock must agree.
Translator: `Generated/SqlProgram.lean` (shared with C02) carries the exception classes caught around
`pickle.loads`; the obligation in Props/C01.lean is that they cover every class a damaged blob raises.
"""
import json
import os
import pickle
import shutil
import sqlite3
import tempfile
from pathlib import Path

from harness.common import HarnessError
from harness.gen import a01

DRIVERS = ["drv_c01"]
RULE = ("a case is one history (list of cache operations over a pool of generated Modelica texts, 4 of them "
        "syntactically broken, 3 real + 2 foreign versions) run on the real parser.parse and on the model; "
        "non-trivial = the history contains a cache hit (a parse served from a stored row) and at least one "
        "fault (damaged entry / layout / file, foreign row, version change or prune); distinct = distinct history")
TRUSTED = ["SHA-256 is injective on the texts of the pool (checked: pool hashes distinct)",
           "pickle round trip of a tree is structure preserving (exercised: every cache hit is compared with a fresh parse)",
           "the abstract snapshot reader of this harness (sqlite3 read-only connection, trial unpickle)"]
ASSUMPTIONS = ["'an entry that no longer unpickles' = a data blob on which pickle.loads raises an Exception subclass or returns None; "
               "blobs that unpickle to a different well-formed object, and pickles with side effects, are outside the statement",
               "corruption of an entry concerns its data blob (last_hit stays an integer)",
               "a table with the expected column names but other declared types/flags (e.g. last_hit TEXT) or a file that only "
               "fails integrity_check is installed only while the process does not hold the database initialised (a reload "
               "follows otherwise): the layout is validated once per process, and such damage after initialisation without "
               "reload is outside the histories the property lists",
               "the clock does not go backwards; expiration days in {0,1,7,30,365}",
               "texts on which the uncached parser itself raises are not part of the pool"]

T0 = 1_700_000_000_000_000  # microseconds
DAY = 86_400_000_000
REAL_VERSIONS = ["1.0.0", "1.0.1", "2.0.0+5.gabc"]
FOREIGN_VERSIONS = {100: "0.9.0-other", 101: "3.1.4-other"}
DB = "model_txt_cache.db"

MODELS_COLS = [(0, "txt_hash", "TEXT", 0, None, 1), (1, "pymoca_version", "TEXT", 0, None, 2),
               (2, "data", "BLOB", 0, None, 0), (3, "last_hit", "TIMESTAMP INTEGER", 0, None, 0)]
META_COLS = [(0, "key", "TEXT", 0, None, 1), (1, "value", "TEXT", 0, None, 0)]

# damaged blobs: name -> (value stored in the data column, model exception class)
BLOBS = {
    "empty": (b"", "eof"),
    "garbage": (b"not a pickle", "unpickling"),
    "badstack": (b".", "unpickling"),
    "missingattr": (b"cpymoca.ast\nNoSuchClass\n.", "attribute"),
    "missingmod": (b"cno_such_mod_a01\nX\n.", "module"),
    "null": (None, "type"),
    "text": ("abc", "type"),
    "proto99": (b"\x80\x63.", "value"),
    "badint": (b"I12x\n.", "value"),
    "trunc": ("TRUNC", "unpickling"),   # a prefix of the row's own pickle (computed at the time)
    "none": (pickle.dumps(None), None),  # unpickles to None
}
EXC_OF = {"EOFError": "eof", "UnpicklingError": "unpickling", "AttributeError": "attribute",
          "ModuleNotFoundError": "module", "ImportError": "module", "TypeError": "type", "ValueError": "value",
          "IndexError": "index", "KeyError": "key"}


TYPED_LAYOUTS = {
    # same column names and primary key, other declared types / flags / order: only a comparison of the *full*
    # PRAGMA table_info rows rejects them
    "lasthit_text": "txt_hash TEXT, pymoca_version TEXT, data BLOB, last_hit TEXT, PRIMARY KEY (txt_hash, pymoca_version)",
    "lasthit_varchar": "txt_hash TEXT, pymoca_version TEXT, data BLOB, last_hit VARCHAR(20), PRIMARY KEY (txt_hash, pymoca_version)",
    "data_text": "txt_hash TEXT, pymoca_version TEXT, data TEXT, last_hit TIMESTAMP INTEGER, PRIMARY KEY (txt_hash, pymoca_version)",
    "hash_blob": "txt_hash BLOB, pymoca_version TEXT, data BLOB, last_hit TIMESTAMP INTEGER, PRIMARY KEY (txt_hash, pymoca_version)",
    "notnull_default": "txt_hash TEXT, pymoca_version TEXT, data BLOB NOT NULL DEFAULT x'00', last_hit TIMESTAMP INTEGER DEFAULT 0, "
                       "PRIMARY KEY (txt_hash, pymoca_version)",
    "reordered": "pymoca_version TEXT, txt_hash TEXT, last_hit TIMESTAMP INTEGER, data BLOB, PRIMARY KEY (txt_hash, pymoca_version)",
    "meta_value_int": None,     # metadata(key TEXT, value INTEGER, PRIMARY KEY (key))
}


def ver_str(v, dirty=False):
    s = REAL_VERSIONS[v] if v < 100 else FOREIGN_VERSIONS[v]
    return s + ".dirty" if dirty else s


class Pool:
    """Texts of one run: valid ones first, then broken ones; fresh-parse reference per text."""

    def __init__(self, rng, nvalid, nbroken, extra=()):
        """`nvalid` valid texts: about half of them base texts, the rest near-identical variants of some of the
        bases (line terminators / white space inside string literals, letter case, final newline): `families`
        lists the indices that belong together."""
        from pymoca import parser
        self.texts, self.kinds, self.families = [], [], []

        def ok(t):
            # valid = the generated ANTLR parser counts no syntax error (independent of pymoca's listener / _parse)
            try:
                return t not in self.texts and a01.syntax_errors(t) == 0 and parser._parse(t) is not None
            except Exception:
                return False

        nbase = max(2, nvalid // 2)
        i = 0
        while len(self.texts) < nbase:
            t = a01.gen_text(rng, i)
            i += 1
            if ok(t):
                self.texts.append(t)
                self.kinds.append("valid")
        bases = list(range(nbase))
        rng.shuffle(bases)
        # prefer bases that have a line break inside a string literal
        bases.sort(key=lambda b: 0 if a01.variant(rng, self.texts[b], "cr_in_string") else 1)
        bi = 0
        while len(self.texts) < nvalid and bi < len(bases):
            b = bases[bi]
            bi += 1
            fam = [b]
            hows = list(a01.VARIANTS)
            rng.shuffle(hows)
            for how in hows:
                if len(fam) >= 3 or len(self.texts) >= nvalid:
                    break
                v = a01.variant(rng, self.texts[b], how)
                if v is not None and v != self.texts[b] and ok(v):
                    fam.append(len(self.texts))
                    self.texts.append(v)
                    self.kinds.append("variant:" + how)
            if len(fam) > 1:
                self.families.append(fam)
        while len(self.texts) < nvalid:
            t = a01.gen_text(rng, i)
            i += 1
            if ok(t):
                self.texts.append(t)
                self.kinds.append("valid")
        # a family of very long texts (> 64 Ki or > 128 Ki characters) that differ only near the end: a valid one,
        # a valid one with another tree, and (below, among the broken ones) one with a syntax error near the end
        n = rng.choice([65600, 131200, 196700])
        kind = rng.choice(["comment", "linecomments", "string"])
        pad = "/* " + "x" * n + " */\n" if kind == "comment" else ("// " + "y" * 76 + "\n") * (n // 80 + 1) if kind == "linecomments" else ""
        tail = 'model Long%d\n  Real x "%s";\n  parameter Real p = %s;\nequation\n  x = p;\nend Long%d;\n'
        self.long_texts = [pad + tail % (n, "s" * n if kind == "string" else "d", v, n) for v in ("1", "2")]
        self.long_broken = pad + (tail % (n, "s" * n if kind == "string" else "d", "1", n)).replace("x = p;", "x = = p;")
        fam = []
        for t in self.long_texts:
            if ok(t):
                fam.append(len(self.texts))
                self.texts.append(t)
                self.kinds.append("long:%s:%d" % (kind, n))
        for t in extra:
            self.texts.append(t)
            self.kinds.append("file")
        self.nvalid = len(self.texts)
        if a01.syntax_errors(self.long_broken) > 0:
            fam.append(len(self.texts))
            self.texts.append(self.long_broken)
            self.kinds.append("broken:long-tail")
            nbroken += 1
        if len(fam) > 1:
            self.families.append(fam)
        tries = 0
        while len(self.texts) < self.nvalid + nbroken and tries < 50:
            tries += 1
            how = a01.BREAKS[(len(self.texts) + tries) % len(a01.BREAKS)] if tries % 2 else rng.choice(a01.BREAKS)
            b = a01.break_text(rng, self.texts[rng.randrange(nbase)], how)
            try:
                # broken BY CONSTRUCTION and confirmed by the generated parser's own error count — not by asking the
                # code under test whether it returns None
                if b in self.texts or a01.syntax_errors(b) == 0:
                    continue
                parser._parse(b)      # (must not raise; what it returns is the oracle's business)
            except Exception:
                continue
            self.texts.append(b)
            self.kinds.append("broken:" + how)
        self.finish()

    @classmethod
    def from_texts(cls, texts):
        self = cls.__new__(cls)
        self.texts = list(texts)
        self.kinds = ["replay"] * len(texts)
        self.families = []
        self.nvalid = len(texts)
        self.finish()
        return self

    def finish(self):
        from pymoca import parser
        self.hash = [a01.sha(t) for t in self.texts]
        if len(set(self.hash)) != len(self.hash):
            raise HarnessError("text pool has duplicate hashes")
        self.by_hash = {h: i for i, h in enumerate(self.hash)}
        # reference: None exactly for the texts with a syntax error (generated parser's count), else the canonical
        # form of the uncached parse
        self.nerr = [a01.syntax_errors(t) for t in self.texts]
        self.fresh_tree = [None if n else parser._parse(t) for n, t in zip(self.nerr, self.texts)]
        self.fresh_key = [a01.canon_key(t) for t in self.fresh_tree]
        self.tree_id = {}
        for k in self.fresh_key:
            if k is not None and k not in self.tree_id:
                self.tree_id[k] = len(self.tree_id)
        self.valid_ix = [i for i, k in enumerate(self.fresh_key) if k is not None]

    def tid(self, key):
        if key is None:
            return None
        return self.tree_id.get(key, 999999)

    def pf(self, v, x):
        """The uncached parser as seen by the model: real versions parse for real; a foreign version `parses'
        text x into the tree of the next valid text (a consistent cache of *another* pymoca)."""
        if v < 100:
            return self.tid(self.fresh_key[x])
        if self.fresh_key[x] is None or len(self.valid_ix) < 2:
            return None
        j = self.valid_ix[(self.valid_ix.index(x) + (v - 99)) % len(self.valid_ix)]
        return self.tid(self.fresh_key[j])

    def foreign_tree(self, v, x):
        if self.fresh_key[x] is None or len(self.valid_ix) < 2:
            return None
        j = self.valid_ix[(self.valid_ix.index(x) + (v - 99)) % len(self.valid_ix)]
        return self.fresh_tree[j]

    def pf_table(self):
        out = []
        for v in list(range(len(REAL_VERSIONS))) + sorted(FOREIGN_VERSIONS):
            for x in range(len(self.texts)):
                out.append([v, x, self.pf(v, x)])
        return out


# ---- the real side -------------------------------------------------------------------------
class Real:
    def __init__(self, scratch, pool, spelling="canonical"):
        from pymoca import parser
        import pymoca
        self.parser, self.pymoca = parser, pymoca
        self.pool = pool
        self.dir = Path(tempfile.mkdtemp(prefix="c01-", dir=scratch)).resolve()
        self.path = self.dir / DB
        # how the caller spells the cache folder: the canonical absolute path, a relative path, a path through a
        # symbolic link, or one with `..` — all the same folder
        self.link = None
        if spelling == "relative":
            self.folder_arg = Path(os.path.relpath(self.dir))
        elif spelling == "symlink":
            self.link = self.dir.parent / (self.dir.name + "-link")
            os.symlink(self.dir, self.link)
            self.folder_arg = self.link
        elif spelling == "dotdot":
            self.folder_arg = self.dir / ".." / self.dir.name
        elif spelling == "canonical":
            self.folder_arg = self.dir
        else:
            raise HarnessError("unknown folder spelling %r" % spelling)
        self.clock = a01.Clock(T0 * 1000)
        self.saved = (parser.time, pymoca.__version__)
        parser.time = self.clock
        self.ver, self.dirty = 0, False
        pymoca.__version__ = ver_str(0)
        self.reload()
        self.planted_none = set()

    def close(self):
        self.parser.time, self.pymoca.__version__ = self.saved
        self.reload()
        if self.link is not None and os.path.islink(self.link):
            os.unlink(self.link)
        shutil.rmtree(self.dir, ignore_errors=True)

    def reload(self):
        if hasattr(self.parser.parse, "initialized_dbs"):
            del self.parser.parse.initialized_dbs

    def initialized(self):
        # (whatever spelling or key the implementation registers: some registered path is this database)
        for q in getattr(self.parser.parse, "initialized_dbs", ()):
            try:
                if Path(q).resolve() == self.path:
                    return True
            except OSError:
                pass
        return False

    def now_us(self):
        return self.clock.now // 1000

    # -- snapshot through a separate read-only connection
    def snapshot(self, raw=False):
        p = self.path
        if not p.exists() or p.stat().st_size == 0:
            return {"file": "db", "models": None, "meta": None}
        try:
            conn = sqlite3.connect("file:%s?mode=ro" % p, uri=True)
        except sqlite3.DatabaseError:
            return {"file": "garbage"}
        try:
            try:
                if conn.execute("PRAGMA integrity_check").fetchall() != [("ok",)]:
                    return {"file": "garbage"}
            except sqlite3.DatabaseError:
                return {"file": "garbage"}
            out = {"file": "db", "models": None, "meta": None}
            cols = conn.execute("PRAGMA table_info('models')").fetchall()
            if cols:
                if cols == MODELS_COLS:
                    lay = "ok"
                elif [c[:5] for c in cols] == [c[:5] for c in MODELS_COLS]:
                    lay = "nopk"
                elif len(cols) == 5 and [c[:5] for c in cols[:4]] == [c[:5] for c in MODELS_COLS] \
                        and cols[4][1:4] == ("extra", "TEXT", 1) and cols[4][4] is None:
                    lay = "extracol"     # lookup / update / delete work, the INSERT of parse() does not
                else:
                    lay = "alien"
                rows = []
                if lay != "alien":
                    for h, v, data, lh in conn.execute("SELECT txt_hash, pymoca_version, data, last_hit FROM models ORDER BY rowid"):
                        rows.append([self.pool.by_hash.get(h, -1), self.ver_ix(v), (data if raw else self.blob_kind(data)), lh])
                out["models"] = {"layout": lay, "rows": rows}
            cols = conn.execute("PRAGMA table_info('metadata')").fetchall()
            if cols:
                if cols == META_COLS:
                    kv = dict(conn.execute("SELECT key, value FROM metadata").fetchall())
                    out["meta"] = {"created": int(kv["created_at"]) if "created_at" in kv else None,
                                   "prune": int(kv["last_prune"]) if "last_prune" in kv else None}
                else:
                    out["meta"] = "alien"
            return out
        finally:
            conn.close()

    def ver_ix(self, s):
        if s in REAL_VERSIONS:
            return REAL_VERSIONS.index(s)
        for k, v in FOREIGN_VERSIONS.items():
            if v == s:
                return k
        return -1

    def blob_kind(self, data):
        try:
            t = pickle.loads(data)
        except Exception as e:
            return ["bad", EXC_OF.get(type(e).__name__, "other:" + type(e).__name__)]
        if t is None:
            return ["good", None]
        from pymoca import ast
        if not isinstance(t, ast.Node):
            return ["good", 999998]
        return ["good", self.pool.tid(a01.canon_key(t))]

    # -- operations
    def sql(self, stmts):
        """Harness-side edit of the real file; a no-op when the file cannot be opened as a database."""
        try:
            conn = sqlite3.connect(self.path)
            try:
                for s in stmts:
                    if isinstance(s, tuple):
                        conn.execute(*s)
                    else:
                        conn.execute(s)
                conn.commit()
            finally:
                conn.close()
            return True
        except sqlite3.DatabaseError:
            return False

    def apply(self, op):
        """Performs a non-parse operation for real."""
        k = op[0]
        if k == "reload":
            self.reload()
        elif k == "setver":
            self.ver, self.dirty = op[1], bool(op[2])
            self.pymoca.__version__ = ver_str(op[1], op[2])
        elif k == "tick":
            self.clock.now += op[1] * 1000
        elif k == "setinc":
            self.clock.inc = op[1] * 1000
        elif k == "centry":
            _, x, v, name = op
            snap = self.snapshot()
            if snap.get("file") != "db" or not snap["models"] or snap["models"]["layout"] == "alien":
                return
            val = BLOBS[name][0]
            if name == "trunc":
                conn = sqlite3.connect(self.path)
                r = conn.execute("SELECT data FROM models WHERE txt_hash=? AND pymoca_version=?",
                                 (self.pool.hash[x], ver_str(v))).fetchone()
                conn.close()
                val = b"\x80\x04\x95" if r is None or not isinstance(r[0], bytes) or len(r[0]) < 8 else r[0][:len(r[0]) // 2]
            self.sql([("UPDATE models SET data=? WHERE txt_hash=? AND pymoca_version=?", (val, self.pool.hash[x], ver_str(v)))])
            if name == "none" and any(r[0] == x and r[1] == v for r in snap["models"]["rows"]):
                self.planted_none.add((x, v))
        elif k == "clayout":
            _, tbl, how = op
            snap = self.snapshot()
            if snap.get("file") != "db":
                return
            if tbl == "models":
                if how == "drop":
                    self.sql(["DROP TABLE IF EXISTS models"])
                elif how == "alien":
                    self.sql(["DROP TABLE IF EXISTS models",
                              "CREATE TABLE models (wrong_key TEXT, wrong_value TEXT, PRIMARY KEY (wrong_key))"])
                elif how.startswith("typed:"):
                    self.sql(["DROP TABLE IF EXISTS models", "CREATE TABLE models (%s)" % TYPED_LAYOUTS[how[6:]]])
                elif how == "nopk":
                    keep = snap["models"] and snap["models"]["layout"] != "alien"
                    st = ["CREATE TABLE models_new (txt_hash TEXT, pymoca_version TEXT, data BLOB, last_hit TIMESTAMP INTEGER)"]
                    if keep:
                        st.append("INSERT INTO models_new SELECT txt_hash, pymoca_version, data, last_hit FROM models ORDER BY rowid")
                    st += ["DROP TABLE IF EXISTS models", "ALTER TABLE models_new RENAME TO models"]
                    self.sql(st)
                elif how == "extracol":
                    keep = snap["models"] and snap["models"]["layout"] != "alien"
                    # (no primary key: a noPk source table may hold duplicates; the insert of parse() fails regardless)
                    st = ["CREATE TABLE models_new (txt_hash TEXT, pymoca_version TEXT, data BLOB, last_hit TIMESTAMP INTEGER, "
                          "extra TEXT NOT NULL)"]
                    if keep:
                        st.append("INSERT INTO models_new SELECT txt_hash, pymoca_version, data, last_hit, 'x' FROM models ORDER BY rowid")
                    st += ["DROP TABLE IF EXISTS models", "ALTER TABLE models_new RENAME TO models"]
                    self.sql(st)
            else:
                if how == "drop":
                    self.sql(["DROP TABLE IF EXISTS metadata"])
                elif how == "alien":
                    self.sql(["DROP TABLE IF EXISTS metadata",
                              "CREATE TABLE metadata (wrong_key TEXT, wrong_value TEXT, PRIMARY KEY (wrong_key))"])
                elif how.startswith("typed:"):
                    self.sql(["DROP TABLE IF EXISTS metadata", "CREATE TABLE metadata (key TEXT, value INTEGER, PRIMARY KEY (key))"])
                elif how in ("delcreated", "delprune") and snap["meta"] not in (None, "alien"):
                    self.sql([("DELETE FROM metadata WHERE key=?", ("created_at" if how == "delcreated" else "last_prune",))])
        elif k == "cfile":
            how = op[1]
            for suffix in ("-journal", "-wal", "-shm"):
                q = Path(str(self.path) + suffix)
                if q.exists():
                    q.unlink()
            if how == "delete":
                if self.path.exists():
                    self.path.unlink()
            elif how == "empty":
                open(self.path, "wb").close()
            elif how == "text":
                with open(self.path, "w") as f:
                    f.write("This is not a valid SQLite database file\n" * 7)
            elif how == "freelist":
                # the file still opens and its tables can be read, but integrity_check reports a row (no exception)
                snap = self.snapshot()
                if snap.get("file") == "db":
                    if not self.path.exists() or self.path.stat().st_size < 100:
                        conn = sqlite3.connect(self.path)
                        conn.execute("CREATE TABLE t0 (x)")
                        conn.commit()
                        conn.close()
                    with open(self.path, "r+b") as f:
                        f.seek(36)
                        cur = int.from_bytes(f.read(4), "big")
                        f.seek(36)
                        f.write((cur + 7).to_bytes(4, "big"))   # freelist page count no longer matches the list
            elif how == "indexswap":
                self.index_swap()
            elif how == "header":
                if self.path.exists() and self.path.stat().st_size >= 100:
                    with open(self.path, "r+b") as f:
                        f.write(b"\xde\xad\xbe\xef" * 25)
                else:
                    with open(self.path, "wb") as f:
                        f.write(b"\xde\xad\xbe\xef" * 300)
        elif k == "foreign":
            _, x, fv, days = op
            tree = self.pool.foreign_tree(fv, x)
            snap = self.snapshot()
            if tree is None or snap.get("file") != "db" or not snap["models"] or snap["models"]["layout"] == "alien":
                return
            self.sql([("INSERT OR REPLACE INTO models (txt_hash, pymoca_version, data, last_hit) VALUES (?, ?, ?, ?)",
                       (self.pool.hash[x], ver_str(fv), pickle.dumps(tree), self.now_us() - days * DAY))])
        else:
            raise HarnessError("unknown op %r" % (op,))

    def index_swap(self):
        """Every page well-formed, right layout, but the primary-key index of `models` no longer agrees with the
        table: the key of entry i leads to a row that holds the (valid) tree of another text.  `PRAGMA
        integrity_check` reports it (rows, no exception); a structural check alone does not."""
        snap = self.snapshot(raw=True)
        if snap.get("file") != "db":
            return
        rows = []
        if snap["models"] and snap["models"]["layout"] == "ok":
            conn = sqlite3.connect(self.path)
            rows = conn.execute("SELECT txt_hash, pymoca_version, data, last_hit FROM models ORDER BY rowid").fetchall()
            meta = conn.execute("SELECT key, value FROM metadata").fetchall() if snap["meta"] not in (None, "alien") else []
            conn.close()
        if not rows:
            # nothing to cross: an entry of the first valid text, as parse() would have written it
            x = self.pool.valid_ix[0]
            rows = [(self.pool.hash[x], ver_str(self.ver), pickle.dumps(self.pool.fresh_tree[x]), self.now_us())]
            meta = []
        other = []
        for h, v, data, lh in rows:
            x = self.pool.by_hash.get(h, self.pool.valid_ix[0])
            j = self.pool.valid_ix[(self.pool.valid_ix.index(x) + 1) % len(self.pool.valid_ix)] if x in self.pool.valid_ix \
                else self.pool.valid_ix[0]
            other.append((h, v, pickle.dumps(self.pool.fresh_tree[j]), lh))
        ddl = "CREATE TABLE %s (txt_hash TEXT, pymoca_version TEXT, data BLOB, last_hit TIMESTAMP INTEGER, PRIMARY KEY (txt_hash, pymoca_version))"
        if self.path.exists():
            self.path.unlink()
        conn = sqlite3.connect(self.path, isolation_level=None)
        conn.execute(ddl % "models")
        conn.execute(ddl % "models_old")
        conn.execute("CREATE TABLE metadata (key TEXT, value TEXT, PRIMARY KEY (key))")
        conn.executemany("INSERT INTO models VALUES (?, ?, ?, ?)", rows)
        # same keys and rowids, but the data of *another* text, plus one row the index does not know
        conn.executemany("INSERT INTO models_old VALUES (?, ?, ?, ?)", other)
        conn.execute("INSERT INTO models_old VALUES (?, ?, ?, ?)", ("0" * 64, "none", b"", 0))
        conn.executemany("INSERT INTO metadata VALUES (?, ?)", meta)
        roots = dict(conn.execute("SELECT name, rootpage FROM sqlite_master WHERE type='table'"))
        conn.execute("PRAGMA writable_schema=ON")
        conn.execute("UPDATE sqlite_master SET rootpage=? WHERE name='models'", (roots["models_old"],))
        conn.execute("UPDATE sqlite_master SET rootpage=? WHERE name='models_old'", (roots["models"],))
        conn.execute("PRAGMA writable_schema=OFF")
        conn.close()
        if self.snapshot().get("file") != "garbage":
            raise HarnessError("index_swap did not produce a database that fails integrity_check")

    def parse(self, op):
        _, x, days, upd, bypass = op
        try:
            t = self.parser.parse(self.pool.texts[x], model_cache_folder=self.folder_arg, cache_expiration_days=days,
                                  always_update_last_hit=bool(upd), bypass_cache=bool(bypass))
        except sqlite3.DatabaseError as e:
            return {"raised": "db"}, "%s: %s" % (type(e).__name__, e)
        except Exception as e:
            n = type(e).__name__
            return {"raised": ("unpickle:" + EXC_OF[n]) if n in EXC_OF else "other:" + n}, "%s: %s" % (n, e)
        if t is None:
            return {"value": None}, None
        from pymoca import ast
        if not isinstance(t, ast.Tree):
            return {"value": 999998}, "returned a %s" % type(t).__name__
        key = a01.canon_key(t)
        # what pymoca's own callers do with the tree they get (tree.extend, flattening): edit it in place.  Every
        # later call must still return a tree equal to a fresh parse, i.e. results must not share state.
        t.classes["__verif_caller_edit__"] = ast.Class(name="__verif_caller_edit__")
        for c in list(t.classes.values())[:1]:
            c.symbols.clear()
        return {"value": self.pool.tid(key)}, None


def model_op(op):
    """Case-level op -> driver-level op (blob names become blob kinds)."""
    if op[0] == "cfile" and op[1] == "indexswap":
        return ["cfile", "freelist"]      # another file that opens, reads, and fails integrity_check without raising
    if op[0] == "clayout" and str(op[2]).startswith("typed:"):
        return ["clayout", op[1], "alien"]     # an unexpected layout; exact as long as a (re)initialisation follows
    if op[0] == "centry":
        cls = BLOBS[op[3]][1]
        return ["centry", op[1], op[2], "none"] if cls is None else ["centry", op[1], op[2], "bad", cls]
    return op


def damaging(op):
    return op[0] == "cfile" or (op[0] == "clayout" and op[1] == "models" and (op[2] in ("drop", "alien", "extracol") or op[2].startswith("typed:")))


def typed(op):
    return op[0] == "clayout" and str(op[2]).startswith("typed:")


class Tracker:
    """What the generator / the known-finding predicates need to know about a history prefix, computed from the
    operations alone: is the database in `initialized_dbs`, and what works on its `models` table."""

    def __init__(self, recover=True, tolerant=False):
        self.recover = recover     # parse() re-validates a database it can no longer query (fix 821b239)
        self.tolerant = tolerant   # a failing cache write does not fail parse() (proposed fix C01-2)
        self.init = False
        self.dirty = False
        # "garbage" | "noquery" (no usable models table) | "noinsert" (lookup works, insert does not) | "query"
        self.file = "noquery"

    def unsynced(self):
        return self.init and self.file != "query"

    def write_damaged(self):
        return self.init and self.file == "noinsert"

    def feed(self, op):
        k = op[0]
        if k == "reload":
            self.init = False
        elif k == "setver":
            self.dirty = bool(op[2])
        elif k == "parse":
            if op[4] or self.dirty:
                return
            if not self.init or (self.recover and self.file in ("garbage", "noquery")):
                self.init, self.file = True, "query"
            elif self.file == "noinsert" and self.tolerant:
                self.init = False      # (on a miss; a hit leaves it — irrelevant for what this is used for)
        elif k == "cfile":
            self.file = "garbage" if op[1] in ("text", "header", "freelist", "indexswap") else "noquery"
        elif k == "clayout" and op[1] == "models" and self.file != "garbage":
            self.file = {"nopk": "query", "extracol": "noinsert"}.get(op[2], "noquery")


def unsynced_at(ops, upto, recover=False):
    """Was the file deleted / overwritten / stripped of a usable `models` table after the process initialised
    it, with no module reload since — at the time operation number `upto` (1-based) ran?"""
    t = Tracker(recover)
    for op in ops[:upto - 1]:
        t.feed(op)
    return t.unsynced()


def write_damaged_at(ops, upto):
    """Was the `models` table replaced by one that rejects the insert while the process held the database
    initialised, and not re-validated since — at the time operation number `upto` (1-based) ran?"""
    t = Tracker(recover=True)
    for op in ops[:upto - 1]:
        t.feed(op)
    return t.write_damaged()


# ---- one history -----------------------------------------------------------------------------
def check_history(ctx, pool, ops, drv, cfg, case_extra=None):
    case = {"texts": pool.texts, "ops": ops}
    if case_extra:
        case.update(case_extra)
    real = Real(ctx.scratch, pool, (case_extra or {}).get("folder", "canonical"))
    steps = []
    hit = False
    try:
        for i, op in enumerate(ops):
            if op[0] != "parse":
                real.apply(op)
                steps.append({"res": None, "snap": real.snapshot(), "init": real.initialized(), "now": real.now_us()})
                continue
            _, x, days, upd, bypass = op
            before_raw = real.snapshot(raw=True)
            before_bytes = real.path.read_bytes() if real.path.exists() else None
            served = (not bypass and not real.dirty and before_raw.get("file") == "db" and before_raw["models"]
                      and before_raw["models"]["layout"] != "alien"
                      and any(r[0] == x and r[1] == real.ver and real.blob_kind(r[2])[0] == "good"
                              and real.blob_kind(r[2])[1] is not None for r in before_raw["models"]["rows"]))
            res, detail = real.parse(op)
            hit = hit or bool(served)
            ctx.count("parse-hit" if served else "parse-miss-or-bypass")
            snap = real.snapshot()
            steps.append({"res": res, "snap": snap, "init": real.initialized(), "now": real.now_us()})
            # ---- direct oracle
            want = pool.tid(pool.fresh_key[x])
            c = dict(case, upto=i + 1)
            if "raised" in res:
                ctx.violation("parse raised %s" % res["raised"], c, expected="no exception; tree of the uncached parse",
                              observed=detail, kind="history")
                ctx.count("oracle-raised")
                break
            if res["value"] != want:
                ctx.violation("parse returned %s where the uncached parse gives %s" % (
                    "None" if res["value"] is None else "a different tree" if want is not None else "a tree",
                    "None" if want is None else "a tree"), c, expected=want, observed=res["value"], kind="history")
                break
            if bypass or real.dirty:
                after_bytes = real.path.read_bytes() if real.path.exists() else None
                if after_bytes != before_bytes:
                    ctx.violation("a bypassing parse modified the cache file", c, kind="history")
                    break
            after_raw = real.snapshot(raw=True)
            msg = rows_oracle(real, pool, before_raw, after_raw, x)
            if msg:
                ctx.violation(msg[0], c, observed=msg[1], kind="history")
                break
    finally:
        real.close()
    if drv is not None:
        ans = drv.ask({"op": "cache.run", "caught": cfg["caught"], "recover": cfg["recover"], "writeTolerant": cfg["writeTolerant"], "pf": pool.pf_table(), "t0": T0,
                       "ops": [model_op(o) for o in ops]})
        if not ans.get("ok"):
            raise HarnessError("model driver rejected the history: %s" % ans)
        for i, st in enumerate(steps):
            m = ans["steps"][i]
            c = dict(case, upto=i + 1)
            if m["res"] != st["res"]:
                ctx.disagreement("cache.result", c, m["res"], st["res"])
                break
            if m["snap"] != st["snap"] or m["init"] != st["init"] or m["now"] != st["now"]:
                ctx.disagreement("cache.state", c, {"snap": m["snap"], "init": m["init"], "now": m["now"]},
                                 {"snap": st["snap"], "init": st["init"], "now": st["now"]})
                break
    return hit


def rows_oracle(real, pool, before, after, x):
    """Rows a parse call wrote are consistent; nothing unpickles to None except planted blobs."""
    if after.get("file") != "db" or not after["models"] or after["models"]["layout"] == "alien":
        return None
    old = []
    if before.get("file") == "db" and before["models"] and before["models"]["layout"] != "alien":
        old = [(r[0], r[1], r[2]) for r in before["models"]["rows"]]
    for r in after["models"]["rows"]:
        kind = real.blob_kind(r[2])
        if kind == ["good", None] and (r[0], r[1]) not in real.planted_none:
            return "a row that unpickles to None was stored", {"text": r[0], "version": r[1]}
        if (r[0], r[1], r[2]) in old:
            continue
        # a row written by this call: whatever key the implementation uses, it must hold the fresh tree of the
        # text just parsed (a call writes no other row), under the current version if the key is recognisable
        if kind[0] != "good" or kind[1] is None or kind[1] != pool.tid(pool.fresh_key[x]):
            return "parse stored a row that does not unpickle to the fresh tree of the text it parsed", {"text": x, "blob": kind}
        if pool.fresh_key[x] is None:
            return "a failed parse was stored", {"text": x}
        if r[1] >= 100 or (r[0] >= 0 and r[0] != x):
            return "parse wrote a row under the key of another text/version", {"text": x, "row": [r[0], r[1]]}
    return None


# ---- generator ---------------------------------------------------------------------------------
TICKS = [1, 1_000_000, 3_600_000_000, 23 * 3_600_000_000, 25 * 3_600_000_000, 3 * DAY, 29 * DAY, 31 * DAY, 400 * DAY]
DAYS = [30, 30, 30, 0, 1, 7, 365]


def gen_history(rng, pool, maxlen, guarded, f3=False):
    n = rng.randint(3, maxlen)
    ops = []
    ntext = len(pool.texts)
    hot = [rng.randrange(ntext) for _ in range(3)]   # texts parsed again and again (hits)
    if pool.families and rng.random() < 0.6:
        hot = list(rng.choice(pool.families))        # near-identical texts in one history
        if rng.random() < 0.25:
            hot = list(pool.families[-1])            # (the family of very long texts, when there is one)
    tr = Tracker(recover=False)
    if rng.random() < 0.3:
        ops.append(["setinc", rng.choice([1, 7, 1000])])
    while len(ops) < n:
        r = rng.random()
        if r < 0.50:
            x = rng.choice(hot) if rng.random() < 0.7 else rng.randrange(ntext)
            ops.append(["parse", x, rng.choice(DAYS), rng.random() < 0.3, rng.random() < 0.05])
        elif r < 0.60:
            ops.append(["reload"])
        elif r < 0.66:
            ops.append(["setver", rng.randrange(len(REAL_VERSIONS)), rng.random() < 0.15])
        elif r < 0.76:
            ops.append(["tick", rng.choice(TICKS)])
        elif r < 0.86:
            ops.append(["centry", rng.choice(hot), rng.randrange(len(REAL_VERSIONS)) if rng.random() < 0.8 else rng.choice([100, 101]),
                        rng.choice(list(BLOBS))])
        elif r < 0.91:
            tbl = rng.choice(["models", "meta"])
            how = rng.choice(["drop", "alien", "nopk", "extracol"] + ["typed:" + k for k, v in TYPED_LAYOUTS.items() if v] if tbl == "models"
                             else ["drop", "alien", "delcreated", "delprune", "typed:meta_value_int"])
            ops.append(["clayout", tbl, how])
        elif r < 0.95:
            ops.append(["cfile", rng.choice(["delete", "empty", "text", "header", "freelist", "indexswap", "indexswap"])])
        else:
            ops.append(["foreign", rng.choice(hot), rng.choice([100, 101]), rng.choice([0, 2, 40])])
        tr.feed(ops[-1])
        if (guarded and tr.unsynced()) or ((ops[-1][:2] in (["cfile", "freelist"], ["cfile", "indexswap"]) or typed(ops[-1])) and tr.init) \
                or (not f3 and tr.write_damaged()):
            # (write damage while initialised = open finding C01-F3: only in its own stream)
            # (the model treats a file that fails integrity_check as unreadable; for `freelist` that is exact only
            # when the process does not hold the database initialised)
            ops.append(["reload"])
            tr.feed(ops[-1])
    return ops


def faulty(ops):
    return any(o[0] in ("centry", "clayout", "cfile", "foreign", "setver") for o in ops) or \
        any(o[0] == "tick" and o[1] >= DAY for o in ops)


def source_cfg(ctx=None):
    """What the model takes from the source: the exception classes caught around pickle.loads in parse(), whether
    parse() has the retry handler of fix C01-1 and the tolerated cache write of fix C01-2 (static extraction with
    Python `ast`, else probed behaviourally — see a01.extract_any)."""
    ex = a01.extract_any(ctx, ctx.scratch if ctx is not None else None)
    if ex is None:
        return {"caught": ["Exception"], "recover": True, "writeTolerant": True}
    return {"caught": ex["caught_unpickle"], "recover": ex["recover"], "writeTolerant": ex["write_tolerant"]}


def translate(ctx):
    """Generated/SqlProgram.lean (shared with C02) carries the classes caught around pickle.loads."""
    from harness.props import c02
    c02.translate(ctx, ctx.scratch)


def run(ctx):
    with a01.Quiet():
        _run(ctx)


def _run(ctx):
    from harness import corpus
    drv = ctx.driver("drv_c01")
    quick = ctx.tier == "quick"
    cfg = source_cfg(ctx)
    ctx.extra["source_cfg"] = cfg
    for c in corpus.load("C01"):
        ctx.count("corpus")
        check_history(ctx, Pool.from_texts(c["texts"]), c["ops"], drv, cfg, {"corpus": c.get("_file")})
    extra = []
    if not quick:
        mdir = os.path.join(os.environ.get("VERIF_REPO", "/repo"), "test", "models")
        for f in sorted(os.listdir(mdir)):
            if f.endswith(".mo") and len(extra) < 6 and ctx.rng.random() < 0.2:
                extra.append(open(os.path.join(mdir, f)).read())
    pool = Pool(ctx.rng, 12, 4, extra)
    ctx.extra["pool"] = {"texts": len(pool.texts), "valid": len(pool.valid_ix), "kinds": pool.kinds, "families": pool.families,
                         "broken": len(pool.texts) - len(pool.valid_ix), "distinct_trees": len(pool.tree_id)}
    nhist, maxlen = (120, 25) if quick else (1500, 60)
    for i in range(nhist):
        if ctx.time_left() < 0:
            ctx.notes.append("histories stopped by the time budget after %d" % i)
            break
        # guarded stream: a module reload follows every damage done while the process holds the database
        # initialised; the other stream damages it at any time (finding C01-F2, fixed by 821b239)
        guarded = ctx.rng.random() < 0.6
        f3 = ctx.rng.random() < 0.12       # stream of the open finding C01-F3 (insert-rejecting table while initialised)
        ops = gen_history(ctx.rng, pool, maxlen, guarded and not f3, f3)
        spelling = ctx.rng.choice(["canonical", "canonical", "relative", "symlink", "dotdot"])
        hit = check_history(ctx, pool, ops, drv, cfg, {"folder": spelling})
        ctx.count("folder-" + spelling)
        ctx.case({"ops": ops}, nontrivial=bool(hit) and faulty(ops))
        ctx.count("stream-f3" if f3 else "stream-guarded" if guarded else "stream-unguarded")
        ctx.count("len-%02d" % (10 * (len(ops) // 10)))
        for o in ops:
            ctx.count("op-" + o[0] + ("-" + str(o[-1]) if o[0] in ("cfile", "clayout") else ""))


def search(ctx):
    """A tie is broken but no parse violated the property yet: more and longer histories, direct oracle only
    (fresh pool, both streams, flags and damage kinds as in the run)."""
    with a01.Quiet():
        pool = Pool(ctx.rng, 10, 4)
        n = 0
        while ctx.time_left() > 0 and not ctx.violations and n < 4000:
            ops = gen_history(ctx.rng, pool, 60, ctx.rng.random() < 0.5)
            check_history(ctx, pool, ops, None, None, {"folder": ctx.rng.choice(["canonical", "relative", "symlink", "dotdot"])})
            ctx.count("search-history")
            n += 1


def replay(ctx, payload):
    c = payload.get("case") or next((d["case"] for d in payload.get("details", []) if d.get("case")), None)
    if c is None:
        raise HarnessError("replay file without a case (a broken tie of the Lean build/audit has no input)")
    ops = c["ops"][:c["upto"]] if "upto" in c else c["ops"]
    with a01.Quiet():
        check_history(ctx, Pool.from_texts(c["texts"]), ops, ctx.driver("drv_c01"), source_cfg(), {"folder": c.get("folder", "canonical")})


MANIFEST = dict(
    level_text="Lean 4 theorems about an executable state-machine model of parser.parse / _check_database_structure "
               "(abstract database file, clock, version, per-process initialized_dbs): the row invariant is preserved by "
               "every operation including all corruptions; every parse of every finite history returns the uncached result "
               "(none iff syntax error, no exception) and never stores None; complete statement proved for code with the "
               "recovery handler and a tolerated cache write, instantiated for the current sources through translator-read "
               "flags; tied to the real code by a per-run differential correspondence on real SQLite files (outcome + "
               "abstract file snapshot after every operation) and a direct fresh-parse oracle.",
    level_note="Trusted: Lean kernel + standard axioms; the harness; SHA-256 injective on the pool; pickle round trip. "
               "Open finding C01-F3 (models table replaced after initialisation by one that rejects the insert) is excluded by "
               "hypothesis in current_code_transparent_partial and has a proved counterexample (write_damage_raises); "
               "C01-F2 was found the same way and is fixed (821b239).",
    technique="Lean 4 proof (invariant by induction over operation histories) + source translator + model/implementation correspondence",
)
READY = True
