"""C07 — hierarchical flattening instantiates every component once.

Tie: generated core-Modelica libraries (harness/gen/a05.py: packages, local classes, type
definitions, extends chains / multiple extends / bases from enclosing scopes, several instances
of one class, arrays, equations over own and sub-component variables, modifications) are sent as
JSON to the compiled Lean reference `PymocaVerif.Flatten.flattenSrc` (driver `drv_c07`), which
also renders the Modelica text; the real `pymoca.parser.parse` + `pymoca.tree.flatten` run on
that text and the two flat models (variables in order with type / prefixes / dimensions, the
instance equations — simple and for-equations with computed subscripts — and the initial equations,
all in order) must be identical.
Direct oracle: `a05.oracle_c07` — the leaf set, types, prefixes, dimensions and the renamed
equations of every instance computed by a path-directed walk of the description, independent of
the Lean model (which is environment-passing).
"""
import json

from harness import corpus
from harness.common import HarnessError
from harness.gen import a05

DRIVERS = ["drv_c07"]
RULE = ("a case is one generated library + target class; hierarchies up to depth 4 over 2..7 classes; "
        "non-trivial = the reference flat model has a leaf at depth >= 2 (a component of class type) or an "
        "inherited leaf, and at least one equation; distinct = distinct library description")
TRUSTED = ["the reference semantics PymocaVerif.Flatten agrees with the Modelica specification on the subset "
           "(no redeclare, inner/outer, imports, connectors; lookup through own and inherited local classes of the "
           "class and of its enclosing classes, base class names not through the class's own inherited classes)",
           "flat names are compared as dotted strings: component names never contain '.'"]
ASSUMPTIONS = ["diamond inheritance of one component and redeclaration of an inherited name are not generated "
               "(the reference rejects them as duplicate elements)",
               "type-definition modifications are literals",
               "for-loop variables (i, j) are never names of components; subscripts nest at most two levels "
               "(v[i + off[k]]); for-equations contain simple equations over one range lo:hi",
               "libraries touching the open findings C07-F1 / C07-F2 (structural predicate a05.triggers) run in "
               "a separate stream"]

BLOCKING = {"F15", "RE"}          # open findings: C07-F1, C07-F2


def norm(m, view="C07", sole=None):
    """Canonical comparison form of a flat model (either side), restricted to what the property
    observes.  C07: variables in order with type / prefixes / dimensions, and the instance
    equations and the initial equations in order.  C08: variables in order with attributes / value, and the binding
    equations (left side a symbol) in order."""
    if not m.get("ok"):
        return {"ok": False}
    vs = []
    for v in m["vars"]:
        if view == "C07":
            vs.append(dict(name=v["name"], type=v["type"], prefixes=list(v["prefixes"]), dims=list(v["dims"])))
        else:
            a = {k: e for k, e in v["attrs"].items() if not (k == "fixed" and e == ["bool", False])}
            vs.append(dict(name=v["name"], attrs=a, value=v["value"]))
    eqs = [list(e) for e in m["eqs"] if a05.is_sym_eq(e) == (view == "C08")]
    out = {"ok": True, "vars": vs, "eqs": eqs}
    if view == "C07":
        out["ieqs"] = [list(e) for e in m.get("ieqs", [])]
        # which leaves have a declaration equation / unconnected-flow equation (their right sides: C08)
        out["bound"] = [e[0][1] for e in m["eqs"] if a05.is_sym_eq(e)]
        if sole:
            # right sides of the declaration equations nobody modifies (equations of their instance)
            out["decl"] = sorted(a05.decl_rhs(m, sole).items())
    return out


def nontrivial(lib, target):
    try:
        orc = a05.Oracle(lib)
        vars_, eqs, veqs = orc.flat(target)
    except a05.Reject:
        return False
    deep = any("." in n for n in vars_)
    own = set(k["name"] for k in orc.ix.cls[tuple(target.split("."))]["comps"])
    inherited = any("." not in n and n not in own for n in vars_)
    return (deep or inherited) and bool(eqs)


def shape(ctx, lib, target):
    """Distribution buckets: depth, repeated instances, multiple extends, arrays, local / package classes."""
    orc = a05.Oracle(lib)
    items = list(orc.instances(tuple(target.split("."))))
    leaves = [it for it in items if it[0] == "leaf"]
    insts = [it[2] for it in items if it[0] == "inst"]
    ctx.count("depth-%d" % max([len(it[1]) for it in leaves] or [0]))
    if len(set(insts)) < len(insts):
        ctx.count("several-instances-of-one-class")
    if any(len(orc.ext_list(c)) > 1 for c in set(insts)):
        ctx.count("multiple-extends")
    if any(orc.ext_list(b) for c in set(insts) for b, _ in orc.ext_list(c)):
        ctx.count("extends-chain")
    if any(len(b) < len(c) or b[:len(c) - 1] != c[:-1] for c in set(insts) for b, _ in orc.ext_list(c)):
        ctx.count("base-from-other-scope")
    if any(len(c) > 1 for c in set(insts)):
        ctx.count("nested-or-packaged-class")
    if any(it[4] for it in leaves):
        ctx.count("array-leaf")
    if any(it[5] for it in leaves):
        ctx.count("type-definition-leaf")
    cl = set(insts)
    if any(e[0] == "for" for c in cl for e in orc.member_eqs(c)):
        ctx.count("for-equation")
    if any(orc.member_eqs(c, "ieqs") for c in cl if c != tuple(target.split("."))):
        ctx.count("initial-equations-below-top")
    ix = orc.ix
    for cp, cdef in ix.cls.items():
        if len(cp) > 1 and cdef["alias"] is None and any(
                k["type"] not in a05.BUILTIN and k["type"].split(".")[0] not in ix.visible(cp) and any(
                    k["type"].split(".")[0] in ix.visible(cp[:j]) and k["type"].split(".")[0] not in ix.own(cp[:j])
                    for j in range(1, len(cp))) for k in cdef["comps"]):
            ctx.count("local-class-uses-inherited-class")
            break
    ctx.count("leaves-%s" % ("1-5" if len(leaves) <= 5 else "6-15" if len(leaves) <= 15 else "16+"))


def check_case(ctx, case, drv, stream="main"):
    """One library: real code, direct oracle, Lean model."""
    lib, target = case["lib"], case["target"]
    text = a05.render(lib)
    model = None
    if drv is not None:
        ans = drv.ask({"op": "flatten", "lib": lib, "target": target})
        if "text" not in ans:
            raise HarnessError("model driver rejected the description: %s" % json.dumps(ans)[:300])
        if ans["text"] != text:
            raise HarnessError("the two renderers of the description disagree:\n%s\n---\n%s" % (ans["text"], text))
        if ans.get("err") == "fuel":
            ctx.disagreement("model-out-of-fuel", dict(case, text=text), "fuel", None)
    try:
        orc = a05.Oracle(lib)
        orc.flat(target)
        sole = set(orc.sole_decl)
    except a05.Reject:
        sole = set()
    if drv is not None:
        model = norm(ans, sole=sole)
    obs = a05.py_flatten(text, target)
    rep = dict(case, text=text)
    r = a05.oracle_c07(lib, target, obs)
    if r is not None:
        ctx.violation(r[0], rep, expected=r[1], observed=r[2], kind="input")
    ctx.count("impl-" + ("ok" if obs["ok"] else obs["err"]))
    if model is not None:
        o = norm(obs, sole=sole)
        if model != o:
            what = "status" if model["ok"] != o["ok"] else (
                "variables" if model["vars"] != o["vars"] else
                "equations" if model["eqs"] != o["eqs"] else
                "initial-equations" if model["ieqs"] != o["ieqs"] else "declaration-equations")
            ctx.disagreement("flatten:" + what, rep, model, o)
        ctx.count("model-" + ("ok" if model["ok"] else "rejects"))
    return obs


def gen_case(rng, quick, compete=False):
    n = rng.choice([2, 3, 4, 5, 6] if quick else [2, 3, 4, 5, 6, 7])
    if compete:
        # declarations with equations / attribute expressions over sibling variables that are also
        # modified from enclosing classes and extends clauses (several levels on one attribute)
        g = a05.Gen(rng, n_classes=max(n, 3), mod_rate=0.9, p_nested=rng.choice([0.1, 0.2]), p_pkg=0.4, ref_rate=0.7,
                    p_compete=rng.choice([0.5, 0.8])).build()
        return dict(lib=g.spelled(lambda i: "S"), target=g.target)
    g = a05.Gen(rng, n_classes=n, mod_rate=rng.choice([0.3, 0.6, 0.8]), p_nested=rng.choice([0.15, 0.3, 0.45]),
                p_pkg=0.5, ref_rate=0.5).build()
    lib = g.spelled(lambda i: "S")
    return dict(lib=lib, target=g.target)


def run(ctx):
    drv = ctx.driver("drv_c07")
    quick = ctx.tier == "quick"
    for c in corpus.load("C07"):
        ctx.count("corpus")
        ctx.case({"lib": c["lib"], "target": c["target"]}, nontrivial=True)
        check_case(ctx, dict(lib=c["lib"], target=c["target"]), drv, "corpus")
    n_main = 170 if quick else 3500
    n_find = 12 if quick else 400
    done_main = done_find = 0
    tries = 0
    while done_main < n_main and tries < 20 * n_main:
        tries += 1
        if ctx.time_left() < 0:
            ctx.notes.append("stopped by time budget after %d main / %d finding-stream cases" % (done_main, done_find))
            break
        case = gen_case(ctx.rng, quick)
        trig = a05.triggers(case["lib"], case["target"])
        for t in trig:
            ctx.count("touches-" + t)
        if trig & {"ILLEGAL", "ILLEGAL-LOCAL"}:
            ctx.count("generator-made-illegal-library-skipped")
            continue
        if trig & BLOCKING:
            if done_find >= n_find:
                continue
            done_find += 1
            ctx.count("stream-findings")
            ctx.case(case, nontrivial=False)
            check_case(ctx, case, drv, "finding")
            continue
        done_main += 1
        ctx.count("stream-main")
        nt = nontrivial(case["lib"], case["target"])
        ctx.case(case, nontrivial=nt)
        ctx.count("classes-%d" % sum(1 for _ in a05.Index(case["lib"]).cls))
        shape(ctx, case["lib"], case["target"])
        check_case(ctx, case, drv, "main")
    # competing stream (after the main stream, which keeps its random numbers): modified declarations
    n_comp = 60 if quick else 1200
    done_comp = tries = 0
    while done_comp < n_comp and tries < 20 * n_comp:
        tries += 1
        if ctx.time_left() < 0:
            ctx.notes.append("stopped by time budget after %d competing-stream cases" % done_comp)
            break
        case = gen_case(ctx.rng, quick, compete=True)
        trig = a05.triggers(case["lib"], case["target"])
        if trig & ({"ILLEGAL", "ILLEGAL-LOCAL"} | BLOCKING):
            ctx.count("competing-stream-skipped-" + ("illegal" if trig & {"ILLEGAL", "ILLEGAL-LOCAL"} else "open-finding"))
            continue
        done_comp += 1
        ctx.count("stream-competing")
        ctx.case(case, nontrivial=nontrivial(case["lib"], case["target"]))
        for lb in a05.compete_shape(case["lib"], case["target"]):
            ctx.count("competing:" + lb)
        check_case(ctx, case, drv, "competing")
    ctx.extra["competing_stream_cases"] = done_comp
    ctx.extra["main_cases"] = done_main
    ctx.extra["finding_stream_cases"] = done_find


def search(ctx):
    """A tie is broken and no violation was seen yet: more libraries, direct oracle only."""
    n = 0
    while ctx.time_left() > 0 and not ctx.violations:
        case = gen_case(ctx.rng, False, compete=n % 2 == 1)
        if a05.triggers(case["lib"], case["target"]) & (BLOCKING | {"ILLEGAL", "ILLEGAL-LOCAL"}):
            continue
        n += 1
        text = a05.render(case["lib"])
        r = a05.oracle_c07(case["lib"], case["target"], a05.py_flatten(text, case["target"]))
        if r is not None:
            ctx.violation(r[0], dict(case, text=text), expected=r[1], observed=r[2], kind="input")
    ctx.extra["search_cases"] = n


def replay(ctx, payload):
    cases = [payload["case"]] if "case" in payload else [d["case"] for d in payload.get("details", []) if "case" in d]
    for c in cases:
        ctx.case({"lib": c["lib"], "target": c["target"]}, nontrivial=True)
        check_case(ctx, dict(lib=c["lib"], target=c["target"]), ctx.driver("drv_c07"), "replay")


MANIFEST = dict(
    level_text="Lean 4 theorems about an executable reference semantics of instantiation/flattening (leaves of the "
               "instance tree = flat variables, no duplicates, every instance's equations and initial equations renamed "
               "(also inside computed subscripts), type / prefixes / dimensions kept, input/output only at the top "
               "level, Modelica class lookup through inherited local classes; unbounded hierarchies, by induction), tied to "
               "pymoca's parse + tree.flatten by a per-run differential correspondence on generated libraries and a "
               "direct path-directed oracle on the real code.",
    level_note="Trusted: Lean kernel + standard axioms; the harness; that the reference semantics (2 pages) is the "
               "Modelica meaning of the subset. The reference, not the Python, is what the theorems are about.",
    technique="Lean 4 proof (induction over the instance tree) + reference/implementation correspondence",
)
READY = True
