"""C13 — variable metadata reports the declared attributes.

Real code: `pymoca.backends.casadi.generator.generate` on generated Modelica models (scalars, vectors and
matrices of type Real/Integer/Boolean as states, algebraic variables, inputs, parameters and constants) whose
attributes value/min/max/start/fixed/nominal are literals (integer, real, Boolean, +-1e999), array literals,
`zeros/ones/fill`, or affine / non-affine expressions of the parameters, declared directly or in a component /
base class and (partly) overridden by a modification written in the model; observed on the `Variable` objects
(MX attributes turned into a Function of the parameters) and through `Model.variable_metadata_function`, both
evaluated at exact parameter vectors (small dyadic rationals; every operation of the generated expressions
is exact in binary floating point at those points).

Direct oracle (this file, independent of the Lean model): an exact evaluator (fractions.Fraction) of the
declared expression gives, element by element, the value every attribute must have at every parameter
vector; undeclared attributes must have the defaults (value NaN, start 0 carrying the default marker,
min -inf, max +inf, nominal 0, fixed false); `python_type` must follow the declared type and literal
attributes of Real/Integer/Boolean scalars must have the Python type of the variable; row `offset + k`,
column j of the metadata matrix of each variable list must be attribute j of element k of the variable,
with `offset` the number of elements of the variables before it.

Correspondence: the Lean model `PymocaVerif.Model.Attr` (driver `drv_c13`) computes from the same declarations
the stored Python value kind of every attribute (float/int/bool/_DefaultValue/list/MX/DM, after the coercion
rules of `_ast_symbols_to_variables`), its element values at every parameter vector, and the five metadata
matrices through the column construction and (when every entry is affine) the A*p+b rebuild of
`variable_metadata_function`; all of it must equal what the real code produced.
"""
import json
from fractions import Fraction

from harness.common import HarnessError, impl_frames
from harness.gen import a09
from harness.gen.a09 import xj, jx, show

DRIVERS = ["drv_c13"]
RULE = ("one case = one generated model (1-4 parameters, 2-6 variables over the five variable lists, scalars / vectors / "
        "matrices, Real / Integer / Boolean; 30 % of the states/algebraics declared in a component or base class with "
        "attribute modifications) with up to six declared attributes per variable, observed at 2-3 exact "
        "parameter vectors (one of them often 0); non-trivial = at least one attribute is an expression of a parameter or "
        "an array, or needs a type coercion; distinct = distinct model text + parameter vectors; stream `expand`: "
        "2-4 further arrays of shape [n], [n,1], [1,n], [n,m] whose attributes are non-uniform constant array expressions "
        "(diagonal(..)*fill(..)*diagonal(..), transpose, negation, c*linspace: a DM in the model); these and 15 % of the "
        "main cases are observed a second time after simplify({expand_vectors: True}), element by element")
TRUSTED = ["CasADi: MX construction, Function evaluation at exactly representable points, jacobian/sparsify/mtimes used by the "
           "affine rebuild (the model proves the recipe J(0)*p + f(0) exact for affine f, not CasADi's differentiation)",
           "the parser/flattener deliver the attribute expressions as written (C03, C07, C08)"]
ASSUMPTIONS = ["attribute expressions refer to parameters only (not to constants or variables) and array attributes have the "
               "variable's shape; Integer attributes are integral, Boolean attributes are Booleans (Modelica typing)",
               "parameters used as divisors are evaluated at +-1, +-2, +-4, 1/2 only (exact division)",
               "NaN cannot be written in Modelica; +-inf is written 1e999"]

ORDER = ("value", "min", "max", "start", "fixed", "nominal")      # CASADI_ATTRIBUTES
PT = {"Real": "float", "Integer": "int", "Boolean": "bool"}
DEFAULT = {"value": "nan", "min": "-inf", "max": "inf", "start": Fraction(0), "fixed": Fraction(0), "nominal": Fraction(0)}
KIND_LIST = {"state": "states", "alg": "alg_states", "input": "inputs", "parameter": "parameters", "constant": "constants"}


# ---- generator ------------------------------------------------------------------------------
def dy(rng, lo=-6, hi=6, den=(1, 1, 2, 4)):
    d = rng.choice(den)
    return Fraction(rng.randint(lo * d, hi * d), d)


def numel(dims):
    n = 1
    for d in dims:
        n *= d
    return n


def gen_lit(rng, typ, attr):
    if typ == "Boolean" or attr == "fixed":
        return {"t": "bool", "v": rng.random() < 0.5}
    if typ == "Integer":
        r = rng.random()
        if r < 0.08 and attr in ("min", "max"):
            return {"t": "inf", "neg": attr == "min"}
        if r < 0.2:
            return {"t": "real", "v": xj(rng.randint(-6, 6))}       # written 3.0: coerced to int 3
        return {"t": "int", "v": rng.randint(-6, 6)}
    r = rng.random()
    if r < 0.08 and attr in ("min", "max"):
        return {"t": "inf", "neg": attr == "min"}
    if CLUSTER[0] is not None and r < 0.3:
        base, step = CLUSTER[0]
        v = base + rng.randint(0, 3) * step
        return {"t": "real", "v": xj(-v if rng.random() < 0.2 else v)}
    if r < 0.36:
        # very small / very large magnitudes (exact: k * 2^-e, k * 2^e + 1/4)
        k = rng.choice([-7, -3, -1, 1, 2, 3, 5, 7])
        v = Fraction(k, 2 ** rng.choice([33, 36, 40])) if rng.random() < 0.7 else Fraction(k * 2 ** 30) + Fraction(1, 4)
        return {"t": "real", "v": xj(v)}
    if r < 0.6:
        return {"t": "int", "v": rng.randint(-6, 6)}               # Real attribute written as an integer
    return {"t": "real", "v": xj(dy(rng))}


# Per case: a cluster (base, step) of long literals that agree in their first six significant digits (CasADi prints
# constants with six digits) — several attributes of one model draw from it; all values are exact dyadic rationals.
CLUSTER = [None]
CLUSTERS = [(Fraction(273) + Fraction(157286, 2 ** 20), Fraction(1, 2 ** 14)),
            (Fraction(1000000) + Fraction(1, 4), Fraction(1, 4)),
            (Fraction(1294, 2 ** 20), Fraction(1, 2 ** 33)),
            (Fraction(5 * 2 ** 30 + 1, 1), Fraction(1, 2))]
PIECE = [None]       # style "piecewise": the one piecewise-linear operation (abs / max / min) the model uses
STRICT = [False]     # style "rebuild": only forms CasADi's affinity test accepts (no factor 2 -> OP_TWICE, no q[i])


def gen_leaf(rng, pars, want_vec):
    """leaf of an expression; `want_vec` = length of the vector the attribute may take (0: scalar only)"""
    cand = [i for i, p in enumerate(pars) if p["type"] != "Boolean"]
    if STRICT[0]:
        cand = [i for i in cand if not pars[i]["dims"] or pars[i]["dims"][0] == want_vec]
        if cand and rng.random() < 0.7:
            return {"op": "par", "i": rng.choice(cand), "el": None}
        v = rng.choice([3, -1, Fraction(1, 2), Fraction(3, 2), -3, 4, Fraction(1, 4), 1, 5])
        return {"op": "num", "v": xj(v), "int": Fraction(v).denominator == 1 and rng.random() < 0.6}
    if cand and rng.random() < 0.7:
        i = rng.choice(cand)
        p = pars[i]
        if p["dims"]:
            if p["dims"][0] == want_vec and rng.random() < 0.6:
                return {"op": "par", "i": i, "el": None}
            return {"op": "par", "i": i, "el": rng.randint(1, p["dims"][0])}
        return {"op": "par", "i": i, "el": None}
    v = dy(rng, -4, 4)
    return {"op": "num", "v": xj(v), "int": v.denominator == 1 and rng.random() < 0.6}


def gen_const(rng, nonzero=False, pow2=False):
    if STRICT[0]:
        v = rng.choice([4, Fraction(1, 2), -4, 2] if pow2 else [3, -1, Fraction(1, 2), Fraction(3, 2), -3, 4, Fraction(1, 4), 5])
        return {"op": "num", "v": xj(v), "int": Fraction(v).denominator == 1 and rng.random() < 0.6}
    if pow2:
        v = rng.choice([1, 2, 4, -2, Fraction(1, 2)])
    else:
        v = dy(rng, -4, 4)
        while nonzero and v == 0:
            v = dy(rng, -4, 4)
    return {"op": "num", "v": xj(v), "int": Fraction(v).denominator == 1 and rng.random() < 0.6}


def gen_affine(rng, pars, want_vec, depth):
    if depth <= 0 or rng.random() < 0.25:
        return gen_leaf(rng, pars, want_vec)
    op = rng.choice(["add", "add", "sub", "neg", "mulc", "cmul", "divc"])
    a = gen_affine(rng, pars, want_vec, depth - 1)
    if op == "neg":
        return {"op": "neg", "a": a}
    if op in ("add", "sub"):
        return {"op": op, "a": a, "b": gen_affine(rng, pars, want_vec, depth - 1)}
    if op == "mulc":
        return {"op": "mul", "a": a, "b": gen_const(rng)}
    if op == "cmul":
        return {"op": "mul", "a": gen_const(rng), "b": a}
    return {"op": "div", "a": a, "b": gen_const(rng, pow2=True)}


def gen_nonaffine(rng, pars, want_vec, depth):
    bools = [i for i, p in enumerate(pars) if p["type"] == "Boolean"]
    divs = [i for i, p in enumerate(pars) if p.get("divisor")]
    ops = ["mulpp", "abs", "max", "min", "sq"] + (["ite"] if bools else []) + (["divp"] if divs else [])
    op = rng.choice(ops)
    a = gen_affine(rng, pars, want_vec, depth - 1)
    b = gen_affine(rng, pars, want_vec, depth - 1)
    if op == "mulpp":
        # `*` is the matrix product: at most one vector operand
        b = gen_affine(rng, pars, 0, depth - 1)
        e = {"op": "mul", "a": _force_par(rng, a, pars, want_vec), "b": _force_par(rng, b, pars, 0)}
    elif op == "sq":
        a = _force_par(rng, gen_affine(rng, pars, 0, depth - 1), pars, 0)
        e = {"op": "mul", "a": a, "b": a}
    elif op == "abs":
        e = {"op": "abs", "a": _force_par(rng, a, pars, want_vec)}
    elif op in ("max", "min"):
        e = {"op": op, "a": _force_par(rng, a, pars, want_vec), "b": b}
    elif op == "ite":
        # both branches of if_else must have one shape: scalars
        e = {"op": "ite", "c": rng.choice(bools), "a": gen_affine(rng, pars, 0, depth - 1), "b": gen_affine(rng, pars, 0, depth - 1)}
    else:
        e = {"op": "div", "a": a, "b": {"op": "par", "i": rng.choice(divs), "el": None}}
    if rng.random() < 0.4:
        e = {"op": rng.choice(["add", "sub"]), "a": e, "b": gen_affine(rng, pars, want_vec, 1)}
    return e


def _has_par(e):
    if e["op"] == "par":
        return True
    return any(_has_par(e[k]) for k in ("a", "b") if k in e) or e["op"] == "ite"


def _force_par(rng, e, pars, want_vec):
    if _has_par(e):
        return e
    cand = [i for i, p in enumerate(pars) if p["type"] != "Boolean" and not p["dims"]]
    if not cand:
        return e
    return {"op": "add", "a": e, "b": {"op": "par", "i": rng.choice(cand), "el": None}}


def vec_len(e, pars):
    """number of elements of the value of an expression (1 = scalar)"""
    if e["op"] == "par":
        p = pars[e["i"]]
        return p["dims"][0] if p["dims"] and e["el"] is None else 1
    if e["op"] == "num":
        return 1
    return max([vec_len(e[k], pars) for k in ("a", "b") if k in e] or [1])


def gen_decl(rng, typ, dims, attr, pars, style):
    """declaration of one attribute of a variable of type `typ` and shape `dims`"""
    n = numel(dims)
    r = rng.random()
    exprs_ok = typ == "Real" and attr != "fixed" and pars
    if exprs_ok and rng.random() < 0.08:
        # a coefficient and/or a constant term of very small magnitude: c*p, c*p + d, p*c - d
        sc = [i for i, p in enumerate(pars) if p["type"] == "Real" and not p["dims"]]
        if sc:
            tiny = lambda: {"op": "num", "v": xj(Fraction(rng.choice([-5, -3, 1, 3, 5, 7]), 2 ** rng.choice([33, 36, 40]))), "int": False}
            par = {"op": "par", "i": rng.choice(sc), "el": None}
            e = {"op": "mul", "a": tiny(), "b": par} if rng.random() < 0.5 else {"op": "mul", "a": par, "b": tiny()}
            if rng.random() < 0.5:
                e = {"op": rng.choice(["add", "sub"]), "a": e, "b": tiny()}
            return {"k": "expr", "e": e}
    if exprs_ok and style == "piecewise" and r < 0.25:
        # everything else in the model is in the strict affine forms; the only non-affine operation is ONE kind of
        # piecewise-linear function (zero Hessian wherever it is differentiable, not affine)
        want = dims[0] if len(dims) == 1 else 0
        a = _force_par(rng, gen_affine(rng, pars, want, 1), pars, want)
        e = {"op": "abs", "a": a} if PIECE[0] == "abs" else {"op": PIECE[0], "a": a, "b": gen_affine(rng, pars, 0, 1)}
        r2 = rng.random()
        if r2 < 0.25:
            e = {"op": "neg", "a": e}
        elif r2 < 0.5:
            e = {"op": "add", "a": e, "b": gen_const(rng)}
        return {"k": "expr", "e": e}
    if exprs_ok and style == "cubic" and r < 0.3:
        # a monomial of degree >= 3 in the parameters, written with * only and a leading constant (no x*x node -> no
        # OP_SQ, no factor 2 -> no OP_TWICE): every operation is "allowed" and the Hessian vanishes AT p = 0 only
        sc = [i for i, p in enumerate(pars) if p["type"] == "Real" and not p["dims"]]
        if sc:
            c = rng.choice([3, Fraction(1, 2), Fraction(3, 2), -3, 4, Fraction(1, 4), 5])
            fs = [{"op": "par", "i": rng.choice(sc), "el": None} for _ in range(rng.choice([3, 3, 4]))]
            e = {"op": "mul", "a": {"op": "num", "v": xj(c), "int": False}, "b": fs[0]}
            if rng.random() < 0.5:
                for f in fs[1:]:
                    e = {"op": "mul", "a": e, "b": f}                       # ((c*a)*b)*d
            else:
                t = fs[-1]
                for f in reversed(fs[1:-1]):
                    t = {"op": "mul", "a": f, "b": t}                       # (c*a)*(b*d)
                e = {"op": "mul", "a": e, "b": t}
            if rng.random() < 0.3:
                e = {"op": "add", "a": e, "b": gen_affine(rng, pars, 0, 1)}
            return {"k": "expr", "e": e}
    if exprs_ok and style == "bilinear" and r < 0.2:
        # only operations the affinity test allows (+ - * /), but a non-zero Hessian: p*(q+c), c/p
        sc = [i for i, p in enumerate(pars) if p["type"] == "Real" and not p["dims"]]
        if sc:
            a = {"op": "par", "i": rng.choice(sc), "el": None}
            b = {"op": "add", "a": {"op": "par", "i": rng.choice(sc), "el": None}, "b": gen_const(rng)}
            divs = [i for i in sc if pars[i].get("divisor")]
            if divs and rng.random() < 0.3:
                return {"k": "expr", "e": {"op": "div", "a": gen_const(rng), "b": {"op": "par", "i": rng.choice(divs), "el": None}}}
            return {"k": "expr", "e": {"op": "mul", "a": a, "b": b}}
    if exprs_ok and r < (0.45 if style != "nonaffine" else 0.6):
        want = dims[0] if len(dims) == 1 else 0
        if style == "nonaffine" and rng.random() < 0.5 or style == "mixed" and rng.random() < 0.25:
            e = gen_nonaffine(rng, pars, want, 2)
        else:
            e = gen_affine(rng, pars, want, 3)
        if len(dims) == 2 and vec_len(e, pars) > 1:
            e = gen_affine(rng, [p for p in pars], 0, 2)
        return {"k": "expr", "e": e}
    if typ == "Integer" and attr != "fixed" and 0.15 <= r < 0.3:
        # a constant expression: `*` of two integer literals is folded by the walk (ca.mtimes -> 1x1 DM)
        e = {"op": "mul", "a": {"op": "num", "v": xj(rng.randint(-4, 4)), "int": True},
             "b": {"op": "num", "v": xj(rng.randint(1, 4)), "int": True}}
        if rng.random() < 0.3:
            e = {"op": "neg", "a": e}
        return {"k": "expr", "e": e}
    if (typ == "Boolean" or (attr == "fixed" and typ != "Real")) and r < 0.3:
        return {"k": "notlit", "v": rng.random() < 0.5}                     # `not true` / `not false`
    if typ == "Integer" and attr != "fixed" and pars and r < 0.15:
        ints = [i for i, p in enumerate(pars) if p["type"] == "Integer" and not p["dims"]]
        if ints:
            e = {"op": "par", "i": rng.choice(ints), "el": None}
            if rng.random() < 0.5:
                e = {"op": "mul", "a": {"op": "num", "v": xj(rng.choice([2, 3, -1])), "int": True}, "b": e}
            return {"k": "expr", "e": e}
    if dims and attr == "fixed" and r < 0.5:
        # element-wise flags: an array literal of Booleans with mixed elements
        n = numel(dims)
        flags = [rng.random() < 0.5 for _ in range(n)]
        if all(flags) or not any(flags):
            flags[rng.randrange(n)] = not flags[0]
        lits = [{"t": "bool", "v": f} for f in flags]
        if len(dims) == 1:
            return {"k": "arr", "rows": [[x] for x in lits], "d": 1}
        return {"k": "arr", "rows": [lits[i * dims[1]:(i + 1) * dims[1]] for i in range(dims[0])], "d": 2}
    if len(dims) == 2 and dims[0] == dims[1] and typ != "Boolean" and attr != "fixed" and r < 0.3:
        # identity(n) / diagonal({..}): sparse DM constants whose structural zeros are elements too
        n = dims[0]
        if rng.random() < 0.4:
            d, f = [Fraction(1)] * n, "identity"
        else:
            c = Fraction(rng.randint(-5, 5)) if typ == "Integer" else dy(rng)
            d = [c] * n if rng.random() < 0.5 else [Fraction(rng.randint(-5, 5)) if typ == "Integer" else dy(rng) for _ in range(n)]
            f = "diagonal"
        return {"k": "dmat", "f": f, "d": [xj(x) for x in d],
                "rows": [[xj(d[i] if i == j else 0) for j in range(n)] for i in range(n)]}
    if dims and attr != "fixed" and r < 0.75:
        if rng.random() < 0.25 and typ != "Boolean":
            which = rng.choice(["zeros", "ones", "fill"])
            v = {"zeros": Fraction(0), "ones": Fraction(1)}.get(which)
            if v is None:
                v = Fraction(rng.randint(-5, 5)) if typ == "Integer" else dy(rng)
            return {"k": "dm", "f": which, "v": xj(v)}
        if len(dims) == 1:
            return {"k": "arr", "rows": [[gen_lit(rng, typ, "start")] for _ in range(dims[0])], "d": 1}
        return {"k": "arr", "rows": [[gen_lit(rng, typ, "start") for _ in range(dims[1])] for _ in range(dims[0])], "d": 2}
    if not dims and typ != "Boolean" and attr != "fixed" and r > 0.95:
        which = rng.choice(["zeros", "ones", "fill"])
        v = {"zeros": Fraction(0), "ones": Fraction(1)}.get(which)
        if v is None:
            v = Fraction(rng.randint(-5, 5)) if typ == "Integer" else dy(rng)
        return {"k": "dm", "f": which, "v": xj(v)}
    return {"k": "lit", "v": gen_lit(rng, typ, attr)}


def dmat_rows(d):
    """element values (rows) of a constant array expression that reaches the model as a DM: the oracle's own
    evaluation of `diagonal(l) * fill(c, n, m) * diagonal(r)` ((i,j) -> l_i * c * r_j), of its transpose / negation
    and of `c * linspace(a, b, n)` (i -> c * (a + i*(b-a)/(n-1)))"""
    if d["f"] == "linspace":
        a, b, n = jx(d["a"]), jx(d["b"]), d["n"]
        c = jx(d["c"]) if d.get("c") is not None else Fraction(1)
        return [[c * (a + (b - a) * i / (n - 1))] for i in range(n)]
    if d["f"] == "prod":
        n, m = d["shape"]
        l = [jx(x) for x in d["l"]] if d.get("l") is not None else [Fraction(1)] * n
        r = [jx(x) for x in d["r"]] if d.get("r") is not None else [Fraction(1)] * m
        if len(l) != n or len(r) != m:
            raise HarnessError("bad constant product %r" % (d,))
        sg = -1 if d.get("neg") else 1
        return [[sg * l[i] * jx(d["c"]) * r[j] for j in range(m)] for i in range(n)]
    return [[jx(x) for x in row] for row in d["rows"]]


def gen_dmconst(rng, typ, dims):
    """a NON-uniform constant array expression CasADi folds to a DM of the variable's shape ([n], [n,1], [1,n], [n,m])"""
    def num(nonzero=True):
        while True:
            v = Fraction(rng.randint(-5, 5)) if typ == "Integer" else dy(rng, -6, 6)
            if v != 0 or not nonzero:
                return v

    def distinct(k):
        xs = [num() for _ in range(k)]
        if len(set(xs)) == 1:
            xs[rng.randrange(k)] += 1 if xs[0] != -1 else 2
        return xs

    if len(dims) == 1 and typ == "Real" and rng.random() < 0.4:
        n = dims[0]
        a = dy(rng, -6, 6)
        step = dy(rng, -3, 3, den=(1, 1, 2))
        while step == 0:
            step = dy(rng, -3, 3, den=(1, 1, 2))
        c = rng.choice([None, None, Fraction(2), Fraction(-3), Fraction(1, 2)])
        d = {"k": "dmat", "f": "linspace", "a": xj(a), "b": xj(a + (n - 1) * step), "n": n, "c": None if c is None else xj(c)}
    else:
        n, m = (dims[0], 1) if len(dims) == 1 else dims
        left = n > 1 and (m == 1 or rng.random() < 0.6)
        right = m > 1 and (not left or rng.random() < 0.5)
        d = {"k": "dmat", "f": "prod", "shape": [n, m], "vec": len(dims) == 1,
             "l": [xj(x) for x in distinct(n)] if left else None, "c": xj(num()),
             "r": [xj(x) for x in distinct(m)] if right else None,
             "neg": rng.random() < 0.2, "tr": len(dims) == 2 and rng.random() < 0.2}
    d["rows"] = [[xj(x) for x in row] for row in dmat_rows(d)]
    return d


def each_dm_on_array(case):
    """open finding C13-F3: an ARRAY variable with a scalar constant expression (`each max = 2*3`, `each nominal =
    0.5 * 4.0`, `each fixed = not true`: a 1x1 DM in the model) -> _expand_vectors indexes the 1x1 DM with the element index"""
    for v in case["vars"]:
        if v["dims"]:
            for d in v["attrs"].values():
                if d["k"] == "notlit" or (d["k"] == "expr" and not _has_par(d["e"])):
                    return True
    return False


def gen_case(rng, stream="main"):
    if stream == "expand-known":
        case = gen_case(rng, "expand")
        typ = rng.choice(["Integer", "Boolean", "Real"])
        a = rng.choice(["start", "fixed"] if typ == "Boolean" else ["min", "max", "start"] if typ == "Real" else ["min", "max", "start", "fixed"])
        if a != "fixed" and typ != "Boolean" and (typ == "Real" or rng.random() < 0.6):
            d = {"k": "expr", "e": {"op": "mul", "a": {"op": "num", "v": xj(rng.randint(-4, 4)), "int": typ == "Integer"},
                                    "b": {"op": "num", "v": xj(rng.randint(1, 4)), "int": True}}}
        else:
            d = {"k": "notlit", "v": rng.random() < 0.5}
        case["vars"].append({"name": "xk", "kind": "alg", "type": typ, "dims": [rng.choice([2, 3])], "attrs": {a: d}})
        case["stream"], case["expand"] = stream, True
        return case
    style = rng.choice(["affine", "rebuild", "rebuild", "bilinear", "cubic", "piecewise", "mixed", "nonaffine", "plain"]) if stream == "main" else "affine"
    STRICT[0] = style in ("rebuild", "bilinear", "cubic", "piecewise")
    PIECE[0] = rng.choice(["abs", "abs", "max", "min"]) if style == "piecewise" else None
    CLUSTER[0] = rng.choice(CLUSTERS) if rng.random() < 0.35 else None
    try:
        return _gen_case(rng, stream, "affine" if style == "rebuild" else style)
    finally:
        STRICT[0] = False
        CLUSTER[0] = None
        PIECE[0] = None


def _gen_case(rng, stream, style):
    npar = rng.choice([0, 1, 2, 2, 3, 4]) if style != "plain" else rng.choice([0, 1])
    if stream != "main" or STRICT[0]:
        npar = max(npar, 1)
    pars = []
    for i in range(npar):
        r = rng.random()
        typ = "Real" if r < 0.7 or STRICT[0] else ("Integer" if r < 0.85 else "Boolean")
        dims = [rng.choice([2, 3])] if typ == "Real" and rng.random() < 0.3 else []
        p = {"name": "p%d" % (i + 1), "kind": "parameter", "type": typ, "dims": dims, "attrs": {}}
        if typ == "Real" and not dims and rng.random() < 0.25:
            p["divisor"] = True
        pars.append(p)
    if stream != "main" and not any(p["type"] == "Real" and not p["dims"] for p in pars):
        pars[0].update(type="Real", dims=[])
    # declared values of the parameters (later ones may depend on earlier ones)
    for i, p in enumerate(pars):
        r = rng.random()
        if r < 0.25:
            continue
        if p["type"] == "Real" and i > 0 and r < 0.5 and not p["dims"]:
            p["attrs"]["value"] = {"k": "expr", "e": gen_affine(rng, pars[:i], 0, 2)}
        elif p["dims"]:
            p["attrs"]["value"] = {"k": "arr", "rows": [[gen_lit(rng, p["type"], "start")] for _ in range(p["dims"][0])], "d": 1}
        else:
            p["attrs"]["value"] = {"k": "lit", "v": gen_lit(rng, p["type"], "value")}
        for a in ("min", "max", "nominal"):
            if p["type"] == "Real" and rng.random() < 0.15:
                p["attrs"][a] = gen_decl(rng, "Real", p["dims"], a, pars[:i], style)
    vars_ = []
    nv = rng.choice([1, 2, 3, 3, 4, 5, 6])
    for i in range(nv):
        r = rng.random()
        typ = "Real" if r < 0.7 else ("Integer" if r < 0.88 else "Boolean")
        kind = rng.choice(["state", "alg", "alg", "input", "constant"]) if typ == "Real" else rng.choice(["alg", "alg", "input", "constant"])
        r = rng.random()
        dims = [] if r < 0.55 else ([rng.choice([2, 3])] if r < 0.82 else [rng.choice([2, 3]), rng.choice([2, 3])])
        if len(dims) == 2 and rng.random() < 0.4:
            dims[1] = dims[0]
        if kind == "constant" and dims and typ != "Real":
            dims = []
        v = {"name": "x%d" % (i + 1), "kind": kind, "type": typ, "dims": dims, "attrs": {}}
        allowed = {"Real": ["min", "max", "start", "fixed", "nominal"], "Integer": ["min", "max", "start", "fixed"],
                   "Boolean": ["start", "fixed"]}[typ]
        for a in allowed:
            if rng.random() < (0.5 if style != "plain" else 0.35):
                v["attrs"][a] = gen_decl(rng, typ, dims, a, pars, style)
        if kind == "constant":
            v["attrs"]["value"] = gen_decl(rng, typ, dims, "value", [], "plain")
            if v["attrs"]["value"]["k"] == "dm" and not dims:
                v["attrs"]["value"] = {"k": "lit", "v": gen_lit(rng, typ, "value")}
        if kind in ("state", "alg") and rng.random() < 0.3:
            # declared in a component class or a base class; some attributes come from a modification in M
            how = rng.choice(["comp", "ext"])
            wrap = {"how": how, "inner": v["name"], "base": {}, "mods": []}
            for a, d in v["attrs"].items():
                if d["k"] in ("lit", "arr", "dm") and rng.random() < 0.5:
                    wrap["base"][a] = d                       # declared in the class, not modified
                else:
                    wrap["mods"].append(a)                    # set by the modification
                    if rng.random() < 0.5:
                        wrap["base"][a] = {"k": "lit", "v": gen_lit(rng, typ, a)}   # ... overriding a declared one
            v["wrap"] = wrap
            if how == "comp":
                v["name"] = "c_%s.%s" % (v["name"], v["name"])
        vars_.append(v)
    if stream == "array-expr":
        # array literals whose elements are parameter expressions, bare references or numbers (former findings
        # C13-F1 / C13-F2), 1-D and 2-D: a matrix literal must come out in the symbol's column-major order
        sc = [i for i, p in enumerate(pars) if p["type"] == "Real" and not p["dims"]]

        def elem(force_par=False, bare_ok=True):
            r = rng.random()
            if r < 0.3 and not force_par:
                v = dy(rng, -4, 4)
                return {"op": "num", "v": xj(v), "int": v.denominator == 1 and rng.random() < 0.5}
            e = {"op": "par", "i": rng.choice(sc), "el": None}
            if r < 0.5 and bare_ok:
                return e
            e = {"op": "mul", "a": {"op": "num", "v": xj(rng.choice([3, -1, Fraction(1, 2), 4])), "int": False}, "b": e}
            if rng.random() < 0.4:
                e = {"op": "add", "a": e, "b": {"op": "num", "v": xj(dy(rng, -3, 3)), "int": False}}
            return e

        for j in range(rng.choice([1, 2])):
            two_d = rng.random() < 0.6
            dims = [rng.choice([2, 3]), rng.choice([2, 3])] if two_d else [rng.choice([2, 3])]
            attrs = {}
            for a in rng.sample(["min", "max", "start", "nominal"], rng.choice([1, 2])):
                if two_d:
                    rows = [[elem() for _ in range(dims[1])] for _ in range(dims[0])]
                    rows[rng.randrange(dims[0])][rng.randrange(dims[1])] = elem(force_par=True)
                    attrs[a] = {"k": "arrexpr", "rows": rows, "bare": any(e["op"] == "par" for r in rows for e in r)}
                else:
                    elems = [elem() for _ in range(dims[0])]
                    elems[rng.randrange(dims[0])] = elem(force_par=True)
                    attrs[a] = {"k": "arrexpr", "elems": elems, "bare": any(e["op"] == "par" for e in elems)}
            kind = rng.choice(["alg", "alg", "state", "input"])
            vars_.append({"name": "x%d" % (nv + 1 + j), "kind": kind, "type": "Real", "dims": dims, "attrs": attrs})
    if stream == "expand":
        # arrays of every shape ([n], [n,1], [1,n], [n,m]) whose attributes are non-uniform constant array
        # expressions (a DM in the model), array literals, fill/ones/zeros, scalars with `each` or parameter
        # expressions; such models are also translated with expand_vectors (one scalar variable per element)
        for j in range(rng.choice([2, 3, 4])):
            typ = "Real" if rng.random() < 0.75 else "Integer"
            n, m = rng.choice([2, 3, 4]), rng.choice([2, 3])
            dims = rng.choice([[n, 1], [n, 1], [n, 1], [1, n], [1, n], [n, m], [n, m], [n]])
            kind = rng.choice(["alg", "alg", "state", "input", "constant"]) if typ == "Real" else rng.choice(["alg", "input"])
            attrs = {}
            for a in (["min", "max", "start", "nominal"] if typ == "Real" else ["min", "max", "start"]):
                if rng.random() < 0.6:
                    attrs[a] = gen_dmconst(rng, typ, dims) if rng.random() < 0.6 else gen_decl(rng, typ, dims, a, pars, style)
            if rng.random() < 0.3:
                attrs["fixed"] = gen_decl(rng, typ, dims, "fixed", pars, style)
            if kind == "constant":
                attrs["value"] = gen_dmconst(rng, typ, dims) if rng.random() < 0.7 else gen_decl(rng, typ, dims, "value", [], "plain")
            vars_.append({"name": "x%d" % (nv + 1 + j), "kind": kind, "type": typ, "dims": dims, "attrs": attrs})
    allv = pars + vars_
    order = list(range(len(vars_)))
    rng.shuffle(order)
    allv = pars + [vars_[i] for i in order]
    npv = rng.choice([2, 3]) if pars else 1
    pvecs = []
    for k in range(npv):
        pv = []
        for p in pars:
            for _ in range(numel(p["dims"])):
                if p["type"] == "Boolean":
                    pv.append(xj(rng.randint(0, 1)))
                elif p["type"] == "Integer":
                    pv.append(xj(rng.randint(-4, 4)))
                elif p.get("divisor"):
                    pv.append(xj(rng.choice([1, 2, 4, -1, -2, -4, Fraction(1, 2)])))
                else:
                    pv.append(xj(dy(rng, -4, 4)))
        pvecs.append(pv)
    if pars and rng.random() < 0.3 and not any(p.get("divisor") for p in pars):
        pvecs[0] = [xj(0)] * len(pvecs[0])
    if pars and style in ("cubic", "bilinear", "piecewise"):
        pvecs[-1] = [x if jx(x) != 0 else xj(rng.choice([1, -1, 2, 3, Fraction(1, 2)])) for x in pvecs[-1]]
    case = {"stream": stream, "vars": allv, "npar": len(pars), "pvecs": pvecs}
    if stream == "expand" or (stream == "main" and rng.random() < 0.15):
        if not each_dm_on_array(case):          # (that class: stream "expand-known", finding C13-F3)
            case["expand"] = True         # additionally observed after simplify({"expand_vectors": True})
    return case


# ---- Modelica text --------------------------------------------------------------------------
def lit_text(l):
    if l["t"] == "bool":
        return "true" if l["v"] else "false"
    if l["t"] == "inf":
        return "-1e999" if l["neg"] else "1e999"
    if l["t"] == "int":
        return str(l["v"])
    return a09.mo_num(jx(l["v"]), real_form=True)


def expr_text(e, pars):
    op = e["op"]
    if op == "par":
        p = pars[e["i"]]
        return p["name"] if e["el"] is None else "%s[%d]" % (p["name"], e["el"])
    if op == "num":
        v = jx(e["v"])
        t = a09.mo_num(abs(v), real_form=not e.get("int"))
        return t if v >= 0 else "(-%s)" % t
    if op == "neg":
        return "(-%s)" % expr_text(e["a"], pars)
    if op in ("add", "sub", "mul", "div"):
        return "(%s %s %s)" % (expr_text(e["a"], pars), {"add": "+", "sub": "-", "mul": "*", "div": "/"}[op], expr_text(e["b"], pars))
    if op == "abs":
        return "abs(%s)" % expr_text(e["a"], pars)
    if op in ("max", "min"):
        return "%s(%s, %s)" % (op, expr_text(e["a"], pars), expr_text(e["b"], pars))
    if op == "ite":
        return "(if %s then %s else %s)" % (pars[e["c"]]["name"], expr_text(e["a"], pars), expr_text(e["b"], pars))
    raise HarnessError("bad expression node %r" % (e,))


def decl_text(d, dims, pars):
    k = d["k"]
    if k == "lit":
        return lit_text(d["v"])
    if k == "expr":
        t = expr_text(d["e"], pars)
        return t[1:-1] if t.startswith("(") and t.endswith(")") and _balanced(t[1:-1]) else t
    if k == "arr":
        if d["d"] == 1:
            return "{" + ", ".join(lit_text(r[0]) for r in d["rows"]) + "}"
        return "{" + ", ".join("{" + ", ".join(lit_text(x) for x in r) + "}" for r in d["rows"]) + "}"
    if k == "arrexpr":
        if "rows" in d:
            return "{" + ", ".join("{" + ", ".join(expr_text(e, pars) for e in r) + "}" for r in d["rows"]) + "}"
        return "{" + ", ".join(expr_text(e, pars) for e in d["elems"]) + "}"
    if k == "notlit":
        return "not true" if d["v"] else "not false"
    if k == "dmat" and d["f"] == "linspace":
        t = "linspace(%s, %s, %d)" % (a09.mo_num(jx(d["a"])), a09.mo_num(jx(d["b"])), d["n"])
        if d.get("c") is not None:
            c = a09.mo_num(jx(d["c"]))
            t = "%s * %s" % (c if jx(d["c"]) > 0 else "(%s)" % c, t)
        return t
    if k == "dmat" and d["f"] == "prod":
        n, m = d["shape"]
        l, r = d.get("l"), d.get("r")
        if d.get("tr"):
            n, m, l, r = m, n, r, l
        vec = lambda xs: "diagonal({%s})" % ", ".join(a09.mo_num(jx(x)) for x in xs)
        fill = "fill(%s, %s)" % (a09.mo_num(jx(d["c"])), str(n) if d.get("vec") else "%d, %d" % (n, m))
        t = " * ".join(([vec(l)] if l is not None else []) + [fill] + ([vec(r)] if r is not None else []))
        if d.get("tr"):
            t = "transpose(%s)" % t
        return "-" + t if d.get("neg") else t
    if k == "dmat":
        if d["f"] == "identity":
            return "identity(%d)" % len(d["d"])
        return "diagonal({%s})" % ", ".join(a09.mo_num(jx(x)) for x in d["d"])
    if k == "dm":
        dd = dims or [1]
        args = ", ".join(str(x) for x in dd)
        if d["f"] == "fill":
            return "fill(%s, %s)" % (a09.mo_num(jx(d["v"])), args)
        return "%s(%s)" % (d["f"], args)
    raise HarnessError("bad declaration %r" % (d,))


def _balanced(t):
    depth = 0
    for ch in t:
        if ch == "(":
            depth += 1
        elif ch == ")":
            depth -= 1
            if depth < 0:
                return False
    return depth == 0


def is_scalar_decl(d, pars):
    if d["k"] in ("lit", "notlit"):
        return True
    if d["k"] == "expr":
        return vec_len(d["e"], pars) == 1
    return False


def var_decl_text(v, attrs, pars, name, with_value=True):
    mods = mods_text(v, attrs, pars, [a for a in ("min", "max", "start", "fixed", "nominal") if a in attrs])
    value = decl_text(attrs["value"], v["dims"], pars) if with_value and attrs.get("value") is not None else None
    prefix = {"parameter": "parameter ", "constant": "constant ", "input": "input "}.get(v["kind"], "")
    dims = "[%s]" % ", ".join(str(x) for x in v["dims"]) if v["dims"] else ""
    return "  %s%s %s%s%s%s;" % (prefix, v["type"], name, dims, "(" + ", ".join(mods) + ")" if mods else "",
                                 " = " + value if value is not None else "")


def mods_text(v, attrs, pars, names):
    out = []
    for a in names:
        d = attrs[a]
        each = "each " if v["dims"] and is_scalar_decl(d, pars) else ""
        out.append("%s%s = %s" % (each, a, decl_text(d, v["dims"], pars)))
    return out


def build_text(case):
    pars = case["vars"][:case["npar"]]
    classes, lines, ext = [], [], []
    for v in case["vars"]:
        w = v.get("wrap")
        if w:
            cname = ("C_" if w["how"] == "comp" else "B_") + w["inner"]
            classes += ["model " + cname, var_decl_text(v, w["base"], pars, w["inner"]), "end %s;" % cname]
            mods = mods_text(v, v["attrs"], pars, [a for a in ("min", "max", "start", "fixed", "nominal") if a in w["mods"]])
            inner = "(%s(%s))" % (w["inner"], ", ".join(mods)) if mods else ""
            if w["how"] == "comp":
                lines.append("  %s c_%s%s;" % (cname, w["inner"], inner))
            else:
                ext.append("  extends %s%s;" % (cname, inner))
        else:
            lines.append(var_decl_text(v, v["attrs"], pars, v["name"]))
    lines = classes + ["model M"] + ext + lines + ["equation"]
    for v in case["vars"]:
        if v["kind"] == "state":
            if not v["dims"]:
                lines.append("  der(%s) = 1;" % v["name"])
            else:
                lines.append("  der(%s) = zeros(%s);" % (v["name"], ", ".join(str(x) for x in v["dims"])))
    lines.append("end M;")
    return "\n".join(lines) + "\n"


# ---- exact evaluation of the declarations (the oracle's own semantics) ----------------------
def par_offsets(pars):
    off, o = [], 0
    for p in pars:
        off.append(o)
        o += numel(p["dims"])
    return off


def ev(e, pars, off, pv):
    """value of an expression at parameter vector pv: list of Fractions (length 1 or the vector length)"""
    op = e["op"]
    if op == "par":
        p = pars[e["i"]]
        if p["dims"] and e["el"] is None:
            return [pv[off[e["i"]] + k] for k in range(p["dims"][0])]
        return [pv[off[e["i"]] + (e["el"] - 1 if e["el"] else 0)]]
    if op == "num":
        return [jx(e["v"])]
    if op == "ite":
        return ev(e["a"] if pv[off[e["c"]]] != 0 else e["b"], pars, off, pv)
    a = ev(e["a"], pars, off, pv)
    if op == "neg":
        return [-x for x in a]
    if op == "abs":
        return [abs(x) for x in a]
    b = ev(e["b"], pars, off, pv)
    n = max(len(a), len(b))
    a = a * n if len(a) == 1 else a
    b = b * n if len(b) == 1 else b
    f = {"add": lambda x, y: x + y, "sub": lambda x, y: x - y, "mul": lambda x, y: x * y, "div": lambda x, y: x / y,
         "max": max, "min": min}[op]
    return [f(x, y) for x, y in zip(a, b)]


def lit_val(l):
    if l["t"] == "bool":
        return Fraction(int(l["v"]))
    if l["t"] == "inf":
        return "-inf" if l["neg"] else "inf"
    if l["t"] == "int":
        return Fraction(l["v"])
    return jx(l["v"])


def declared(v, a, pars, off, pv):
    """element values (column-major, broadcast to the variable's shape) of attribute a of v at pv"""
    n = numel(v["dims"])
    d = v["attrs"].get(a)
    if d is None:
        return [DEFAULT[a]] * n
    if d["k"] == "lit":
        xs = [lit_val(d["v"])]
    elif d["k"] == "notlit":
        xs = [Fraction(0 if d["v"] else 1)]
    elif d["k"] == "dmat":
        rows = dmat_rows(d)
        if rows != [[jx(x) for x in row] for row in d["rows"]]:
            raise HarnessError("constant array expression and its element table differ: %r" % (d,))
        xs = [rows[i][j] for j in range(len(rows[0])) for i in range(len(rows))]
    elif d["k"] == "expr":
        xs = ev(d["e"], pars, off, pv)
    elif d["k"] == "arrexpr":
        if "rows" in d:
            rows = d["rows"]
            xs = [ev(rows[i][j], pars, off, pv)[0] for j in range(len(rows[0])) for i in range(len(rows))]
        else:
            xs = [ev(e, pars, off, pv)[0] for e in d["elems"]]
    elif d["k"] == "dm":
        xs = [jx(d["v"])] * n
    else:
        rows = d["rows"]
        xs = [lit_val(rows[i][j]) for j in range(len(rows[0])) for i in range(len(rows))]
    if len(xs) == 1:
        xs = xs * n
    if len(xs) != n:
        raise HarnessError("generator produced an attribute of %d elements for %d" % (len(xs), n))
    return xs


# ---- real code ------------------------------------------------------------------------------
def observe(model, pvecs):
    import casadi as ca
    from pymoca.backends.casadi.model import _DefaultValue
    out = {"vars": {}, "meta": None, "lists": {}}
    for lst in a09.LISTS + ("der_states",):
        out["lists"][lst] = []
        for v in getattr(model, lst):
            name = v.symbol.name()
            o = {"list": lst, "shape": [v.symbol.size1(), v.symbol.size2()], "ptype": v.python_type.__name__, "attrs": {}}
            for a in ORDER:
                val = getattr(v, a)
                t = a09.tname(val)
                try:
                    vals = [a09.eval_attr(model, val, pv) for pv in pvecs]
                except RuntimeError as e:
                    if "are free" not in str(e):
                        raise
                    vals = None          # an expression of symbols that are not parameters of the model
                o["attrs"][a] = {"t": t, "v": vals}
            out["vars"][name] = o
            out["lists"][lst].append(name)
    f = model.variable_metadata_function
    out["meta"] = [eval_meta(f, pv) for pv in pvecs]
    out["rebuilt"] = f.name_in(0) == "i0" and any(f.instruction_id(k) == ca.OP_MTIMES for k in range(f.n_instructions()))
    return out


def eval_meta(f, pvec):
    import casadi as ca
    if f.n_in() != 1 or f.n_out() != 5:
        raise HarnessError("variable_metadata_function has an unexpected signature: %s" % f)
    if f.size1_in(0) * f.size2_in(0) != len(pvec):
        raise HarnessError("parameter vector of length %d for %s" % (len(pvec), f))
    res = f(ca.DM([float(p) for p in pvec]) if pvec else ca.DM(0, 1))
    out = []
    for o in res:
        full = ca.DM(o).full()
        out.append([[a09.of_float(full[i, j]) for j in range(full.shape[1])] for i in range(full.shape[0])])
    return out


def run_impl(case):
    from pymoca import parser
    from pymoca.backends.casadi import generator as gen
    pvecs = [[jx(x) for x in pv] for pv in case["pvecs"]]
    text = build_text(case)
    try:
        tree = parser.parse(text, bypass_cache=True)
    except Exception as e:
        raise HarnessError("generated model does not parse (%s):\n%s" % (e, text))
    if tree is None or "M" not in tree.classes:
        raise HarnessError("generated model does not parse:\n" + text)
    try:
        model = gen.generate(tree, "M", {})
    except Exception as e:
        if not impl_frames(e.__traceback__):
            raise
        return {"raised": "generate:" + type(e).__name__, "msg": str(e)[:300]}
    try:
        obs = observe(model, pvecs)
    except HarnessError:
        raise
    except Exception as e:
        if not impl_frames(e.__traceback__):
            raise
        return {"raised": "metadata:" + type(e).__name__, "msg": str(e)[:300]}
    obs["raised"] = None
    if case.get("expand"):
        # the same model translated with expand_vectors: one scalar variable per array element
        try:
            model = gen.generate(parser.parse(text, bypass_cache=True), "M", {})
            model.simplify({"expand_vectors": True})
            obs["expanded"] = observe(model, pvecs)
        except HarnessError:
            raise
        except Exception as e:
            if not impl_frames(e.__traceback__):
                raise
            return {"raised": "expand_vectors:" + type(e).__name__, "msg": str(e)[:300]}
    return obs


# ---- direct oracle --------------------------------------------------------------------------
def bcast(xs, n):
    return xs * n if len(xs) == 1 and n > 1 else xs


def oracle(case, obs):
    pars = case["vars"][:case["npar"]]
    off = par_offsets(pars)
    pvecs = [[jx(x) for x in pv] for pv in case["pvecs"]]
    for v in case["vars"]:
        o = obs["vars"].get(v["name"])
        if o is None:
            return ("variable %s is missing from the model's variable lists" % v["name"], v["name"], sorted(obs["vars"]))
        n = numel(v["dims"])
        if o["shape"][0] * o["shape"][1] != n:
            return ("symbol of %s has %s elements" % (v["name"], o["shape"]), n, o["shape"])
        if o["ptype"] != PT[v["type"]]:
            return ("python_type of %s %s" % (v["type"], v["name"]), PT[v["type"]], o["ptype"])
        for a in ORDER:
            got = o["attrs"][a]
            d = v["attrs"].get(a)
            # Python types the property names: defaults, and literals of scalars keep the variable's type
            if d is None and a in ("value", "start", "min", "max", "nominal"):
                want_t = {"value": "float", "start": "_DefaultValue", "min": "float", "max": "float", "nominal": "int"}[a]
                if got["t"] != want_t:
                    return ("undeclared %s of %s is not the default object" % (a, v["name"]), want_t, got["t"])
            if d is not None and d["k"] == "lit" and d["v"]["t"] != "inf" and a != "fixed":
                if got["t"] != PT[v["type"]]:
                    return ("literal %s of %s %s has Python type" % (a, v["type"], v["name"]), PT[v["type"]], got["t"])
            if a == "fixed" and v["type"] != "Real" and got["t"] != "bool" and (d is None or d["k"] == "lit"):
                return ("fixed of %s %s has Python type" % (v["type"], v["name"]), "bool", got["t"])
            # ... and so do constant expressions the translation folds to a number (`max = 2*3`, `start = not false`):
            # whatever is stored as a Python number on an Integer / Boolean variable has that variable's type
            if got["t"] in ("int", "float", "bool") and a != "fixed" and d is not None and got["v"]:
                finite = all(not isinstance(x, str) for vals in got["v"] for x in vals)
                if v["type"] == "Integer" and finite and got["t"] == "float":
                    return ("%s of Integer %s is stored as a Python float" % (a, v["name"]), "int", got["t"])
                if v["type"] == "Boolean" and got["t"] != "bool":
                    return ("%s of Boolean %s is stored as a Python %s" % (a, v["name"], got["t"]), "bool", got["t"])
            if got["v"] is None:
                return ("%s of %s cannot be evaluated (%s)" % (a, v["name"], got["t"]), "numbers", got["t"])
            for k, pv in enumerate(pvecs):
                want = declared(v, a, pars, off, pv)
                have = bcast(got["v"][k], n)
                if have != want:
                    return ("Variable attribute %s of %s at p=%s" % (a, v["name"], [show(x) for x in pv]),
                            [show(x) for x in want], [show(x) for x in got["v"][k]])
    # derivative states carry no declared attribute
    for name in obs["lists"]["der_states"]:
        o = obs["vars"][name]
        for a in ORDER:
            if o["attrs"][a]["v"] is None:
                return ("%s of %s cannot be evaluated" % (a, name), show(DEFAULT[a]), o["attrs"][a]["t"])
            if bcast(o["attrs"][a]["v"][0], 1)[0] != DEFAULT[a] or len(o["attrs"][a]["v"][0]) != 1:
                return ("default %s of %s" % (a, name), show(DEFAULT[a]), [show(x) for x in o["attrs"][a]["v"][0]])
    # the metadata function: rows per scalar element, columns in the order of CASADI_ATTRIBUTES
    byname = {v["name"]: v for v in case["vars"]}
    for k, pv in enumerate(pvecs):
        for li, lst in enumerate(a09.LISTS):
            rows = obs["meta"][k][li]
            offset = 0
            for name in obs["lists"][lst]:
                v = byname.get(name)
                if v is None:
                    return ("unexpected variable %s in %s" % (name, lst), None, name)
                n = numel(v["dims"])
                cols = [declared(v, a, pars, off, pv) for a in ORDER]
                for e in range(n):
                    want = [c[e] for c in cols]
                    have = rows[offset + e] if offset + e < len(rows) else None
                    if have != want:
                        return ("variable_metadata_function, list %s, row %d (element %d of %s) at p=%s"
                                % (lst, offset + e, e, name, [show(x) for x in pv]),
                                [show(x) for x in want], None if have is None else [show(x) for x in have])
                offset += n
            if len(rows) != offset:
                return ("variable_metadata_function, list %s has %d rows" % (lst, len(rows)), offset, len(rows))
    return None


def elements(v):
    """[(name of the scalar variable element e of v is expanded into, column-major position of e)] in Modelica's
    index notation x[i], x[i,j]; a scalar is its own only element"""
    dims = v["dims"]
    if not dims:
        return [(v["name"], 0)]
    if len(dims) == 1:
        return [("%s[%d]" % (v["name"], i + 1), i) for i in range(dims[0])]
    return [("%s[%d,%d]" % (v["name"], i + 1, j + 1), i + j * dims[0]) for i in range(dims[0]) for j in range(dims[1])]


def oracle_expanded(case, obs):
    """the property on the model with expand_vectors: element [i,j] of every array variable is a scalar variable
    carrying element [i,j] of every declared attribute (Variable objects and metadata rows)"""
    pars = case["vars"][:case["npar"]]
    off = par_offsets(pars)
    pvecs = [[jx(x) for x in pv] for pv in case["pvecs"]]
    where = {}
    for v in case["vars"]:
        for name, pos in elements(v):
            where[name] = (v, pos)
            o = obs["vars"].get(name)
            if o is None:
                return ("expand_vectors: variable %s is missing from the model's variable lists" % name, name, sorted(obs["vars"]))
            if o["list"] != KIND_LIST[v["kind"]]:
                return ("expand_vectors: %s is in list" % name, KIND_LIST[v["kind"]], o["list"])
            if o["shape"] != [1, 1]:
                return ("expand_vectors: symbol of %s has shape" % name, [1, 1], o["shape"])
            if o["ptype"] != PT[v["type"]]:
                return ("expand_vectors: python_type of %s %s" % (v["type"], name), PT[v["type"]], o["ptype"])
            for a in ORDER:
                got = o["attrs"][a]
                d = v["attrs"].get(a)
                if d is None and a in ("value", "start", "min", "max", "nominal"):
                    want_t = {"value": "float", "start": "_DefaultValue", "min": "float", "max": "float", "nominal": "int"}[a]
                    if got["t"] != want_t:
                        return ("expand_vectors: undeclared %s of %s is not the default object" % (a, name), want_t, got["t"])
                if got["v"] is None:
                    return ("expand_vectors: %s of %s cannot be evaluated (%s)" % (a, name, got["t"]), "numbers", got["t"])
                if got["t"] in ("int", "float", "bool") and a != "fixed" and d is not None and d["k"] != "arr":
                    # (elements of an array literal are stored as written, `{1, 2.0}`: same as without expand_vectors)
                    finite = all(not isinstance(x, str) for vals in got["v"] for x in vals)
                    if v["type"] == "Integer" and finite and got["t"] == "float":
                        return ("expand_vectors: %s of Integer %s is stored as a Python float" % (a, name), "int", got["t"])
                for k, pv in enumerate(pvecs):
                    want = [declared(v, a, pars, off, pv)[pos]]
                    if got["v"][k] != want:
                        return ("expand_vectors: Variable attribute %s of %s at p=%s" % (a, name, [show(x) for x in pv]),
                                [show(x) for x in want], [show(x) for x in got["v"][k]])
    for name in obs["lists"]["der_states"]:
        o = obs["vars"][name]
        for a in ORDER:
            if o["attrs"][a]["v"] is None:
                return ("expand_vectors: %s of %s cannot be evaluated" % (a, name), show(DEFAULT[a]), o["attrs"][a]["t"])
            if o["attrs"][a]["v"][0] != [DEFAULT[a]]:
                return ("expand_vectors: default %s of %s" % (a, name), show(DEFAULT[a]), [show(x) for x in o["attrs"][a]["v"][0]])
    for k, pv in enumerate(pvecs):
        for li, lst in enumerate(a09.LISTS):
            rows = obs["meta"][k][li]
            names = obs["lists"][lst]
            for r, name in enumerate(names):
                if name not in where:
                    return ("expand_vectors: unexpected variable %s in %s" % (name, lst), None, name)
                v, pos = where[name]
                want = [declared(v, a, pars, off, pv)[pos] for a in ORDER]
                have = rows[r] if r < len(rows) else None
                if have != want:
                    return ("expand_vectors: variable_metadata_function, list %s, row %d (%s) at p=%s"
                            % (lst, r, name, [show(x) for x in pv]),
                            [show(x) for x in want], None if have is None else [show(x) for x in have])
            if len(rows) != len(names):
                return ("expand_vectors: variable_metadata_function, list %s has %d rows" % (lst, len(rows)), len(names), len(rows))
    return None


def nontrivial(case):
    for v in case["vars"]:
        for a, d in v["attrs"].items():
            if d["k"] in ("expr", "arr", "dm", "arrexpr", "notlit", "dmat"):
                return True
            if d["k"] == "lit" and d["v"]["t"] != {"Real": "real", "Integer": "int", "Boolean": "bool"}[v["type"]]:
                return True
    return False


# ---- Lean model -----------------------------------------------------------------------------
def compare_model(ctx, case, obs, drv):
    ans = drv.ask({"op": "attrs", "vars": case["vars"], "npar": case["npar"], "pvecs": case["pvecs"]})
    if not ans.get("ok"):
        raise HarnessError("drv_c13 rejected a case: %s" % json.dumps(ans)[:400])
    for v, mv in zip(case["vars"], ans["vars"]):
        o = obs["vars"].get(v["name"])
        if o is None:
            continue
        if mv["ptype"] != o["ptype"]:
            ctx.disagreement("attrs.ptype", dict(case, var=v["name"]), mv["ptype"], o["ptype"])
            return
        for a in ORDER:
            m, g = mv["attrs"][a], o["attrs"][a]
            if m["t"] != g["t"]:
                ctx.disagreement("attrs.kind", dict(case, var=v["name"], attr=a), m["t"], g["t"])
                return
            # element values are compared after the scalar broadcast: CasADi may simplify a vector expression to a
            # scalar one ((q + 5*p) + (-q) -> 5*p), which changes the number of stored elements, not their values
            n = numel(v["dims"])
            gv = [bcast([xj(x) for x in vals], n) for vals in g["v"]]
            mvv = [bcast(list(vals), n) for vals in m["v"]]
            if mvv != gv:
                ctx.disagreement("attrs.value", dict(case, var=v["name"], attr=a), mvv, gv)
                return
    byname = {v["name"]: i for i, v in enumerate(case["vars"])}
    lists = [[byname[n] for n in obs["lists"][lst]] for lst in a09.LISTS]
    ans = drv.ask({"op": "meta", "vars": case["vars"], "npar": case["npar"], "pvecs": case["pvecs"], "lists": lists})
    if not ans.get("ok"):
        raise HarnessError("drv_c13 rejected a case: %s" % json.dumps(ans)[:400])
    ctx.count("model-rebuild" if ans["affine"] else "model-direct")
    impl = [[[[xj(x) for x in row] for row in mat] for mat in m] for m in obs["meta"]]
    if ans["meta"] != impl:
        ctx.disagreement("meta", case, ans["meta"], impl)


# ---- one case -------------------------------------------------------------------------------
def check_case(ctx, case, drv):
    obs = run_impl(case)
    if obs["raised"]:
        ctx.count("raised:" + obs["raised"])
        ctx.violation("%s raised on a generated model" % obs["raised"], dict(case, text=build_text(case)),
                      expected="Variable attributes and a metadata function", observed=obs, kind="input")
        return
    ctx.count("impl-rebuild" if obs["rebuilt"] else "impl-direct")
    bad = oracle(case, obs)
    if bad:
        ctx.violation(bad[0], dict(case, text=build_text(case)), expected=bad[1], observed=bad[2], kind="input")
        return
    if "expanded" in obs:
        ctx.count("expand_vectors")
        bad = oracle_expanded(case, obs["expanded"])
        if bad:
            ctx.violation(bad[0], dict(case, text=build_text(case)), expected=bad[1], observed=bad[2], kind="input")
            return
    if drv is not None:
        compare_model(ctx, case, obs, drv)


def stats(ctx, case):
    ctx.count("stream-" + case["stream"])
    ctx.count("npar-%d" % case["npar"])
    for v in case["vars"]:
        ctx.count("var-%s-%s-%dd" % (v["kind"], v["type"], len(v["dims"])))
        if v.get("wrap"):
            ctx.count("declared-in-%s-modified-%d" % (v["wrap"]["how"], len(v["wrap"]["mods"])))
        for a, d in v["attrs"].items():
            ctx.count("decl-" + d["k"])
            if d["k"] == "dmat":
                ctx.count("dmat-%s-%s" % (d["f"], "x".join("n" if x > 1 else "1" for x in v["dims"])))
            if d["k"] == "expr":
                ctx.count("expr-" + ("affine" if affine(d["e"]) else "nonaffine"))


def affine(e):
    op = e["op"]
    if op in ("par", "num"):
        return True
    if op == "neg":
        return affine(e["a"])
    if op in ("add", "sub"):
        return affine(e["a"]) and affine(e["b"])
    if op == "mul":
        return (affine(e["a"]) and not _has_par(e["b"])) or (affine(e["b"]) and not _has_par(e["a"]))
    if op == "div":
        return affine(e["a"]) and not _has_par(e["b"])
    return False


def run(ctx):
    from harness import corpus
    drv = ctx.driver("drv_c13")
    quick = ctx.tier == "quick"
    for c in corpus.load("C13"):
        ctx.count("corpus")
        check_case(ctx, c["case"] if "case" in c else c, drv)
    plan = [("array-expr", 30 if quick else 300), ("expand", 50 if quick else 500), ("expand-known", 4 if quick else 20), ("main", 450 if quick else 4000)]
    for stream, n in plan:
        for i in range(n):
            if ctx.time_left() < 0:
                ctx.notes.append("stream %s stopped by the time budget after %d cases" % (stream, i))
                break
            case = gen_case(ctx.rng, stream)
            ctx.case(case, nontrivial=nontrivial(case), key=[build_text(case), case["pvecs"]])
            stats(ctx, case)
            check_case(ctx, case, drv)


def search(ctx):
    while ctx.time_left() > 0 and not ctx.violations:
        case = gen_case(ctx.rng, ctx.rng.choice(["main", "main", "expand"]))
        ctx.case(case, nontrivial=nontrivial(case), key=[build_text(case), case["pvecs"]])
        ctx.count("search")
        obs = run_impl(case)
        if obs["raised"]:
            ctx.violation("%s raised on a generated model" % obs["raised"], dict(case, text=build_text(case)), observed=obs)
            continue
        bad = oracle(case, obs) or ("expanded" in obs and oracle_expanded(case, obs["expanded"])) or None
        if bad:
            ctx.violation(bad[0], dict(case, text=build_text(case)), expected=bad[1], observed=bad[2])


def replay(ctx, payload):
    cases = [payload["case"]] if "case" in payload else [d["case"] for d in payload.get("details", []) if d.get("case")]
    for case in cases:
        _replay_one(ctx, dict(case))


def _replay_one(ctx, case):
    for k in ("text", "var", "attr"):
        case.pop(k, None)
    check_case(ctx, case, ctx.driver("drv_c13"))


MANIFEST = dict(
    level_text="Lean 4 theorems about an executable model of attribute extraction (`_ast_symbols_to_variables`: coercion of "
               "literals and DM scalars to the variable's Python type, defaults of `Variable`) and of "
               "`variable_metadata_function` (columns per attribute, rows per scalar element with offset = sum of numel, "
               "scalar broadcast, and the affine rebuild J(0)*p + f(0), proved exact for every expression that passes the "
               "affinity test, for all parameter vectors), tied to the real generator by a per-run differential "
               "correspondence (stored kinds, element values, metadata matrices at exact parameter vectors) and a direct "
               "exact-arithmetic oracle of the declared expressions.",
    level_note="Trusted: Lean kernel + standard axioms; the harness; CasADi's symbolic differentiation and evaluation at "
               "exactly representable points. The theorems are about the model.",
    technique="Lean 4 proof (structural induction over expressions and variable lists) + model/implementation correspondence",
)
READY = True
