/-! # C04 — property theorems (stub: not built yet) -/
