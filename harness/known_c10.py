"""Predicates of the open findings of C10 (see known/C10.json)."""
from harness.common import known_predicate


def _desc(case):
    if case.get("kind") == "text":
        return case["desc"]["vars"]
    if case.get("kind") == "ast":
        return [{"name": s["name"], "type": s["type"], "prefixes": s["prefixes"], "dims": s.get("dims") or [],
                 "nested": False} for s in case["spec"]["symbols"]]
    return []


@known_predicate
def c10_string_output(case, what):
    """C10-F1: a top-level, non-constant, non-parameter, non-input String variable with the `output` prefix makes
    `Generator.exitClass` raise AttributeError while it builds `Model.outputs` (StringVariable has no `.symbol`)."""
    if "AttributeError" not in what:
        return False
    for v in _desc(case):
        p = v["prefixes"]
        if (v["type"] == "String" and "output" in p and not v.get("nested") and 0 not in v["dims"]
                and not ({"constant", "parameter", "input"} & set(p))):
            return True
    return False


@known_predicate
def c10_index_shadow(case, what):
    """C10-F2: a model variable has the name of a for-loop index and der() is applied *inside that loop* to something
    subscripted by the index (`Real i; for i in 1:2 loop der(v[i]) = ...`): StateAnnotator looks the index up as a model
    variable and marks the variable `i` as a state although it is not differentiated."""
    if case.get("kind") == "text":
        hit = bool(case["desc"].get("shadow_der_in_loop"))
    elif case.get("kind") in ("ast", "annot"):
        from harness.props import c10
        hit = bool(c10.desc_of_ast_spec(case["spec"]).get("shadow_der_in_loop"))
    else:
        hit = False
    return hit and ("differs from" in what or "differ from" in what)
