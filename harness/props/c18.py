"""C18 — vector expansion is a faithful renaming to scalars.

Real code: `pymoca.backends.casadi.model.Model._expand_vectors` (option `expand_vectors`), reached
through `generator.generate` + `Model.simplify`, in-process.

Direct oracle (this file, independent of the Lean model): for a generated Modelica program the
expanded model `m1` is compared with the unexpanded model `m0` and with the declarations:
  * names: every array variable of every group is replaced, in place, by its scalars named with
    1-based indices per nesting level (`a[2].c[1,3]`, `der(x[2])`), in row-major index order;
  * attributes: scalar (i,j,…) carries element (i,j,…) of each attribute (or the scalar);
  * residual: `m1.dae_residual_function` at the renamed exact point equals the column-major
    flattening of `m0.dae_residual_function` at the point (same for delay arguments);
  * outputs and delay states are renamed the same way.
Tie: the Lean model `PymocaVerif.Model.VecExpand` (driver `drv_c18`) is asked for the names, the
index enumeration, the attribute element selection, the output/delay renaming and the value of
the expanded residual (core expression fragment) and compared with the real code.
"""
import json
import logging
import math
from fractions import Fraction

from harness.common import HarnessError
from harness.gen import a11_c18 as G

DRIVERS = ["drv_c18"]
RULE = ("generated Modelica programs (1-D/2-D/3-D arrays incl. column, row and 1x1 matrices, DM-valued attributes from "
        "builtin array constructors, arrays of components holding arrays, two levels of "
        "component nesting, derivatives of arrays, array-valued/each/parameter-dependent attributes (incl. non-scalar "
        "expressions of 1-D/2-D array parameters), Integer and "
        "Boolean arrays, outputs, delays, for-loops, slices); a case is one program compiled with and without "
        "expand_vectors (20% also with expand_mx) and evaluated at two exact integer points; non-trivial = at least "
        "one array variable with two or more elements was expanded and at least one equation refers to it; "
        "distinct = distinct program text")
TRUSTED = ["CasADi evaluates the residual functions of both models faithfully (both sides of the comparison use it)",
           "the Modelica semantics of the core expression fragment in the harness/Lean evaluator (checked each run "
           "against the unexpanded model's own residual)"]
ASSUMPTIONS = ["component names are plain identifiers (no quoted identifiers containing '[', ']', '{', '}' or '.')",
               "3-D arrays are parameters that no equation refers to (the generator rejects anything else); for them "
               "only names and attributes are compared"]

GROUPS = ["states", "der_states", "alg_states", "inputs", "parameters", "constants"]
ATTRS = ("value", "min", "max", "start", "fixed", "nominal")
DEFAULTS = {"value": float("nan"), "min": -float("inf"), "max": float("inf"), "start": 0, "fixed": False, "nominal": 0}


# ---- expected naming (the property statement) -------------------------------------------------
def expected_names(name, parts, levels):
    """`a.c`, parts [a, c], levels [[2],[3]] -> ['a[1].c[1]', ...] in row-major order."""
    pre, post = "", ""
    core = name
    while core.startswith("der(") and core.endswith(")"):
        pre, post, core = pre + "der(", post + ")", core[4:-1]
    dims = G.iter_dims(levels)
    return [pre + G.ref_text(parts, levels, idx) + post for idx in G.ndindex(dims)]


def expected_attr(spec, idx, point):
    if spec is None:
        return None
    f = spec["form"]
    if f == "scalar":
        return spec["v"]
    if f == "full":
        v = spec["v"]
        for i in idx:
            v = v[i]
        return v
    if f == "inner":
        v = spec["v"]
        for i in idx[spec["skip"]:]:
            v = v[i]
        return v
    if f == "innerfill":
        return spec["v"]
    if f == "dm":
        own = list(idx)[spec["skip"]:]
        v = spec["v"]
        return v[own[0]][own[1]] if isinstance(v[0], list) else v[own[0]]
    if f == "pscalar":
        return spec["k"] * point[spec["p"]][0]
    if f == "pvec":
        return spec["k"][idx[-1]] * point[spec["p"]][0]
    if f == "pref":
        if spec["el"] is not None:
            return point[spec["p"]][spec["el"]]
        pos = colmajor_pos(spec["dims"], list(idx)[-len(spec["dims"]):])
        a = point[spec["p"]][pos]
        op = spec.get("op", "ref")
        if op == "smul":
            return spec["k"] * a
        if op == "add":
            return a + point[spec["p2"]][pos]
        if op == "emul":
            return a * point[spec["p2"]][pos]
        return a
    raise HarnessError("attribute spec " + repr(spec))


def same_number(a, b):
    try:
        fa, fb = float(a), float(b)
    except Exception:
        return False
    if math.isnan(fa) or math.isnan(fb):
        return math.isnan(fa) and math.isnan(fb)
    if math.isinf(fa) or math.isinf(fb):
        return fa == fb
    return Fraction(fa) == Fraction(fb)


# ---- the real code ------------------------------------------------------------------------------
def build(text, options, simplify=True):
    """-> ("ok", model) | ("exc", class name, message, in_expand_vectors)"""
    import traceback
    from pymoca import parser
    from pymoca.backends.casadi import generator as gen
    logging.getLogger("pymoca").setLevel(logging.CRITICAL)
    try:
        tree = parser.parse(text)
        if tree is None:
            return ("exc", "ParseError", "parser returned None", False)
        m = gen.generate(tree, "M", options)
        if simplify:
            m.simplify(options)
        return ("ok", m)
    except Exception as e:  # classified by the caller
        tb = traceback.extract_tb(e.__traceback__)
        inside = any(fr.name == "_expand_vectors" for fr in tb)
        return ("exc", type(e).__name__, str(e)[:200], inside)


def eval_attr(v, m, point1):
    """Numeric value of an attribute of an expanded variable (MX attributes are evaluated at the
    parameter/constant values of the point)."""
    import casadi as ca
    import numpy as np
    if isinstance(v, ca.MX):
        syms = [x.symbol for x in m.parameters + m.constants]
        vals = [point1[x.name()] for x in syms]
        f = ca.Function("a", syms, [v])
        r = f(*vals) if syms else f()
        if isinstance(r, (list, tuple)):
            r = r[0]
        r = ca.DM(r)
        if r.numel() != 1:
            return ("shape", tuple(r.shape))
        return float(r)
    if isinstance(v, (list, tuple)):
        return ("list", json.dumps(v, default=str)[:60])
    if isinstance(v, (ca.DM, np.ndarray)):
        if np.prod(np.shape(v)) != 1:
            return ("shape", tuple(np.shape(v)))
        return float(v)
    if isinstance(v, (bool, np.bool_)):
        return bool(v)
    return v


def residual(m, point, which="dae"):
    """Evaluate the residual function at {symbol name: list of values in column-major order}."""
    import casadi as ca
    f = {"dae": lambda: m.dae_residual_function, "initial": lambda: m.initial_residual_function,
         "delay": lambda: m.delay_arguments_function}[which]()
    args = [ca.DM(point["time"])]
    for g in ["states", "der_states", "alg_states", "inputs", "constants", "parameters"]:
        vals = []
        for v in getattr(m, g):
            vals += list(point[v.symbol.name()])
        args.append(ca.DM(vals) if vals else ca.DM.zeros(0, 1))
    out = f(*args)
    if which in ("dae", "initial"):
        if f.n_out() == 0:
            return []
        return [float(x) for x in ca.DM(out).full().flatten(order="F")]
    if not isinstance(out, (list, tuple)):
        out = [out]
    return [[float(x) for x in ca.DM(o).full().flatten(order="F")] for o in out]


def mx_shape(dims):
    if len(dims) == 0:
        return (1, 1)
    if len(dims) == 1:
        return (dims[0], 1)
    if len(dims) == 2:
        return tuple(dims)
    n = 1
    for d in dims:
        n *= d
    return (n, 1)


def colmajor_pos(dims, idx):
    """position of element idx in the column-major data of the unexpanded symbol"""
    if len(dims) <= 1:
        return idx[0] if dims else 0
    if len(dims) == 2:
        return idx[0] + idx[1] * dims[0]
    pos = 0
    for d, i in zip(dims, idx):     # 3-D+: _MTensor keeps a row-major raveled column
        pos = pos * d + i
    return pos


# ---- one case -----------------------------------------------------------------------------------
def var_table(case):
    """All expected unexpanded variables incl. derivatives: name -> (parts, levels, dims)."""
    tab = {}
    for d in case["decls"]:
        tab[d["name"]] = d
    return tab


def check_case(ctx, case, drv):
    text = case["text"]
    opts0 = {}
    opts1 = {"expand_vectors": True}
    if case.get("expand_mx"):
        opts1["expand_mx"] = True
    has3d = any(len(G.iter_dims(d["levels"])) > 2 for d in case["decls"])
    # 3-D arrays exist only with the option: the unexpanded reference is then the generator's output before
    # `simplify` (names, shapes and order only; its residual function cannot be built)
    r0 = build(text, opts0) if not has3d else build(text, {"expand_vectors": True}, simplify=False)
    if r0[0] == "exc":
        ctx.count("unexpanded-model-unsupported:" + r0[1])
        return "unsupported"
    m0 = r0[1]
    r1 = build(text, opts1)
    tab = var_table(case)
    if r1[0] == "exc":
        ctx.count("expanded-raises:" + r1[1])
        ctx.violation("expand_vectors raised %s (%s) on a model that compiles without the option" % (r1[1], r1[2][:60]), case,
                      expected="expanded model", observed="%s: %s" % (r1[1], r1[2]), kind="program")
        model_attr_check(ctx, case, drv, None, raised=r1[1])
        return "raised"
    m1 = r1[1]
    bad = False
    # ---- names, group by group ---------------------------------------------------------------
    block = {}          # unexpanded name -> list of expanded names
    where = {}          # expanded name -> (unexpanded name, idx)
    impl_names = {}
    for g in GROUPS:
        names1 = [v.symbol.name() for v in getattr(m1, g)]
        impl_names[g] = names1
        base = [v.symbol.name() for v in getattr(m0, g)]
        want = []
        for b in base:
            core = b
            while core.startswith("der(") and core.endswith(")"):
                core = core[4:-1]
            d = tab.get(core)
            if d is None:
                if b.startswith("_pymoca_delay_"):
                    v0 = next(v for v in m0.inputs if v.symbol.name() == b)
                    r, c = v0.symbol.shape
                    ex = ["%s[%d,%d]" % (b, i + 1, j + 1) for i in range(r) for j in range(c)]
                    block[b] = ex
                    for n, e in enumerate(ex):
                        where[e] = (b, (n // c, n % c), (r, c))
                    want += ex
                    continue
                ctx.tie_broken("c18:unexpanded-model-differs-from-declarations", {"variable": b, "text": text})
                return "spec-mismatch"
            dims = G.iter_dims(d["levels"])
            if not dims:
                want.append(b)
                block[b] = [b]
                where[b] = (b, (), None)
                continue
            ex = expected_names(b, d["parts"], d["levels"])
            block[b] = ex
            for e, idx in zip(ex, G.ndindex(dims)):
                where[e] = (b, idx, None)
            want += ex
        if names1 != want:
            ctx.violation("expanded %s are not the 1-based, row-major scalar names of the unexpanded variables" % g,
                          case, expected=want, observed=names1, kind="program")
            bad = True
    if bad:
        model_names_check(ctx, case, drv, m0, impl_names)
        return "names"
    ctx.count("arrays-expanded", sum(1 for b, ex in block.items() if len(ex) > 1))
    # ---- exact points -------------------------------------------------------------------------
    import random
    prng = random.Random(json.dumps(case["text"]))
    points = []
    for _ in range(2):
        p0 = {"time": [prng.randint(0, 3)]}
        for b, ex in block.items():
            p0[b] = [0] * len(ex)
        p1 = {"time": p0["time"]}
        for e, (b, idx, dshape) in where.items():
            val = prng.randint(-3, 3)
            core = b
            while core.startswith("der(") and core.endswith(")"):
                core = core[4:-1]
            if dshape is not None:
                pos = idx[0] + idx[1] * dshape[0]
            else:
                pos = colmajor_pos(G.iter_dims(tab[core]["levels"]), idx) if idx else 0
            p0[b][pos] = val
            p1[e] = [val]
        points.append((p0, p1))
    # ---- attributes ------------------------------------------------------------------------------
    impl_attr = {}
    for g in GROUPS:
        if g == "der_states":
            continue
        for v in getattr(m1, g):
            e = v.symbol.name()
            b, idx, dshape = where[e]
            d = tab.get(b)
            if d is None:
                continue
            for a in ATTRS:
                spec = d["attrs"].get(a)
                want = expected_attr(spec, idx, points[0][0]) if spec is not None else DEFAULTS[a]
                try:
                    got = eval_attr(getattr(v, a), m1, points[0][1])
                except Exception as ex:
                    got = ("exc", type(ex).__name__)
                if spec is not None:
                    impl_attr.setdefault((b, a), []).append(got)
                if (isinstance(got, tuple) or not same_number(got, want)) and not bad:
                    ctx.violation("expanded scalar does not carry the matching element of attribute '%s'" % a, case,
                                  expected={"variable": e, "attribute": a, "value": want},
                                  observed={"variable": e, "attribute": a, "value": str(got)}, kind="program")
                    bad = True
    # ---- outputs / delay states ----------------------------------------------------------------------
    if True:
        want_out = [e for o in m0.outputs for e in block.get(o, ["<unknown %s>" % o])]
        if list(m1.outputs) != want_out:
            ctx.violation("outputs are not renamed like the variables", case, expected=want_out,
                          observed=list(m1.outputs), kind="program")
            bad = True
        want_delay = [e for o in m0.delay_states for e in block.get(o, ["<unknown %s>" % o])]
        if list(m1.delay_states) != want_delay:
            ctx.violation("delay states are not renamed like the variables", case, expected=want_delay,
                          observed=list(m1.delay_states), kind="program")
            bad = True
        decl_out = [d["name"] for d in case["decls"] if d["output"]]
        if sorted(decl_out) != sorted(m0.outputs):
            ctx.tie_broken("c18:unexpanded-model-differs-from-declarations", {"outputs": list(m0.outputs), "declared": decl_out})
    # ---- residual ----------------------------------------------------------------------------------------
    res = []
    if not has3d and not bad:
        for p0, p1 in points:
            try:
                r0v = residual(m0, p0)
            except Exception as ex:
                ctx.count("unexpanded-residual-not-evaluable:" + type(ex).__name__)
                break
            try:
                r1v = residual(m1, p1)
            except Exception as ex:
                ctx.violation("the expanded residual function cannot be evaluated (%s)" % type(ex).__name__, case,
                              expected=r0v, observed=str(ex)[:200], kind="program")
                bad = True
                break
            res.append((p0, p1, r0v, r1v))
            if len(r0v) != len(r1v) or any(not same_number(x, y) for x, y in zip(r0v, r1v)):
                ctx.violation("expanded residual differs from the unexpanded residual under the renaming", case,
                              expected={"point": p0, "residual": r0v}, observed={"point": p1, "residual": r1v},
                              kind="program")
                bad = True
                break
            if case.get("ieqs"):
                i0 = residual(m0, p0, "initial")
                try:
                    i1 = residual(m1, p1, "initial")
                except Exception as ex:
                    i1 = ["%s: %s" % (type(ex).__name__, str(ex)[:120])]
                if len(i0) != len(i1) or any(not same_number(x, y) for x, y in zip(i0, i1)):
                    ctx.violation("expanded initial residual differs from the unexpanded one under the renaming", case,
                                  expected={"point": p0, "residual": i0}, observed={"point": p1, "residual": i1},
                                  kind="program")
                    bad = True
                    break
            if m0.delay_states:
                d0 = residual(m0, p0, "delay")
                try:
                    d1 = residual(m1, p1, "delay")
                except Exception as ex:
                    d1 = ["%s: %s" % (type(ex).__name__, str(ex)[:120]), None]
                # m0: [expr_1 (vector), dur_1, ...]; m1: [expr_1[1,1], dur_1, expr_1[2,1], dur_1, ...]
                want = []
                for k in range(0, len(d0), 2):
                    r, c = m0.delay_arguments[k // 2].expr.shape if hasattr(m0.delay_arguments[k // 2].expr, "shape") else (1, 1)
                    # state `name[i,j]` (created in row-major order) delays entry (i, j) of the expression
                    for i in range(r):
                        for j in range(c):
                            want.append([[d0[k][i + j * r]], d0[k + 1]])
                got = [[d1[k], d1[k + 1]] for k in range(0, len(d1), 2)]
                if drv is not None:
                    # model: which storage position of the delayed expression each new delay state reads
                    mwant = []
                    for k in range(0, len(d0), 2):
                        e = m0.delay_arguments[k // 2].expr
                        shp = list(e.shape) if hasattr(e, "shape") else [1, 1]
                        ans = drv.ask({"op": "expand.delayargs", "shape": shp})
                        if not ans.get("ok"):
                            raise HarnessError("drv_c18 rejected expand.delayargs: %s" % ans)
                        mwant += [[[d0[k][p]], d0[k + 1]] for p in ans["positions"]]
                    if json.dumps(mwant) != json.dumps(got):
                        ctx.disagreement("expand.delayargs", case, mwant, got)
                if json.dumps(want) != json.dumps(got):
                    ctx.violation("expanded delay arguments differ from the unexpanded ones under the renaming", case,
                                  expected=want, observed=got, kind="program")
                    bad = True
                    break
    # ---- the Lean model ------------------------------------------------------------------------------------------
    if drv is not None:
        model_names_check(ctx, case, drv, m0, impl_names)
        model_attr_check(ctx, case, drv, impl_attr, point=points[0][0])
        model_outputs_check(ctx, case, drv, m0, m1, block)
        if res:
            model_residual_check(ctx, case, drv, m0, res, block)
    return "bad" if bad else "ok"


# ---- correspondence with the Lean model ---------------------------------------------------------------------
def lv_json(levels):
    return [lv if lv else None for lv in levels]


def model_names_check(ctx, case, drv, m0, impl_names):
    if drv is None:
        return
    for g in GROUPS:
        vars_ = []
        for v in getattr(m0, g):
            ms = v.symbol._modelica_shape
            if v.symbol.name() in m0.delay_states:
                vars_.append({"name": v.symbol.name(), "delay": True, "shape": list(ms)})
            else:
                vars_.append({"name": v.symbol.name(), "delay": False,
                              "levels": [None if lv == (None,) else list(lv) for lv in ms]})
        ans = drv.ask({"op": "expand.names", "vars": vars_})
        if not ans.get("ok"):
            raise HarnessError("drv_c18 rejected expand.names: %s" % ans)
        if ans["names"] != impl_names[g]:
            ctx.disagreement("expand.names", dict(case, group=g), ans["names"], impl_names[g])


def attr_json(spec):
    """The attribute value as `_expand_vectors` sees it, for the model."""
    f = spec["form"]
    if f == "scalar" or f == "pscalar":
        return {"kind": "scalar"}
    if f in ("full", "inner"):
        return {"kind": "list", "v": _ints(spec["v"])}
    if f == "innerfill":
        return {"kind": "dm", "shape": spec["dims"] + [1] * (2 - len(spec["dims"]))}
    if f == "dm":
        v = spec["v"]
        if isinstance(v[0], list):
            r, c = len(v), len(v[0])
            return {"kind": "dm", "shape": [r, c], "data": [v[i][j] for j in range(c) for i in range(r)]}
        return {"kind": "dm", "shape": [len(v), 1], "data": list(v)}
    if f == "pref" and spec["el"] is None:
        return {"kind": "mx", "shape": list(mx_shape(spec["dims"]))}
    if f in ("pvec", "pref"):
        return {"kind": "mxother"}
    raise HarnessError(repr(spec))


def _ints(v):
    if isinstance(v, list):
        return [_ints(x) for x in v]
    return int(v)


def model_attr_check(ctx, case, drv, impl_attr, raised=None, point=None):
    """Element selection: the model's selected elements (or its error) against what the scalars of the real
    expanded model carry (`impl_attr[(variable, attribute)]`, in creation order) or the exception it raised."""
    if drv is None:
        return
    for d in case["decls"]:
        dims = G.iter_dims(d["levels"])
        if not dims:
            continue
        for a, spec in d["attrs"].items():
            aj = attr_json(spec)
            if aj["kind"] in ("scalar", "mxother"):
                continue
            ans = drv.ask({"op": "expand.attr", "dims": dims, "attr": aj, "mode": "current"})
            if not ans.get("ok"):
                raise HarnessError("drv_c18 rejected expand.attr: %s" % ans)
            where = dict(case, variable=d["name"], attribute=a)
            if ans.get("error"):
                if raised is None:
                    ctx.disagreement("expand.attr", where, ans, "impl selected elements")
                    continue
                ctx.count("model-and-impl-raise")
                return      # the implementation stops at the first exception, nothing else to compare
            if raised is not None:
                continue
            got = impl_attr.get((d["name"], a))
            if got is None:
                continue
            if aj["kind"] == "list":
                want = ans["values"]
            elif aj["kind"] == "mx":
                # the model says which storage position of the attribute matrix each scalar reads
                want = []
                for pos in ans["positions"]:
                    a0 = point[spec["p"]][pos]
                    op = spec.get("op", "ref")
                    want.append(spec["k"] * a0 if op == "smul" else a0 + point[spec["p2"]][pos] if op == "add"
                                else a0 * point[spec["p2"]][pos] if op == "emul" else a0)
            elif "data" in aj:
                want = [aj["data"][p_] for p_ in ans["positions"]]
            else:
                want = [spec["v"] for _ in ans["positions"]]
            if len(want) != len(got) or any(not same_number(x, y) for x, y in zip(want, got)):
                ctx.disagreement("expand.attr", where, want, [str(x) for x in got])
    if raised is not None:
        ctx.disagreement("expand.raises", case, "model selects every attribute element", raised)


def model_outputs_check(ctx, case, drv, m0, m1, block):
    order = [v.symbol.name() for g in GROUPS for v in getattr(m0, g)]
    ans = drv.ask({"op": "expand.outputs", "outputs": list(m0.outputs), "delay": list(m0.delay_states),
                   "blocks": [[b, block[b]] for b in order if b in block and block[b] != [b]]})
    if not ans.get("ok"):
        raise HarnessError("drv_c18 rejected expand.outputs: %s" % ans)
    if ans["outputs"] != list(m1.outputs):
        ctx.disagreement("expand.outputs", case, ans["outputs"], list(m1.outputs))
    if ans["delay"] != list(m1.delay_states):
        ctx.disagreement("expand.delay", case, ans["delay"], list(m1.delay_states))


def model_residual_check(ctx, case, drv, m0, res, block):
    """Core-fragment equations: the model's value of each residual, unexpanded and expanded, against the slices of
    the real residual vectors (equation k of the unexpanded model has `numel` entries)."""
    asts = [e["ast"] for e in case["eqs"]]
    if len(asts) != len(m0.equations):
        ctx.count("residual-model-skipped-equation-count")
        return
    sizes = [int(e.numel()) for e in m0.equations]
    offs = [sum(sizes[:k]) for k in range(len(sizes))]
    core = [k for k, a in enumerate(asts) if a is not None]
    if not core:
        ctx.count("residual-model-skipped-noncore")
        return
    decls = []
    for g in GROUPS:
        for v in getattr(m0, g):
            ms = v.symbol._modelica_shape
            if v.symbol.name() in m0.delay_states:
                continue
            decls.append({"name": v.symbol.name(), "levels": [None if lv == (None,) else list(lv) for lv in ms]})
    for p0, p1, r0v, r1v in res:
        ans = drv.ask({"op": "expand.residual", "decls": decls, "eqs": [asts[k] for k in core],
                       "point": {k: [int(x) for x in v] for k, v in p0.items() if k != "time"}})
        if not ans.get("ok"):
            raise HarnessError("drv_c18 rejected expand.residual: %s" % ans)
        if ans.get("error"):
            ctx.disagreement("expand.residual", case, ans["error"], "impl evaluates")
            return
        for n, k in enumerate(core):
            sl0 = r0v[offs[k]:offs[k] + sizes[k]]
            sl1 = r1v[offs[k]:offs[k] + sizes[k]]
            if [Fraction(x) for x in ans["unexpanded"][n]] != [Fraction(x) for x in sl0]:
                ctx.disagreement("expand.residual.unexpanded", dict(case, point=p0, equation=k), ans["unexpanded"][n], sl0)
                return
            if [Fraction(x) for x in ans["expanded"][n]] != [Fraction(x) for x in sl1]:
                ctx.disagreement("expand.residual.expanded", dict(case, point=p0, equation=k), ans["expanded"][n], sl1)
                return
    ctx.count("residual-model-compared")
    ctx.count("residual-model-equations", len(core))


# ---- run ---------------------------------------------------------------------------------------------------------------
def nontrivial(case):
    arr = {d["name"] for d in case["decls"] if len(G.ndindex(G.iter_dims(d["levels"]))) > 1}
    txt = " ".join(e["text"] for e in case["eqs"])
    return any(n.split(".")[0] in txt for n in arr)


def run(ctx):
    from harness import corpus
    drv = ctx.driver("drv_c18")
    for c in corpus.load("C18"):
        ctx.count("corpus")
        ctx.case(c, nontrivial=True, key=c["text"])
        check_case(ctx, c, drv)
    quick = ctx.tier == "quick"
    n = 250 if quick else 6000
    unsupported = 0
    for i in range(n):
        if ctx.time_left() < 0:
            ctx.notes.append("stopped by the time budget after %d programs" % i)
            break
        # "inner": additionally an attribute given inside the class of an array of components (finding C18-F1,
        # fixed in 5f5e413): part of the normal stream
        stream = "inner" if ctx.rng.random() < 0.12 else "main"
        case = G.gen_program(ctx.rng, stream)
        case["expand_mx"] = ctx.rng.random() < 0.2
        ctx.case(case, nontrivial=nontrivial(case), key=case["text"] + str(case["expand_mx"]))
        ctx.count("stream-" + stream)
        for f in case["features"]:
            ctx.count("feature:" + f)
        ctx.count("expand_mx" if case["expand_mx"] else "no-expand_mx")
        r = check_case(ctx, case, drv)
        ctx.count("outcome:" + r)
        if r == "unsupported":
            unsupported += 1
    total = max(1, ctx.stats["stream-main"] + ctx.stats["stream-inner"])
    if unsupported > 0.25 * total:
        ctx.tie_broken("c18:generator-unsupported", "%d of %d generated programs do not compile without expand_vectors" % (unsupported, total))


def replay(ctx, payload):
    check_case(ctx, payload["case"], ctx.driver("drv_c18"))


MANIFEST = dict(
    level_text="Lean 4 theorems about an executable model of Model._expand_vectors (names, index order, substitution "
               "value, attribute element selection, residual under the renaming), tied to the real code by a per-run "
               "differential correspondence on generated Modelica programs and a direct oracle comparing the expanded "
               "with the unexpanded model at exact points.",
    level_note="Trusted: Lean kernel + standard axioms; the harness; CasADi's evaluation of both residual functions. "
               "The model, not the Python, is what the theorems are about.",
    technique="Lean 4 proof (arithmetic identity of reshape/transpose under column-major storage, injectivity of the "
              "naming, structural induction over expressions) + model/implementation correspondence",
)
READY = True
