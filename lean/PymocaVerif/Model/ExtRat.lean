/-!
# Extended rationals

The numbers the attribute models (C13, C16) compute with in the drivers: exact rationals plus the
two infinities that pymoca uses as default bounds (`-np.inf`, `np.inf`).  Order, negation, `max`
and `min` are the ones IEEE doubles / CasADi's `fmax`, `fmin` have on non-NaN values.
Core Lean only.
-/
namespace PymocaVerif

inductive ExtRat where
  | ninf
  | fin (q : Rat)
  | pinf
deriving DecidableEq, Repr, Inhabited

namespace ExtRat

/-- `a ≤ b` as a Boolean. -/
def leb : ExtRat → ExtRat → Bool
  | ninf, _ => true
  | _, pinf => true
  | fin a, fin b => decide (a ≤ b)
  | _, _ => false

instance : LE ExtRat := ⟨fun a b => leb a b = true⟩
instance : LT ExtRat := ⟨fun a b => leb a b = true ∧ ¬ leb b a = true⟩
instance : DecidableLE ExtRat := fun a b => inferInstanceAs (Decidable (leb a b = true))
instance : DecidableLT ExtRat := fun a b => inferInstanceAs (Decidable (leb a b = true ∧ ¬ leb b a = true))

def neg : ExtRat → ExtRat
  | ninf => pinf
  | fin q => fin (-q)
  | pinf => ninf

instance : Neg ExtRat := ⟨neg⟩
instance : Max ExtRat := ⟨fun a b => if a ≤ b then b else a⟩
instance : Min ExtRat := ⟨fun a b => if a ≤ b then a else b⟩
instance : OfNat ExtRat 0 := ⟨fin 0⟩

end ExtRat
end PymocaVerif
