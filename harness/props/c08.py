"""C08 — modifications take effect with Modelica precedence in either spelling.

Tie: generated libraries (harness/gen/a05.py) in which parameters and attributes are modified at
several levels — declaration, type definition, extends clause, enclosing component(s) — with
expressions over names that exist both in the scope where the modification is written and in the
modified class.  Each library keeps its *semantic* modification lists and is spelled in several
ways: S (dotted component path, attributes nested: pymoca's documented form), D (everything
dotted), N (everything nested), M (random mixture), plus the respellings `toNested` / `toDotted`
computed by the Lean model (the functions the spelling theorems are about).  Every spelling is
flattened by the real parser + `tree.flatten` and by the Lean reference (`drv_c08`).
Correspondence: the reference gives the same flat model for every spelling (as proved), and the
real code gives that model too, or rejects a spelling that nests below a component of class
type (which the property allows).
Direct oracle: (i) precedence — `a05.oracle_c08`: value and every attribute of every flat
variable is the outermost applicable modification, with its expression resolved in the instance
where it is written, found by a path-directed search of the description; (ii) metamorphic — all
spellings the real code accepts give one flat model.
"""
import json

from harness import corpus
from harness.common import HarnessError
from harness.gen import a05
from harness.props.c07 import norm, BLOCKING

DRIVERS = ["drv_c08"]
RULE = ("a case is one library with its spellings (S, D, N, M, toNested, toDotted); non-trivial = some flat variable "
        "has an attribute or value for which at least two modifications at different levels compete, or whose "
        "expression mentions a name declared in more than one scope on the instance path; distinct = distinct "
        "semantic library")
TRUSTED = ["the reference semantics PymocaVerif.Flatten (modification environments: declaration < extends clauses, "
           "base-most first < enclosing components, innermost first) is the Modelica meaning of the subset"]
ASSUMPTIONS = ["no `each`, `final`, `redeclare`; a modification list never names the same target twice",
               "type-definition modifications are literals",
               "libraries touching the open findings C07-F1 / C07-F2 are left to C07's finding stream",
               "a rejection (exception) of a spelling by the real code is accepted for spellings that put a "
               "parenthesised modification below a component of class type (a05.triggers label REJ); any other "
               "rejection of a legal library breaks the correspondence"]

STYLES = ["S", "D", "N", "M"]


def competing(lib, target):
    """Does some attribute/value have modifications at two levels, or an expression over a name
    that exists in several scopes on the instance path?"""
    try:
        orc = a05.Oracle(lib)
        orc.flat(target)
    except a05.Reject:
        return False
    names = orc.names
    for (path, attr, w, expr, nalias, kind) in orc.bindings:
        if w is None:
            continue
        if tuple(w) != tuple(path[:-1]) or kind == "ext":
            return True
        for r in a05.expr_refs(expr):
            rn = tuple(n for n, _ in r[1])
            if sum(1 for i in range(len(path)) if tuple(path[:i]) + rn in names) > 1:
                return True
    return False


def check_lib(ctx, gen_or_libs, target, drv):
    """gen_or_libs: {style: lib}.  Returns nothing; reports through ctx."""
    libs = dict(gen_or_libs)
    base = libs["S"]
    # the model's own respellings of the S spelling
    if drv is not None:
        for how in ("nested", "dotted"):
            ans = drv.ask({"op": "respell", "lib": base, "how": how})
            if not ans.get("ok"):
                raise HarnessError("respell failed: %s" % json.dumps(ans)[:300])
            libs["to" + how.capitalize()] = ans["lib"]
    models, obss = {}, {}
    for st, lib in libs.items():
        text = a05.render(lib)
        rep = dict(lib=lib, target=target, spelling=st, text=text)
        if drv is not None:
            ans = drv.ask({"op": "flatten", "lib": lib, "target": target})
            if "text" not in ans:
                raise HarnessError("model driver rejected the description: %s" % json.dumps(ans)[:300])
            if ans["text"] != text:
                raise HarnessError("the two renderers of the description disagree")
            if ans.get("err") == "fuel":
                ctx.disagreement("model-out-of-fuel", rep, "fuel", None)
            models[st] = norm(ans, "C08")
        obs = a05.py_flatten(text, target)
        obss[st] = obs
        ctx.count("spelling-%s-%s" % (st, "ok" if obs["ok"] else "rejected"))
        # (i) precedence on the real code
        r = a05.oracle_c08(lib, target, obs)
        if r is not None:
            ctx.violation(r[0], rep, expected=r[1], observed=r[2], kind="input")
        # correspondence with the reference
        if drv is not None:
            o = norm(obs, "C08")
            if models[st] != o:
                if models[st]["ok"] and not o["ok"] and "REJ" in a05.triggers(lib, target):
                    ctx.count("allowed-rejection")
                else:
                    what = "status" if models[st]["ok"] != o["ok"] else (
                        "variables" if models[st]["vars"] != o["vars"] else "equations")
                    ctx.disagreement("flatten:" + what, rep, models[st], o)
    # spelling invariance of the reference (what Props/C08 proves), observed
    if drv is not None:
        for st in libs:
            if models[st] != models["S"]:
                ctx.disagreement("spelling_invariant", dict(lib=libs[st], target=target, spelling=st,
                                                            text=a05.render(libs[st])), models[st], models["S"])
    # (ii) metamorphic oracle on the real code: accepted spellings agree
    acc = [(st, norm(o, "C08")) for st, o in obss.items() if o["ok"]]
    for st, o in acc[1:]:
        if o != acc[0][1]:
            ctx.violation("two spellings of the same modifications flatten to different models (%s vs %s)" % (acc[0][0], st),
                          dict(lib=libs[st], target=target, spelling=st, text=a05.render(libs[st]),
                               twin=dict(spelling=acc[0][0], lib=libs[acc[0][0]], text=a05.render(libs[acc[0][0]]))),
                          expected=acc[0][1], observed=o, kind="input")
            break


def gen_libs(rng, quick, compete=False):
    n = rng.choice([2, 3, 4, 5] if quick else [2, 3, 4, 5, 6])
    if compete:
        # several levels (declaration, extends clauses of a chain, enclosing components) set the same
        # attribute / binding of one leaf; besides the uniform spellings, two in which every
        # modification site (extends clause / declaration) independently takes one of S, D, N
        g = a05.Gen(rng, n_classes=max(n, 3), mod_rate=0.95, p_nested=rng.choice([0.1, 0.2]), p_pkg=0.4, ref_rate=0.7,
                    p_compete=rng.choice([0.5, 0.8])).build()
    else:
        g = a05.Gen(rng, n_classes=n, mod_rate=rng.choice([0.8, 0.95]), p_nested=rng.choice([0.1, 0.25]),
                    p_pkg=0.4, ref_rate=0.7).build()
    libs = {}
    for st in STYLES:
        libs[st] = g.spelled(lambda i, st=st: st)
    if compete:
        x1 = [rng.choice(["S", "D", "N"]) for _ in g.sites]
        libs["X1"] = g.spelled(lambda i: x1[i])
        # the complement: dotted where X1 nests and the other way round
        libs["X2"] = g.spelled(lambda i: rng.choice(["S", "N"]) if x1[i] == "D" else "D")
    return libs, g.target


def run(ctx):
    drv = ctx.driver("drv_c08")
    quick = ctx.tier == "quick"
    for c in corpus.load("C08"):
        ctx.count("corpus")
        ctx.case({"lib": c["lib"], "target": c["target"]}, nontrivial=True)
        check_lib(ctx, {"S": c["lib"]}, c["target"], drv)
    n_libs = 80 if quick else 1500
    done = tries = 0
    while done < n_libs and tries < 30 * n_libs:
        tries += 1
        if ctx.time_left() < 0:
            ctx.notes.append("stopped by time budget after %d libraries" % done)
            break
        libs, target = gen_libs(ctx.rng, quick)
        trig = a05.triggers(libs["S"], target)
        if trig & {"ILLEGAL", "ILLEGAL-LOCAL"}:
            ctx.count("generator-made-illegal-library-skipped")
            continue
        if trig & BLOCKING:
            ctx.count("skipped-open-C07-finding")
            continue
        done += 1
        for t in trig:
            ctx.count("touches-" + t)
        nt = competing(libs["S"], target)
        ctx.case({"lib": libs["S"], "target": target}, nontrivial=nt)
        ctx.count("competing" if nt else "single-level")
        orc = a05.Oracle(libs["S"])
        orc.flat(target)
        ctx.count("max-competing-modifications-%d" % min(orc.max_candidates, 5))
        kinds = set((k[:4], 0 if w is None else len(p) - 1 - len(w)) for (p, a, w, e, n, k) in orc.bindings)
        for kd, up in kinds:
            ctx.count("winner-%s-%d-levels-up" % (kd, min(up, 3)))
        check_lib(ctx, libs, target, drv)
    ctx.extra["libraries"] = done
    # competing stream (after the main stream, which keeps its random numbers)
    n_comp = 24 if quick else 600
    done_comp = tries = 0
    while done_comp < n_comp and tries < 30 * n_comp:
        tries += 1
        if ctx.time_left() < 0:
            ctx.notes.append("stopped by time budget after %d competing-stream libraries" % done_comp)
            break
        libs, target = gen_libs(ctx.rng, quick, compete=True)
        trig = a05.triggers(libs["S"], target)
        if trig & ({"ILLEGAL", "ILLEGAL-LOCAL"} | BLOCKING):
            ctx.count("competing-stream-skipped-" + ("illegal" if trig & {"ILLEGAL", "ILLEGAL-LOCAL"} else "open-C07-finding"))
            continue
        done_comp += 1
        ctx.count("stream-competing")
        ctx.case({"lib": libs["S"], "target": target}, nontrivial=competing(libs["S"], target))
        for lb in a05.compete_shape(libs["S"], target):
            ctx.count("competing:" + lb)
        check_lib(ctx, libs, target, drv)
    ctx.extra["competing_stream_libraries"] = done_comp


def search(ctx):
    n = 0
    while ctx.time_left() > 0 and not ctx.violations:
        libs, target = gen_libs(ctx.rng, False, compete=n % 2 == 1)
        if a05.triggers(libs["S"], target) & (BLOCKING | {"ILLEGAL", "ILLEGAL-LOCAL"}):
            continue
        n += 1
        check_lib(ctx, libs, target, None)
    ctx.extra["search_libraries"] = n


def replay(ctx, payload):
    cases = [payload["case"]] if "case" in payload else [d["case"] for d in payload.get("details", []) if "case" in d]
    for c in cases:
        libs = {"S": c["lib"]}
        if "twin" in c:
            libs[c["twin"]["spelling"] + "-twin"] = c["twin"]["lib"]
        ctx.case({"lib": c["lib"], "target": c["target"]}, nontrivial=True)
        check_lib(ctx, libs, c["target"], ctx.driver("drv_c08"))


MANIFEST = dict(
    level_text="Lean 4 theorems about the modification environments of an executable reference semantics (desugaring "
               "makes dotted and nested spellings identical, so flattening cannot depend on the spelling; the "
               "modifications reaching a leaf are ordered by the depth of the scope they are written in, so the "
               "outermost one wins; extends-clause modifications override the base class's; every expression is "
               "renamed in the instance where it is written; a modification of an unknown element is rejected), tied "
               "to pymoca by a per-run differential correspondence over several spellings of each generated library, "
               "a direct precedence oracle and a metamorphic spelling oracle on the real code.",
    level_note="Trusted: Lean kernel + standard axioms; the harness; that the reference semantics is the Modelica "
               "meaning of the subset. The reference, not the Python, is what the theorems are about.",
    technique="Lean 4 proof (induction over the instance tree, structural induction over spelled modifications) + "
              "reference/implementation correspondence + metamorphic oracle",
)
READY = True
