import PymocaVerif.Lemmas.Flatten
/-! More fuel never changes a successful result: the theorems' "for every fuel" is about one model. -/
namespace PymocaVerif.Flatten

theorem mapE_mono {α β ε : Type} {f g : α → Except ε β} {l : List α} {r : List β}
    (hfg : ∀ a ∈ l, ∀ b, f a = .ok b → g a = .ok b) (h : mapE f l = .ok r) : mapE g l = .ok r := by
  induction l generalizing r with
  | nil => simpa [mapE] using h
  | cons a as ih =>
    simp only [mapE] at h ⊢
    split at h
    · cases h
    · rename_i b hb
      split at h
      · cases h
      · rename_i bs hbs
        cases h
        rw [hfg a (by simp) b hb, ih (fun x hx => hfg x (by simp [hx])) hbs]

theorem elemOf_mono {f : Nat} {lib : Lib} {t : Ty} {x : Option (String × List (List Mod))}
    (h : elemOf f lib t = .ok x) : elemOf (f + 1) lib t = .ok x := by
  induction f generalizing t x with
  | zero =>
    cases t with
    | builtin b => simpa [elemOf] using h
    | cls p => simp [elemOf] at h
  | succ f ih =>
    cases t with
    | builtin b => simpa [elemOf] using h
    | cls p =>
      simp only [elemOf] at h ⊢
      split at h
      · cases h
      · rename_i d hd
        split at h
        · rename_i hs
          split at h
          · rename_i t' m hex
            split at h
            · cases h
            · rename_i hrec
              cases h
              simp [hs, ih hrec]
            · rename_i b ms hrec
              cases h
              simp [hs, ih hrec]
          · cases h
        · rename_i hs
          cases h
          simp [hs]

theorem firstBad_eq_none {α : Type} {p : α → Bool} {l : List α} (h : ∀ a ∈ l, p a = false) :
    firstBad p l = none := by
  induction l with
  | nil => rfl
  | cons x xs ih =>
    simp only [firstBad, h x (by simp)]
    exact ih fun a ha => h a (by simp [ha])

theorem inheritStep_mono {elem elem' : Ty → Except Err (Option (String × List (List Mod)))}
    {rec rec' : Path → Except Err (List Member)} {tm : Ty × List Mod} {l : List Member}
    (he : ∀ t x, elem t = .ok x → elem' t = .ok x) (hr : ∀ p x, rec p = .ok x → rec' p = .ok x)
    (h : inheritStep elem rec tm = .ok l) : inheritStep elem' rec' tm = .ok l := by
  obtain ⟨b, ms, htb, hel, hrec, hheads, rfl⟩ := inheritStep_ok h
  have hfb : firstBad (fun m => !(Mod.headIn (ms.map (·.comp.name)) m)) tm.2 = none :=
    firstBad_eq_none fun m hm => by simp [hheads m hm]
  simp only [inheritStep, htb, he _ _ hel, hr _ _ hrec, hfb]

theorem membersF_mono {f : Nat} {lib : Lib} {p : Path} {ms : List Member} (h : membersF f lib p = .ok ms) :
    membersF (f + 1) lib p = .ok ms := by
  induction f generalizing p ms with
  | zero => simp [membersF] at h
  | succ f ih =>
    obtain ⟨f', d, inh, hf, hd, hi, rfl⟩ := membersF_ok h
    cases hf
    have := mapE_mono (g := inheritStep (elemOf (f + 1) lib) (membersF (f + 1) lib))
      (fun tm _ l hl => inheritStep_mono (fun t x hx => elemOf_mono hx) (fun p x hx => ih hx) hl) hi
    rw [membersF]
    simp only [hd, this]

theorem memberEqsF_mono {f : Nat} {lib : Lib} {p : Path} {es : List Eqn} (h : memberEqsF f lib p = .ok es) :
    memberEqsF (f + 1) lib p = .ok es := by
  induction f generalizing p es with
  | zero => simp [memberEqsF] at h
  | succ f ih =>
    obtain ⟨f', d, inh, hf, hd, hi, rfl⟩ := memberEqsF_ok h
    cases hf
    have := mapE_mono (g := inheritEqStep (memberEqsF (f + 1) lib))
      (fun tm _ l hl => by
        obtain ⟨b, htb, hrec⟩ := inheritEqStep_ok hl
        unfold inheritEqStep
        rw [htb]
        exact ih hrec) hi
    rw [memberEqsF]
    simp only [hd, this]

theorem instStep_mono {elem elem' : Ty → Except Err (Option (String × List (List Mod)))}
    {rec rec' : Path → Path → List MMod → List Nat → Except Err (List Var × List IEq)}
    {P : Path} {outer : List MMod} {dims : List Nat} {m : Member} {r : List Var × List IEq}
    (he : ∀ t x, elem t = .ok x → elem' t = .ok x)
    (hr : ∀ c P o d x, rec c P o d = .ok x → rec' c P o d = .ok x)
    (h : instStep elem rec P outer dims m = .ok r) : instStep elem' rec' P outer dims m = .ok r := by
  rcases instStep_ok h with ⟨b, tms, hel, hleaf⟩ | ⟨c', hel, hc, hrec⟩
  · unfold instStep
    simp only [he _ _ hel]
    exact hleaf
  · have hel' := he _ _ hel
    unfold instStep
    rw [hc] at hel' ⊢
    simp only [hel']
    exact hr _ _ _ _ _ hrec

theorem instF_mono {f : Nat} {lib : Lib} {c P : Path} {outer : List MMod} {dims : List Nat}
    {r : List Var × List IEq} (h : instF f lib c P outer dims = .ok r) : instF (f + 1) lib c P outer dims = .ok r := by
  induction f generalizing c P outer dims r with
  | zero => simp [instF] at h
  | succ f ih =>
    have h0 := h
    simp only [instF] at h
    split at h
    · cases h
    · rename_i ms hms
      split at h
      · cases h
      · rename_i hdup
        split at h
        · cases h
        · rename_i hfb
          split at h
          · cases h
          · rename_i eqs heqs
            split at h
            · cases h
            · rename_i rs hrs
              cases h
              have := mapE_mono (g := instStep (elemOf (f + 1) lib) (instF (f + 1) lib) P outer dims)
                (fun m _ x hx => instStep_mono (fun t y hy => elemOf_mono hy) (fun c P o d y hy => ih hy) hx) hrs
              rw [instF]
              simp only [membersF_mono hms, hdup, hfb, memberEqsF_mono heqs, this]

theorem instTop_mono {f : Nat} {lib : Lib} {t : Path} {r : List Var × List IEq} (h : instTop f lib t = .ok r) :
    instTop (f + 1) lib t = .ok r := by
  unfold instTop at h ⊢
  split at h
  · cases h
  · cases h
  · rename_i hel
    simp only [elemOf_mono hel, instF_mono h]

theorem flattenF_mono {f : Nat} {lib : Lib} {t : Path} {m : FlatModel} (h : flattenF f lib t = .ok m) :
    flattenF (f + 1) lib t = .ok m := by
  unfold flattenF at h ⊢
  split at h
  · cases h
  · rename_i r hr
    split at h
    · cases h
    · rename_i ri hri
      cases h
      simp only [instTop_mono hr, instTop_mono hri]

theorem flattenF_fuel_le {f f' : Nat} {lib : Lib} {t : Path} {m : FlatModel} (h : flattenF f lib t = .ok m)
    (hle : f ≤ f') : flattenF f' lib t = .ok m := by
  induction hle with
  | refl => exact h
  | step _ ih => exact flattenF_mono ih

end PymocaVerif.Flatten
