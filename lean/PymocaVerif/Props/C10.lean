import PymocaVerif.Lemmas.Classify
import PymocaVerif.Generated.ClassifyTable
/-!
# C10 — the generated CasADi model classifies every variable exactly once

Property theorems only (definitions of the specification predicates `UnderDer`,
`ChildRefUnderDer` and helper lemmas live in `Lemmas/Classify.lean`).  All statements are about
the executable model `Model/Classify.lean` for *arbitrary* symbol tables and AST trees.
-/
namespace PymocaVerif.Classify

/-- The category lists (delay inputs set aside), in the order constants, string constants,
    parameters, string parameters, inputs, states, algebraic states. -/
def Lists.categories (l : Lists) (ndelay : Nat) : List String :=
  l.constants ++ l.stringConstants ++ (l.parameters ++ l.stringParameters) ++ l.inputs.drop ndelay ++
    l.states ++ l.algStates

/-- **der_found_anywhere.** The counter-driven `StateAnnotator` marks exactly the symbols that
    are referenced below a `der(...)` at any nesting depth, anywhere in the class (equations,
    initial equations, bindings, component paths, indices): the symbols it returns are the
    input symbols with `"state"` appended to those in `M`, and `M` is characterised
    structurally by `UnderDer`. -/
theorem der_found_anywhere (syms syms' : List Sym) (t : Node) (h : annotate syms t = some syms') :
    ∃ M : List String, syms' = syms.map (annotateSym M) ∧
      ∀ x, x ∈ M ↔ (x ∈ syms.map (·.name) ∧ UnderDer false t x) := by
  rw [annotate_eq] at h
  by_cases hb : bad false t = true
  · simp [hb] at h
  · simp only [hb, Bool.false_eq_true, if_false, Option.some.injEq] at h
    exact ⟨_, h.symm, fun x => mem_refs_iff _ false t x⟩

example : annotate [⟨"x", [], "Real", 0, []⟩, ⟨"y", ["output"], "Real", 1, []⟩]
    (.mk "Equation" "" false
      [.mk "Expression" "+" false [.mk "Expression" "der" false [.mk "ComponentRef" "x" false []],
                                  .mk "ComponentRef" "y" false []]])
    = some [⟨"x", ["state"], "Real", 0, []⟩, ⟨"y", ["output"], "Real", 1, []⟩] := by decide

/-- Annotation changes nothing but the `"state"` prefix: a symbol carries `"state"` afterwards
    iff it did before or is referenced under a `der`; every other prefix, the name, type, order
    and dimensions are untouched. -/
theorem annotate_state_iff (M : List String) (names : List String) (t : Node)
    (hM : ∀ x, x ∈ M ↔ (x ∈ names ∧ UnderDer false t x)) (s : Sym) (hs : s.name ∈ names) :
    ("state" ∈ (annotateSym M s).prefixes ↔ ("state" ∈ s.prefixes ∨ UnderDer false t s.name)) ∧
    (∀ p, p ≠ "state" → (p ∈ (annotateSym M s).prefixes ↔ p ∈ s.prefixes)) ∧
    (annotateSym M s).name = s.name ∧ (annotateSym M s).type = s.type ∧
    (annotateSym M s).order = s.order ∧ (annotateSym M s).dims = s.dims := by
  unfold annotateSym
  by_cases hc : s.name ∈ M ∧ "state" ∉ s.prefixes
  · rw [if_pos hc]
    have hu := ((hM _).mp hc.1).2
    refine ⟨by simp [hu], ?_, rfl, rfl, rfl, rfl⟩
    intro p hp; simp [hp]
  · rw [if_neg hc]
    refine ⟨?_, fun _ _ => Iff.rfl, rfl, rfl, rfl, rfl⟩
    constructor
    · exact Or.inl
    · rintro (h | h)
      · exact h
      · have hm : s.name ∈ M := (hM _).mpr ⟨hs, h⟩
        by_cases hp : "state" ∈ s.prefixes
        · exact hp
        · exact absurd ⟨hm, hp⟩ hc

example : UnderDer false
    (.mk "Expression" "der" false [.mk "Expression" "*" false [.mk "ComponentRef" "x" false []]]) "x" :=
  .child (List.mem_singleton.mpr rfl) (.child (List.mem_singleton.mpr rfl) (.here rfl rfl rfl))

/-- `annotate_states` raises (AssertionError) exactly when a reference with a child part occurs
    below a `der`. -/
theorem annotate_fails_iff (syms : List Sym) (t : Node) :
    annotate syms t = none ↔ ChildRefUnderDer false t := by
  rw [annotate_eq, ← bad_iff]
  by_cases hb : bad false t = true <;> simp [hb]

example : ChildRefUnderDer false
    (.mk "Expression" "der" false [.mk "ComponentRef" "a" true []]) :=
  .child (List.mem_singleton.mpr rfl) (.here rfl rfl rfl)

/-- **partition.** The delay inputs come first in `inputs`; the seven category lists together
    are a permutation of the names of the non-empty symbols: every flat elementary variable is
    in the lists exactly as often as it is declared. -/
theorem partition (nd : Nat) (syms : List Sym) (l : Lists) (h : exitClass nd syms = some l) :
    l.inputs.take nd = (List.range nd).map delayName ∧
    (l.categories nd).Perm (names (syms.filter (fun s => !s.isEmpty))) := by
  obtain ⟨_, rfl⟩ := exitClass_some h
  constructor
  · simp only [listsOf, take_delays]
  · have h1 := (cats_perm (sortSyms syms)).map (·.name)
    have h2 := ((sortSyms_perm syms).filter (fun s => !s.isEmpty)).map (·.name)
    refine List.Perm.trans ?_ h2
    simp only [Lists.categories, listsOf, drop_delays]
    simpa [names] using h1

/-- **exactly one category.** With distinct symbol names (they are dictionary keys) no name
    occurs twice in the category lists: each variable is in exactly one list, exactly once. -/
theorem exactly_one (nd : Nat) (syms : List Sym) (l : Lists) (h : exitClass nd syms = some l)
    (hn : (names syms).Nodup) : (l.categories nd).Nodup := by
  have hp := (partition nd syms l h).2
  rw [hp.nodup_iff]
  exact List.Nodup.sublist (List.Sublist.map _ List.filter_sublist) hn

example : ∃ l, exitClass 0 [⟨"p", ["parameter", "input"], "Real", 0, []⟩, ⟨"x", ["state"], "Real", 1, []⟩,
      ⟨"e", [], "Real", 2, [0]⟩] = some l ∧
    (names [⟨"p", ["parameter", "input"], "Real", 0, []⟩, ⟨"x", ["state"], "Real", 1, []⟩, ⟨"e", [], "Real", 2, [0]⟩]).Nodup := by
  obtain ⟨l, h⟩ := exitClass_isSome 0 [⟨"p", ["parameter", "input"], "Real", 0, []⟩, ⟨"x", ["state"], "Real", 1, []⟩,
      ⟨"e", [], "Real", 2, [0]⟩] (by decide)
  exact ⟨l, h, by decide⟩

/-- **precedence.** Membership in each list is decided by the first matching test of
    `constant`, `parameter`, `input`, `state` (else algebraic), String-typed constants and
    parameters going to the string lists; only non-empty symbols are listed. -/
theorem precedence (nd : Nat) (syms : List Sym) (l : Lists) (h : exitClass nd syms = some l) (n : String) :
    (n ∈ l.constants ↔ ∃ s ∈ syms, s.name = n ∧ s.isEmpty = false ∧ "constant" ∈ s.prefixes ∧ s.isString = false) ∧
    (n ∈ l.stringConstants ↔ ∃ s ∈ syms, s.name = n ∧ s.isEmpty = false ∧ "constant" ∈ s.prefixes ∧ s.isString = true) ∧
    (n ∈ l.parameters ↔ ∃ s ∈ syms, s.name = n ∧ s.isEmpty = false ∧ "constant" ∉ s.prefixes ∧
        "parameter" ∈ s.prefixes ∧ s.isString = false) ∧
    (n ∈ l.stringParameters ↔ ∃ s ∈ syms, s.name = n ∧ s.isEmpty = false ∧ "constant" ∉ s.prefixes ∧
        "parameter" ∈ s.prefixes ∧ s.isString = true) ∧
    (n ∈ l.inputs.drop nd ↔ ∃ s ∈ syms, s.name = n ∧ s.isEmpty = false ∧ "constant" ∉ s.prefixes ∧
        "parameter" ∉ s.prefixes ∧ "input" ∈ s.prefixes) ∧
    (n ∈ l.states ↔ ∃ s ∈ syms, s.name = n ∧ s.isEmpty = false ∧ "constant" ∉ s.prefixes ∧
        "parameter" ∉ s.prefixes ∧ "input" ∉ s.prefixes ∧ "state" ∈ s.prefixes) ∧
    (n ∈ l.algStates ↔ ∃ s ∈ syms, s.name = n ∧ s.isEmpty = false ∧ "constant" ∉ s.prefixes ∧
        "parameter" ∉ s.prefixes ∧ "input" ∉ s.prefixes ∧ "state" ∉ s.prefixes) := by
  obtain ⟨_, rfl⟩ := exitClass_some h
  have hm : ∀ s, s ∈ sortSyms syms ↔ s ∈ syms := fun s => (sortSyms_perm syms).mem_iff
  have hc := fun (s : Sym) => catOf_cases s.prefixes
  simp only [listsOf, drop_delays]
  simp only [names, List.mem_map, List.mem_filter, mem_pick_iff, hm, Sym.cat, Bool.not_eq_true']
  refine ⟨?_, ?_, ?_, ?_, ?_, ?_, ?_⟩
  · constructor
    · rintro ⟨s, ⟨⟨h1, h2, h3⟩, h4⟩, rfl⟩; exact ⟨s, h1, rfl, h3, (hc s).1.mp h2, h4⟩
    · rintro ⟨s, h1, rfl, h3, h2, h4⟩; exact ⟨s, ⟨⟨h1, (hc s).1.mpr h2, h3⟩, h4⟩, rfl⟩
  · constructor
    · rintro ⟨s, ⟨⟨h1, h2, h3⟩, h4⟩, rfl⟩; exact ⟨s, h1, rfl, h3, (hc s).1.mp h2, h4⟩
    · rintro ⟨s, h1, rfl, h3, h2, h4⟩; exact ⟨s, ⟨⟨h1, (hc s).1.mpr h2, h3⟩, h4⟩, rfl⟩
  · constructor
    · rintro ⟨s, ⟨⟨h1, h2, h3⟩, h4⟩, rfl⟩
      have := (hc s).2.1.mp h2; exact ⟨s, h1, rfl, h3, this.1, this.2, h4⟩
    · rintro ⟨s, h1, rfl, h3, h2, h2', h4⟩; exact ⟨s, ⟨⟨h1, (hc s).2.1.mpr ⟨h2, h2'⟩, h3⟩, h4⟩, rfl⟩
  · constructor
    · rintro ⟨s, ⟨⟨h1, h2, h3⟩, h4⟩, rfl⟩
      have := (hc s).2.1.mp h2; exact ⟨s, h1, rfl, h3, this.1, this.2, h4⟩
    · rintro ⟨s, h1, rfl, h3, h2, h2', h4⟩; exact ⟨s, ⟨⟨h1, (hc s).2.1.mpr ⟨h2, h2'⟩, h3⟩, h4⟩, rfl⟩
  · constructor
    · rintro ⟨s, ⟨h1, h2, h3⟩, rfl⟩
      have := (hc s).2.2.1.mp h2; exact ⟨s, h1, rfl, h3, this⟩
    · rintro ⟨s, h1, rfl, h3, h2⟩; exact ⟨s, ⟨h1, (hc s).2.2.1.mpr h2, h3⟩, rfl⟩
  · constructor
    · rintro ⟨s, ⟨h1, h2, h3⟩, rfl⟩
      have := (hc s).2.2.2.1.mp h2; exact ⟨s, h1, rfl, h3, this⟩
    · rintro ⟨s, h1, rfl, h3, h2⟩; exact ⟨s, ⟨h1, (hc s).2.2.2.1.mpr h2, h3⟩, rfl⟩
  · constructor
    · rintro ⟨s, ⟨h1, h2, h3⟩, rfl⟩
      have := (hc s).2.2.2.2.mp h2; exact ⟨s, h1, rfl, h3, this⟩
    · rintro ⟨s, h1, rfl, h3, h2⟩; exact ⟨s, ⟨h1, (hc s).2.2.2.2.mpr h2, h3⟩, rfl⟩

example : ∃ l, exitClass 0 [⟨"u", ["input", "state"], "Real", 0, []⟩, ⟨"c", ["parameter", "constant"], "Real", 1, []⟩]
    = some l ∧ "u" ∈ l.inputs.drop 0 ∧ "c" ∈ l.constants := by
  obtain ⟨l, h⟩ := exitClass_isSome 0 [⟨"u", ["input", "state"], "Real", 0, []⟩,
      ⟨"c", ["parameter", "constant"], "Real", 1, []⟩] (by decide)
  refine ⟨l, h, ?_, ?_⟩
  · exact (precedence _ _ _ h "u").2.2.2.2.1.mpr ⟨_, List.mem_cons_self, rfl, by decide, by decide, by decide, by decide⟩
  · exact (precedence _ _ _ h "c").1.mpr ⟨_, List.mem_cons_of_mem _ List.mem_cons_self, rfl, by decide, by decide, by decide⟩

/-- **order_preserved.** Every list is a subsequence of the names of the symbols sorted by
    declaration order; that sorted list is ordered, is a permutation of the symbols, and the
    sort is stable (two symbols already in order keep their relative position). -/
theorem order_preserved (nd : Nat) (syms : List Sym) (l : Lists) (h : exitClass nd syms = some l) :
    l.constants.Sublist (names (sortSyms syms)) ∧ l.stringConstants.Sublist (names (sortSyms syms)) ∧
    l.parameters.Sublist (names (sortSyms syms)) ∧ l.stringParameters.Sublist (names (sortSyms syms)) ∧
    (l.inputs.drop nd).Sublist (names (sortSyms syms)) ∧ l.states.Sublist (names (sortSyms syms)) ∧
    l.algStates.Sublist (names (sortSyms syms)) ∧
    (sortSyms syms).Pairwise (fun a b => a.order ≤ b.order) ∧ (sortSyms syms).Perm syms ∧
    (∀ a b, a.order ≤ b.order → [a, b].Sublist syms → [a, b].Sublist (sortSyms syms)) := by
  obtain ⟨_, rfl⟩ := exitClass_some h
  have hp := fun c => pick_sublist (sortSyms syms) c
  refine ⟨?_, ?_, ?_, ?_, ?_, ?_, ?_, sortSyms_sorted syms, sortSyms_perm syms, ?_⟩
  · exact List.Sublist.map _ (List.filter_sublist.trans (hp _))
  · exact List.Sublist.map _ (List.filter_sublist.trans (hp _))
  · exact List.Sublist.map _ (List.filter_sublist.trans (hp _))
  · exact List.Sublist.map _ (List.filter_sublist.trans (hp _))
  · simp only [listsOf, drop_delays]; exact List.Sublist.map _ (hp _)
  · exact List.Sublist.map _ (hp _)
  · exact List.Sublist.map _ (hp _)
  · intro a b hab hs
    exact List.pair_sublist_mergeSort le_trans' le_total' (by simpa using hab) hs

example : ∃ l, exitClass 0 [⟨"b", [], "Real", 2, []⟩, ⟨"a", [], "Real", 1, []⟩, ⟨"b2", [], "Real", 2, []⟩] = some l :=
  exitClass_isSome _ _ (by decide)

/-- **one_derivative_per_state.** `der_states` is `states` with every name wrapped in
    `der(...)`: same length, same order, and different states have different derivative
    variables. -/
theorem one_derivative_per_state (nd : Nat) (syms : List Sym) (l : Lists) (h : exitClass nd syms = some l) :
    l.derStates = l.states.map derName ∧ l.derStates.length = l.states.length ∧
    Function.Injective derName := by
  obtain ⟨_, rfl⟩ := exitClass_some h
  exact ⟨rfl, by simp [listsOf], derName_injective⟩

example : (∃ l, exitClass 0 [⟨"x", ["state"], "Real", 0, []⟩, ⟨"a.y", ["output", "state"], "Real", 1, [2]⟩] = some l) ∧
    derName "a.y" = "der(a.y)" := ⟨exitClass_isSome _ _ (by decide), by decide⟩

/-- **outputs_exact.** `outputs` names exactly the non-empty output-prefixed symbols classified
    as state or algebraic, states first, each group in declaration order. -/
theorem outputs_exact (nd : Nat) (syms : List Sym) (l : Lists) (h : exitClass nd syms = some l) (n : String) :
    (n ∈ l.outputs ↔ ∃ s ∈ syms, s.name = n ∧ s.isEmpty = false ∧ "output" ∈ s.prefixes ∧
        (s.cat = .state ∨ s.cat = .alg)) ∧
    l.outputs.Sublist (l.states ++ l.algStates) := by
  obtain ⟨_, rfl⟩ := exitClass_some h
  have hm : ∀ s, s ∈ sortSyms syms ↔ s ∈ syms := fun s => (sortSyms_perm syms).mem_iff
  constructor
  · simp only [listsOf, names, outputSyms, List.mem_map, List.mem_filter, List.mem_append, mem_pick_iff, hm,
      decide_eq_true_eq]
    constructor
    · rintro ⟨s, ⟨h1 | h1, h2⟩, rfl⟩
      · exact ⟨s, h1.1, rfl, h1.2.2, h2, Or.inl h1.2.1⟩
      · exact ⟨s, h1.1, rfl, h1.2.2, h2, Or.inr h1.2.1⟩
    · rintro ⟨s, h1, rfl, h3, h2, h4 | h4⟩
      · exact ⟨s, ⟨Or.inl ⟨h1, h4, h3⟩, h2⟩, rfl⟩
      · exact ⟨s, ⟨Or.inr ⟨h1, h4, h3⟩, h2⟩, rfl⟩
  · simp only [listsOf, names, outputSyms, ← List.map_append]
    exact List.Sublist.map _ List.filter_sublist

example : ∃ l, exitClass 0 [⟨"y", ["output"], "Real", 0, []⟩, ⟨"x", ["output", "state"], "Real", 1, []⟩,
      ⟨"p", ["parameter", "output"], "Real", 2, []⟩] = some l ∧ "x" ∈ l.outputs ∧ "p" ∉ l.outputs := by
  obtain ⟨l, h⟩ := exitClass_isSome 0 [⟨"y", ["output"], "Real", 0, []⟩, ⟨"x", ["output", "state"], "Real", 1, []⟩,
      ⟨"p", ["parameter", "output"], "Real", 2, []⟩] (by decide)
  refine ⟨l, h, ?_, ?_⟩
  · exact (outputs_exact _ _ _ h "x").1.mpr ⟨_, List.mem_cons_of_mem _ List.mem_cons_self, rfl, by decide, by decide, by decide⟩
  · rw [(outputs_exact _ _ _ h "p").1]; decide

/-- The class exit raises (AttributeError) exactly when a non-empty String-typed symbol that is
    classified as state or algebraic carries the `output` prefix (open finding C10-F1). -/
theorem attribute_error_iff (nd : Nat) (syms : List Sym) :
    exitClass nd syms = none ↔ ∃ s ∈ syms, s.isString = true ∧ s.isEmpty = false ∧ "output" ∈ s.prefixes ∧
        (s.cat = .state ∨ s.cat = .alg) := exitClass_none_iff nd syms

example : exitClass 0 [⟨"s", ["output"], "String", 0, []⟩] = none :=
  (attribute_error_iff 0 _).mpr (by decide)

/-- **state iff differentiated (end to end).** In the model the whole pipeline produces, a name
    is a state iff it belongs to a non-empty symbol that is neither constant, parameter nor
    input and that either was declared with `"state"` or is referenced below a `der` somewhere
    in the class; and `inputs` starts with one fresh symbol per `delay` call. -/
theorem states_iff_differentiated (syms : List Sym) (t : Node) (l : Lists)
    (h : classify syms t = .ok l) (n : String) :
    (n ∈ l.states ↔ ∃ s ∈ syms, s.name = n ∧ s.isEmpty = false ∧ "constant" ∉ s.prefixes ∧
        "parameter" ∉ s.prefixes ∧ "input" ∉ s.prefixes ∧
        ("state" ∈ s.prefixes ∨ UnderDer false t s.name)) ∧
    l.inputs.take (countDelays t) = (List.range (countDelays t)).map delayName := by
  unfold classify at h
  cases ha : annotate syms t with
  | none => simp [ha] at h
  | some syms' =>
    simp only [ha] at h
    cases he : exitClass (countDelays t) syms' with
    | none => simp [he] at h
    | some l' =>
      simp only [he, Outcome.ok.injEq] at h
      subst h
      obtain ⟨M, rfl, hM⟩ := der_found_anywhere syms syms' t ha
      refine ⟨?_, (partition _ _ _ he).1⟩
      rw [(precedence _ _ _ he n).2.2.2.2.2.1]
      constructor
      · rintro ⟨s', hs', rfl, h1, h2, h3, h4, h5⟩
        obtain ⟨s, hs, rfl⟩ := List.mem_map.mp hs'
        have hsn : s.name ∈ syms.map (·.name) := List.mem_map.mpr ⟨s, hs, rfl⟩
        obtain ⟨a1, a2, a3, _, _, a6⟩ := annotate_state_iff M _ t hM s hsn
        refine ⟨s, hs, a3.symm, ?_, ?_, ?_, ?_, a1.mp h5⟩
        · simpa [Sym.isEmpty, a6] using h1
        · exact fun hh => h2 ((a2 _ (by decide)).mpr hh)
        · exact fun hh => h3 ((a2 _ (by decide)).mpr hh)
        · exact fun hh => h4 ((a2 _ (by decide)).mpr hh)
      · rintro ⟨s, hs, rfl, h1, h2, h3, h4, h5⟩
        have hsn : s.name ∈ syms.map (·.name) := List.mem_map.mpr ⟨s, hs, rfl⟩
        obtain ⟨a1, a2, a3, _, _, a6⟩ := annotate_state_iff M _ t hM s hsn
        refine ⟨annotateSym M s, List.mem_map.mpr ⟨s, hs, rfl⟩, a3, ?_, ?_, ?_, ?_, a1.mpr h5⟩
        · simpa [Sym.isEmpty, a6] using h1
        · exact fun hh => h2 ((a2 _ (by decide)).mp hh)
        · exact fun hh => h3 ((a2 _ (by decide)).mp hh)
        · exact fun hh => h4 ((a2 _ (by decide)).mp hh)

example : ∃ l, classify [⟨"x", [], "Real", 0, []⟩, ⟨"u", ["input"], "Real", 1, []⟩]
    (.mk "Equation" "" false [.mk "Expression" "der" false
        [.mk "Expression" "*" false [.mk "ComponentRef" "x" false [], .mk "ComponentRef" "u" false []]]]) = .ok l :=
  classify_isOk _ [⟨"x", ["state"], "Real", 0, []⟩, ⟨"u", ["input", "state"], "Real", 1, []⟩] _ (by decide) (by decide)

/-- **nested_io_stripped.** For a symbol declared in a nested instance (non-empty instance
    path) with each of `input` / `output` written at most once (all the grammar allows), the flat
    symbol carries neither — whatever the kind of its type: elementary or a user-defined type
    derived from one (`type Volt = Real(...)`).  Every other prefix (`parameter`, `constant`,
    `discrete`, …) is kept, and a symbol of the flattened class itself keeps all its prefixes. -/
theorem nested_io_stripped (inst : String) (kind : TypeKind) (p : List String)
    (hi : p.count "input" ≤ 1) (ho : p.count "output" ≤ 1) :
    (inst ≠ "" → "input" ∉ flatPrefixes inst kind p ∧ "output" ∉ flatPrefixes inst kind p ∧
        ∀ x, x ≠ "input" → x ≠ "output" → (x ∈ flatPrefixes inst kind p ↔ x ∈ p)) ∧
    (inst = "" → flatPrefixes inst kind p = p) := by
  constructor
  · intro h
    simp only [flatPrefixes, h, if_false]
    exact ⟨input_not_mem_stripNested p hi, output_not_mem_stripNested p ho, fun x h1 h2 => mem_stripNested_of_ne p x h1 h2⟩
  · intro h; simp [flatPrefixes, h]

example : flatPrefixes "c." .derived ["parameter", "input"] = ["parameter"] ∧
    flatPrefixes "" .derived ["input"] = ["input"] ∧ flatPrefixes "a.b." .elementary ["output"] = [] := by decide

/-- **input_output_only_at_top_level.** In the generated model a name is listed in `inputs`
    (beyond the delay inputs) or in `outputs` only if some flat symbol of that name still carries
    the prefix; so, with `nested_io_stripped`, a variable declared `input`/`output` inside a
    component instance — of an elementary or of a derived type — is classified by its remaining
    prefixes (parameter, constant, differentiated, algebraic) and never as a top-level input or an
    output. -/
theorem input_output_only_at_top_level (nd : Nat) (syms : List Sym) (l : Lists) (h : exitClass nd syms = some l)
    (n : String) :
    ((∀ s ∈ syms, s.name = n → "input" ∉ s.prefixes) → n ∉ l.inputs.drop nd) ∧
    ((∀ s ∈ syms, s.name = n → "output" ∉ s.prefixes) → n ∉ l.outputs) := by
  constructor
  · intro hn hm
    obtain ⟨s, hs, hname, _, _, _, hin⟩ := (precedence nd syms l h n).2.2.2.2.1.mp hm
    exact hn s hs hname hin
  · intro hn hm
    obtain ⟨s, hs, hname, _, hout, _⟩ := (outputs_exact nd syms l h n).1.mp hm
    exact hn s hs hname hout

example : ∃ l, exitClass 0 [flatSym "c." .derived ⟨"u", ["input"], "Real", 0, []⟩,
      flatSym "" .elementary ⟨"t", ["input"], "Real", 1, []⟩] = some l :=
  exitClass_isSome _ _ (by decide)

/-! ## Tie to the sources: the category table observed on the code under test

`Generated/ClassifyTable.lean` is rewritten at the start of every C10 run from the behaviour of the real
`Generator.exitClass` on one probe class (one variable per subset of the four category-deciding prefixes,
in both spellings).  `source_table_agrees` is the proof obligation over it; `catOf_keys` lifts the finite
table to every prefix list, so `current_code_category` speaks about arbitrary prefix lists. -/

/-- The prefixes the `if/elif` chain looks at. -/
def catKeys : List String := ["constant", "parameter", "input", "state"]

/-- The probe prefix lists, indexed by bit mask over `catKeys`, then the reversed spellings. -/
def probeLists : List (List String) :=
  let fw := (List.range 16).map (fun m => (List.range 4).filterMap (fun j =>
    if m / 2 ^ j % 2 = 1 then catKeys[j]? else none))
  fw ++ fw.map List.reverse

/-- The key prefixes a prefix list carries, in `catKeys` order (what the category may depend on). -/
def keySet (p : List String) : List String := catKeys.filter (· ∈ p)

/-- **catOf_keys.** The category depends only on which of the four key prefixes occur — not on order,
    multiplicity or any other prefix. -/
theorem catOf_keys (p : List String) : catOf p = catOf (keySet p) := by
  unfold catOf keySet catKeys
  by_cases h1 : "constant" ∈ p <;> by_cases h2 : "parameter" ∈ p <;> by_cases h3 : "input" ∈ p <;>
    by_cases h4 : "state" ∈ p <;> simp [List.filter, h1, h2, h3, h4]

/-- Every key set is one of the (forward) probe lists. -/
theorem keySet_mem_probeLists (p : List String) : keySet p ∈ probeLists := by
  unfold keySet catKeys
  by_cases h1 : "constant" ∈ p <;> by_cases h2 : "parameter" ∈ p <;> by_cases h3 : "input" ∈ p <;>
    by_cases h4 : "state" ∈ p <;> simp [List.filter, h1, h2, h3, h4] <;> decide

/-- The probes the translator ran are exactly the probe lists of the model (nothing skipped or added). -/
theorem source_table_probes : Generated.ClassifyTable.observed.map (·.1) = probeLists := by decide

/-- **source_table_agrees** (proof obligation over the generated file). On every probe the code under test
    placed the variable in exactly the list `catOf` names. -/
theorem source_table_agrees : ∀ e ∈ Generated.ClassifyTable.observed, e.2 = some (catOf e.1) := by decide

/-- **current_code_category.** For every prefix list `p` whatsoever, the table observed on the code under
    test has an entry for the key set of `p`, and the category observed there is `catOf p`. -/
theorem current_code_category (p : List String) :
    ∃ e ∈ Generated.ClassifyTable.observed, e.1 = keySet p ∧ e.2 = some (catOf p) := by
  have hm : keySet p ∈ Generated.ClassifyTable.observed.map (·.1) := by
    rw [source_table_probes]; exact keySet_mem_probeLists p
  obtain ⟨e, he, h1⟩ := List.mem_map.mp hm
  exact ⟨e, he, h1, by rw [source_table_agrees e he, h1, ← catOf_keys]⟩

example : catOf ["output", "state", "discrete", "parameter"] = .param := by decide

end PymocaVerif.Classify
