import PymocaVerif.Lemmas.GenTag2
import PymocaVerif.Lemmas.GenEq
/-!
# Lemmas for C11 / C12: the delay-argument function
-/
namespace PymocaVerif.Gen
open PymocaVerif.ExprSem

theorem genDelayArgs_refines (P : Prims K) (o : Opts) (T : FTab K) (F : FSem K) (hT : TabOK P T F)
    (hS : NoShadow T) : ∀ (ds : List (Nat × MExpr K × MExpr K)) (ts : List (CTerm K × CTerm K)),
    genDelayArgs P o T ds = .ok ts → ∀ ρ : Env K,
    Refines (evalCL P ρ (ts.flatMap fun p => [p.1, p.2])) (evalML P F ρ (ds.flatMap fun q => [q.2.1, q.2.2]))
  | [], ts, h, ρ => by simp [genDelayArgs] at h; subst h; simp [evalCL, evalML]; exact Refines.refl
  | (k, e, d) :: rest, ts, h, ρ => by
    simp only [genDelayArgs] at h
    obtain ⟨te, hte, h2⟩ := bind_ok.mp h
    obtain ⟨td, htd, h3⟩ := bind_ok.mp h2
    obtain ⟨ts', hts', hc⟩ := bind_ok.mp h3
    cases hc
    simp only [List.flatMap_cons, List.cons_append, List.nil_append, evalCL, evalML]
    exact Refines.bind (gen_refines P o T F hT hS e te hte ρ)
      (fun _ => Refines.bind (Refines.bind (gen_refines P o T F hT hS d td htd ρ)
        (fun _ => Refines.bind (genDelayArgs_refines P o T F hT hS rest ts' hts' ρ) (fun _ => Refines.refl)))
        (fun _ => Refines.refl))

theorem genDelayArgs_retag (P : Prims K) (o o' : Opts) (T : FTab K) : ∀ ds : List (Nat × MExpr K × MExpr K),
    genDelayArgs P o' (retagTab o' T) ds =
      (genDelayArgs P o T ds).map (List.map fun p => (retag o' p.1, retag o' p.2))
  | [] => by simp [genDelayArgs]
  | (k, e, d) :: rest => by
    simp only [genDelayArgs, gen_retag P o o' T e, gen_retag P o o' T d, genDelayArgs_retag P o o' T rest]
    cases gen P o T e with
    | error e => rfl
    | ok te =>
      cases gen P o T d with
      | error e => rfl
      | ok td =>
        cases genDelayArgs P o T rest with
        | error e => rfl
        | ok ts => simp [bind, Except.bind]

end PymocaVerif.Gen
