import PymocaVerif.Lemmas.AliasRelSpec
/-!
# C17 — the alias relation is a signed equivalence under any operation history

Property theorems only (helper lemmas live in `Lemmas/AliasRel*.lean`).  `WFR s` is the full
invariant: `_aliases` is a signed partition (`ARInv`), `_canonical_variables_map` is defined on
exactly the stored names and gives every member of a class the same canonical name with the sign
of the member, `_canonical_variables` is the duplicate-free set of those canonical names.
-/
namespace PymocaVerif.AliasRel

/-! ## Single operations -/

/-- `add` never trips its `assert`, and keeps the class invariant, whenever the call is
    admissible (does not relate a variable to its own negation). -/
theorem add_keeps_class_invariant (s : AR) (h : ARInv s) (a b : SName)
    (hpre : b ∉ s.aliases (tog a)) : ∃ s', s.add a b = some s' ∧ ARInv s' := by
  by_cases hb : b ∈ s.aliases a
  · exact ⟨s, add_noop s h a b hb, h⟩
  · exact ⟨_, add_eff s a b hb, addAl_inv s _ h a b hpre rfl⟩

example : ARInv exS1 ∧ ((true, "c") : SName) ∉ exS1.aliases (tog (false, "b")) := ⟨exS1_wfr.cls, by decide⟩

/-- `add` keeps the full invariant (classes, canonical map, canonical-variables set). -/
theorem add_refines (s : AR) (w : WFR s) (a b : SName) (hpre : b ∉ s.aliases (tog a)) :
    ∃ s', s.add a b = some s' ∧ WFR s' := by
  by_cases hb : b ∈ s.aliases a
  · exact ⟨s, add_noop s w.cls a b hb, w⟩
  · exact ⟨_, add_eff s a b hb, addRes_wfr s w a b hb hpre⟩

-- non-vacuity (state after a ~ b, b ~ -c): the invariant holds and the class of a is {a, b, -c}
example : WFR exS2 ∧ exS2.aliases (false, "a") = [(false, "a"), (false, "b"), (true, "c")] ∧
    (true, "c") ∉ exS1.aliases (false, "b") ∧ (true, "c") ∉ exS1.aliases (tog (false, "b")) :=
  ⟨exS2_wfr, by decide, by decide, by decide⟩

/-- `aliases()` after an effective `add(a, b)`: the class of `a` and of `b` are united, the
    classes of their negations are united, every other class is unchanged. -/
theorem aliases_after_add (s s' : AR) (a b x y : SName) (hb : b ∉ s.aliases a)
    (hs : s.add a b = some s') :
    y ∈ s'.aliases x ↔
      (if x ∈ s.aliases a ++ s.aliases b then y ∈ s.aliases a ++ s.aliases b
       else if tog x ∈ s.aliases a ++ s.aliases b then y ∈ s.aliases (tog a) ++ s.aliases (tog b)
       else y ∈ s.aliases x) := by
  rw [add_eff s a b hb] at hs
  cases hs
  exact aliases_addRes s a b x y

example : exS1.add (false, "b") (true, "c") = some exS2 ∧ (true, "c") ∉ exS1.aliases (false, "b") :=
  ⟨add_eff exS1 _ _ (by decide), by decide⟩

/-- the canonical name of the merged class is the one of `a`'s class, with `a`'s sign -/
theorem canonical_after_add (s s' : AR) (a b x : SName) (hb : b ∉ s.aliases a) (hs : s.add a b = some s') :
    s'.canonicalSigned x =
      if tog x ∈ s.aliases a ++ s.aliases b then flipIf true (s.canonicalSigned a)
      else if x ∈ s.aliases a ++ s.aliases b then s.canonicalSigned a else s.canonicalSigned x := by
  rw [add_eff s a b hb] at hs
  cases hs
  exact can_addRes s a b x

-- the merged class {a, b, -c} keeps a's canonical name; -c has sign +1, c has sign -1
example : exS2.canonicalSigned (true, "c") = ("a", false) ∧ exS2.canonicalSigned (false, "c") = ("a", true) ∧
    exS2.cv = ["a"] := by decide

/-- `remove` never raises under the invariant and keeps it. -/
theorem remove_refines (s : AR) (w : WFR s) (a : SName) : ∃ s', s.remove a = some s' ∧ WFR s' := by
  by_cases h : a.1 = true ∨ a.2 ∉ s.cv
  · exact ⟨s, remove_noop s a h, w⟩
  · have h1 : a.1 = false := by
      cases ha : a.1 with
      | false => rfl
      | true => exact absurd (Or.inl ha) h
    have h2 : a.2 ∈ s.cv := by
      apply Classical.byContradiction; intro hn; exact h (Or.inr hn)
    exact ⟨_, remove_eff s w a h1 h2, removeRes_wfr s w a h1 h2⟩

-- a is canonical in exS2: remove dissolves; b is not: no-op; both without exception
example : WFR exS2 ∧ (exS2.remove (false, "a")).isSome ∧ exS2.remove (false, "b") = some exS2 :=
  ⟨exS2_wfr, by rw [remove_eff exS2 exS2_wfr _ rfl (by decide)]; rfl, remove_noop exS2 _ (by decide)⟩

/-- `remove(a)` for a canonical name dissolves exactly the class of `a` and that of `-a`: their
    members become singletons with the default canonical name, everything else is unchanged;
    for any other argument `remove` does nothing. -/
theorem remove_dissolves (s s' : AR) (w : WFR s) (a : SName) (hs : s.remove a = some s') :
    (a.1 = false ∧ a.2 ∈ s.cv →
      ∀ x, (s'.aliases x = if x ∈ s.aliases a ++ s.aliases (tog a) then [x] else s.aliases x) ∧
           (s'.canonicalSigned x = if x ∈ s.aliases a ++ s.aliases (tog a) then (x.2, x.1) else s.canonicalSigned x) ∧
           (a.2 ∉ s'.cv)) ∧
    (¬ (a.1 = false ∧ a.2 ∈ s.cv) → s' = s) := by
  constructor
  · intro ⟨h1, h2⟩ x
    rw [remove_eff s w a h1 h2] at hs
    cases hs
    refine ⟨aliases_removeRes s a x, can_removeRes s a x, ?_⟩
    simp [AR.removeRes]
  · intro hn
    have : a.1 = true ∨ a.2 ∉ s.cv := by
      cases ha : a.1 with
      | true => exact Or.inl rfl
      | false => exact Or.inr (fun hc => hn ⟨ha, hc⟩)
    rw [remove_noop s a this] at hs
    cases hs; rfl

example : exS2.remove (false, "a") = some (exS2.removeRes (false, "a")) ∧
    (exS2.removeRes (false, "a")).aliases (false, "b") = [(false, "b")] ∧ (exS2.removeRes (false, "a")).cv = [] :=
  ⟨remove_eff exS2 exS2_wfr _ rfl (by decide), by decide, by decide⟩

/-- `remove` is effective exactly for the canonical name of a non-trivial class -/
theorem remove_effective_iff (s : AR) (w : WFR s) (c : String) :
    c ∈ s.cv ↔ (s.canonicalSigned (false, c) = (c, false) ∧ ∃ y, y ∈ s.aliases (false, c) ∧ y ≠ (false, c)) := by
  constructor
  · intro hc
    have hcc : s.canonicalSigned (false, c) = (c, false) := by
      simp [AR.canonicalSigned, (w.cv_iff c).1 hc]
    refine ⟨hcc, ?_⟩
    have := (cv_iff_canonical s w (false, c)).1 (by rw [hcc]; exact hc)
    exact this
  · intro ⟨hcc, hnt⟩
    have := (cv_iff_canonical s w (false, c)).2 hnt
    rw [hcc] at this; exact this

example : "a" ∈ exS2.cv ∧ "b" ∉ exS2.cv ∧ exS2.canonicalSigned (false, "b") = ("a", false) := by decide

/-- `copy` gives a relation with the same observables that satisfies the invariant. -/
theorem copy_refines (s : AR) (w : WFR s) : WFR s.copy ∧ s.copy = s := ⟨w, rfl⟩

example : WFR exS2.copy := (copy_refines exS2 exS2_wfr).1

/-! ## What the invariant says about the observables -/

/-- `aliases()` is the class of a signed partition: reflexive, symmetric, transitive, compatible
    with negation, and no name is in the class of its own negation. -/
theorem aliases_is_class (s : AR) (w : WFR s) (x y z : SName) :
    x ∈ s.aliases x ∧ (y ∈ s.aliases x → x ∈ s.aliases y) ∧
    (y ∈ s.aliases x → z ∈ s.aliases y → z ∈ s.aliases x) ∧
    (y ∈ s.aliases (tog x) ↔ tog y ∈ s.aliases x) ∧ tog x ∉ s.aliases x :=
  ⟨mem_aliases_self s w.cls x, aliases_symm s w.cls, aliases_trans s w.cls, aliases_tog s w.cls x y,
   tog_not_mem_aliases s w.cls x⟩

example : WFR exS2 ∧ (true, "c") ∈ exS2.aliases (false, "b") ∧ (false, "c") ∈ exS2.aliases (tog (false, "b")) :=
  ⟨exS2_wfr, by decide, by decide⟩

/-- `canonical_signed()`: all members of a class share the canonical name and sign, the negation
    has the flipped sign, and the canonical name (with that sign) is a member of the class. -/
theorem canonical_consistent (s : AR) (w : WFR s) (x y : SName) :
    (y ∈ s.aliases x → s.canonicalSigned y = s.canonicalSigned x) ∧
    s.canonicalSigned (tog x) = ((s.canonicalSigned x).1, !(s.canonicalSigned x).2) ∧
    ((s.canonicalSigned x).2, (s.canonicalSigned x).1) ∈ s.aliases x ∧
    ((s.canonicalSigned x).1 = (s.canonicalSigned y).1 ↔ (y ∈ s.aliases x ∨ y ∈ s.aliases (tog x))) := by
  refine ⟨w.can_eq x y, ?_, w.can_mem x, same_canonical_iff s w x y⟩
  rw [w.can_neg x]; simp [flipIf]

example : WFR exS2 ∧ exS2.canonicalSigned (false, "b") = exS2.canonicalSigned (true, "c") ∧
    exS2.canonicalSigned (tog (false, "b")) = ("a", true) := ⟨exS2_wfr, by decide, by decide⟩

/-- Iteration yields exactly one entry per non-trivial class (pair of a class and its negation):
    the first components are duplicate-free, a name's canonical name occurs iff its class is
    non-trivial, and each entry is (canonical name, the rest of its class), the rest non-empty. -/
theorem iter_one_per_class (s : AR) (w : WFR s) :
    (s.iter.map (·.1)).Nodup ∧
    (∀ x, (s.canonicalSigned x).1 ∈ s.iter.map (·.1) ↔ ∃ y, y ∈ s.aliases x ∧ y ≠ x) ∧
    (∀ e ∈ s.iter, s.canonicalSigned (false, e.1) = (e.1, false) ∧ e.2 ≠ [] ∧
        ∀ y, y ∈ e.2 ↔ (y ∈ s.aliases (false, e.1) ∧ y ≠ (false, e.1))) := by
  have hfst : s.iter.map (·.1) = s.cv := by
    simp only [AR.iter, List.map_map]
    have : ((fun x : String × List SName => x.1) ∘ fun c => (c, (s.aliases (false, c)).filter (· != (false, c)))) = id := rfl
    rw [this, List.map_id]
  refine ⟨by rw [hfst]; exact w.cv_nodup, ?_, ?_⟩
  · intro x; rw [hfst]; exact cv_iff_canonical s w x
  · intro e he
    simp only [AR.iter, List.mem_map] at he
    obtain ⟨c, hc, rfl⟩ := he
    obtain ⟨hcc, y, hy, hne⟩ := (remove_effective_iff s w c).1 hc
    refine ⟨hcc, ?_, ?_⟩
    · intro hnil
      have : y ∈ (s.aliases (false, c)).filter (· != (false, c)) := by
        simp [List.mem_filter, hy, hne]
      simp only at hnil
      rw [hnil] at this; cases this
    · intro z; simp [List.mem_filter]

example : WFR exS2 ∧ exS2.iter = [("a", [(false, "b"), (true, "c")])] := ⟨exS2_wfr, by decide⟩

/-! ## Histories -/

/-- **History theorem**: for every admissible history of `add`/`remove`/`copy` over any number of
    relation objects, no operation raises and every object satisfies the invariant afterwards
    (hence `aliases_is_class`, `canonical_consistent`, `iter_one_per_class` hold after every step). -/
theorem history_safe (ops : List Op) (st : Store) (hw : ∀ o, WFR (st o)) (ha : AdmissibleH st ops) :
    ∃ st', run st ops = some st' ∧ ∀ o, WFR (st' o) := by
  induction ops generalizing st with
  | nil => exact ⟨st, rfl, hw⟩
  | cons op ops ih =>
    obtain ⟨st1, h1, hw1⟩ := step_safe st hw op ha.1
    obtain ⟨st2, h2, hw2⟩ := ih st1 hw1 (ha.2 st1 h1)
    exact ⟨st2, by simp [run, h1, h2], hw2⟩

theorem history_from_empty (ops : List Op) (ha : AdmissibleH Store.init ops) :
    ∃ st', run Store.init ops = some st' ∧ ∀ o, WFR (st' o) :=
  history_safe ops Store.init (fun _ => empty_wfr) ha

-- non-vacuity: a ~ b, b ~ -c, copy 0 → 1, remove a on the copy
example : AdmissibleH Store.init
    [.add 0 (false, "a") (false, "b"), .add 0 (false, "b") (true, "c"), .copy 0 1, .remove 1 (false, "a")] := by
  refine ⟨by decide, fun st1 h1 => ⟨?_, fun st2 h2 => ⟨rfl, fun st3 h3 => ⟨rfl, fun _ _ => trivial⟩⟩⟩⟩
  simp only [step, Option.map] at h1
  cases h1
  decide

example : ∀ op ∈ ([.add 0 (false, "a") (false, "b"), .copy 0 1, .remove 1 (false, "a")] : List Op), op.target ≠ 2 := by
  decide

/-- **A copy evolves independently of its source**: a history that never writes object `d` leaves
    it unchanged, whatever happens to the other objects (in particular to the source or the copies
    of `d`); and `copy src dst` makes `dst` equal to `src`. -/
theorem copy_independent (ops : List Op) (st st' : Store) (d : Nat) (hd : ∀ op ∈ ops, op.target ≠ d)
    (hr : run st ops = some st') : st' d = st d := by
  induction ops generalizing st with
  | nil => simp [run] at hr; rw [hr]
  | cons op ops ih =>
    simp only [run, Option.bind_eq_some_iff] at hr
    obtain ⟨st1, h1, h2⟩ := hr
    have e := ih st1 (fun op' m => hd op' (by simp [m])) h2
    rw [e]
    have ht := hd op (by simp)
    cases op with
    | add o a b =>
      simp only [step, Option.map_eq_some_iff] at h1
      obtain ⟨s', _, rfl⟩ := h1
      simp only [Op.target] at ht
      have hdo : ¬ d = _ := fun e => ht e.symm
      simp [hdo]
    | remove o a =>
      simp only [step, Option.map_eq_some_iff] at h1
      obtain ⟨s', _, rfl⟩ := h1
      simp only [Op.target] at ht
      have hdo : ¬ d = _ := fun e => ht e.symm
      simp [hdo]
    | copy src dst =>
      simp only [step, Option.some.injEq] at h1
      subst h1
      simp only [Op.target] at ht
      have hdo : ¬ d = _ := fun e => ht e.symm
      simp [hdo]

-- after `copy 0 1` the history only writes object 1: object 0 keeps the class {a, b}
example : ∃ st', run Store.init [.add 0 (false, "a") (false, "b"), .copy 0 1] = some st' ∧
    (∀ op ∈ ([.remove 1 (false, "a"), .add 1 (false, "x") (true, "b")] : List Op), op.target ≠ 0) :=
  ⟨_, rfl, by decide⟩

theorem copy_equals_source (st st' : Store) (src dst : Nat) (h : step st (.copy src dst) = some st') :
    st' dst = st src := by
  simp only [step, Option.some.injEq] at h
  subst h; simp [AR.copy]

example : ∃ st', step Store.init (.copy 0 1) = some st' := ⟨_, rfl⟩

/-! ## The relation is the signed closure of the added pairs minus the removed classes -/

/-- After an admissible `add(a, b)` the relation is the signed closure of the old relation and
    the new pair. -/
theorem add_closure (s s' : AR) (w : WFR s) (a b : SName) (hpre : b ∉ s.aliases (tog a))
    (hs : s.add a b = some s') (x y : SName) : relOf s' x y ↔ SClos (relOf s) a b x y := by
  have h := w.cls
  by_cases hb : b ∈ s.aliases a
  · rw [add_noop s h a b hb] at hs
    cases hs
    constructor
    · exact fun hxy => SClos.base hxy
    · intro c
      induction c with
      | base r => exact r
      | pair => exact hb
      | refl => exact mem_aliases_self s h _
      | symm _ ih => exact aliases_symm s h ih
      | trans _ _ ih1 ih2 => exact aliases_trans s h ih1 ih2
      | neg _ ih => exact (aliases_tog s h _ _).2 (by simpa [relOf] using ih)
  · rw [add_eff s a b hb] at hs
    cases hs
    have w' := addRes_wfr s w a b hb hpre
    have h' := w'.cls
    have inA : ∀ z, z ∈ AA s a b → SClos (relOf s) a b a z := by
      intro z hz
      rcases List.mem_append.1 hz with hz | hz
      · exact SClos.base hz
      · exact SClos.trans SClos.pair (SClos.base hz)
    constructor
    · intro hxy
      simp only [relOf] at hxy
      rw [aliases_addRes] at hxy
      by_cases h1 : x ∈ AA s a b
      · simp only [h1, if_true] at hxy
        exact SClos.trans (SClos.symm (inA x h1)) (inA y hxy)
      · by_cases h2 : tog x ∈ AA s a b
        · simp only [h1, h2, if_true, if_false] at hxy
          have hy : tog y ∈ AA s a b := (memI s h a b y).1 hxy
          have := SClos.neg (SClos.trans (SClos.symm (inA _ h2)) (inA _ hy))
          simpa using this
        · simp only [h1, h2, if_false] at hxy
          exact SClos.base hxy
    · intro c
      induction c with
      | @base x y r =>
        simp only [relOf] at r ⊢
        rw [aliases_addRes]
        by_cases h1 : x ∈ AA s a b
        · simp only [h1, if_true]; exact closedA s h a b x y h1 r
        · by_cases h2 : tog x ∈ AA s a b
          · simp only [h1, h2, if_true, if_false]
            rw [memI s h a b]
            exact closedA s h a b (tog x) (tog y) h2 ((aliases_tog s h x (tog y)).2 (by simpa using r))
          · simp only [h1, h2, if_false]; exact r
      | pair =>
        simp only [relOf]
        rw [aliases_addRes]
        simp only [a_mem_AA s h a b, if_true]
        exact b_mem_AA s h a b
      | refl => exact mem_aliases_self _ h' _
      | symm _ ih => exact aliases_symm _ h' ih
      | trans _ _ ih1 ih2 => exact aliases_trans _ h' ih1 ih2
      | neg _ ih => exact (aliases_tog _ h' _ _).2 (by simpa [relOf] using ih)

example : WFR exS1 ∧ exS1.add (false, "b") (true, "c") = some exS2 ∧
    SClos (relOf exS1) (false, "b") (true, "c") (false, "a") (true, "c") :=
  ⟨exS1_wfr, add_eff exS1 _ _ (by decide),
   SClos.trans (SClos.base (show (false, "b") ∈ exS1.aliases (false, "a") by decide)) SClos.pair⟩

/-- After `remove(a)` the relation is the old one minus the class pair of `a` when `a` is the
    canonical name of a non-trivial class, and the old one otherwise. -/
theorem remove_closure (s s' : AR) (w : WFR s) (a : SName) (hs : s.remove a = some s') (x y : SName) :
    relOf s' x y ↔ (if a.1 = false ∧ a.2 ∈ s.cv then dissolve (relOf s) a x y else relOf s x y) := by
  obtain ⟨heff, hnoop⟩ := remove_dissolves s s' w a hs
  by_cases hc : a.1 = false ∧ a.2 ∈ s.cv
  · simp only [hc, and_self, if_true]
    obtain ⟨hal, _, _⟩ := heff hc x
    simp only [relOf, dissolve, hal]
    by_cases hx : x ∈ s.aliases a ++ s.aliases (tog a)
    · have hx' : x ∈ s.aliases a ∨ x ∈ s.aliases (tog a) := List.mem_append.1 hx
      simp [hx, hx']
    · have hx' : ¬ (x ∈ s.aliases a ∨ x ∈ s.aliases (tog a)) := fun m => hx (List.mem_append.2 m)
      simp [hx, hx']
  · rw [hnoop hc]
    simp only [hc, if_false]

example : dissolve (relOf exS2) (false, "a") (false, "b") (false, "b") ∧
    ¬ dissolve (relOf exS2) (false, "a") (false, "b") (true, "c") := by
  constructor
  · exact Or.inl ⟨Or.inl (show (false, "b") ∈ exS2.aliases (false, "a") by decide), rfl⟩
  · intro h
    rcases h with ⟨_, e⟩ | ⟨hn, _⟩
    · cases e
    · exact hn (Or.inl (show (false, "b") ∈ exS2.aliases (false, "a") by decide))

/-- **Closure characterisation**: along every admissible history the relation of every object equals
    the signed union-find closure of the added pairs minus the removed classes (copies start from
    their source's relation). -/
theorem closure_char (ops : List Op) (st : Store) (R : Nat → Rel) (hw : ∀ o, WFR (st o))
    (hR : ∀ o x y, relOf (st o) x y ↔ R o x y) (ha : AdmissibleH st ops) :
    ∃ st', run st ops = some st' ∧ ∀ o x y, relOf (st' o) x y ↔ specRun R st ops o x y := by
  induction ops generalizing st R with
  | nil => exact ⟨st, rfl, hR⟩
  | cons op ops ih =>
    obtain ⟨st1, h1, hw1⟩ := step_safe st hw op ha.1
    have hR1 : ∀ o x y, relOf (st1 o) x y ↔ specStep R st op o x y := by
      intro o x y
      cases op with
      | add o' a b =>
        have ha1 := ha.1
        simp only [admissible, Bool.not_eq_true', decide_eq_false_iff_not] at ha1
        simp only [step, Option.map_eq_some_iff] at h1
        obtain ⟨s', hs', rfl⟩ := h1
        simp only [specStep]
        by_cases ho : o = o'
        · subst ho
          simp only [if_true]
          rw [add_closure (st o) s' (hw o) a b ha1 hs' x y]
          exact sclos_congr _ _ (hR o) a b x y
        · simp only [ho, if_false]; exact hR o x y
      | remove o' a =>
        simp only [step, Option.map_eq_some_iff] at h1
        obtain ⟨s', hs', rfl⟩ := h1
        simp only [specStep]
        by_cases ho : o = o'
        · subst ho
          simp only [if_true]
          rw [remove_closure (st o) s' (hw o) a hs' x y]
          by_cases hc : a.1 = false ∧ a.2 ∈ (st o).cv
          · simp only [hc, and_self, if_true, dissolve, hR o]
          · simp only [hc, if_false]; exact hR o x y
        · simp only [ho, if_false]; exact hR o x y
      | copy src dst =>
        simp only [step, Option.some.injEq] at h1
        subst h1
        simp only [specStep]
        by_cases ho : o = dst
        · simp only [ho, if_true, AR.copy]; exact hR src x y
        · simp only [ho, if_false]; exact hR o x y
    obtain ⟨st2, h2, hrel⟩ := ih st1 (specStep R st op) hw1 hR1 (ha.2 st1 h1)
    refine ⟨st2, by simp [run, h1, h2], ?_⟩
    intro o x y
    have e : specRun R st (op :: ops) = specRun (specStep R st op) st1 ops := by
      simp only [specRun, h1]
    rw [e]
    exact hrel o x y

example : (∀ o, WFR (Store.init o)) ∧ (∀ o x y, relOf (Store.init o) x y ↔ y = x) :=
  ⟨fun _ => empty_wfr, fun o x y => by simp [relOf, Store.init, AR.empty, AR.aliases]⟩

/-- from the empty relations: the initial relation of every object is equality -/
theorem closure_char_from_empty (ops : List Op) (ha : AdmissibleH Store.init ops) :
    ∃ st', run Store.init ops = some st' ∧
      ∀ o x y, relOf (st' o) x y ↔ specRun (fun _ x y => y = x) Store.init ops o x y :=
  closure_char ops Store.init _ (fun _ => empty_wfr)
    (fun o x y => by simp [relOf, Store.init, AR.empty, AR.aliases]) ha

-- the specification of the example history relates a and -c in object 0 and keeps them related after the
-- copy's class was removed
example : specRun (fun _ x y => y = x) Store.init
    [.add 0 (false, "a") (false, "b"), .add 0 (false, "b") (true, "c"), .copy 0 1, .remove 1 (false, "a")]
    0 (false, "a") (true, "c") := by
  simp only [specRun, step, Option.map, AR.add, AR.copy, AR.remove]
  exact SClos.trans (SClos.base SClos.pair) SClos.pair

end PymocaVerif.AliasRel
