/-! # C26 — property theorems (stub: not built yet) -/
