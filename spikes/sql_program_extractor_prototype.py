# Design-phase prototype (DESIGN.md section 10): extracts the statement tree of parser.parse with Python ast.
# Not part of the checking machinery.
import ast, json, sys
src = open("/repo/src/pymoca/parser.py").read()
mod = ast.parse(src)
funcs = {n.name: n for n in mod.body if isinstance(n, ast.FunctionDef)}
def sql_kind(s):
    t = " ".join(s.split()).upper()
    if t.startswith("BEGIN IMMEDIATE") or t.startswith("BEGIN EXCLUSIVE"): return "begin_immediate"
    if t.startswith("BEGIN"): return "begin_deferred"
    if t.startswith("COMMIT"): return "commit"
    if t.startswith("SELECT") or t.startswith("PRAGMA"): return "read"
    if t.split()[0] in ("INSERT","UPDATE","DELETE","CREATE","DROP","REPLACE"): return "write"
    return "unknown:" + t[:20]
def const_str(node):
    if isinstance(node, ast.Constant) and isinstance(node.value, str): return node.value
    if isinstance(node, ast.JoinedStr): return "".join(v.value if isinstance(v, ast.Constant) else "{}" for v in node.values)
    return None
def walk(stmts):
    out = []
    for st in stmts:
        if isinstance(st, ast.If):
            a, b = walk(st.body), walk(st.orelse)
            if a or b: out.append({"choice": [a, b], "cond": ast.unparse(st.test)[:60]})
        elif isinstance(st, ast.Try):
            body = walk(st.body)
            hs = [{"catch": ast.unparse(h.type) if h.type else "*", "body": walk(h.body)} for h in st.handlers]
            out.append({"try": body, "handlers": hs})
        elif isinstance(st, (ast.For, ast.While, ast.With)):
            out += walk(st.body)
        else:
            for node in ast.walk(st):
                if isinstance(node, ast.Call):
                    f = node.func
                    if isinstance(f, ast.Attribute) and f.attr == "execute" and node.args:
                        s = const_str(node.args[0])
                        out.append({"stmt": sql_kind(s) if s else "unknown", "sql": " ".join(s.split())[:50] if s else None})
                    elif isinstance(f, ast.Attribute) and f.attr == "commit":
                        out.append({"stmt": "commit"})
                    elif isinstance(f, ast.Attribute) and f.attr == "connect":
                        kw = {k.arg: ast.unparse(k.value) for k in node.keywords}
                        out.append({"connect": kw})
                    elif isinstance(f, ast.Name) and f.id in funcs and f.id.startswith("_check"):
                        out.append({"call": walk(funcs[f.id].body)})
                    elif isinstance(f, ast.Attribute) and f.attr in ("loads",) :
                        out.append({"unpickle": True})
                    elif isinstance(f, ast.Attribute) and f.attr == "remove":
                        out.append({"remove_file": True})
    return out
prog = walk(funcs["parse"].body)
print(json.dumps(prog, indent=1)[:6000])
