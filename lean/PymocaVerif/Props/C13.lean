import PymocaVerif.Lemmas.Attr
/-!
# C13 — variable metadata reports the declared attributes

Property theorems about `PymocaVerif.Attr` (model of `_ast_symbols_to_variables`, `Variable` and
`variable_metadata_function`), for all variables, shapes, expressions and parameter vectors.
`declEntries v a` is the declared attribute element by element before any coercion;
`Var.fits` says the declaration is compatible with the variable's type (no truncation of a
non-integral value to `int`, no number other than 0/1 turned into a `bool`).
-/
namespace PymocaVerif.Attr

/-- **Defaults.**  The objects `Variable.__init__` puts there: value NaN, start 0, min -inf,
    max +inf, nominal 0, fixed false (0). -/
theorem default_table :
    defaultNum .value = .nan ∧ defaultNum .start = .fin 0 ∧ defaultNum .min = .ninf ∧
    defaultNum .max = .pinf ∧ defaultNum .nominal = .fin 0 ∧ defaultNum .fixed = .fin 0 :=
  ⟨rfl, rfl, rfl, rfl, rfl, rfl⟩

example : casadiAttributes = [.value, .min, .max, .start, .fixed, .nominal] := rfl

/-- **Unspecified attributes take the defaults**, on the `Variable` object and in every row the
    variable contributes to the metadata matrix; except for `fixed` (which the generator always sets,
    to the AST's `False`) the default *object* itself is kept (`_DefaultValue` marker, `nan`, …). -/
theorem defaults_exact (v : Var) (a : AttrName) (h : v.decl a = none) (p : Nat → Rat) :
    (store v a).values a p = [defaultNum a] ∧
    (v.column a).map (Entry.eval p) = List.replicate v.numel (defaultNum a) ∧
    ((a ≠ .fixed ∨ v.isDer = true) → store v a = .dflt) := by
  have hs : (store v a).entries a = [.const (defaultNum a)] := by
    unfold store
    by_cases hd : v.isDer = true
    · simp [hd, Stored.entries]
    · simp only [hd, Bool.false_eq_true, if_false, h, Option.orElse]
      cases a <;> simp [astDefault, Stored.entries, defaultNum] <;>
        cases v.ptype <;> rfl
  refine ⟨by simp [Stored.values, hs, Entry.eval], ?_, ?_⟩
  · simp [Var.column, hs, bcast, Entry.eval]
  · intro h'
    unfold store
    by_cases hd : v.isDer = true
    · simp [hd]
    · rcases h' with h' | h'
      · simp only [hd, Bool.false_eq_true, if_false, h, Option.orElse]
        cases a <;> simp_all [astDefault]
      · exact absurd h' hd

example : (store { ptype := .float, dims := [2, 3] } .start).tag .start = "_DefaultValue" ∧
    (({ ptype := .float, dims := [2, 3] } : Var).column .min).map (Entry.eval fun _ => 0)
      = List.replicate 6 .ninf := by decide

/-- **Python types are kept.**  A literal attribute of a Real variable is stored as a Python
    float; an Integer variable keeps `int` literals (and Booleans) as they are, takes an integral
    real literal as that `int`, and keeps an infinity as the float it is; a Boolean variable keeps
    Booleans. -/
theorem types_kept :
    (∀ v : Py, coerce .float v = .float v.num ∨ ∃ x, v = .float x ∧ coerce .float v = v) ∧
    (∀ i : Int, coerce .int (.int i) = .int i) ∧
    (∀ b : Bool, coerce .int (.bool b) = .bool b) ∧
    (∀ q : Rat, coerce .int (.float (.fin q)) = .int (truncRat q)) ∧
    (∀ neg : Bool, coerce .int (Lit.inf neg).toPy = (Lit.inf neg).toPy) ∧
    (∀ b : Bool, coerce .bool (.bool b) = .bool b) := by
  refine ⟨fun v => ?_, fun _ => rfl, fun _ => rfl, fun _ => rfl, fun neg => by cases neg <;> rfl, fun _ => rfl⟩
  cases v with
  | int i => left; rfl
  | bool b => left; rfl
  | float x => right; exact ⟨x, rfl, rfl⟩

example : coerce .float (.int 3) = .float (.fin 3) ∧ coerce .int (.bool true) = .bool true := by decide

/-- The coercion never changes the number when the declaration fits the type. -/
theorem coercion_keeps_value (t : PType) (v : Py) (h : v.fits t) : (coerce t v).num = v.num :=
  coerce_num t v h

example : (Py.int 1).fits .bool ∧ (Py.float (.fin 3)).fits .int := by
  refine ⟨fun _ => Or.inr rfl, fun _ => ?_, fun h => by cases h⟩
  decide

/-- **The Variable attributes equal the declared expressions**, element by element, at every
    parameter vector (whatever Python object — float, int, bool, list, MX, DM — holds them). -/
theorem attr_value (v : Var) (a : AttrName) (hfit : v.fits a) (p : Nat → Rat) :
    (store v a).values a p = (declEntries v a).map (Entry.eval p) := by
  unfold store declEntries Stored.values
  by_cases hd : v.isDer = true
  · simp [hd, Stored.entries]
  simp only [hd, Bool.false_eq_true, if_false]
  unfold Var.fits at hfit
  cases h : v.decl a with
  | none =>
    simp only [Option.orElse]
    cases a <;> simp [astDefault, Stored.entries, defaultNum, Entry.eval] <;> cases v.ptype <;> rfl
  | some d =>
    rw [h] at hfit
    simp only [Option.orElse]
    cases d with
    | lit l => simp [Stored.entries, Entry.eval, coerce_num _ _ hfit]
    | arr rows => simp [Stored.entries, Entry.eval, List.map_map, Function.comp_def]
    | arrE es => simp [Stored.entries]
    | dmat rows => simp [Stored.entries, Entry.eval, List.map_map, Function.comp_def]
    | expr e =>
      simp only at hfit
      cases hw : e.walk with
      | mx => simp only [hw]; simp [Stored.entries]
      | py q =>
        rw [hw] at hfit
        have hv := E.walk_value e q (.inl hw)
        simp only [hw]
        simp [Stored.entries, Entry.eval, (hv 0 p).1, (hv 0 p).2]
        exact coerce_num v.ptype (Py.float (Num.fin q)) hfit
      | dm q =>
        rw [hw] at hfit
        have hv := E.walk_value e q (.inr hw)
        simp only [hw]
        by_cases hdims : v.dims.isEmpty = true
        · simp [hdims, Stored.entries, Entry.eval, (hv 0 p).1, (hv 0 p).2]
          exact pyCast_num v.ptype (Py.float (Num.fin q)) (hfit hdims)
        · simp [hdims, Stored.entries, Entry.eval, (hv 0 p).1, (hv 0 p).2]
    | dm x =>
      simp only at hfit
      by_cases hdims : v.dims.isEmpty = true
      · simp [hdims, Stored.entries, Entry.eval]
        exact pyCast_num v.ptype (Py.float (Num.fin x)) (hfit hdims)
      · simp [hdims, Stored.entries, Entry.eval]

example : (store { ptype := .int, dims := [], max := some (.expr (.mul (.num 2) (.num 3))) } .max).tag .max = "int" ∧
    ({ ptype := .int, dims := [], max := some (.expr (.mul (.num 2) (.num 3))) } : Var).fits .max := by
  refine ⟨by decide, ?_⟩
  simp [Var.fits, Var.decl, E.walk, Py.fits, truncRat]
  norm_num

/-- **Layout of the metadata matrix.**  In the column of attribute `a` of a variable list, the
    entries of variable number `i` start at `offset = Σ numel` of the variables before it: entry
    `offset + k` is element `k` of that variable's attribute (its single element when it has only
    one: scalar broadcast), and the column has `Σ numel` entries in all. -/
theorem metadata_layout (vs : List Var) (hwf : ∀ v ∈ vs, v.wf) (a : AttrName) (i k : Nat) (v : Var)
    (hv : vs[i]? = some v) (hk : k < v.numel) :
    (column vs a).length = (vs.map Var.numel).sum ∧
    (column vs a)[offsetOf Var.numel vs i + k]? =
      (if ((store v a).entries a).length = 1 then ((store v a).entries a)[0]?
       else ((store v a).entries a)[k]?) := by
  refine ⟨column_length vs hwf a, ?_⟩
  have := flatMap_getElem_of (fun v => v.column a) Var.numel vs
    (fun w hw => Var.column_length w (hwf w hw) a) i k v hv hk
  rw [show column vs a = vs.flatMap (fun v => v.column a) from rfl, this]
  exact bcast_getElem _ _ _ hk

example : offsetOf Var.numel [{ ptype := .float, dims := [2] }, { ptype := .float, dims := [] },
    { ptype := .int, dims := [2, 3] }] 2 = 3 := by decide

example : ({ ptype := .float, dims := [2], min := some (.expr (.par 0 1)), max := some (.arr [[.int 5], [.real 3]]) } : Var).wf ∧
    ∀ a, ({ ptype := .float, dims := [2], min := some (.expr (.par 0 1)), max := some (.arr [[.int 5], [.real 3]]) } : Var).fits a := by
  constructor
  · intro a; cases a <;> decide
  · intro a; cases a <;> simp [Var.fits, Var.decl, E.walk, Py.fits, Lit.toPy]

/-- **The affine rebuild is exact**: for an expression that passes the affinity test,
    `J(0)·p + f(0) = f(p)` at every parameter vector; and `J(0)·p` is a linear map of `p`
    (so it is the product of a constant matrix `A` with `p`). -/
theorem affine_rebuild_exact (e : E) (h : e.affine = true) :
    (∀ p, e.rebuild p = e.eval p) ∧
    (∀ p q, e.jvp0 (fun i => p i + q i) = e.jvp0 p + e.jvp0 q) ∧
    (∀ c p, e.jvp0 (fun i => c * p i) = c * e.jvp0 p) :=
  ⟨E.rebuild_eq_eval e h, E.jvp0_add e, E.jvp0_smul e⟩

example : (E.div (.add (.mul (.num 3) (.par 0 1)) (.num 1)) (.num 4)).affine = true ∧
    (E.mul (.par 0 1) (.par 1 1)).affine = false := by decide

/-- **The rebuild is attempted only when it is exact.**  Whatever the number of parameters and
    whatever the expressions, the metadata function with the rebuild equals the one without. -/
theorem metadata_rebuild_sound (nParams : Nat) (lists : List (List Var)) (p : Nat → Rat) :
    metadata nParams lists p = metadataDirect lists p := by
  unfold metadata metadataDirect
  cases hu : (decide (0 < nParams) && allAffine lists)
  · rfl
  · simp only [Bool.and_eq_true] at hu
    have hall := hu.2
    unfold allAffine at hall
    simp only [List.all_eq_true] at hall
    apply mapM_option_congr
    intro vs hvs
    have key : (casadiAttributes.map fun a => (column vs a).map fun e => e.rebuilt p)
        = (casadiAttributes.map fun a => (column vs a).map fun e => e.eval p) := by
      apply List.map_congr_left
      intro a ha
      apply List.map_congr_left
      intro e he
      exact Entry.rebuilt_eq_eval e (hall vs hvs a ha e he) p
    simp only [if_true, key]

example : allAffine [[{ ptype := .float, dims := [], min := some (.expr (.mul (.num 3) (.par 0 1))) }]] = true := by
  decide

/-- **The metadata function reports the declared attributes.**  For well-formed variable lists whose
    declarations fit their types, at every parameter vector and on either code path (direct or
    rebuilt): the function is defined, each matrix has one column per attribute in the order of
    `CASADI_ATTRIBUTES`, and row `offset + k` of the column of attribute `a` is element `k`
    (or the single, broadcast element) of the declared attribute of the variable — the default when
    nothing is declared. -/
theorem metadata_reports_declared (nParams : Nat) (lists : List (List Var)) (p : Nat → Rat)
    (hwf : ∀ vs ∈ lists, ∀ v ∈ vs, v.wf) (hfit : ∀ vs ∈ lists, ∀ v ∈ vs, ∀ a, v.fits a) :
    metadata nParams lists p =
      some (lists.map fun vs => casadiAttributes.map fun a => (column vs a).map (Entry.eval p)) ∧
    ∀ vs ∈ lists, ∀ (a : AttrName) (i k : Nat) (v : Var), vs[i]? = some v → k < v.numel →
      ((column vs a).map (Entry.eval p))[offsetOf Var.numel vs i + k]? =
        (let d := (declEntries v a).map (Entry.eval p)
         if d.length = 1 then d[0]? else d[k]?) := by
  constructor
  · rw [metadata_rebuild_sound]
    unfold metadataDirect
    apply mapM_option_some
    intro vs hvs
    have hlen : ∀ a, ((column vs a).map fun e => e.eval p).length = (vs.map Var.numel).sum := by
      intro a; rw [List.length_map]; exact column_length vs (hwf vs hvs) a
    simp only [casadiAttributes, List.map_cons, List.map_nil, List.head?_cons, Option.map_some, Option.getD_some,
      List.all_cons, List.all_nil, hlen, beq_self_eq_true, Bool.and_self, if_true]
  · intro vs hvs a i k v hv hk
    have hl := (metadata_layout vs (hwf vs hvs) a i k v hv hk).2
    have hmem : v ∈ vs := List.mem_of_getElem? hv
    have hval := attr_value v a (hfit vs hvs v hmem a) p
    unfold Stored.values at hval
    rw [List.getElem?_map, hl]
    simp only
    rw [← hval, List.length_map]
    split <;> simp [List.getElem?_map]

example : metadata 0 [[{ ptype := .float, dims := [2], min := some (.expr (.par 0 1)), max := some (.arr [[.int 5], [.real 3]]) }]] (fun _ => 7) =
    some [[[.nan, .nan], [.fin 7, .fin 7], [.fin 5, .fin 3], [.fin 0, .fin 0], [.fin 0, .fin 0], [.fin 0, .fin 0]]] := by
  decide

end PymocaVerif.Attr
