/-! # C02 — property theorems (stub: not built yet) -/
