import PymocaVerif.Model.Flatten
/-!
# Source libraries: nested class definitions, names as written, modifications as spelled

Stage 1 of the reference semantics: `elab` resolves every type name lexically (first identifier
in the class itself, then in the enclosing classes; the rest inside the class found) and desugars
spelled modifications — `a.b(c = 1, d(e = 2)) = 3` — to `(path, expression)` pairs, so that the
dotted spelling `a.x.start = 1` and the nested spelling `a(x(start = 1))` become the same thing.
`render` prints the library as Modelica text (what the real parser is fed).
-/
namespace PymocaVerif.Flatten

/-- a modification as spelled: dotted name, sub-modifications, optional `= value` -/
inductive SMod where
  | mk (name : List Name) (subs : List SMod) (value : Option Expr)
  deriving Repr, Inhabited

structure SComp where
  name : Name
  type : List Name
  prefixes : List String
  dims : List Nat
  mods : List SMod
  value : Option Expr
  deriving Repr, Inhabited

structure SExt where
  ref : List Name
  mods : List SMod
  deriving Repr, Inhabited

inductive SClass where
  | mk (name : Name) (kind : String) (alias : Option (List Name × List SMod)) (exts : List SExt)
      (classes : List SClass) (comps : List SComp) (eqs : List (Expr × Expr))
  deriving Repr, Inhabited

abbrev SLib := List SClass

/-! ## desugaring -/

def optMod (p : Path) : Option Expr → List Mod
  | none => []
  | some v => [{ path := p, value := v }]

mutual
  /-- text order: sub-modifications first, then the value -/
  def SMod.desugar (pre : Path) : SMod → List Mod
    | .mk name subs value => desugarList (pre ++ name) subs ++ optMod (pre ++ name) value
  def desugarList (pre : Path) : List SMod → List Mod
    | [] => []
    | m :: ms => m.desugar pre ++ desugarList pre ms
end

/-- one spelled modification per identifier: `a.b.c(subs) = v` becomes `a(b(c(subs) = v))` -/
def nestName : List Name → List SMod → Option Expr → SMod
  | [], subs, v => .mk [] subs v
  | [n], subs, v => .mk [n] subs v
  | n :: n' :: ns, subs, v => .mk [n] [nestName (n' :: ns) subs v] none

mutual
  def SMod.toNested : SMod → SMod
    | .mk name subs value => nestName name (toNestedList subs) value
  def toNestedList : List SMod → List SMod
    | [] => []
    | m :: ms => m.toNested :: toNestedList ms
end

mutual
  /-- every value under its full dotted name, no parentheses: `a.b.c.start = 1, a.b.c = 2` -/
  def SMod.toDotted (pre : List Name) : SMod → List SMod
    | .mk name subs value =>
      toDottedList (pre ++ name) subs ++
        (match value with | none => [] | some v => [.mk (pre ++ name) [] (some v)])
  def toDottedList (pre : List Name) : List SMod → List SMod
    | [] => []
    | m :: ms => m.toDotted pre ++ toDottedList pre ms
end

/-! ## class paths and lexical lookup -/

mutual
  def SClass.paths (pre : Path) : SClass → List Path
    | .mk name _ _ _ classes _ _ => (pre ++ [name]) :: pathsList (pre ++ [name]) classes
  def pathsList (pre : Path) : List SClass → List Path
    | [] => []
    | c :: cs => c.paths pre ++ pathsList pre cs
end

def builtinNames : List String := ["Real", "Integer", "Boolean", "String"]

/-- the innermost enclosing scope of `scope` (a prefix `scope.take j`, `j ≤ i`, longest first) that
    declares a class named `h` -/
def findScope (paths : List Path) (h : Name) (scope : Path) : Nat → Option Path
  | 0 => if paths.contains (scope.take 0 ++ [h]) then some (scope.take 0) else none
  | i + 1 =>
    if paths.contains (scope.take (i + 1) ++ [h]) then some (scope.take (i + 1)) else findScope paths h scope i

/-- lexical lookup: the first identifier binds in the innermost scope that declares it -/
def resolveRef (paths : List Path) (scope : Path) (ref : List Name) : Except Err Ty :=
  match ref with
  | [] => .error (.resolve "empty name")
  | h :: t =>
    if builtinNames.contains h then
      if t.isEmpty then .ok (.builtin h) else .error (.resolve ("lookup inside builtin " ++ h))
    else
      match findScope paths h scope scope.length with
      | none => .error (.resolve ("class not found: " ++ ".".intercalate ref))
      | some s =>
        if paths.contains (s ++ ref) then .ok (.cls (s ++ ref))
        else .error (.resolve ("class not found: " ++ ".".intercalate ref))

/-! ## elaboration -/

def elabComp (paths : List Path) (scope : Path) (k : SComp) : Except Err Comp :=
  match resolveRef paths scope k.type with
  | .error e => .error e
  | .ok t => .ok { name := k.name, ty := t, prefixes := k.prefixes, dims := k.dims,
                   mods := desugarList [] k.mods ++ optMod [] k.value }

def elabExt (paths : List Path) (scope : Path) (e : SExt) : Except Err (Ty × List Mod) :=
  match resolveRef paths scope e.ref with
  | .error e => .error e
  | .ok t => .ok (t, desugarList [] e.mods)

mutual
  def SClass.elab (paths : List Path) (pre : Path) : SClass → Except Err Lib
    | .mk name _ alias exts classes comps eqs =>
      match elabList paths (pre ++ [name]) classes with
      | .error e => .error e
      | .ok sub =>
        match alias with
        | some (base, mods) =>
          -- the base of a short definition is looked up from the enclosing class
          match resolveRef paths pre base with
          | .error e => .error e
          | .ok t => .ok ((pre ++ [name], { isShort := true, exts := [(t, desugarList [] mods)],
                                            comps := [], eqs := [] }) :: sub)
        | none =>
          match mapE (elabExt paths (pre ++ [name])) exts with
          | .error e => .error e
          | .ok es =>
            match mapE (elabComp paths (pre ++ [name])) comps with
            | .error e => .error e
            | .ok ks => .ok ((pre ++ [name], { isShort := false, exts := es, comps := ks, eqs := eqs }) :: sub)
  def elabList (paths : List Path) (pre : Path) : List SClass → Except Err Lib
    | [] => .ok []
    | c :: cs =>
      match c.elab paths pre with
      | .error e => .error e
      | .ok l =>
        match elabList paths pre cs with
        | .error e => .error e
        | .ok ls => .ok (l ++ ls)
end

def elabLib (src : SLib) : Except Err Lib :=
  let paths := pathsList [] src
  match dupName (paths.map fun p => ".".intercalate p) with
  | some n => .error (.resolve ("duplicate class " ++ n))
  | none => elabList paths [] src

/-- enough for any acyclic library: every recursive call moves to another class or consumes a
    short definition; the class count bounds the depth, plus slack for the call structure -/
def defaultFuel (src : SLib) : Nat := 2 * (pathsList [] src).length + 8

def flattenSrc (src : SLib) (target : Path) : Except Err FlatModel :=
  match elabLib src with
  | .error e => .error e
  | .ok lib => flattenF (defaultFuel src) lib target

/-! ## respelling a whole library (for the spelling-invariance theorems) -/

def SComp.respell (f : List SMod → List SMod) (k : SComp) : SComp := { k with mods := f k.mods }
def SExt.respell (f : List SMod → List SMod) (e : SExt) : SExt := { e with mods := f e.mods }

mutual
  def SClass.respell (f : List SMod → List SMod) : SClass → SClass
    | .mk name kind alias exts classes comps eqs =>
      .mk name kind (alias.map fun a => (a.1, f a.2)) (exts.map (SExt.respell f))
        (respellList f classes) (comps.map (SComp.respell f)) eqs
  def respellList (f : List SMod → List SMod) : List SClass → List SClass
    | [] => []
    | c :: cs => c.respell f :: respellList f cs
end

/-! ## Modelica text -/

def showParts (parts : List (Name × List Nat)) : String :=
  ".".intercalate (parts.map fun p =>
    if p.2.isEmpty then p.1 else p.1 ++ "[" ++ ",".intercalate (p.2.map toString) ++ "]")

def Expr.show : Expr → String
  | .num n => toString n
  | .bool b => if b then "true" else "false"
  | .str s => "\"" ++ s ++ "\""
  | .ref parts => showParts parts
  | .un op a => if op == "-" then "(-" ++ a.show ++ ")" else op ++ "(" ++ a.show ++ ")"
  | .bin op a b => "(" ++ a.show ++ " " ++ op ++ " " ++ b.show ++ ")"

def showValue : Option Expr → String
  | none => ""
  | some v => " = " ++ v.show

mutual
  def SMod.show : SMod → String
    | .mk name subs value =>
      ".".intercalate name ++ (if subs.isEmpty then "" else "(" ++ showModList subs ++ ")") ++ showValue value
  def showModList : List SMod → String
    | [] => ""
    | [m] => m.show
    | m :: m' :: ms => m.show ++ ", " ++ showModList (m' :: ms)
end

def showMods (ms : List SMod) : String := if ms.isEmpty then "" else "(" ++ showModList ms ++ ")"

def SComp.show (ind : String) (k : SComp) : String :=
  ind ++ "  " ++ String.join (k.prefixes.map (· ++ " ")) ++ ".".intercalate k.type ++ " " ++ k.name ++
    (if k.dims.isEmpty then "" else "[" ++ ",".intercalate (k.dims.map toString) ++ "]") ++
    showMods k.mods ++ showValue k.value ++ ";\n"

mutual
  def SClass.show (ind : String) : SClass → String
    | .mk name kind alias exts classes comps eqs =>
      match alias with
      | some (base, mods) => ind ++ kind ++ " " ++ name ++ " = " ++ ".".intercalate base ++ showMods mods ++ ";\n"
      | none =>
        ind ++ kind ++ " " ++ name ++ "\n" ++ showClassList (ind ++ "  ") classes ++
          String.join (exts.map fun e => ind ++ "  extends " ++ ".".intercalate e.ref ++ showMods e.mods ++ ";\n") ++
          String.join (comps.map (SComp.show ind)) ++
          (if eqs.isEmpty then "" else ind ++ "equation\n" ++
            String.join (eqs.map fun e => ind ++ "  " ++ e.1.show ++ " = " ++ e.2.show ++ ";\n")) ++
          ind ++ "end " ++ name ++ ";\n"
  def showClassList (ind : String) : List SClass → String
    | [] => ""
    | c :: cs => c.show ind ++ showClassList ind cs
end

def render (src : SLib) : String := showClassList "" src

end PymocaVerif.Flatten
