import PymocaVerif.Model.ExprGrammar
/-!
# Number literals of the expression model (C03)

`litValue` reads the decimal numeral written for a natural number / for `(i + fv/10^k)·10^±x` back to exactly
that number.  Core Lean only.
-/
namespace PymocaVerif.ExprGrammar

theorem foldl_digits (ds : List Char) (h : ∀ c ∈ ds, c.isDigit = true) (a : Nat) :
    ds.foldl (fun acc c => match acc, digitVal? c with
      | some a, some d => some (10 * a + d)
      | _, _ => none) (some a) = some (Nat.ofDigitChars 10 ds a) := by
  induction ds generalizing a with
  | nil => simp
  | cons c cs ih =>
    have hc : c.isDigit = true := h c (by simp)
    simp only [List.foldl_cons, digitVal?, hc, if_true, Nat.ofDigitChars_cons]
    exact ih (fun c' hc' => h c' (by simp [hc'])) _

theorem digitsVal_of_digits (ds : List Char) (h : ∀ c ∈ ds, c.isDigit = true) (hne : ds ≠ []) :
    digitsVal? ds = some (Nat.ofDigitChars 10 ds 0) := by
  cases ds with
  | nil => exact absurd rfl hne
  | cons c cs => simp only [digitsVal?]; exact foldl_digits _ h 0

theorem toDigits_isDigit (n : Nat) : ∀ c ∈ Nat.toDigits 10 n, c.isDigit = true :=
  fun _ hc => Nat.isDigit_of_mem_toDigits (by decide) (by decide) hc

theorem digitsVal_toDigits (n : Nat) : digitsVal? (Nat.toDigits 10 n) = some n := by
  rw [digitsVal_of_digits _ (toDigits_isDigit n) Nat.toDigits_ne_nil, Nat.ofDigitChars_ten_toDigits]

theorem splitAt1_none (p : Char → Bool) (l : List Char) (h : ∀ c ∈ l, p c = false) : splitAt1 p l = (l, none) := by
  induction l with
  | nil => rfl
  | cons c cs ih =>
    have hc := h c (by simp)
    simp only [splitAt1, hc, Bool.false_eq_true, if_false, ih (fun c' hc' => h c' (by simp [hc']))]

theorem splitAt1_append (p : Char → Bool) (l : List Char) (d : Char) (r : List Char)
    (h : ∀ c ∈ l, p c = false) (hd : p d = true) : splitAt1 p (l ++ d :: r) = (l, some r) := by
  induction l with
  | nil => simp [splitAt1, hd]
  | cons c cs ih =>
    have hc := h c (by simp)
    simp only [List.cons_append, splitAt1, hc, Bool.false_eq_true, if_false,
      ih (fun c' hc' => h c' (by simp [hc']))]

theorem digit_not_sep {c : Char} (h : c.isDigit = true) :
    c ≠ 'e' ∧ c ≠ 'E' ∧ c ≠ '.' ∧ c ≠ '+' ∧ c ≠ '-' := by
  refine ⟨?_, ?_, ?_, ?_, ?_⟩ <;> (rintro rfl; exact absurd h (by decide))

theorem digits_no_e (ds : List Char) (h : ∀ c ∈ ds, c.isDigit = true) :
    ∀ c ∈ ds, (c == 'e' || c == 'E') = false := by
  intro c hc
  have := digit_not_sep (h c hc)
  simp [this.1, this.2.1]

theorem digits_no_dot (ds : List Char) (h : ∀ c ∈ ds, c.isDigit = true) :
    ∀ c ∈ ds, (c == '.') = false := by
  intro c hc
  have := digit_not_sep (h c hc)
  simp [this.2.2.1]

theorem pow10_zero : pow10 0 = 1 := by simp [pow10]

theorem litValue_int (n : Nat) :
    litValue (String.ofList (Nat.toDigits 10 n)) = some { isInt := true, value := (n : Rat) } := by
  have hd := toDigits_isDigit n
  simp only [litValue, String.toList_ofList]
  rw [splitAt1_none _ _ (digits_no_e _ hd)]
  simp only
  rw [splitAt1_none _ _ (digits_no_dot _ hd)]
  simp [digitsVal_toDigits, fracOf, expoOf, pow10_zero, Rat.div_def, Rat.zero_mul, Rat.add_zero]

/-! fraction digits -/

theorem padDigits_isDigit : ∀ (k v : Nat), ∀ c ∈ padDigits k v, c.isDigit = true
  | 0, _ => by simp [padDigits]
  | k+1, v => by
    intro c hc
    simp only [padDigits, List.mem_append, List.mem_singleton] at hc
    rcases hc with hc | hc
    · exact padDigits_isDigit k _ c hc
    · subst hc
      have : v % 10 < 10 := Nat.mod_lt _ (by decide)
      generalize v % 10 = d at this
      have : d = 0 ∨ d = 1 ∨ d = 2 ∨ d = 3 ∨ d = 4 ∨ d = 5 ∨ d = 6 ∨ d = 7 ∨ d = 8 ∨ d = 9 := by omega
      rcases this with h | h | h | h | h | h | h | h | h | h <;> subst h <;> decide

theorem padDigits_length : ∀ (k v : Nat), (padDigits k v).length = k
  | 0, _ => rfl
  | k+1, v => by simp [padDigits, padDigits_length k]

theorem padDigits_val : ∀ (k v : Nat), Nat.ofDigitChars 10 (padDigits k v) 0 = v % 10 ^ k
  | 0, v => by simp [padDigits, Nat.mod_one]
  | k+1, v => by
    have hlt : v % 10 < 10 := Nat.mod_lt _ (by decide)
    rw [padDigits, Nat.ofDigitChars_append, padDigits_val k, Nat.ofDigitChars_cons_digitChar_of_lt_ten hlt,
      Nat.ofDigitChars_nil, Nat.pow_succ, Nat.mul_comm (10 ^ k) 10, Nat.mod_mul]
    omega


theorem toDigits_cons (n : Nat) : ∃ h t, Nat.toDigits 10 n = h :: t ∧ h ≠ '+' ∧ h ≠ '-' := by
  have hne : Nat.toDigits 10 n ≠ [] := Nat.toDigits_ne_nil
  match hd : Nat.toDigits 10 n with
  | [] => exact absurd hd hne
  | h :: t =>
    have := digit_not_sep (toDigits_isDigit n h (by simp [hd]))
    exact ⟨h, t, rfl, this.2.2.2.1, this.2.2.2.2⟩

theorem expo_val (neg : Bool) (x : Nat) :
    expoOf (some ((if neg then ['-'] else []) ++ Nat.toDigits 10 x)) = some (if neg then - (x : Int) else x) := by
  cases neg with
  | true => simp [expoOf, digitsVal_toDigits]
  | false =>
    obtain ⟨h, t, ht, h1, h2⟩ := toDigits_cons x
    have hv := digitsVal_toDigits x
    simp only [Bool.false_eq_true, if_false, List.nil_append]
    rw [ht] at hv ⊢
    unfold expoOf
    split
    · next heq => simp at heq
    · next ds heq => simp at heq; exact absurd heq.1 h1
    · next ds heq => simp at heq; exact absurd heq.1 h2
    · next ds _ _ heq => simp at heq; subst heq; simp [hv]

theorem frac_val (k fv : Nat) (hfv : fv < 10 ^ k) :
    fracOf (some (padDigits k fv)) = some (fv, k) := by
  cases k with
  | zero => simp [padDigits, fracOf]; omega
  | succ k =>
    have hne : padDigits (k+1) fv ≠ [] := by simp [padDigits]
    have hv := digitsVal_of_digits _ (padDigits_isDigit (k+1) fv) hne
    rw [padDigits_val, Nat.mod_eq_of_lt hfv] at hv
    have hl := padDigits_length (k+1) fv
    generalize padDigits (k+1) fv = P at hne hv hl
    match P, hne with
    | c :: cs, _ => simp [fracOf, hv, ← hl]

theorem litValue_real (i k fv : Nat) (hfv : fv < 10 ^ k) (neg : Bool) (x : Nat) :
    litValue (String.ofList (Nat.toDigits 10 i ++ '.' :: padDigits k fv ++ 'e' :: (if neg then ['-'] else []) ++
        Nat.toDigits 10 x))
      = some { isInt := false,
               value := ((i : Rat) + (fv : Rat) / ((10 ^ k : Nat) : Rat)) * pow10 (if neg then - (x : Int) else x) } := by
  have hD := toDigits_isDigit i
  have hP := padDigits_isDigit k fv
  have hsplit1 : splitAt1 (fun c => c == 'e' || c == 'E')
      (Nat.toDigits 10 i ++ '.' :: padDigits k fv ++ 'e' :: (if neg then ['-'] else []) ++ Nat.toDigits 10 x)
      = (Nat.toDigits 10 i ++ '.' :: padDigits k fv, some ((if neg then ['-'] else []) ++ Nat.toDigits 10 x)) := by
    have := splitAt1_append (fun c => c == 'e' || c == 'E') (Nat.toDigits 10 i ++ '.' :: padDigits k fv) 'e'
      ((if neg then ['-'] else []) ++ Nat.toDigits 10 x)
      (by
        intro c hc
        simp only [List.mem_append, List.mem_cons] at hc
        rcases hc with hc | hc | hc
        · exact digits_no_e _ hD c hc
        · subst hc; decide
        · exact digits_no_e _ hP c hc) (by decide)
    simpa [List.append_assoc] using this
  have hsplit2 : splitAt1 (fun c => c == '.') (Nat.toDigits 10 i ++ '.' :: padDigits k fv)
      = (Nat.toDigits 10 i, some (padDigits k fv)) :=
    splitAt1_append _ _ '.' _ (digits_no_dot _ hD) (by decide)
  simp only [litValue, String.toList_ofList]
  rw [hsplit1]
  simp only
  rw [hsplit2]
  simp only [digitsVal_toDigits, frac_val k fv hfv, expo_val neg x]
  simp

/-! string literals -/

theorem strLitValue_quoted (cs : List Char) :
    strLitValue (String.ofList ('"' :: (cs ++ ['"']))) = some (String.ofList cs) := by
  simp [strLitValue, String.toList_ofList]

end PymocaVerif.ExprGrammar
