"""C21 — an interrupted or in-progress cache write never breaks later loads.

Direct oracle on the real code, for generated models (also one large enough for several
pickle frames in the thorough tier):
* crash points of `save_model`: the call is really interrupted (an exception derived from
  `BaseException` raised from inside the file object) before `open`, right after `open`, and
  after every `write` call of the pickler; then the cache file cut at byte offsets (quick: every
  offset < 64, the last 8, and a seeded sample; thorough: every offset of the small models and
  a dense sample of the large one).  After each crash state the next `transfer_model` must
  return — not raise — a model equal (`a12_cache.signature`, exact) to a fresh compile, and the
  call after that must be served from the repaired cache, again equal;
* reader/writer interleavings of two `transfer_model` calls on one folder: two threads run
  strictly one at a time under a scheduler that yields at `load_model`, at `open(…, "wb")`, before
  every piece of the pickled bytes reaches the (unbuffered) file, and at `close`; random
  schedules and random splits into pieces.  Both calls must return correct models, the file
  must end up complete, and a third call must be a correct hit.
* (thorough, outside the Lean model) torn files that are not prefixes: two different caches
  spliced, zero-filled holes.

Tie to the Lean models (driver `drv_c21`): `CacheState` — every crash / truncation history is
replayed with the exception CPython's unpickler really raised on those bytes, and the decision
(recompiled because damaged / no file / out of date, or hit) is compared with the spy on
`load_model`; the table of exception classes `load_model` converts is extracted behaviourally
(a `pickle` proxy raising each class) and compared with `convert`; `CacheFile` — the bytes of
the file after every step of every schedule and the hit/miss of every load are compared.
"""
import io
import os
import pickle
import shutil
import threading
import types

from harness.common import HarnessError
from harness.gen import a12_cache as G

DRIVERS = ["drv_c21"]
RULE = ("one case = one crash state (interruption point of save_model or truncation offset of the cache file) of one generated "
        "model followed by transfer_model, or one two-call schedule; non-trivial = the damaged/partial file was actually read by "
        "the loader (file present, not complete) or the schedule has overlapping writers; distinct = distinct (model, state) / schedule")
TRUSTED = ["CPython's unpickler raises on every strict prefix of a pickle (observed on every prefix tried; the class is fed to the model)",
           "pickle.dump of the same db gives the same bytes within one process (checked per model)",
           "a reader's pickle.load sees one snapshot of the file (threads run one at a time; real processes could interleave reads with writes of the same bytes)"]
ASSUMPTIONS = ["the two concurrent calls compile the same sources with the same options (same bytes); spliced files of different caches are only sampled in the thorough tier, outside the Lean model",
               "shared libraries torn by the linker (codegen) are outside the model",
               "process death is modelled by what is on disk: a prefix of the pickle at write-call or byte granularity"]

EXC_TABLE = [
    ("UnpicklingError", lambda: pickle.UnpicklingError("pickle data was truncated")),
    ("PickleError", lambda: pickle.PickleError("x")),
    ("AttributeError", lambda: AttributeError("Can't get attribute 'X'")),
    ("EOFError", lambda: EOFError("Ran out of input")),
    ("ImportError", lambda: ImportError("No module named x")),
    ("ModuleNotFoundError", lambda: ModuleNotFoundError("No module named x")),
    ("IndexError", lambda: IndexError("pop from empty list")),
    ("KeyError", lambda: KeyError("k")),
    ("ValueError", lambda: ValueError("unsupported pickle protocol: 9")),
    ("TypeError", lambda: TypeError("x")),
    ("UnicodeDecodeError", lambda: UnicodeDecodeError("utf-8", b"\xff", 0, 1, "invalid start byte")),
    ("OverflowError", lambda: OverflowError("x")),
    ("OSError", lambda: OSError("x")),
    ("RuntimeError-DeserializingStream", lambda: RuntimeError("DeserializingStream: wrong version")),
    ("RuntimeError-deserialization", lambda: RuntimeError("Failed Deserialization of Function")),
    ("RuntimeError-other", lambda: RuntimeError("something else")),
    ("RecursionError", lambda: RecursionError("maximum recursion depth exceeded")),
    ("NotImplementedError", lambda: NotImplementedError("x")),
]


class SimCrash(BaseException):
    """Simulated death of the process inside save_model."""


def exc_json(e):
    msg = str(e)
    return {"mro": [k.__name__ for k in type(e).__mro__ if k is not object],
            "deser": ("DeserializingStream" in msg) or ("deserialization" in msg.lower())}


# ---------------------------------------------------------------------------------------------
# shims
# ---------------------------------------------------------------------------------------------
class CrashFile:
    """File object for `open(cache, "wb")`: unbuffered, dies at the `at`-th write call."""

    def __init__(self, path, mode, at, calls):
        self.raw = io.open(path, mode, buffering=0)
        self.at, self.calls, self.n = at, calls, 0

    def __enter__(self):
        return self

    def __exit__(self, *a):
        self.raw.close()
        return False

    def write(self, data):
        if self.at is not None and self.n >= self.at:
            raise SimCrash("died in write call %d" % self.n)
        self.n += 1
        self.calls.append(len(data))
        return self.raw.write(data)


def install_open(api, hook):
    """`api.open` -> hook(path, mode) for any binary write access to the cache file, builtin otherwise."""
    def opener(path, mode="r", *a, **k):
        if "b" in mode and any(c in mode for c in "wax+") and str(path).endswith(".pymoca_cache"):
            return hook(path, mode)
        return io.open(path, mode, *a, **k)
    api.open = opener


def uninstall_open(api):
    if "open" in api.__dict__:
        del api.__dict__["open"]


# ---------------------------------------------------------------------------------------------
# part (a): which exception classes of pickle.load are converted
# ---------------------------------------------------------------------------------------------
def check_convert_table(ctx, drv):
    from pymoca.backends.casadi import api
    root = os.path.join(ctx.scratch, "conv")
    w = G.CacheWorld(root)
    text = "model M\n  parameter Real p = 2;\n  Real x(max = p);\nequation\n  x = 3*p;\nend M;\n"
    real_pickle = api.pickle
    try:
        w.write(0, "M.mo", text)
        ok, m, msg, kind = w.transfer({"cache": True}, [])
        if not ok:
            rok, rm, rmsg = w.reference({"cache": True}, [])
            if not rok:
                raise HarnessError("baseline model does not compile: %s %s" % (rm, rmsg))
            ctx.violation("transfer_model raised %s on a folder without a cache file" % m,
                          {"stream": "interrupt", "text": text, "opts": {"cache": True}, "at": None, "calls": []},
                          expected="compile and save", observed="%s: %s" % (m, msg), kind="crash")
            return
        verdicts, excs = [], []
        for label, mk in EXC_TABLE:
            e = mk()

            def fake_load(f, _e=e):
                raise _e
            api.pickle = types.SimpleNamespace(load=fake_load, dump=real_pickle.dump, UnpicklingError=real_pickle.UnpicklingError)
            w.spy_log.clear()
            ok, r, msg = G.outcome(api.transfer_model, w.dirs[0], "M", {"cache": True})
            api.pickle = real_pickle
            k = w.spy_log[0] if w.spy_log else "?"
            verdicts.append("raise" if k.startswith("raised") else k.split(":", 1)[1])
            excs.append(exc_json(e))
            ctx.case({"exception": label}, nontrivial=True, key=["convert", label])
            ctx.count("convert:%s->%s" % (label, verdicts[-1]))
            if not ok and r != type(e).__name__:
                ctx.violation("pickle.load raising %s made transfer_model raise %s" % (label, r), {"exception": label},
                              expected="recompile or the same exception", observed=r)
        if drv is not None:
            ans = drv.ask({"op": "cache.convert", "excs": excs})
            if ans.get("verdicts") != verdicts:
                diff = [(EXC_TABLE[i][0], a, b) for i, (a, b) in enumerate(zip(ans.get("verdicts", []), verdicts)) if a != b]
                ctx.disagreement("convert-table", {"stream": "convert", "classes": [d[0] for d in diff]}, [d[1] for d in diff], [d[2] for d in diff])
    finally:
        api.pickle = real_pickle
        w.close()
        shutil.rmtree(root, ignore_errors=True)


# ---------------------------------------------------------------------------------------------
# part (b): crash enumeration
# ---------------------------------------------------------------------------------------------
def big_model(k):
    decl = ["parameter Real p%d = %d;" % (i, i + 1) for i in range(4)]
    eqs = []
    for i in range(k):
        decl.append("Real x%d(max = %d*p%d, nominal = p%d + %d);" % (i, i + 1, i % 4, (i + 1) % 4, i))
        eqs.append("der(x%d) = %s;" % (i, " + ".join("%d*x%d*x%d" % (j + 1, (i + j) % k, (i + 2 * j) % k) for j in range(6))))
    return "model M\n  %s\nequation\n  %s\nend M;\n" % ("\n  ".join(decl), "\n  ".join(eqs))


class CrashBench:
    """One model in one folder: reference signature, complete cache bytes, write-call boundaries."""

    def __init__(self, ctx, idx, text, opts):
        from pymoca.backends.casadi import api
        self.api, self.ctx, self.text = api, ctx, text
        self.opts = dict(opts, cache=True)
        self.root = os.path.join(ctx.scratch, "crash%03d" % idx)
        self.w = G.CacheWorld(self.root)
        self.src_tick = self.w.write(0, "M.mo", text)
        self.ok = False
        self.failed_baseline = False
        rok, rm, rmsg = self.w.reference(self.opts, [])
        if not rok:
            return
        self.ref = G.signature(rm, 2, 3)
        calls = []
        install_open(api, lambda path, mode: CrashFile(path, mode, None, calls))
        try:
            ok, m, msg, kind = self.w.transfer(self.opts, [])
        finally:
            uninstall_open(api)
        if not ok:
            ctx.violation("transfer_model raised %s on a folder without a cache file" % m,
                          {"stream": "interrupt", "text": text, "opts": self.opts, "at": None, "calls": []},
                          expected="compile and save", observed="%s: %s" % (m, msg), kind="crash")
            self.failed_baseline = True
            return
        with open(self.w.cache_path(), "rb") as f:
            self.B = f.read()
        self.calls = calls
        # determinism of the pickle: a second save gives the same bytes
        os.remove(self.w.cache_path())
        ok, m, msg, kind = self.w.transfer(self.opts, [])
        with open(self.w.cache_path(), "rb") as f:
            self.deterministic = f.read() == self.B
        self.ok = ok

    def model_prefix(self, with_cache):
        """The model history that leads to the current sources (and, optionally, a complete fresh cache)."""
        w = self.w
        ops = [["write", 0, "M.mo", self.src_tick, w.content_id(self.text)]]
        if with_cache:
            ops.append(["transfer", w.model_opts(self.opts, []), self.src_tick, len(self.B)])
        return ops

    def close(self):
        self.w.close()
        shutil.rmtree(self.root, ignore_errors=True)

    def unpickle_exc(self, data):
        try:
            pickle.load(io.BytesIO(data))
        except Exception as e:  # noqa: BLE001 — the class is the observation
            return e
        return None

    def expect_correct(self, case, what_state, want_kind_prefix=None):
        """transfer_model after a crash state: correct and not raising; then a correct hit."""
        ctx, w = self.ctx, self.w
        ok, m, msg, kind = w.transfer(self.opts, [])
        if not ok:
            ctx.violation("transfer_model raised %s after %s" % (m, what_state), case, expected="a recompiled, correct model",
                          observed="%s: %s" % (m, msg), kind="crash")
            return None
        df = G.diff(self.ref, G.signature(m, 2, 3))
        if df:
            ctx.violation("transfer_model after %s returned a model that differs from a fresh compile: %s" % (what_state, df[0]),
                          case, expected="fresh compile", observed=df, kind="crash")
            return None
        return kind

    def expect_hit(self, case, what_state):
        ctx, w = self.ctx, self.w
        ok, m, msg, kind = w.transfer(self.opts, [])
        if not ok or G.diff(self.ref, G.signature(m, 2, 3)):
            ctx.violation("the call after the repair of %s %s" % (what_state, "raised " + str(m) if not ok else "returned a wrong model"),
                          case, expected="a correct model from the repaired cache", observed=str(m if not ok else "diff"), kind="crash")
            return None
        return kind

    # ---- one truncation state -------------------------------------------------------------------
    def truncation(self, k, drv, check_hit=False, edit_after=False):
        ctx, w = self.ctx, self.w
        case = {"stream": "truncate", "text": self.text, "opts": self.opts, "offset": k, "size": len(self.B),
                "edit_after": edit_after}
        data = self.B[:k]
        with open(w.cache_path(), "wb") as f:
            f.write(data)
        t = w.tick()
        G.set_mtime(w.cache_path(), w.ns(t))
        start = len(w.model_ops)
        # model: the file now holds `k` of `size` bytes; make sure the model's file is the complete one first
        w.model_ops.append(["truncate", k, t])
        pre = self.model_prefix(True)
        if edit_after:
            self.src_tick = w.write(0, "M.mo", self.text)     # same text, later time: the mtime check fires before the unpickler
        e = self.unpickle_exc(data)
        ctx.case({"stream": "truncate", "offset": k, "size": len(self.B)}, nontrivial=k < len(self.B),
                 key=["trunc", self.text, k, edit_after])
        ctx.count("unpickler:" + (type(e).__name__ if e else "complete"))
        ctx.count("offset:" + ("0" if k == 0 else "<64" if k < 64 else "last-8" if k >= len(self.B) - 8 else "sampled"))
        kind = self.expect_correct(case, "the cache file was cut to %d of %d bytes" % (k, len(self.B)))
        if kind is None:
            return False
        ctx.count("decision:" + kind)
        kinds = [kind]
        if check_hit:
            k2 = self.expect_hit(case, "a cut at %d" % k)
            if k2 is None:
                return False
            kinds.append(k2)
        if drv is not None:
            self.correspond(drv, case, pre, start, kinds, [[k, exc_json(e)]] if e else [])
        return True

    def correspond(self, drv, case, pre, start, kinds, errs):
        """Replays `pre` (sources + a complete fresh cache) and the ops logged since `start` on the model."""
        w = self.w
        ans = drv.ask({"op": "cache.run", "excl": True, "version": 1, "errs": errs,
                       "err_default": {"mro": ["UnpicklingError", "PickleError", "Exception"], "deser": False},
                       "ops": pre + w.model_ops[start:]})
        if not ans.get("ok"):
            raise HarnessError("drv_c21 rejected: %s" % ans)
        msteps = [s for s in ans["steps"][len(pre):] if "kind" in s and not s.get("crashed")]
        mk = [s["kind"] for s in msteps]
        if mk != kinds:
            self.ctx.disagreement("crash.decision", case, mk, kinds)
        if any(s.get("stale") for s in msteps):
            self.ctx.disagreement("crash.stale", case, "model: stale result", "impl: correct")

    # ---- one real interruption of save_model ------------------------------------------------------
    def interruption(self, at, drv):
        """`at` = None: die before open; j >= 0: die at the j-th write call (0 = file just created, empty)."""
        ctx, w, api = self.ctx, self.w, self.api
        case = {"stream": "interrupt", "text": self.text, "opts": self.opts, "at": at, "calls": self.calls}
        if os.path.exists(w.cache_path()):
            os.remove(w.cache_path())
        # restart the model history: the sources, no cache file
        w.model_ops[:] = self.model_prefix(False)
        start = len(w.model_ops)

        def hook(path, mode):
            if at is None:
                raise SimCrash("died before open")
            return CrashFile(path, mode, at, [])
        install_open(api, hook)
        try:
            w.spy_log.clear()
            before = w.cache_stat()
            ok, r, msg = G.outcome_base(api.transfer_model, w.dirs[0], "M", w.real_opts(self.opts, []))
        finally:
            uninstall_open(api)
        if ok or r != "SimCrash":
            raise HarnessError("the interruption did not happen: %s %s" % (r, msg))
        after = w.cache_stat()
        now = w.clock + 1
        if after is not None:
            w.tick()
            G.set_mtime(w.cache_path(), w.ns(now))
        on_disk = after[2] if after else None
        expect = None if at is None else sum(self.calls[:at])
        ctx.case({"stream": "interrupt", "at": at, "on_disk": on_disk}, nontrivial=True, key=["intr", self.text, at])
        ctx.count("interrupt:" + ("before-open" if at is None else "empty-file" if at == 0 else "after-write-call"))
        if on_disk != expect:
            ctx.disagreement("interrupt.bytes-on-disk", case, expect, on_disk)
        w.model_ops.append(["crashed", w.model_opts(self.opts, []), now, len(self.B), "beforeOpen" if at is None else expect])
        kinds = []
        k1 = self.expect_correct(case, "save_model died %s" % ("before open" if at is None else "at write call %d (%s bytes on disk)" % (at, on_disk)))
        if k1 is None:
            return False
        kinds.append(k1)
        k2 = self.expect_hit(case, "an interruption at %s" % at)
        if k2 is None:
            return False
        kinds.append(k2)
        ctx.count("decision:" + k1)
        if drv is not None:
            errs = []
            if on_disk is not None and on_disk < len(self.B):
                e = self.unpickle_exc(self.B[:on_disk])
                errs = [[on_disk, exc_json(e)]]
            ans = drv.ask({"op": "cache.run", "excl": True, "version": 1, "errs": errs,
                           "err_default": {"mro": ["UnpicklingError", "PickleError", "Exception"], "deser": False},
                           "ops": w.model_ops})
            msteps = [s["kind"] for s in ans["steps"][start:] if "kind" in s and not s.get("crashed")]
            if msteps != kinds:
                ctx.disagreement("interrupt.decision", case, msteps, kinds)
        return True


# ---------------------------------------------------------------------------------------------
# part (c): reader / writer interleavings
# ---------------------------------------------------------------------------------------------
class Sched:
    """Runs threads strictly one at a time along a fixed list of acts."""

    def __init__(self, acts, snapshot):
        self.acts, self.snapshot = acts, snapshot
        self.pos, self.runner, self.error = 0, None, None
        self.cv = threading.Condition()
        self.log = []
        self.finished = set()

    def wait_turn(self, i, kind):
        with self.cv:
            if self.runner == i:
                self.runner = None
                self.cv.notify_all()
            while True:
                if self.error:
                    raise SimCrash(self.error)
                if self.runner is None and self.pos < len(self.acts) and self.acts[self.pos][1] == i:
                    act = self.acts[self.pos]
                    if act[0] != kind:
                        self.error = "call %d is at `%s`, the schedule says %s" % (i, kind, act)
                        self.cv.notify_all()
                        raise SimCrash(self.error)
                    self.runner = i
                    return act
                if self.runner is None and self.pos >= len(self.acts):
                    self.error = "call %d is at `%s` after the end of the schedule" % (i, kind)
                    self.cv.notify_all()
                    raise SimCrash(self.error)
                if not self.cv.wait(timeout=60):
                    self.error = "scheduler timeout (call %d waiting for `%s`)" % (i, kind)
                    self.cv.notify_all()
                    raise SimCrash(self.error)

    def done(self, extra=None):
        with self.cv:
            self.log.append({"file": self.snapshot(), "extra": extra})
            self.pos += 1

    def finish(self, i):
        with self.cv:
            if self.runner == i:
                self.runner = None
            self.finished.add(i)
            self.cv.notify_all()


class SchedFile:
    def __init__(self, sched, i, path, mode):
        self.sched, self.i, self.buf = sched, i, []
        sched.wait_turn(i, "open")
        self.raw = io.open(path, mode, buffering=0)
        sched.done()

    def __enter__(self):
        return self

    def write(self, data):
        self.buf.append(bytes(data))
        return len(data)

    def __exit__(self, et, ev, tb):
        if et is not None:
            self.raw.close()
            return False
        data, pos = b"".join(self.buf), 0
        while pos < len(data):
            act = self.sched.wait_turn(self.i, "write")
            n = act[2]
            self.raw.write(data[pos:pos + n])
            pos += n
            self.sched.done()
        self.sched.wait_turn(self.i, "close")
        self.raw.close()
        self.sched.done()
        return False


def gen_schedule(rng, N, f0_valid):
    """Random enabled interleaving of two calls (a simulation of the protocol; the Lean model re-checks
    that every act is enabled and the real run that every call is where the schedule says)."""
    file_ok = f0_valid          # does the file hold exactly the complete bytes?
    ph = ["start", "start"]
    pos = [0, 0]
    last = None
    acts = []
    while any(p not in ("hit", "wrote") for p in ph):
        i = rng.choice([j for j in (0, 1) if ph[j] not in ("hit", "wrote")])
        if ph[i] == "start":
            acts.append(["load", i])
            ph[i] = "hit" if file_ok else "missed"
        elif ph[i] == "missed":
            acts.append(["open", i])
            ph[i], pos[i], last = "writing", 0, i
            file_ok = False
        elif pos[i] < N:
            rem = N - pos[i]
            r = rng.random()
            n = rem if r < 0.3 else rng.randint(1, rem) if r < 0.65 else rng.randint(1, min(rem, 40))
            acts.append(["write", i, n])
            pos[i] += n
            # complete as soon as the call that opened last has issued everything (the other only adds right bytes)
            file_ok = pos[last] == N
        else:
            acts.append(["close", i])
            ph[i] = "wrote"
    return acts


def run_schedule(ctx, bench, acts, f0, drv, sid):
    """Executes one schedule with two threads on the bench's folder."""
    api, w = bench.api, bench.w
    case = {"stream": "interleave", "text": bench.text, "opts": bench.opts, "acts": acts,
            "f0": None if f0 is None else "prefix:%d" % len(f0)}
    path = w.cache_path()
    if os.path.exists(path):
        os.remove(path)
    if f0 is not None:
        with open(path, "wb") as f:
            f.write(f0)

    def snapshot():
        try:
            with open(path, "rb") as f:
                return f.read()
        except FileNotFoundError:
            return None
    sched = Sched(acts, snapshot)
    tl = threading.local()
    orig_load = api.load_model       # the CacheWorld spy
    loads = {}

    def load_hook(folder, name, opts):
        i = tl.i
        sched.wait_turn(i, "load")
        try:
            m = orig_load(folder, name, opts)
            loads[i] = "hit"
            return m
        except BaseException as e:
            loads[i] = type(e).__name__
            raise
        finally:
            sched.done()
    results = {}

    def body(i):
        tl.i = i
        try:
            results[i] = G.outcome_base(api.transfer_model, w.dirs[0], "M", w.real_opts(bench.opts, []))
        finally:
            sched.finish(i)
    api.load_model = load_hook
    install_open(api, lambda p, mode: SchedFile(sched, tl.i, p, mode))
    try:
        ths = [threading.Thread(target=body, args=(i,)) for i in (0, 1)]
        for t in ths:
            t.start()
        for t in ths:
            t.join(timeout=120)
        if any(t.is_alive() for t in ths):
            raise HarnessError("scheduler threads did not finish")
    finally:
        uninstall_open(api)
        api.load_model = orig_load
    overlapping = sum(1 for a in acts if a[0] == "open") == 2
    ctx.case({"stream": "interleave", "acts": len(acts), "opens": sum(1 for a in acts if a[0] == "open")},
             nontrivial=overlapping or f0 is not None, key=["sched", bench.text, acts, case["f0"]])
    ctx.count("schedule:" + ("two-writers" if overlapping else "one-writer" if any(a[0] == "open" for a in acts) else "no-writer"))
    if sched.error:
        ctx.disagreement("schedule-not-followed", case, "schedule enabled in the model", sched.error)
        return
    for i in (0, 1):
        ok, m, msg = results[i]
        if not ok:
            ctx.violation("call %d of two interleaved transfer_model calls raised %s: %s" % (i, m, msg), case,
                          expected="a correct model", observed=m, kind="schedule")
            return
        df = G.diff(bench.ref, G.signature(m, 2, 3))
        if df:
            ctx.violation("call %d of two interleaved transfer_model calls returned a wrong model: %s" % (i, df[0]), case,
                          expected="fresh compile", observed=df, kind="schedule")
            return
    final = snapshot()
    if any(a[0] == "open" for a in acts) and final != bench.B:
        ctx.violation("after two interleaved transfer_model calls the cache file is not the complete cache "
                      "(%s bytes, expected %d)" % (None if final is None else len(final), len(bench.B)), case,
                      expected="complete file", observed="differs", kind="schedule")
        return
    ok, m, msg = G.outcome(api.transfer_model, w.dirs[0], "M", w.real_opts(bench.opts, []))
    if not ok or G.diff(bench.ref, G.signature(m, 2, 3)):
        ctx.violation("the transfer_model call after two interleaved calls %s" % ("raised " + str(m) if not ok else "returned a wrong model"),
                      case, expected="correct model", observed=str(m) if not ok else "diff", kind="schedule")
        return
    if drv is not None:
        ans = drv.ask({"op": "file.run", "B": list(bench.B), "f0": None if f0 is None else list(f0), "acts": acts})
        if not ans.get("ok"):
            raise HarnessError("drv_c21 rejected file.run: %s" % ans)
        for j, (ms, rs) in enumerate(zip(ans["steps"], sched.log)):
            if not ms.get("enabled"):
                ctx.disagreement("schedule.enabled", dict(case, step=j), "not enabled in the model", "executed by the real code")
                return
            mf = None if ms["file"] is None else bytes(ms["file"])
            if mf != rs["file"]:
                ctx.disagreement("schedule.file-bytes", dict(case, step=j), None if mf is None else len(mf),
                                 None if rs["file"] is None else len(rs["file"]))
                return
        mph = ans["steps"][-1]["ph"] if ans["steps"] else []
        want = ["hit" if loads.get(i) == "hit" else "wrote" for i in (0, 1)]
        if mph != want:
            ctx.disagreement("schedule.outcomes", case, mph, want)


# ---------------------------------------------------------------------------------------------
def torn_nonprefix(ctx, bench, rng, n):
    """Outside the Lean model: spliced / holed files.  Direct oracle only."""
    o2 = dict(bench.opts, detect_aliases=not bench.opts.get("detect_aliases", False))
    w = bench.w
    os.remove(w.cache_path())
    ok, m, msg = G.outcome(bench.api.transfer_model, w.dirs[0], "M", w.real_opts(o2, []))
    if not ok:
        return
    with open(w.cache_path(), "rb") as f:
        B2 = f.read()
    for _ in range(n):
        if ctx.time_left() < 20:
            break
        k = rng.randrange(1, min(len(B2), len(bench.B)))
        kind = rng.choice(["splice12", "splice21", "hole"])
        data = {"splice12": bench.B[:k] + B2[k:], "splice21": B2[:k] + bench.B[k:],
                "hole": bytes(k) + bench.B[k:]}[kind]
        with open(w.cache_path(), "wb") as f:
            f.write(data)
        case = {"stream": "torn-nonprefix", "text": bench.text, "opts": bench.opts, "kind": kind, "offset": k}
        ctx.case({"stream": "torn-nonprefix", "kind": kind, "offset": k}, nontrivial=True, key=["torn", bench.text, kind, k])
        ctx.count("torn:" + kind)
        ok, m, msg = G.outcome(bench.api.transfer_model, w.dirs[0], "M", w.real_opts(bench.opts, []))
        if not ok:
            ctx.violation("transfer_model raised %s on a torn cache file (%s at %d)" % (m, kind, k), case,
                          expected="recompile", observed="%s: %s" % (m, msg), kind="crash")
            return
        if G.diff(bench.ref, G.signature(m, 2, 3)):
            ctx.violation("transfer_model returned a wrong model from a torn cache file (%s at %d)" % (kind, k), case,
                          expected="fresh compile", observed="differs", kind="crash")
            return


def make_benches(ctx, quick):
    rng = ctx.rng
    specs = []
    for want in (["delay", "alias", "array"], ["string-parameter"], []):
        gm = G.gen_model(rng, size=2, want=want)
        specs.append((gm["text"], G.gen_options(rng, heavy=0.4)))
    if not quick:
        specs.append((big_model(24), {}))
    out = []
    for idx, (text, opts) in enumerate(specs):
        b = CrashBench(ctx, idx, text, opts)
        tries = 0
        while not b.ok and not b.failed_baseline and tries < 5:      # generated model does not compile: draw another one
            b.close()
            tries += 1
            gm = G.gen_model(rng, size=2)
            b = CrashBench(ctx, idx, gm["text"], {})
        if b.failed_baseline:
            b.close()
            continue
        if not b.ok:
            raise HarnessError("no compilable model for the crash bench")
        if not b.deterministic:
            ctx.notes.append("pickle bytes of model %d differ between two saves: interleaving stream skipped for it" % idx)
        ctx.count("bench-size:%dKiB" % (len(b.B) // 1024))
        ctx.count("bench-write-calls:%d" % len(b.calls))
        out.append(b)
    return out


def offsets_for(bench, rng, quick, nsample):
    N = len(bench.B)
    base = list(range(0, min(64, N))) + list(range(max(0, N - 8), N + 1))
    if quick:
        return base, sorted(set(rng.sample(range(64, max(65, N - 8)), min(nsample, max(0, N - 72)))))
    if N <= 40000:
        return base, list(range(64, N - 8))
    return base, sorted(set(rng.sample(range(64, N - 8), nsample)))


def run(ctx):
    G.quiet_logging()
    drv = ctx.driver("drv_c21")
    quick = ctx.tier == "quick"
    from harness import corpus
    for c in corpus.load("C21"):
        ctx.count("corpus")
        replay(ctx, {"case": c["case"] if "case" in c else c})
    check_convert_table(ctx, drv)
    benches = make_benches(ctx, quick)
    if ctx.violations or not benches:
        for b in benches:
            b.close()
        return
    try:
        # ---- interruptions of save_model at every write call ------------------------------------------
        for b in benches:
            for at in [None] + list(range(0, len(b.calls) + 1)):
                if at is not None and at == len(b.calls):
                    continue     # dying after the last write call = complete file (covered by offset N)
                if not b.interruption(at, drv):
                    return
        # ---- interleavings (all drawn first: the case sequence depends on the seed only) ----------------
        nint = 16 if quick else 300
        scheds = []
        for j in range(nint):
            b = benches[j % len(benches)]
            r = ctx.rng.random()
            f0 = None if r < 0.6 else b.B[:ctx.rng.randrange(0, len(b.B))] if r < 0.85 else b.B
            scheds.append((b, f0, gen_schedule(ctx.rng, len(b.B), f0 == b.B)))
        plans = [offsets_for(b, ctx.rng, quick, 70 if quick else 2500) for b in benches]
        for j, (b, f0, acts) in enumerate(scheds):
            if ctx.time_left() < (22 if quick else 200):
                ctx.notes.append("interleavings stopped by the time budget after %d of %d" % (j, nint))
                break
            if not b.deterministic:
                continue
            run_schedule(ctx, b, acts, f0, drv, j)
            if ctx.violations:
                return
        # ---- truncation at byte offsets: first the mandatory ones for every model, then samples ---------
        if quick:   # every offset < 64 and the last 8 on the first model; the ends only on the others
            plans = [(base if n == 0 else [0, 1, 2, 3, len(b.B) - 1, len(b.B)], extra)
                     for n, (b, (base, extra)) in enumerate(zip(benches, plans))]
        for b, (base, _) in zip(benches, plans):
            with open(b.w.cache_path(), "wb") as f:
                f.write(b.B)
            for n, k in enumerate(base):
                if ctx.time_left() < 0:
                    ctx.notes.append("mandatory offsets stopped by the time budget")
                    break
                if not b.truncation(k, drv, check_hit=(n % 16 == 0), edit_after=(n % 23 == 7)):
                    return
        rounds = max(len(p[1]) for p in plans) if plans else 0
        done = 0
        for n in range(rounds):
            if ctx.time_left() < (3 if quick else 60):
                ctx.notes.append("sampled offsets stopped by the time budget after %d per model" % n)
                break
            for b, (_, extra) in zip(benches, plans):
                if n < len(extra):
                    done += 1
                    if not b.truncation(extra[n], drv, check_hit=(n % 40 == 0)):
                        return
        ctx.extra["sampled_offsets_done"] = done
        ctx.extra["every_offset_covered"] = [(not quick) and len(b.B) <= 40000 for b in benches]
        if not quick:
            torn_nonprefix(ctx, benches[0], ctx.rng, 150)
    finally:
        for b in benches:
            b.close()
    ctx.extra["exhaustive"] = False


def search(ctx):
    G.quiet_logging()
    benches = make_benches(ctx, True)
    try:
        while ctx.time_left() > 0 and not ctx.violations:
            b = ctx.rng.choice(benches)
            if ctx.rng.random() < 0.7:
                b.truncation(ctx.rng.randrange(0, len(b.B)), None)
            elif b.deterministic:
                run_schedule(ctx, b, gen_schedule(ctx.rng, len(b.B), False), None, None, 0)
    finally:
        for b in benches:
            b.close()


def replay(ctx, payload):
    G.quiet_logging()
    c = payload["case"]
    drv = ctx.driver("drv_c21")
    if c.get("stream") == "convert":
        check_convert_table(ctx, drv)
        return
    b = CrashBench(ctx, 900, c["text"], {k: v for k, v in c["opts"].items() if k != "cache"})
    try:
        if b.failed_baseline:
            return
        if not b.ok:
            raise HarnessError("replay model does not compile")
        if c["stream"] == "truncate":
            b.truncation(c["offset"], drv, check_hit=True, edit_after=c.get("edit_after", False))
        elif c["stream"] == "interrupt":
            b.interruption(c["at"], drv)
        elif c["stream"] == "interleave":
            f0 = None if c["f0"] is None else b.B[:int(c["f0"].split(":")[1])]
            run_schedule(ctx, b, c["acts"], f0, drv, 0)
        elif c["stream"] == "torn-nonprefix":
            torn_nonprefix(ctx, b, ctx.rng, 50)
    finally:
        b.close()


MANIFEST = dict(
    level_text="Lean 4 theorems: (1) on the cache state machine, after save_model dies at any point (before open, or with any number "
               "of bytes on disk) or the file is cut at any offset, the next transfer_model does not raise and returns the compile of "
               "the current sources, for unbounded histories mixing crashes, cuts, edits and transfers, given that what the unpickler "
               "raises on a prefix is among the classes load_model converts (shown necessary); (2) on a byte-level model of two "
               "transfer_model calls sharing the file (truncating open, private offsets, writes in arbitrary pieces), a call about to "
               "load sees the initial file or an exact prefix, and when both calls are done the file is complete. Tied per run to the "
               "real code by really interrupting save_model at every write call, cutting the cache at byte offsets, running "
               "thread-scheduled interleavings, and a behavioural extraction of the converted exception classes.",
    level_note="Partial by design (named in the evidence): non-prefix torn files (different bytes from the two writers, >2 writers) and "
               "shared libraries torn by the linker are outside the Lean model; spliced/holed files are sampled by the direct oracle in "
               "the thorough tier. Trusted: Lean kernel + standard axioms; the harness; CPython's unpickler raising on strict prefixes.",
    technique="Lean 4 proof (invariants over crash histories and over two-writer schedules) + crash enumeration / scheduled interleavings on the real code",
)
READY = True
