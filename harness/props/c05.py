"""C05 — flattening never changes what later flattening produces.

Direct oracle (the property statement itself, on the real code): a history of requests
(`tree.flatten`, CasADi `generate`, SymPy `generate`, XML `generate`, `tools.compiler.main` with
several `-m`) on ONE parsed tree gives, at every step, the canonical result (or exception class)
that the same request gives on a fresh parse of the same source.

Tie to the Lean model `PymocaVerif.Model.ObjGraph` (theorems in `Props/C05.lean`):
* copy flags observed on a probe library -> `Generated/CopyFlags.lean` (obligation `flags_ok`);
* `find_class(copy=True)` of sampled classes: shape of the copy (which objects are new, what
  they point to) = the model's;
* write footprint: the objects of the parsed tree that `tree.flatten` really writes (snapshot
  diff) are inside the footprint the model predicts from the same snapshot.
"""
import glob
import json
import logging
import os

from harness.common import HarnessError, REPO
from harness.gen import a04

DRIVERS = ["drv_c05"]
RULE = ("a case is one request history on one parsed library (every class of every file of test/models requested twice "
        "in sequence and in shuffled order; generated libraries with packages, nested classes, extends, components of "
        "class type with modifications, type aliases, connectors, functions, constants, redeclarations; CLI runs with "
        "several -m); non-trivial = the history has at least two requests (every history of the streams repeats classes "
        "and requests classes used by earlier ones); distinct = distinct (source, request list)")
TRUSTED = ["canonical form of a flat model = Node.to_json of the returned tree (all symbols with attributes, equations, "
           "functions), of a CasADi model = names/attributes of its variable lists and the printed MX residuals",
           "the write footprint of tree.flatten is observed (snapshot diff per request), not proved"]
ASSUMPTIONS = ["the reference for every request is computed in a forked child of a process that only imported pymoca (fresh parse of "
               "the same text, unpickled from the bytes a sibling child produced); forked children share no state with the process "
               "under test",
               "an outcome RecursionError on one side only is not compared (the depth at which CPython's recursion limit is hit depends on the caller's stack); counted as recursion-limit-not-compared",
               "the lookup cache that _find_class keeps for unqualified imports (Class.imports[name] = ComponentRef) is not part "
               "of the observed state of the parsed tree",
               "fresh parse = pymoca.parser.parse(text, bypass_cache=True) of the same source text"]

OPS = ("flatten", "casadi", "sympy", "xml")
_log_ready = False


def quiet_logs():
    global _log_ready
    if not _log_ready:
        lg = logging.getLogger("pymoca")
        lg.addHandler(logging.NullHandler())
        lg.propagate = False
        _log_ready = True


def parse(text):
    from pymoca import parser
    return parser.parse(text, bypass_cache=True)


def do_request(t, op, path):
    """One request on tree `t`; canonical outcome."""
    from pymoca import ast, tree
    name = ".".join(path)
    if op == "flatten":
        return a04.outcome(lambda: a04.flat_canon(tree.flatten(t, ast.ComponentRef.from_tuple(tuple(path)))))
    if op == "casadi":
        from pymoca.backends.casadi.generator import generate
        return a04.outcome(lambda: a04.casadi_canon(generate(t, name)))
    if op == "sympy":
        from pymoca.backends.sympy.generator import generate
        return a04.outcome(lambda: generate(t, name, {}))
    if op == "xml":
        from pymoca.backends.xml.generator import generate
        return a04.outcome(lambda: generate(t, name))
    raise HarnessError("bad op " + op)


def diff_keys(a, b):
    """Last path keys at which two canonical JSON texts differ (sorted, at most 6)."""
    try:
        ja, jb = json.loads(a), json.loads(b)
    except Exception:
        return ["<text>"]
    keys = set()

    def rec(x, y, k):
        if len(keys) > 20:
            return
        if type(x) is not type(y):
            keys.add(k)
        elif isinstance(x, dict):
            for kk in set(x) | set(y):
                if kk not in x or kk not in y:
                    keys.add("+" + k)
                else:
                    rec(x[kk], y[kk], kk)
        elif isinstance(x, list):
            if len(x) != len(y):
                keys.add("#" + k)
            else:
                for p, q in zip(x, y):
                    rec(p, q, k)
        elif x != y:
            keys.add(k)
    rec(ja, jb, "")
    return sorted(keys)[:6]


def describe(exp, got):
    if exp[0] != got[0] or exp[0] == "exc":
        return "outcome %s instead of %s" % (got[1] if got[0] == "exc" else "ok", exp[1] if exp[0] == "exc" else "ok")
    return "differing keys: " + ",".join(diff_keys(exp[1], got[1]))


CFG_EXPECT = None


def cfg_for_model(ctx):
    """The copy flags the model is run with: what the probe observed on the code under test."""
    global CFG_EXPECT
    if CFG_EXPECT is None:
        fl = ctx.extra.get("copy_flags")
        if fl is None:
            fl = a04.outcome(a04.probe_flags)[1]
        if not isinstance(fl, dict) or fl.get("hookRebind") not in ("removed", "toOriginal") or \
                fl.get("argHook") not in ("removed", "toOriginal"):
            fl = dict(memoById=True, hookRebind="removed", argHook="removed", rootCopy=True, innerCopy=True,
                      constCopy=False)
        CFG_EXPECT = dict(memoById=bool(fl["memoById"]), hookRebind=fl["hookRebind"], argRebind=fl["argHook"],
                          rootCopy=bool(fl["rootCopy"]), innerCopy=bool(fl["innerCopy"]), constCopy=bool(fl["constCopy"]))
    return CFG_EXPECT


def model_findclass(ctx, drv, t, path, case):
    """find_class(copy=True): shape of the real copy vs the model's."""
    from pymoca import ast
    g = a04.Graph([t])
    r = a04.outcome(lambda: t.find_class(ast.ComponentRef.from_tuple(tuple(path)), copy=True))
    if r[0] != "ok":
        ctx.count("findclass-not-found")
        return
    sh = a04.shape(r[1], g)
    ans = drv.ask({"op": "graph.findclass", "heap": g.to_json(), "cfg": cfg_for_model(ctx), "root": g.idx(t),
                   "path": list(path), "copy": True})
    if not ans.get("ok"):
        raise HarnessError("model driver rejected findclass: %s" % ans)
    ctx.count("model-findclass")
    if ans["result"] != sh:
        ctx.disagreement("findclass-shape", dict(case, findclass=list(path)),
                         json.dumps(ans["result"])[:600], json.dumps(sh)[:600])


def flatten_with_footprint(ctx, drv, t, path, case):
    """tree.flatten on `t` with a snapshot before/after; the real write set must lie inside the
    model's footprint for the same snapshot and the same lookups."""
    from pymoca import ast, tree
    g = a04.Graph([t])
    heap = g.to_json()
    before = g.signatures()
    rec_inner, rec_const = [], []
    oc, of = ast.Class.copy_including_children, ast.Class.find_constant_symbol

    def cic(self):
        rec_inner.append(self)
        return oc(self)

    def fcs(self, ref):
        s = of(self, ref)
        rec_const.append(s)
        return s
    ast.Class.copy_including_children, ast.Class.find_constant_symbol = cic, fcs
    try:
        got = a04.outcome(lambda: a04.flat_canon(tree.flatten(t, ast.ComponentRef.from_tuple(tuple(path)))))
    finally:
        ast.Class.copy_including_children, ast.Class.find_constant_symbol = oc, of
    after = g.signatures()
    written = [i for i in range(len(before)) if before[i] != after[i]]
    target = a04.outcome(lambda: t.find_class(ast.ComponentRef.from_tuple(tuple(path)), copy=False))
    tid = g.idx(target[1]) if target[0] == "ok" else None
    inner = sorted(set(g.idx(x) for x in rec_inner if g.idx(x) is not None and g.idx(x) != tid))
    consts = sorted(set(g.idx(x) for x in rec_const if g.idx(x) is not None))
    ctx.count("footprint-real-writes-%s" % ("none" if not written else "consts" if set(written) <= _reach(g, consts) else "other"))
    if drv is not None and tid is not None:
        ans = drv.ask({"op": "graph.flatten", "heap": heap, "cfg": cfg_for_model(ctx), "root": g.idx(t),
                       "path": list(path), "inner": inner, "consts": consts, "rank": a04.depths(g, [t])})
        if not ans.get("ok"):
            raise HarnessError("model driver rejected flatten: %s" % ans)
        ctx.count("model-footprint")
        chk = ans.get("checks")
        if chk is not None:
            for k in ("wf", "tree", "rank"):
                if not chk.get(k):
                    ctx.disagreement("hypothesis-" + k, dict(case, footprint_of=list(path)),
                                     "the theorems assume %s of a parsed tree" % k, chk)
        if ans["result"] is None:
            ctx.disagreement("footprint", dict(case, footprint_of=list(path)), "model: lookup failed", "impl: found")
        elif not set(written) <= set(ans["written"]):
            extra = sorted(set(written) - set(ans["written"]))
            ctx.disagreement("footprint", dict(case, footprint_of=list(path)),
                             "model footprint (old objects): %s" % ans["written"][:40],
                             "impl wrote outside it: %s" % [(i, g.rows[i][0], g.rows[i][4]) for i in extra[:10]])
    return got


def _reach(g, ids):
    seen, todo = set(), list(ids)
    while todo:
        i = todo.pop()
        if i in seen:
            continue
        seen.add(i)
        for tag, j in g.rows[i][2]:
            if tag == "own":
                todo.append(j)
    return seen


def nontrivial(requests):
    return len(requests) >= 2


def check_history(ctx, case, drv):
    """case = {stream, text, requests: [[op, [path…]]…], probes: [step indices], findclass: [[path]…]}"""
    quiet_logs()
    text, requests = case["text"], case["requests"]
    t = a04.outcome(lambda: parse(text))
    if t[0] != "ok" or t[1] is None:
        ctx.count("source-does-not-parse")
        return
    t = t[1]
    # the reference side ("the same request on a fresh parse") is computed in a process that has executed no request
    # at all (harness/gen/a04_worker.py): nothing earlier requests leave behind -- in the tree or anywhere else in the
    # process -- can leak into it
    from harness.gen import a04_worker
    fresh = {}
    probes = set(case.get("probes", []))
    if drv is not None:
        for p in case.get("findclass", []):
            model_findclass(ctx, drv, t, p, {k: case[k] for k in ("stream", "text")})
    for i, (op, path) in enumerate(requests):
        key = (op, tuple(path))
        if key not in fresh:
            fresh[key] = tuple(a04_worker.fresh().ask({"k": "c05", "text": text, "op": op, "path": list(path)}))
        exp = fresh[key]
        if op == "flatten" and i in probes:
            got = flatten_with_footprint(ctx, drv, t, path, {k: case[k] for k in ("stream", "text")})
        else:
            got = do_request(t, op, path)
        ctx.count("step-%s-%s" % (op, "ok" if exp[0] == "ok" else "fails-fresh"))
        if got != exp and ("exc", "RecursionError") in (got, exp):
            ctx.count("recursion-limit-not-compared")
        elif got != exp:
            ctx.violation("%s of a class gives a different result after earlier requests on the same tree than on a "
                          "fresh parse (%s)" % (op, describe(exp, got)),
                          dict(case, upto=i + 1), expected=_short(exp), observed=_short(got), kind="history")
            return


def _short(o):
    return [o[0], o[1] if len(o[1]) < 1500 else o[1][:1500] + "…"]


# ---- CLI ---------------------------------------------------------------------------------
def cli_run(ctx, text, models, target, tag, files=None):
    """tools.compiler.main on scratch files (one file per top-level class when `files` is given,
    as `-t casadi` needs `<model>.mo`); per-model observations through wrappers of the module's own
    flatten_class / translate and of casadi.api.transfer_model (return value or canonical model,
    exception class, generated file)."""
    import tools.compiler as comp
    d = os.path.join(ctx.scratch, "cli-%s" % tag)
    os.makedirs(os.path.join(d, "out"), exist_ok=True)
    if files:
        src = os.path.join(d, "src")
        os.makedirs(src, exist_ok=True)
        for fn in sorted(files):
            os.makedirs(os.path.dirname(os.path.join(src, fn)), exist_ok=True)
            with open(os.path.join(src, fn), "w") as f:
                f.write(files[fn])
    else:
        src = os.path.join(d, "Lib.mo")
        with open(src, "w") as f:
            f.write(text)
    obs = []
    of, ot = comp.flatten_class, comp.translate
    capi = None
    if target == "casadi":
        import pymoca.backends.casadi.api as capi
        otm = capi.transfer_model

        def tm(model_folder, model_name, compiler_options=None):
            try:
                m = otm(model_folder, model_name, compiler_options)
            except BaseException as e:  # noqa: B902 — recorded and passed on unchanged: main() decides what it catches
                obs.append([model_name, "exc", type(e).__name__])
                raise
            obs.append([model_name, "ok", a04.casadi_canon(m)])
            return m
        capi.transfer_model = tm

    def fc(lib, cls):
        try:
            f = of(lib, cls)
        except BaseException as e:  # noqa: B902 — recorded and passed on unchanged
            obs.append([cls, "exc", type(e).__name__])
            raise
        obs.append([cls, "ok", a04.flat_canon(f)])
        return f

    def tr(lib, model, translator, options, outdir=None):
        out = os.path.join(str(outdir), model + ".py")
        try:
            ret = ot(lib, model, translator, options, outdir)
        except BaseException as e:  # noqa: B902 — recorded and passed on unchanged
            obs.append([model, type(e).__name__, None, None])
            if os.path.exists(out):
                os.remove(out)
            raise
        content = open(out).read() if os.path.exists(out) else None
        obs.append([model, "ok", ret, content])
        if os.path.exists(out):
            os.remove(out)
        return ret
    comp.flatten_class, comp.translate = fc, tr
    comp.log.propagate = False
    if not comp.log.handlers:
        comp.log.addHandler(logging.NullHandler())
    args = [src] + [x for m in models for x in ("-m", m)] + (["-t", target, "-o", os.path.join(d, "out")] if target else [])
    try:
        try:
            rc = ["rc", comp.main(args)]
        except SystemExit as e:
            rc = ["exit", str(e.code)]
        except Exception as e:
            rc = ["raised", type(e).__name__]
    finally:
        comp.flatten_class, comp.translate = of, ot
        if capi is not None:
            capi.transfer_model = otm
    return rc, obs


class _Propagated(Exception):
    def __init__(self, name):
        super().__init__(name)
        self.name = name


def check_cli(ctx, case):
    quiet_logs()
    text, models, target, files = case["text"], case["models"], case.get("target"), case.get("files")
    from harness.gen import a04_worker
    single = {}
    for m in models:
        if m not in single:
            # the model alone: in a clean process
            r = a04_worker.fresh().ask({"k": "cli", "text": text, "files": files, "models": [m], "target": target,
                                        "scratch": ctx.scratch, "tag": "s%d-%d" % (ctx.evaluations, len(single))})
            single[m] = (list(r[0]), [list(o) for o in r[1]])
    multi_rc, multi_obs = cli_run(ctx, text, models, target, "m%d" % ctx.evaluations, files)
    ctx.count("cli-%s" % (target or "flatten-only"))
    # expected: every model gets the outcome it gets alone, whatever happened to the models before it
    exp_obs, exp_rc, total = [], None, 0
    for m in models:
        rc, obs = single[m]
        exp_obs += obs
        if rc[0] != "rc":
            exp_rc = "unknown"
        else:
            total += rc[1]
    if exp_rc is None:
        exp_rc = ["rc", total]
    ctx.count("cli-models-failing-alone", sum(1 for m in models if single[m][0] != ["rc", 0]))
    if multi_obs != exp_obs:
        k = next((i for i in range(min(len(multi_obs), len(exp_obs))) if multi_obs[i] != exp_obs[i]),
                 min(len(multi_obs), len(exp_obs)))
        ctx.violation("compiler CLI gives a model a different outcome when requested together with other models than alone",
                      dict(case, differs_at=k), expected=_cut(exp_obs[k:k + 1]), observed=_cut(multi_obs[k:k + 1]), kind="history")
    elif exp_rc != "unknown" and multi_rc != exp_rc:
        ctx.violation("compiler CLI exit status for several -m differs from the single runs",
                      case, expected=exp_rc, observed=multi_rc, kind="history")


def api_run(scratch, files, calls, tag):
    """casadi.api.transfer_model for (directory, model) pairs, one after the other in this process"""
    import pymoca.backends.casadi.api as capi
    src = os.path.join(scratch, "api-%s" % tag)
    for fn in sorted(files):
        os.makedirs(os.path.dirname(os.path.join(src, fn)), exist_ok=True)
        with open(os.path.join(src, fn), "w") as f:
            f.write(files[fn])
    out = []
    for d, m in calls:
        r = a04.outcome(lambda: a04.casadi_canon(capi.transfer_model(os.path.join(src, d), m, {})))
        out.append([d, m, r[0], r[1]])
    return out


def check_api(ctx, case):
    """several transfer_model calls in one process: each gives what it gives alone in a clean process"""
    quiet_logs()
    from harness.gen import a04_worker
    files, calls = case["files"], case["calls"]
    got = api_run(ctx.scratch, files, calls, "m%d" % ctx.evaluations)
    ctx.count("api-casadi")
    for k, (d, m) in enumerate(calls):
        exp = a04_worker.fresh().ask({"k": "transfer", "files": files, "calls": [[d, m]], "scratch": ctx.scratch,
                                      "tag": "s%d-%d" % (ctx.evaluations, k)})[0]
        ctx.count("api-call-%s" % ("ok" if exp[2] == "ok" else "fails-alone"))
        if list(got[k]) != list(exp):
            ctx.violation("casadi.api.transfer_model gives a model a different result after other models were compiled in the "
                          "process than alone (%s)" % describe((exp[2], exp[3]), (got[k][2], got[k][3])),
                          dict(case, upto=k + 1), expected=_cut(exp), observed=_cut(got[k]), kind="history")
            return


def gen_api_case(ctx, rng):
    lib, g = a04.gen_library(rng)
    ndir = rng.choice([2, 2, 3])
    files = {"d%d/%s.mo" % (rng.randrange(ndir), c["name"]): a04.render_cls(c) for c in lib["classes"]}
    where = {fn.split("/")[1][:-3]: fn.split("/")[0] for fn in files}
    names = [c["name"] for c in lib["classes"] if c["kind"] == "model"]
    calls = [[where[m], m] for m in (rng.choice(names) for _ in range(rng.randint(3, 6)))]
    return dict(stream="api", text=a04.render(lib), files=files, calls=calls)


def _cut(x):
    s = json.dumps(x, default=str)
    return s if len(s) < 1500 else s[:1500] + "…"


# ---- generators ---------------------------------------------------------------------------
def uses(lib, gen):
    """classes that other classes extend / instantiate (to bias requests towards shared ones)"""
    return a04.class_paths(lib)


def gen_case(ctx, rng, nreq, stream="gen", failing_heavy=False):
    # a quarter of the libraries refer to input/output symbols of other classes by class path (finding C05-F1, fixed)
    xref = rng.random() < 0.25
    lib, g = a04.gen_library(rng, xref_io=xref, p_broken=1.0 if failing_heavy else 0.4)
    text = a04.render(lib)
    paths = [list(p) for p in a04.class_paths(lib)]
    tops = [p for p in paths if len(p) == 1 and p[0].startswith(("M", "R"))]
    reqs = []
    quick = ctx.tier == "quick"
    import re
    byname = {}
    for q in paths:
        byname.setdefault(q[-1], []).append(q)

    def used_by(q):
        """classes named in the clauses of class q (component types, extends, class-path references)"""
        cd = a04.find_desc(lib, q)
        out = []
        for txt in cd["extends"] + [k["text"] for k in cd["comps"]] + cd["eqs"]:
            for w in re.findall(r"[A-Za-z_][A-Za-z_0-9]*", txt):
                out += byname.get(w, [])
        return out
    for _ in range(nreq):
        r = rng.random()
        p = rng.choice(tops) if tops and rng.random() < 0.6 else rng.choice(paths)
        if reqs and rng.random() < 0.2:
            p = rng.choice(reqs)[1]      # repeat an earlier class
        elif reqs and rng.random() < 0.35:
            ub = used_by(rng.choice(reqs)[1])   # a class used by one flattened earlier
            if ub:
                p = rng.choice(ub)
        op = "flatten" if r < (0.8 if quick else 0.7) else "casadi" if r < 0.9 else "sympy" if r < 0.96 else "xml"
        reqs.append([op, p])
    if g.clashes:
        # a model whose variable has the name of another model: both through the same backend, the namesake first
        m, earlier = rng.choice(g.clashes)
        op = rng.choice(["sympy", "sympy", "casadi", "xml"])
        k = rng.randrange(len(reqs) + 1)
        reqs[k:k] = [[op, [earlier]], [op, [m]]]
    if failing_heavy and g.broken:
        # many requests that fail (for different reasons, at different depths), then requests that must still succeed
        bad = [[rng.choice(["flatten", "flatten", "flatten", "casadi", "xml", "sympy"]), [rng.choice(g.broken)]]
               for _ in range(70)]
        reqs = reqs[:4] + bad + reqs[4:]
    fl = [i for i, q in enumerate(reqs) if q[0] == "flatten"]
    probes = sorted(rng.sample(fl, min(len(fl), 2)))
    fc = [rng.choice(paths) for _ in range(2)]
    case = dict(stream=stream, text=text, requests=reqs, probes=probes, findclass=fc)
    if xref:
        case["xrefs"] = [e for c in lib["classes"] for e in c["eqs"] if any(
            (" = %s." % t["name"]) in e for t in lib["classes"] if t["name"].startswith("M"))]
    return case


def models_cases(ctx):
    """every class of every file of test/models: each twice in sequence, then shuffled."""
    files = sorted(glob.glob(os.path.join(REPO, "test", "models", "*.mo")))
    for f in files:
        try:
            text = open(f, encoding="utf-8").read()
        except Exception:
            continue
        t = a04.outcome(lambda: parse(text))
        if t[0] != "ok" or t[1] is None:
            ctx.count("models-file-does-not-parse")
            continue
        paths = []

        def rec(c, pre):
            for n, cc in c.classes.items():
                paths.append(pre + [n])
                rec(cc, pre + [n])
        rec(t[1], [])
        if not paths:
            continue
        reqs = [["flatten", p] for p in paths for _ in (0, 1)]
        sh = [["flatten", p] for p in paths]
        ctx.rng.shuffle(sh)
        reqs += sh
        tops = [p for p in paths if len(p) == 1]
        extra = tops if ctx.tier != "quick" else tops[-1:]
        for p in extra:
            reqs.append(["casadi", p])
            reqs.append(["flatten", p])
            if ctx.tier != "quick":
                reqs.append(["casadi", p])
                reqs.append(["sympy", p])
        fl = [i for i, q in enumerate(reqs) if q[0] == "flatten"]
        yield dict(stream="models", file=os.path.basename(f), text=text, requests=reqs,
                   probes=sorted(ctx.rng.sample(fl, min(len(fl), 1 if ctx.tier == "quick" else 4))),
                   findclass=[ctx.rng.choice(paths)])


def gen_cli_case(ctx, rng, target=None):
    """every target of the CLI (flatten only, -t sympy, -t casadi) with several -m; one file per top-level class"""
    lib, g = a04.gen_library(rng, p_broken=1.0)
    text = a04.render(lib)
    # the files are spread over several directories (the casadi target compiles a model against its own directory)
    ndir = rng.choice([1, 2, 3])
    files = {"d%d/%s.mo" % (rng.randrange(ndir), c["name"]): a04.render_cls(c) for c in lib["classes"]}
    if target == "casadi":
        names = [c["name"] for c in lib["classes"] if c["kind"] == "model"]    # needs <model>.mo
    else:
        names = [".".join(p) for p in a04.class_paths(lib)]
    models = [rng.choice(names) for _ in range(rng.randint(2, 5))]
    if rng.random() < 0.5:
        models.append(models[0])
    if rng.random() < 0.6:
        # a model that fails (not in the library) somewhere before the end: the later ones must not notice
        models.insert(rng.randrange(len(models)), "NoSuchModel")
    for b in g.broken:
        # classes whose flattening raises (ModificationTargetNotFound, ClassNotFoundError, plain Exception, ...)
        if rng.random() < 0.85:
            models.insert(rng.randrange(len(models)), b)
    if g.clashes and target != "casadi":
        m, earlier = rng.choice(g.clashes)
        models = [earlier] + models + [m]
    return dict(stream="cli", text=text, files=files, models=models, target=target)


def run_case(ctx, case, drv):
    if case.get("stream") == "api":
        ctx.case({"files": case["files"], "calls": case["calls"]}, nontrivial=len(case["calls"]) >= 2)
        check_api(ctx, case)
    elif case.get("stream") == "cli":
        ctx.case({"text": case["text"], "models": case["models"], "target": case.get("target")},
                 nontrivial=len(case["models"]) >= 2)
        check_cli(ctx, case)
    else:
        ctx.case({"text": case["text"], "requests": case["requests"]}, nontrivial=nontrivial(case["requests"]))
        ctx.count("history-len-%02d" % (10 * (len(case["requests"]) // 10)))
        check_history(ctx, case, drv)


def run(ctx):
    drv = ctx.driver("drv_c05")
    quick = ctx.tier == "quick"
    from harness import corpus
    for c in corpus.load("C05"):
        ctx.count("corpus")
        run_case(ctx, c, drv)
    import time as _t
    t0 = _t.time()
    # first: a long history dominated by requests that fail (self-contained, so that its replay shows on its own what
    # failing requests leave behind in the process)
    ctx.count("stream-gen-failing-heavy")
    run_case(ctx, gen_case(ctx, ctx.rng, 12, failing_heavy=True), drv)
    for case in models_cases(ctx):
        if ctx.time_left() < 0:
            ctx.notes.append("test/models stream stopped by time budget")
            break
        ctx.count("stream-models")
        run_case(ctx, case, drv)
    ctx.extra["models_stream_s"] = round(_t.time() - t0, 1)
    ncli = 6 if quick else 120
    for i in range(ncli):
        if ctx.time_left() < 0:
            break
        run_case(ctx, gen_cli_case(ctx, ctx.rng, [None, "sympy", "casadi"][i % 3]), drv)
    for i in range(2 if quick else 40):
        if ctx.time_left() < 0:
            break
        run_case(ctx, gen_api_case(ctx, ctx.rng), drv)
    nlib, nreq = (30, 12) if quick else (1500, 30)
    for i in range(nlib):
        if ctx.time_left() < 0:
            ctx.notes.append("generated-library stream stopped by time budget after %d libraries" % i)
            break
        ctx.count("stream-gen")
        heavy = (not quick) and i % 25 == 24
        if heavy:
            ctx.count("stream-gen-failing-heavy")
        run_case(ctx, gen_case(ctx, ctx.rng, nreq, failing_heavy=heavy), drv)
    ctx.extra["run_s"] = round(_t.time() - t0, 1)


def replay(ctx, payload):
    run_case(ctx, payload["case"], ctx.driver("drv_c05"))


def search(ctx):
    """A tie is broken and no violation was seen: longer histories on more libraries."""
    drv = None
    i = 0
    while ctx.time_left() > 0 and not ctx.violations:
        i += 1
        case = gen_case(ctx, ctx.rng, 40, stream="search")
        case["probes"], case["findclass"] = [], []
        run_case(ctx, case, drv)
    ctx.notes.append("search: %d extra histories" % i)


def translate(ctx):
    from harness.gen import a04_worker
    a04_worker.fresh()          # the reference interpreter starts importing now
    a04.translate_flags(ctx)


MANIFEST = dict(
    level_text="Lean 4 theorems about an executable object-graph model of pymoca's copy discipline (copy.deepcopy with memo and "
               "pymoca's two __deepcopy__ hooks, find_class(copy), flatten as an arbitrary-write footprint): a lookup with copy "
               "leaves every object of the parsed tree unchanged (frame) and the copy is bisimilar to the original, hence any "
               "history of flatten/generate requests gives at every step the result of the same request on the initial tree "
               "(induction over histories), the CLI loop over -m being such a history; tied to /repo on every run by copy flags "
               "extracted from the code's behaviour (proof obligation over Generated/CopyFlags.lean), find_class shape "
               "correspondence, write-footprint correspondence, and the direct history-vs-fresh-parse oracle on every class of "
               "test/models and on generated libraries.",
    level_note="Partial: that the real tree.flatten writes only inside the modelled footprint is observed per run (snapshot diff), "
               "not proved; CPython's copy module, CasADi, ANTLR are trusted.",
    technique="Lean 4 proof (frame + bisimulation invariant of deepcopy, induction over request histories) + "
              "model/implementation correspondence + direct differential oracle",
)
READY = True
