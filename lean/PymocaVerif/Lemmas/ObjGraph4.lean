import PymocaVerif.Lemmas.ObjGraph3
/-!
The copy of a whole tree (an object without parent) is a tree again: a region of the new heap
that is closed, disjoint from everything that existed, tree shaped, without scopes and hooks —
so everything proved about copying a tree applies to copying the copy.  Edits confined to one
region do not change any view of a disjoint region.
-/
namespace PymocaVerif.ObjGraph

/-- no `scope` references inside the region (a tree as the parser and the API build it) -/
def NoScope (H : Heap) (R : Nat → Prop) : Prop :=
  ∀ a o i, R a → H[a]? = some o → Field.scp i ∉ o.fields

theorem parentOf_ren {m : Memo} : ∀ {fs0 fs : List Field} {i j : Nat}, renFields m fs0 = some fs →
    parentOfFields fs0 = some i → mget m i = some j → parentOfFields fs = some j := by
  intro fs0
  induction fs0 with
  | nil => intro fs i j _ hp _; simp [parentOfFields] at hp
  | cons f fs0 ih =>
    intro fs i j h hp hm
    obtain ⟨g, gs', hgs, hf, hfs⟩ := renFields_cons h
    subst hgs
    cases f with
    | par i0 =>
      simp only [parentOfFields, Option.some.injEq] at hp
      subst hp
      simp only [renField, hm, Option.map_some, Option.some.injEq] at hf
      subst hf
      rfl
    | own i0 =>
      simp only [parentOfFields] at hp
      simp only [renField] at hf
      cases hm0 : mget m i0 with
      | none => simp [hm0] at hf
      | some j0 =>
        simp only [hm0, Option.map_some, Option.some.injEq] at hf
        subst hf
        simp only [parentOfFields]
        exact ih hfs hp hm
    | scp i0 =>
      simp only [parentOfFields] at hp
      simp only [renField, Option.some.injEq] at hf
      subst hf
      simp only [parentOfFields]
      exact ih hfs hp hm

theorem parentOf_ren_none {m : Memo} : ∀ {fs0 fs : List Field}, renFields m fs0 = some fs →
    parentOfFields fs0 = none → parentOfFields fs = none := by
  intro fs0
  induction fs0 with
  | nil => intro fs h _; simp only [renFields, Option.some.injEq] at h; subst h; rfl
  | cons f fs0 ih =>
    intro fs h hp
    obtain ⟨g, gs', hgs, hf, hfs⟩ := renFields_cons h
    subst hgs
    cases f with
    | par i0 => simp [parentOfFields] at hp
    | own i0 =>
      simp only [parentOfFields] at hp
      simp only [renField] at hf
      cases hm0 : mget m i0 with
      | none => simp [hm0] at hf
      | some j0 =>
        simp only [hm0, Option.map_some, Option.some.injEq] at hf
        subst hf
        simp only [parentOfFields]
        exact ih hfs hp
    | scp i0 =>
      simp only [parentOfFields] at hp
      simp only [renField, Option.some.injEq] at hf
      subst hf
      simp only [parentOfFields]
      exact ih hfs hp

/-- the objects made by this `deepcopy` -/
def Copies (st' : St) (b : Nat) : Prop := ∃ a, mget st'.memo a = some b

structure TreeCopy (H : Heap) (R : Nat → Prop) (x : Nat) (st' : St) (y : Nat) : Prop where
  out : CopyOut H R x st' y
  fresh : ∀ a b, mget st'.memo a = some b → H.length ≤ b ∧ Done H st' a b
  region : Region st'.heap (Copies st')
  tree : TreeShaped st'.heap (Copies st')
  noScope : NoScope st'.heap (Copies st')
  root : Copies st' y
  rootParent : ∀ o, st'.heap[y]? = some o → parentOfFields o.fields = none

/-- **copying a tree**: the object copied has no parent, the region is tree shaped and scope free -/
theorem tree_copy {H : Heap} {R : Nat → Prop} (hR : Region H R) (hts : TreeShaped H R) (hns : NoScope H R)
    {cfg : Cfg} (hg : cfg.Good) {x y : Nat} {st' : St} (hx : R x)
    (hroot : ∀ o, H[x]? = some o → parentOfFields o.fields = none)
    (h : deepcopySt cfg H x = some (st', y)) : TreeCopy H R x st' y := by
  have out := deepcopySt_spec hR hg hx h
  have fresh : ∀ a b, mget st'.memo a = some b → H.length ≤ b ∧ Done H st' a b := by
    intro a b hab
    rcases out.entries a b hab with hba | hd
    · subst hba
      obtain ⟨o, ho, _, hp⟩ := out.seeds hts b hab
      rw [hroot o ho] at hp
      cases hp
    · exact hd
  -- a field of a copy is the copy of a field
  have field_of_copy : ∀ a b o fs g, mget st'.memo a = some b → H[a]? = some o →
      renFields st'.memo o.fields = some fs → g ∈ fs →
      ∃ f ∈ o.fields, g.tag = f.tag ∧ mget st'.memo f.id = some g.id := by
    intro a b o fs g hab ho hren hgm
    obtain ⟨f, hf, hr⟩ := renFields_mem hren hgm
    obtain ⟨htag, hcase⟩ := renField_inv hr
    rcases hcase with ⟨i, h1, _⟩ | ⟨h1, _⟩
    · subst h1
      exact absurd hf (hns a o i (out.dom a b hab).1 ho)
    · exact ⟨f, hf, htag, h1⟩
  have region : Region st'.heap (Copies st') := by
    refine { valid := ?_, hooks := ?_, closed := ?_, parU := ?_ }
    · intro b ⟨a, hab⟩
      obtain ⟨_, o, fs, _, _, hb⟩ := fresh a b hab
      exact ⟨_, hb⟩
    · intro b ob ⟨a, hab⟩ hob
      obtain ⟨_, o, fs, _, _, hb⟩ := fresh a b hab
      rw [hb] at hob; cases hob; rfl
    · intro b ob g ⟨a, hab⟩ hob hgm
      obtain ⟨_, o, fs, ho, hren, hb⟩ := fresh a b hab
      rw [hb] at hob; cases hob
      obtain ⟨f, _, _, hm⟩ := field_of_copy a b o fs g hab ho hren hgm
      exact ⟨f.id, hm⟩
    · intro b ob j ⟨a, hab⟩ hob hj
      obtain ⟨_, o, fs, ho, hren, hb⟩ := fresh a b hab
      rw [hb] at hob; cases hob
      simp only at hj ⊢
      obtain ⟨f, hf, htag, hm⟩ := field_of_copy a b o fs (Field.par j) hab ho hren hj
      cases f with
      | own i => cases htag
      | scp i => cases htag
      | par i =>
        obtain ⟨hk, hp⟩ := hR.parU a o i (out.dom a b hab).1 ho hf
        exact ⟨hk, parentOf_ren hren hp hm⟩
  have tree : TreeShaped st'.heap (Copies st') := by
    intro b c ob oc ⟨a, hab⟩ hob hc hoc hk
    obtain ⟨_, o, fs, ho, hren, hb⟩ := fresh a b hab
    rw [hb] at hob; cases hob
    simp only at hc
    obtain ⟨f, hf, htag, hm⟩ := field_of_copy a b o fs (Field.own c) hab ho hren hc
    cases f with
    | par i => cases htag
    | scp i => cases htag
    | own i =>
      simp only [Field.id] at hm
      obtain ⟨_, oi, fsi, hoi, hreni, hbi⟩ := fresh i c hm
      rw [hbi] at hoc; cases hoc
      simp only at hk ⊢
      have := hts a i o oi (out.dom a b hab).1 ho hf hoi hk
      exact parentOf_ren hreni this hab
  have noScope : NoScope st'.heap (Copies st') := by
    intro b ob i ⟨a, hab⟩ hob hi
    obtain ⟨_, o, fs, ho, hren, hb⟩ := fresh a b hab
    rw [hb] at hob; cases hob
    simp only at hi
    obtain ⟨f, _, htag, _⟩ := field_of_copy a b o fs (Field.scp i) hab ho hren hi
    obtain ⟨f0, hf0, hr⟩ := renFields_mem hren hi
    obtain ⟨_, hcase⟩ := renField_inv hr
    rcases hcase with ⟨i0, h1, _⟩ | ⟨_, h2⟩
    · subst h1; exact hns a o i0 (out.dom a b hab).1 ho hf0
    · cases f0 with
      | own i0 => simp [renField] at hr
      | par i0 => simp [renField] at hr
      | scp i0 => exact h2 i0 rfl
  refine { out := out, fresh := fresh, region := region, tree := tree, noScope := noScope,
           root := ⟨x, out.res⟩, rootParent := ?_ }
  intro oy hoy
  obtain ⟨_, o, fs, ho, hren, hb⟩ := fresh x y out.res
  rw [hb] at hoy; cases hoy
  exact parentOf_ren_none hren (hroot o ho)

/-- reachability through every kind of reference -/
inductive Reach (h : Heap) : Nat → Nat → Prop
  | refl (a : Nat) : Reach h a a
  | step {a b : Nat} {o : Obj} {f : Field} : Reach h a b → h[b]? = some o → f ∈ o.fields → Reach h a f.id

theorem reach_region {H : Heap} {R : Nat → Prop} (hR : Region H R) {x : Nat} (hx : R x) :
    ∀ i, Reach H x i → R i := by
  intro i hi
  induction hi with
  | refl => exact hx
  | step _ ho hf ih => exact hR.closed _ _ _ ih ho hf

/-! ### edits -/

/-- an edit writes only to objects of `R` or to objects it has just allocated -/
def Confined (H : Heap) (R : Nat → Prop) (e : Edit) : Prop := ∀ w ∈ e.writes, R w.1 ∨ H.length ≤ w.1

theorem applyWrites_get (ws : List (Nat × Obj)) : ∀ (h : Heap) (a : Nat), (∀ w ∈ ws, w.1 ≠ a) →
    (applyWrites h ws)[a]? = h[a]? := by
  induction ws with
  | nil => intro h a _; rfl
  | cons w ws ih =>
    intro h a hne
    obtain ⟨i, o⟩ := w
    simp only [applyWrites]
    rw [ih (h.set i o) a (fun w hw => hne w (List.mem_cons_of_mem _ hw))]
    have : i ≠ a := hne (i, o) List.mem_cons_self
    simp [List.getElem?_set, this]

/-- an edit confined to `R1` leaves every object of a disjoint region as it was -/
theorem edit_frame {H : Heap} {R1 R2 : Nat → Prop} (hR2 : Region H R2) (hdis : ∀ a, R1 a → R2 a → False)
    {e : Edit} (hc : Confined H R1 e) : ∀ a, R2 a → (applyEdit H e)[a]? = H[a]? := by
  intro a ha
  have hlt := hR2.lt ha
  unfold applyEdit
  rw [applyWrites_get e.writes (H ++ e.allocs) a ?_, List.getElem?_append_left hlt]
  intro w hw hwa
  rcases hc w hw with h1 | h1
  · rw [hwa] at h1; exact hdis a h1 ha
  · omega

theorem edit_region {H : Heap} {R1 R2 : Nat → Prop} (hR2 : Region H R2) (hdis : ∀ a, R1 a → R2 a → False)
    {e : Edit} (hc : Confined H R1 e) : Region (applyEdit H e) R2 := by
  have hf := edit_frame hR2 hdis hc
  exact { valid := fun a ha => by rw [hf a ha]; exact hR2.valid a ha
          hooks := fun a o ha ho => by rw [hf a ha] at ho; exact hR2.hooks a o ha ho
          closed := fun a o f ha ho hfm => by rw [hf a ha] at ho; exact hR2.closed a o f ha ho hfm
          parU := fun a o i ha ho hi => by rw [hf a ha] at ho; exact hR2.parU a o i ha ho hi }

theorem edit_views {H : Heap} {R1 R2 : Nat → Prop} (hR2 : Region H R2) (hdis : ∀ a, R1 a → R2 a → False)
    {e : Edit} (hc : Confined H R1 e) : ∀ k a, R2 a → view (applyEdit H e) k a = view H k a :=
  view_congr (edit_frame hR2 hdis hc) (fun a o f ha ho hf => hR2.closed a o f ha ho hf)

/-- what tree 1 consists of after an edit: what it was, plus what the edit allocated -/
def grow (H : Heap) (R : Nat → Prop) (e : Edit) : Nat → Prop :=
  fun a => R a ∨ (H.length ≤ a ∧ a < H.length + e.allocs.length)

theorem grow_disjoint {H : Heap} {R1 R2 : Nat → Prop} (hR2 : Region H R2) (hdis : ∀ a, R1 a → R2 a → False)
    (e : Edit) : ∀ a, grow H R1 e a → R2 a → False := by
  intro a h1 h2
  rcases h1 with h1 | ⟨h1, _⟩
  · exact hdis a h1 h2
  · have := hR2.lt h2; omega

end PymocaVerif.ObjGraph
