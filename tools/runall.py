#!/venv/bin/python
"""Run the quick (or thorough) check of every READY property for several seeds, in parallel,
on the unchanged tree; print a table.  Usage: tools/runall.py [--tier quick] [--seeds 0,1,2] [--jobs 6] [ids…]"""
import argparse
import concurrent.futures as cf
import json
import os
import subprocess
import sys
import time

VERIF = os.path.dirname(os.path.dirname(os.path.abspath(__file__)))


def one(pid, tier, seed):
    t = time.time()
    env = dict(os.environ, VERIF_SEED=str(seed))
    p = subprocess.run(["/venv/bin/python", "check.py", pid, "--tier", tier], cwd=VERIF, env=env,
                       stdout=subprocess.PIPE, stderr=subprocess.STDOUT, text=True)
    lines = p.stdout.splitlines()
    return pid, seed, p.returncode, time.time() - t, [l for l in lines if l.startswith(("VIOLATION", "KNOWN-FINDING", "HARNESS"))][:4], (lines[-1] if lines else "")


def main():
    ap = argparse.ArgumentParser()
    ap.add_argument("ids", nargs="*")
    ap.add_argument("--tier", default="quick")
    ap.add_argument("--seeds", default="0")
    ap.add_argument("--jobs", type=int, default=6)
    a = ap.parse_args()
    man = json.load(open(os.path.join(VERIF, "MANIFEST.json")))
    ids = a.ids or [c["property_id"] for c in man["checks"]]
    seeds = [int(s) for s in a.seeds.split(",")]
    bad = 0
    with cf.ThreadPoolExecutor(a.jobs) as ex:
        futs = [ex.submit(one, pid, a.tier, s) for pid in ids for s in seeds]
        for f in cf.as_completed(futs):
            pid, seed, rc, dt, marks, last = f.result()
            if rc != 0:
                bad += 1
            print("%s seed=%d rc=%d %.0fs %s | %s" % (pid, seed, rc, dt, "; ".join(marks), last[:160]))
            sys.stdout.flush()
    print("non-zero exits:", bad)


if __name__ == "__main__":
    main()
