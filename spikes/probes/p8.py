import json
from pymoca import parser, tree, ast
def flat(txt, name):
    t = parser.parse(txt, bypass_cache=True)
    try:
        f = tree.flatten(t, ast.ComponentRef.from_string(name))
        c = f.classes[name]
        def j(x): return json.dumps(ast.Node.to_json(x), default=str)
        syms = {k: {a: j(getattr(v,a)) for a in ["value","start","min","max","nominal","fixed"] if j(getattr(v,a)) not in ('{"value": null}','{"value": false}')} | {"pre": v.prefixes} for k,v in c.symbols.items()}
        return syms, [j(e)[:120] for e in c.equations]
    except Exception as e:
        return "EXC %s: %s" % (type(e).__name__, str(e)[:150])
base = """
model Inner parameter Real p = 1; Real x(start = 0.5); equation x = p; end Inner;
model Mid Inner a(p = 2, x(start = 1.5)); parameter Real q = 10; end Mid;
"""
tests = {
 "nested": base + "model Top Mid m(a(p = 3, x(start = 2.5))); end Top;",
 "dotted": base + "model Top Mid m(a.p = 3, a.x.start = 2.5); end Top;",
 "dotted2": base + "model Top Mid m(a(p = 3), a.x.start = 2.5); end Top;",
 "scope": base + "model Top parameter Real q = 7; Mid m(a(p = q)); end Top;",
 "scope_dotted": base + "model Top parameter Real q = 7; Mid m(a.p = q); end Top;",
 "ext": base + "model E extends Mid(a(p = 4)); end E; model Top E m; end Top;",
 "ext_over": base + "model E extends Mid(a(p = 4)); end E; model Top E m(a(p=5)); end Top;",
 "ext_dotted": base + "model E extends Mid(a.p = 4); end E; model Top E m; end Top;",
}
for k, t in tests.items():
    print(k, "->", flat(t, "Top"))
