/-!
# Model of SQLite's rollback-journal locking as `parser.parse` uses it

Connections opened with `isolation_level=None` (no implicit transactions) run statements of five
kinds.  A connection holds one of the file locks `none / shared / reserved / pending`
(EXCLUSIVE is only held inside the second half of a `COMMIT`, which is one step here).

Rules (SQLite "File Locking And Concurrency", rollback journal):

* a read needs SHARED; it waits (busy handler) while another connection holds PENDING;
  outside a transaction the lock is dropped at the end of the statement;
* a write from `none` takes SHARED+RESERVED; it waits while another holds RESERVED or PENDING;
* a write from `shared` needs RESERVED; if another connection holds RESERVED/PENDING it **fails at
  once** with "database is locked" — SQLite does not call the busy handler when the requester
  already holds a read lock, since waiting would deadlock;
* `BEGIN IMMEDIATE` takes RESERVED up front (waits like a write from `none`);
* `COMMIT` of a writer goes RESERVED → PENDING, then waits until no other connection holds SHARED.

`work` is not an SQL statement: it marks text-dependent computation between statements (`_parse(txt)`,
`pickle.dumps`, `pickle.loads`), so that "no lock is held while the text is parsed" can be stated.

A *waiting* statement is a step that leaves the connection unchanged (it is retried); the busy
timeout itself (5 s in Python's `sqlite3`) is not modelled — see `Props/C02.lean`.
-/
namespace PymocaVerif.SqliteLock

inductive Stmt | beginD | beginI | read | write | commit | work
  deriving DecidableEq, Repr

inductive Lock | none | shared | reserved | pending
  deriving DecidableEq, Repr

structure Conn where
  pc : Nat
  lock : Lock
  inTxn : Bool
  failed : Bool
  deriving DecidableEq, Repr

/-- What a connection does on statement `s`, given three facts about the *other* connections:
    `rp` someone else holds RESERVED or PENDING, `pd` someone else holds PENDING, `sh` someone else
    holds SHARED.  A waiting statement leaves the connection unchanged. -/
def next (c : Conn) (s : Stmt) (rp pd sh : Bool) : Conn :=
  match s with
  | .beginD => { c with pc := c.pc + 1, inTxn := true }
  | .beginI =>
      match c.lock with
      | .none => if rp then c else { c with pc := c.pc + 1, lock := .reserved, inTxn := true }
      | _ => { c with failed := true }           -- BEGIN inside a transaction is an error
  | .read =>
      match c.lock with
      | .none => if pd then c
                 else { c with pc := c.pc + 1, lock := if c.inTxn then .shared else .none }
      | _ => { c with pc := c.pc + 1 }
  | .write =>
      match c.lock with
      | .none => if rp then c
                 else if c.inTxn then { c with pc := c.pc + 1, lock := .reserved }
                 else if sh then c else { c with pc := c.pc + 1 }      -- autocommit write
      | .shared => if rp then { c with failed := true }      -- SQLITE_BUSY, no busy handler
                   else { c with pc := c.pc + 1, lock := .reserved }
      | _ => { c with pc := c.pc + 1 }
  | .commit =>
      match c.lock with
      | .reserved => { c with lock := .pending }
      | .pending => if sh then c else { c with pc := c.pc + 1, lock := .none, inTxn := false }
      | _ => { c with pc := c.pc + 1, lock := .none, inTxn := false }
  | .work => { c with pc := c.pc + 1 }

/-- Static check of one path from an abstract lock state: never writes while holding only SHARED,
    never nests BEGIN, never ends inside a transaction. -/
def okFrom : Lock → Bool → List Stmt → Bool
  | l, t, [] => l == .none && !t
  | l, t, .beginD :: r => !t && okFrom l true r
  | l, t, .beginI :: r => !t && l == .none && okFrom .reserved true r
  | l, t, .read :: r => okFrom (if l == .none && t then .shared else l) t r
  | l, t, .write :: r => l != .shared && okFrom (if t then .reserved else l) t r
  | _, _, .commit :: r => okFrom .none false r
  | l, t, .work :: r => okFrom l t r

/-- Static check of one path: text-dependent work happens only outside transactions (so lock hold times do not
    depend on the size of the text being parsed). -/
def workFrom : Bool → List Stmt → Bool
  | _, [] => true
  | _, .beginD :: r => workFrom true r
  | _, .beginI :: r => workFrom true r
  | _, .commit :: r => workFrom false r
  | t, .work :: r => !t && workFrom t r
  | t, .read :: r => workFrom t r
  | t, .write :: r => workFrom t r

/-! ### Programs: the statement tree of `parse` as extracted from the source -/

/-- `stmt s g`: `g` marks a statement inside the `try` whose handler removes the database file. -/
inductive Prog
  | skip
  | stmt (s : Stmt) (guarded : Bool)
  | seq (a b : Prog)
  | choice (a b : Prog)
  | try_ (body : Prog)
  deriving Repr

abbrev Path := List (Stmt × Bool)

/-- Every statement sequence an exception-free execution of the program can produce
    (branches are data dependent, so all of them are kept). -/
def paths : Prog → List Path
  | .skip => [[]]
  | .stmt s g => [[(s, g)]]
  | .seq a b => (paths a).flatMap fun p => (paths b).map fun q => p ++ q
  | .choice a b => paths a ++ paths b
  | .try_ b => paths b

def pathOk (p : Path) : Bool := okFrom .none false (p.map (·.1))

/-- On every path: no write inside a transaction that has only read so far, no nested BEGIN,
    every transaction closed. -/
def noUpgrade (p : Prog) : Bool := (paths p).all pathOk

def pathWorkOk (p : Path) : Bool := workFrom false (p.map (·.1))

/-- On every path: `_parse` / pickling run outside every transaction. -/
def noWorkInsideTxn (p : Prog) : Bool := (paths p).all pathWorkOk

/-! ### Any number of connections -/

abbrev State := Nat → Conn

def init : State := fun _ => ⟨0, .none, false, false⟩

def isW (l : Lock) : Prop := l = .reserved ∨ l = .pending

instance (l : Lock) : Decidable (isW l) := by unfold isW; exact inferInstance

def rpF (st : State) (i : Nat) : Prop := ∃ j, j ≠ i ∧ isW (st j).lock
def pdF (st : State) (i : Nat) : Prop := ∃ j, j ≠ i ∧ (st j).lock = .pending
def shF (st : State) (i : Nat) : Prop := ∃ j, j ≠ i ∧ (st j).lock = .shared

def upd (st : State) (i : Nat) (c : Conn) : State := fun j => if j = i then c else st j

/-- connection `i` executes (or waits on) its current statement -/
def Step (pr : Nat → Path) (st : State) (i : Nat) (st' : State) : Prop :=
  ∃ s g r rp pd sh, (pr i).drop (st i).pc = (s, g) :: r ∧
    (rp = true ↔ rpF st i) ∧ (pd = true ↔ pdF st i) ∧ (sh = true ↔ shF st i) ∧
    st' = upd st i (next (st i) s rp pd sh)

/-- run a schedule (a list of connection indices); scheduling a finished connection is a no-op -/
inductive Run (pr : Nat → Path) : State → List Nat → State → Prop
  | nil (st) : Run pr st [] st
  | cons {st i st' sched st''} : Step pr st i st' → Run pr st' sched st'' → Run pr st (i :: sched) st''
  | skip {st i sched st''} : Run pr st sched st'' → Run pr st (i :: sched) st''

/-- The connection failed on a statement inside the `try` whose handler removes the file. -/
def removesFile (pr : Nat → Path) (st : State) (i : Nat) : Prop :=
  (st i).failed = true ∧ ∃ s r, (pr i).drop (st i).pc = (s, true) :: r

/-! ### Executable version for `n` connections (used by the driver; `stepN_is_Step` in the lemmas) -/

def isWb (l : Lock) : Bool := l == .reserved || l == .pending

def rpB (st : State) (n i : Nat) : Bool := (List.range n).any fun j => j != i && isWb (st j).lock
def pdB (st : State) (n i : Nat) : Bool := (List.range n).any fun j => j != i && (st j).lock == .pending
def shB (st : State) (n i : Nat) : Bool := (List.range n).any fun j => j != i && (st j).lock == .shared

/-- connection `i` of `n` takes its step (no-op when it has finished its path) -/
def stepN (n : Nat) (pr : Nat → Path) (st : State) (i : Nat) : State :=
  match (pr i).drop (st i).pc with
  | [] => st
  | (s, _) :: _ => upd st i (next (st i) s (rpB st n i) (pdB st n i) (shB st n i))

/-- run a schedule with the executable step -/
def runN (n : Nat) (pr : Nat → Path) : State → List Nat → State
  | st, [] => st
  | st, i :: sched => runN n pr (stepN n pr st i) sched

/-- What one *call* of the statement does (a `COMMIT` of a writer is two steps): the connection
    after it and the observable outcome. -/
inductive Outcome | ok | waits | fails
  deriving DecidableEq, Repr

def callN (n : Nat) (pr : Nat → Path) (st : State) (i : Nat) : State × Outcome :=
  let c := st i
  let st1 := stepN n pr st i
  if (st1 i).failed then (st1, .fails)
  else if (st1 i).pc != c.pc then (st1, .ok)
  else
    let st2 := stepN n pr st1 i
    if (st2 i).pc != c.pc then (st2, .ok) else (st2, .waits)

end PymocaVerif.SqliteLock
