import PymocaVerif.Model.Index
/-! # C23 — property theorems (in progress) -/
namespace PymocaVerif.Index

/-- A subscript on a scalar always makes generation raise. -/
theorem scalar_subscript_error (cfg : Cfg) (s : Subs) (l : Option LoopRange) :
    outcome cfg ⟨.scalar, s, l⟩ = none := by
  cases l with
  | none => simp [outcome, outcomeEq]
  | some r =>
    simp only [outcome]
    cases loopValues cfg r <;> simp [outcomeLoop]

end PymocaVerif.Index
