/-! # C21 — property theorems (stub: not built yet) -/
