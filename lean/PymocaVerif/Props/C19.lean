import PymocaVerif.Lemmas.CacheMeta
import PymocaVerif.Lemmas.CacheState
/-!
# C19 — cached and code-generated models equal fresh compiles

Theorems over `Model/CacheMeta.lean` (`save_model` → pickle → `load_model`), for every list
of variables of any shapes, every attribute being a plain Python value, an `MX` depending on
the parameters, or an `MX` that does not.  What is trusted and only exercised by the per-run
correspondence: pickle, CasADi function serialisation, `ca.external` on the compiled shared
libraries, and CasADi's dependency test (`AttrWF`: an attribute classified
`MX_INDEPENDENT` has the same value at every parameter vector, also at NaN).
-/
namespace PymocaVerif.CacheMeta

variable {P E V : Type} [Inhabited V]

/-- Round trip of one category: the loaded variables are the saved ones — same number, same
    order, same names, shapes, Python types and aliases — and every attribute is the
    original Python value, or an `MX` whose element values at every parameter vector are the
    original's (a scalar `MX` attribute of an array variable comes back repeated per element). -/
theorem roundtrip (nA : Nat) (embed : P → List V) (nanEnv : E) (vars : List (Var P E V)) :
    All2 (Matches nA nanEnv) vars (loadCat nanEnv (saveCat nA embed vars)) :=
  loadVars_matches nA embed nanEnv _ vars 0 (fun _ => []) (fun _ => rfl) (fun _ => rfl)

/-- Attribute values: variable `i`, attribute `j`, any parameter vector `e` (needs the row
    bookkeeping `loadVars_matches`: earlier array variables shift the rows). -/
theorem attr_roundtrip (nA : Nat) (embed : P → List V) (nanEnv : E) (vars : List (Var P E V))
    (i : Nat) (hi : i < vars.length) (j : Nat) (hj : j < nA) (dep : Bool) (f : E → List V)
    (hattr : vars[i].attrs j = .mx dep f) (hwf : AttrWF nanEnv (vars[i].attrs j)) :
    ∃ (h : i < (loadCat nanEnv (saveCat nA embed vars)).length) (g : E → List V),
      ((loadCat nanEnv (saveCat nA embed vars))[i]).attrs j = .mx g ∧
      ∀ e, g e = broadcast vars[i].numel (f e) := by
  have hall := roundtrip nA embed nanEnv vars
  have hlen := hall.length_eq
  have hm := (hall.get i hi (hlen ▸ hi)).attrs j hj
  rw [hattr] at hm hwf
  obtain ⟨g, hg, hval⟩ := hm
  refine ⟨hlen ▸ hi, g, hg, fun e => hval e ?_⟩
  intro hd
  subst hd
  exact hwf e

/-- Plain Python attribute values come back unchanged. -/
theorem py_attr_roundtrip (nA : Nat) (embed : P → List V) (nanEnv : E) (vars : List (Var P E V))
    (i : Nat) (hi : i < vars.length) (j : Nat) (hj : j < nA) (p : P)
    (hattr : vars[i].attrs j = .py p) :
    ∃ (h : i < (loadCat nanEnv (saveCat nA embed vars)).length),
      ((loadCat nanEnv (saveCat nA embed vars))[i]).attrs j = .py (some p) := by
  have hall := roundtrip nA embed nanEnv vars
  have hlen := hall.length_eq
  have hm := (hall.get i hi (hlen ▸ hi)).attrs j hj
  rw [hattr] at hm
  exact ⟨hlen ▸ hi, hm⟩

/-- Row bookkeeping made explicit: the rows read for variable `i` start at the sum of the
    element counts of the variables before it (not at `i`). -/
theorem row_offset_is_prefix_sum (nA : Nat) (embed : P → List V) (nanEnv : E) (vars : List (Var P E V)) :
    (loadCat nanEnv (saveCat nA embed vars)).map (·.row0)
      = (List.range vars.length).map (fun i => ((vars.take i).map Var.numel).sum) := by
  have h := loadVars_row0 nanEnv (metaOf nA embed vars) (vars.map toDict)
    (vars.map (fun v j => classify (v.attrs j))) 0 (by simp)
  simp only [loadCat, saveCat]
  rw [h]
  simp only [List.length_map, Nat.zero_add]
  apply List.map_congr_left
  intro i _
  rw [← List.map_take, List.map_map]
  rfl

/-- Whole model: every category round-trips, and everything else (`der_states`, `outputs`,
    `delay_states`, `alias_relation`, string variables, the four functions) is returned as
    stored. -/
theorem model_roundtrip {X : Type} (nA : Nat) (embed : P → List V) (nanEnv : E) (m : Fresh P E V X) :
    (load nanEnv (save nA embed m)).payload = m.payload ∧
    All2 (fun vars lvars => All2 (Matches nA nanEnv) vars lvars) m.cats
      (load nanEnv (save nA embed m)).cats := by
  refine ⟨rfl, ?_⟩
  simp only [load, save, List.map_map]
  induction m.cats with
  | nil => exact All2.nil
  | cons c rest ih => exact All2.cons (roundtrip nA embed nanEnv c) ih

omit [Inhabited V] in
/-- Delay durations: whatever subset of symbols the loader's loop keeps symbolic (it reuses
    `actual_deps`, so later durations can keep more than they need), every loaded duration
    has the value of the stored one at every point, provided the stored dependency lists are
    right (`DependsOnly`, CasADi's `depends_on`). -/
theorem duration_roundtrip (nan : V) (raw : List ((Nat → V) → V)) (dds : List (List Nat))
    (hdep : All2 DependsOnly raw dds) :
    All2 (fun f g => ∀ env, g env = f env) raw (loadDurations nan raw dds) := by
  rw [loadDurations_eq]
  exact zipMask_ok nan raw dds _ hdep (maskSets_sound (unionOf dds) dds _ (mem_unionOf dds))

/-- Dependency classification of `save_model` (`NOT_MX / MX_DEPENDENT / MX_INDEPENDENT`) on
    attribute expressions: an `MX` attribute is `MX_DEPENDENT` exactly when a parameter symbol
    occurs in one of its elements, a plain value is `NOT_MX`. -/
theorem classification_of_exprs {P : Type} (es : List PExpr) :
    classify (Attr.ofExprs (P := P) es) = (if es.any PExpr.hasParam then Dep.dependent else Dep.independent) := by
  unfold Attr.ofExprs classify
  cases es.any PExpr.hasParam <;> rfl

/-- Soundness of the classification: an attribute classified `MX_INDEPENDENT` has the same
    element values at every parameter vector — also at the all-NaN vector `load_model`
    evaluates it at (NaN is absorbing in `PExpr.eval`, so this is not trivial for `0 * p`:
    such an expression *is* classified dependent). This is `AttrWF`, the hypothesis of
    `attr_roundtrip`, proved for every expression-built attribute. -/
theorem independent_classification_sound {P : Type} (es : List PExpr)
    (hc : classify (Attr.ofExprs (P := P) es) = Dep.independent) (env nanEnv : Nat → Option Int) :
    es.map (PExpr.eval env) = es.map (PExpr.eval nanEnv) := by
  rw [classification_of_exprs] at hc
  have hno : es.any PExpr.hasParam = false := by
    cases h : es.any PExpr.hasParam
    · rfl
    · rw [h] at hc; cases hc
  apply List.map_congr_left
  intro e he
  have : e.hasParam = false := by
    cases h : e.hasParam
    · rfl
    · have : es.any PExpr.hasParam = true := List.any_eq_true.mpr ⟨e, he, h⟩
      rw [hno] at this; cases this
  exact PExpr.eval_indep e this env nanEnv

theorem ofExprs_wf {P : Type} (es : List PExpr) (nanEnv : Nat → Option Int) :
    AttrWF nanEnv (Attr.ofExprs (P := P) es) := by
  unfold Attr.ofExprs
  cases h : es.any PExpr.hasParam
  · intro env
    have hc : classify (Attr.ofExprs (P := P) es) = Dep.independent := by
      rw [classification_of_exprs, h]; rfl
    exact independent_classification_sound es hc env nanEnv
  · trivial

/-- Round trip without any hypothesis on CasADi for expression-built attributes: whichever
    way the attribute is classified, the loaded value at every parameter vector is the
    original's. -/
theorem expr_attr_roundtrip {P : Type} (nA : Nat) (embed : P → List (Option Int)) (nanEnv : Nat → Option Int)
    (vars : List (Var P (Nat → Option Int) (Option Int))) (i : Nat) (hi : i < vars.length) (j : Nat) (hj : j < nA)
    (es : List PExpr) (hattr : vars[i].attrs j = Attr.ofExprs es) :
    ∃ (h : i < (loadCat nanEnv (saveCat nA embed vars)).length) (g : (Nat → Option Int) → List (Option Int)),
      ((loadCat nanEnv (saveCat nA embed vars))[i]).attrs j = .mx g ∧
      ∀ env, g env = broadcast vars[i].numel (es.map (PExpr.eval env)) := by
  have hwf : AttrWF nanEnv (vars[i].attrs j) := by rw [hattr]; exact ofExprs_wf es nanEnv
  exact attr_roundtrip nA embed nanEnv vars i hi j hj _ _ hattr hwf

section examples
/-- `Real v[2](each min = p); Real y(min = q, max = 2*q); Real z(max = p + q)` — the shape of
    DESIGN §6 row 17: an array variable in front of scalars with parameter-dependent bounds.
    Environments are `(p, q)`; attribute 1 = min, 2 = max. -/
def exVars : List (Var Int (Int × Int) Int) :=
  [ { name := "v", rows := 2, cols := 1, pyType := "float", aliases := [],
      attrs := fun j => if j = 1 then .mx true (fun e => [e.1]) else .py 0 },
    { name := "y", rows := 1, cols := 1, pyType := "float", aliases := ["w"],
      attrs := fun j => if j = 1 then .mx true (fun e => [e.2]) else if j = 2 then .mx true (fun e => [2 * e.2]) else .py 0 },
    { name := "z", rows := 1, cols := 1, pyType := "float", aliases := [],
      attrs := fun j => if j = 2 then .mx true (fun e => [e.1 + e.2]) else if j = 3 then .mx false (fun _ => [7]) else .py 0 } ]

def showAttr (e : Int × Int) : LAttr Int (Int × Int) Int → List Int
  | .py _ => [] | .mx g => g e

-- the hypotheses are satisfiable and the statement is not vacuous: at (p, q) = (10, 100)
example : (loadCat (0, 0) (saveCat 6 (fun p => [p]) exVars)).map (fun lv => (lv.name, lv.row0, showAttr (10, 100) (lv.attrs 1), showAttr (10, 100) (lv.attrs 2)))
    = [("v", 0, [10, 10], []), ("y", 2, [100], [200]), ("z", 3, [], [110])] := by decide
example : AttrWF ((0, 0) : Int × Int) (exVars[2].attrs 3) := by intro e; rfl
-- durations: three delays depending on {5}, {6}, {5, 6}: the second keeps a false dependency
example : maskSets (unionOf [[5], [6], [5, 6]]) (unionOf [[5], [6], [5, 6]]).length [[5], [6], [5, 6]]
    = [some [5], some [5, 6], some [5, 6]] := by decide
example : All2 (DependsOnly (V := Int)) [fun env => env 5, fun env => env 6 + 1] [[5], [6]] :=
  All2.cons (fun _ _ h => h 5 (by simp)) (All2.cons (fun _ _ h => by simp [h 6 (by simp)]) All2.nil)
-- classification examples: `2*p0 + 1` dependent; `3 - 1` independent; `0 * p0` dependent (and NaN at NaN)
example : classify (Attr.ofExprs (P := Unit) [.add (.mul (.const 2) (.param 0)) (.const 1)]) = Dep.dependent := by decide
example : classify (Attr.ofExprs (P := Unit) [.sub (.const 3) (.const 1)]) = Dep.independent := by decide
example : (PExpr.mul (.const 0) (.param 0)).eval (fun _ => none) = none := by decide
end examples

end PymocaVerif.CacheMeta

namespace PymocaVerif.CacheState

variable {M : Type}

/-- Option comparison of `load_model`: a model is served from the cache only if the stored
    option set equals the current one in every key — `mtime_check`, `cache`, `codegen`,
    `expand_mx` and the whole rest (every other key with its value, default or not) — except
    the excluded `library_folders`; and the stored version is the current one, the file is
    complete and no source is newer. -/
theorem served_only_for_equal_options (cfg : Cfg M) (w : World M) (o : Opts) (m : M)
    (h : load cfg w o = .hit m) :
    ∃ c, w.cache = some c ∧ m = c.db.model ∧ c.complete = true ∧ c.db.version = w.version ∧
      c.db.opts.mtimeCheck = o.mtimeCheck ∧ c.db.opts.cache = o.cache ∧ c.db.opts.codegen = o.codegen ∧
      c.db.opts.expandMx = o.expandMx ∧ c.db.opts.rest = o.rest ∧
      (cfg.exclLibs = false → c.db.opts.libs = o.libs) := by
  obtain ⟨c, hc, _, hcomp, hv, hopts, hm⟩ := load_hit h
  refine ⟨c, hc, hm, hcomp, hv, ?_⟩
  simp only [optsMatch, Bool.and_eq_true, Bool.or_eq_true, beq_iff_eq] at hopts
  obtain ⟨⟨⟨⟨⟨h1, h2⟩, h3⟩, h4⟩, h5⟩, h6⟩ := hopts
  refine ⟨h2, h3, h4, h5, h6, ?_⟩
  intro hex
  cases h1 with
  | inl h => rw [hex] at h; cases h
  | inr h => exact h

/-- Contrapositive, for one key of the rest (e.g. `detect_aliases`, or a key that is not among
    the defaults such as `iterative_simplification`): a different value, or the key being
    present on one side only, is never a hit. -/
theorem differing_option_is_never_served (cfg : Cfg M) (w : World M) (o : Opts) (c : CacheFile M)
    (hc : w.cache = some c) (hdiff : c.db.opts.rest ≠ o.rest) : ∀ m, load cfg w o ≠ .hit m := by
  intro m h
  obtain ⟨c', hc', _, _, _, _, _, _, _, hrest, _⟩ := served_only_for_equal_options cfg w o m h
  rw [hc] at hc'
  cases hc'
  exact hdiff hrest

-- satisfiable: the same options with and without a non-default key differ in `rest`
example : ([("detect_aliases", "False")] : List (String × String)) ≠
    [("detect_aliases", "False"), ("iterative_simplification", "True")] := by decide

end PymocaVerif.CacheState
