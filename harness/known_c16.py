"""Predicates of the open known findings of C16 (see known/C16.json)."""
from harness.common import known_predicate


def _classes(case):
    parent = {}

    def find(x):
        parent.setdefault(x, x)
        while parent[x] != x:
            parent[x] = parent[parent[x]]
            x = parent[x]
        return x

    for e in case.get("eqs", []):
        parent[find(e["a"])] = find(e["b"])
    out = {}
    for v in case.get("vars", []):
        out.setdefault(find(v["name"]), []).append(v)
    return list(out.values())


@known_predicate
def c16_symbolic_start_conflict(case, what):
    """Two members of one alias class both carry a parameter-dependent explicit start: the conflict test
    `start != alias_start_mx` is a non-constant MX whose truth value cannot be taken -> RuntimeError."""
    if not isinstance(case, dict) or "RuntimeError" not in what or "raised" not in what:
        return False
    for members in _classes(case):
        if sum(1 for v in members if v.get("start") and "par" in v["start"]) >= 2:
            return True
    return False


@known_predicate
def c16_negative_former_canonical(case, what):
    """A later detect_aliases pass aliases the canonical variable of an earlier class with a negative sign:
    the "already handled" test looks the *signed* name up in canonical_variables, skips it, so its merged
    attributes are dropped and the variable is not removed."""
    if not isinstance(case, dict) or not case.get("late"):
        return False
    if not any(l.get("neg") for l in case["late"]):
        return False
    return (what.startswith("class ") and "surviving variables" in what) or " of canonical " in what \
        or what.startswith("aliases of ") or what.startswith("start of canonical")
