/-! # C10 — property theorems (stub: not built yet) -/
