/-! Design-phase feasibility spike for C03/C24 (see DESIGN.md §10). Not part of the checking machinery.
    ANTLR-style precedence climbing, minimal-parenthesis printer, round trip. Core Lean only. -/

inductive Tok where
  | atom (n : Nat)
  | bop (o : Nat)
  | pop (q : Nat)
  | lp | rp
deriving DecidableEq, Repr

inductive E where
  | atom (n : Nat)
  | bin (o : Nat) (l r : E)
  | pre (q : Nat) (e : E)
deriving DecidableEq, Repr

structure Tbl where
  lvl : Nat → Nat      -- precpred level of binary operator o
  plvl : Nat → Nat     -- level at which a prefix operator parses its operand

variable (T : Tbl)

mutual
def parsePrim : Nat → List Tok → Option (E × List Tok)
  | 0, _ => none
  | f+1, Tok.atom n :: r => some (E.atom n, r)
  | f+1, Tok.lp :: r =>
      match parseE f 0 r with
      | some (e, Tok.rp :: r') => some (e, r')
      | _ => none
  | f+1, Tok.pop q :: r =>
      match parseE f (T.plvl q) r with
      | some (e, r') => some (E.pre q e, r')
      | none => none
  | _+1, _ => none
def parseE : Nat → Nat → List Tok → Option (E × List Tok)
  | 0, _, _ => none
  | f+1, p, ts =>
      match parsePrim f ts with
      | some (l, r) => parseLoop f p l r
      | none => none
def parseLoop : Nat → Nat → E → List Tok → Option (E × List Tok)
  | 0, _, _, _ => none
  | f+1, p, l, Tok.bop o :: r =>
      if p ≤ T.lvl o then
        match parseE f (T.lvl o + 1) r with
        | some (rt, r') => parseLoop f p (E.bin o l rt) r'
        | none => none
      else some (l, Tok.bop o :: r)
  | _+1, _, l, ts => some (l, ts)
end


def pr : Nat → E → List Tok
  | _, E.atom n => [Tok.atom n]
  | p, E.bin o l r =>
      if p ≤ T.lvl o then pr (T.lvl o) l ++ Tok.bop o :: pr (T.lvl o + 1) r
      else Tok.lp :: (pr (T.lvl o) l ++ Tok.bop o :: pr (T.lvl o + 1) r) ++ [Tok.rp]
  | p, E.pre q e =>
      if p ≤ T.plvl q then Tok.pop q :: pr (T.plvl q) e
      else Tok.lp :: (Tok.pop q :: pr (T.plvl q) e) ++ [Tok.rp]

theorem mono_step : ∀ f,
    (∀ ts r, parsePrim T f ts = some r → parsePrim T (f+1) ts = some r) ∧
    (∀ p ts r, parseE T f p ts = some r → parseE T (f+1) p ts = some r) ∧
    (∀ p l ts r, parseLoop T f p l ts = some r → parseLoop T (f+1) p l ts = some r) := by
  intro f
  induction f with
  | zero =>
    refine ⟨?_, ?_, ?_⟩ <;> intros <;> simp_all [parsePrim, parseE, parseLoop]
  | succ f ih =>
    obtain ⟨ihP, ihE, ihL⟩ := ih
    refine ⟨?_, ?_, ?_⟩
    · intro ts r h
      match ts with
      | [] => simp [parsePrim] at h
      | Tok.atom n :: t => simpa [parsePrim] using h
      | Tok.lp :: t =>
        simp only [parsePrim] at h ⊢
        split at h
        · next e r' heq => rw [ihE _ _ _ heq]; exact h
        · simp at h
      | Tok.pop q :: t =>
        simp only [parsePrim] at h ⊢
        split at h
        · next e r' heq => rw [ihE _ _ _ heq]; exact h
        · simp at h
      | Tok.bop o :: t => simp [parsePrim] at h
      | Tok.rp :: t => simp [parsePrim] at h
    · intro p ts r h
      simp only [parseE] at h ⊢
      split at h
      · next l r' heq => rw [ihP _ _ heq]; exact ihL _ _ _ _ h
      · simp at h
    · intro p l ts r h
      match ts with
      | [] => simpa [parseLoop] using h
      | Tok.bop o :: t =>
        simp only [parseLoop] at h ⊢
        split at h
        · next hle =>
          simp only [hle, if_true]
          split at h
          · next rt r' heq => rw [ihE _ _ _ heq]; exact ihL _ _ _ _ h
          · simp at h
        · next hle => simp only [hle, if_false]; exact h
      | Tok.atom n :: t => simpa [parseLoop] using h
      | Tok.pop q :: t => simpa [parseLoop] using h
      | Tok.lp :: t => simpa [parseLoop] using h
      | Tok.rp :: t => simpa [parseLoop] using h

theorem monoE {f f' p ts r} (h : parseE T f p ts = some r) (hle : f ≤ f') : parseE T f' p ts = some r := by
  induction hle with
  | refl => exact h
  | step _ ih => exact (mono_step T _).2.1 _ _ _ ih
theorem monoL {f f' p l ts r} (h : parseLoop T f p l ts = some r) (hle : f ≤ f') : parseLoop T f' p l ts = some r := by
  induction hle with
  | refl => exact h
  | step _ ih => exact (mono_step T _).2.2 _ _ _ _ ih
theorem monoP {f f' ts r} (h : parsePrim T f ts = some r) (hle : f ≤ f') : parsePrim T f' ts = some r := by
  induction hle with
  | refl => exact h
  | step _ ih => exact (mono_step T _).1 _ _ ih


/-- what may follow an expression printed in context `p` -/
def Follow (p : Nat) : List Tok → Prop
  | Tok.bop o :: _ => T.lvl o ≤ p
  | _ => True

def Stops (p : Nat) : List Tok → Prop
  | Tok.bop o :: _ => T.lvl o < p
  | _ => True

theorem Follow.mono {p p' rest} (h : Follow T p rest) (hle : p ≤ p') : Follow T p' rest := by
  match rest with
  | Tok.bop o :: t => simp [Follow] at h ⊢; omega
  | [] => trivial
  | Tok.atom _ :: _ => trivial
  | Tok.pop _ :: _ => trivial
  | Tok.lp :: _ => trivial
  | Tok.rp :: _ => trivial

theorem stops_of_follow {p p' rest} (h : Follow T p rest) (hlt : p < p') : Stops T p' rest := by
  match rest with
  | Tok.bop o :: t => simp [Follow] at h; simp [Stops]; omega
  | [] => trivial
  | Tok.atom _ :: _ => trivial
  | Tok.pop _ :: _ => trivial
  | Tok.lp :: _ => trivial
  | Tok.rp :: _ => trivial

theorem stops_of_follow_ne {q rest} (hne : ∀ o, T.lvl o ≠ T.plvl q) (h : Follow T (T.plvl q) rest) :
    Stops T (T.plvl q) rest := by
  match rest with
  | Tok.bop o :: t => simp [Follow] at h; simp [Stops]; have := hne o; omega
  | [] => trivial
  | Tok.atom _ :: _ => trivial
  | Tok.pop _ :: _ => trivial
  | Tok.lp :: _ => trivial
  | Tok.rp :: _ => trivial

/-- the loop stops when the next token is not an operator of level ≥ p -/
theorem loop_stop {p l rest} (h : Stops T p rest) :
    parseLoop T 1 p l rest = some (l, rest) := by
  match rest with
  | [] => simp [parseLoop]
  | Tok.bop o :: t =>
    have : ¬ p ≤ T.lvl o := by simp [Stops] at h; omega
    simp [parseLoop, this]
  | Tok.atom n :: t => simp [parseLoop]
  | Tok.pop q :: t => simp [parseLoop]
  | Tok.lp :: t => simp [parseLoop]
  | Tok.rp :: t => simp [parseLoop]

theorem absorb (hne : ∀ q o, T.lvl o ≠ T.plvl q) :
    ∀ (e : E) (p p0 : Nat) (rest : List Tok) (res : E × List Tok),
      p0 ≤ p → Follow T p rest →
      (∃ f, parseLoop T f p0 e rest = some res) →
      ∃ f, parseE T f p0 (pr T p e ++ rest) = some res := by
  intro e
  induction e with
  | atom n =>
    intro p p0 rest res _ _ ⟨f, hf⟩
    refine ⟨f + 2, ?_⟩
    have h4 := monoL T hf (show f ≤ f + 1 by omega)
    simp only [pr, List.cons_append, List.nil_append, parseE, parsePrim, h4]
  | bin o l r ihl ihr =>
    intro p p0 rest res hp hfol ⟨f, hf⟩
    have body : ∀ p0' rest' res', p0' ≤ T.lvl o → Follow T (T.lvl o) rest' →
        (∃ f, parseLoop T f p0' (E.bin o l r) rest' = some res') →
        ∃ f, parseE T f p0' ((pr T (T.lvl o) l ++ Tok.bop o :: pr T (T.lvl o + 1) r) ++ rest') = some res' := by
      intro p0' rest' res' hp0 hfol' ⟨f1, hf1⟩
      have hstop : parseLoop T 1 (T.lvl o + 1) r rest' = some (r, rest') :=
        loop_stop T (stops_of_follow T hfol' (Nat.lt_succ_self _))
      obtain ⟨f2, hf2⟩ := ihr (T.lvl o + 1) (T.lvl o + 1) rest' (r, rest') (Nat.le_refl _)
        (hfol'.mono T (Nat.le_succ _)) ⟨1, hstop⟩
      have hloop : parseLoop T (max f1 f2 + 1) p0' l (Tok.bop o :: (pr T (T.lvl o + 1) r ++ rest')) = some res' := by
        have key : ∀ g, f1 ≤ g → f2 ≤ g →
            parseLoop T (g + 1) p0' l (Tok.bop o :: (pr T (T.lvl o + 1) r ++ rest')) = some res' := by
          intro g h1 h2
          have h3 := monoE T hf2 h2
          have h4 := monoL T hf1 h1
          simp only [parseLoop, hp0, if_true, h3, h4]
        exact key _ (Nat.le_max_left _ _) (Nat.le_max_right _ _)
      have := ihl (T.lvl o) p0' (Tok.bop o :: (pr T (T.lvl o + 1) r ++ rest')) res' hp0
        (by simp [Follow]) ⟨_, hloop⟩
      simpa [List.append_assoc] using this
    by_cases hlv : p ≤ T.lvl o
    · have := body p0 rest res (by omega) (hfol.mono T hlv) ⟨f, hf⟩
      simpa [pr, hlv] using this
    · obtain ⟨f3, hf3⟩ := body 0 (Tok.rp :: rest) (E.bin o l r, Tok.rp :: rest) (Nat.zero_le _) (by simp [Follow])
        ⟨1, by simp [parseLoop]⟩
      have key : ∀ g, f ≤ g → f3 ≤ g →
          parseE T (g + 2) p0 (Tok.lp :: ((pr T (T.lvl o) l ++ Tok.bop o :: pr T (T.lvl o + 1) r) ++ Tok.rp :: rest)) = some res := by
        intro g hfg hf3g
        have h3 := monoE T hf3 hf3g
        have h4 := monoL T hf (show f ≤ g + 1 by omega)
        simp only [parseE, parsePrim, h3, h4]
      refine ⟨max f f3 + 2, ?_⟩
      have := key (max f f3) (Nat.le_max_left _ _) (Nat.le_max_right _ _)
      simpa [pr, hlv, List.append_assoc] using this
  | pre q e ih =>
    intro p p0 rest res hp hfol ⟨f, hf⟩
    have body : ∀ rest', Follow T (T.plvl q) rest' →
        ∃ f, parsePrim T f (Tok.pop q :: pr T (T.plvl q) e ++ rest') = some (E.pre q e, rest') := by
      intro rest' hr
      have hstop : parseLoop T 1 (T.plvl q) e rest' = some (e, rest') :=
        loop_stop T (stops_of_follow_ne T (hne q) hr)
      obtain ⟨f2, hf2⟩ := ih (T.plvl q) (T.plvl q) rest' (e, rest') (Nat.le_refl _) hr ⟨1, hstop⟩
      refine ⟨f2 + 1, ?_⟩
      simp only [List.cons_append, parsePrim, hf2]
    by_cases hlv : p ≤ T.plvl q
    · obtain ⟨f2, hf2⟩ := body rest (hfol.mono T hlv)
      have key : ∀ g, f ≤ g → f2 ≤ g →
          parseE T (g + 1) p0 ((Tok.pop q :: pr T (T.plvl q) e) ++ rest) = some res := by
        intro g h1 h2
        have h3 := monoP T hf2 h2
        have h4 := monoL T hf h1
        simp only [List.cons_append] at h3
        simp only [parseE, List.cons_append, h3, h4]
      refine ⟨max f f2 + 1, ?_⟩
      have := key (max f f2) (Nat.le_max_left _ _) (Nat.le_max_right _ _)
      simpa [pr, hlv] using this
    · obtain ⟨f2, hf2⟩ := body (Tok.rp :: rest) (by simp [Follow])
      have hinner : parseE T (max f2 1 + 1) 0 (Tok.pop q :: pr T (T.plvl q) e ++ Tok.rp :: rest) = some (E.pre q e, Tok.rp :: rest) := by
        have key : ∀ g, f2 ≤ g → 1 ≤ g →
            parseE T (g + 1) 0 (Tok.pop q :: pr T (T.plvl q) e ++ Tok.rp :: rest) = some (E.pre q e, Tok.rp :: rest) := by
          intro g h1 h2
          have h3 := monoP T hf2 h1
          have h4 : parseLoop T g 0 (E.pre q e) (Tok.rp :: rest) = some (E.pre q e, Tok.rp :: rest) :=
            monoL T (loop_stop T (by simp [Stops])) h2
          simp only [parseE, h3, h4]
        exact key _ (Nat.le_max_left _ _) (Nat.le_max_right _ _)
      have key : ∀ g, f ≤ g → max f2 1 + 1 ≤ g →
          parseE T (g + 2) p0 (Tok.lp :: ((Tok.pop q :: pr T (T.plvl q) e) ++ Tok.rp :: rest)) = some res := by
        intro g hfg hg
        have h3 := monoE T hinner hg
        have h4 := monoL T hf (show f ≤ g + 1 by omega)
        simp only [List.cons_append] at h3
        simp only [parseE, parsePrim, List.cons_append, h3, h4]
      refine ⟨max f (max f2 1 + 1) + 2, ?_⟩
      have := key (max f (max f2 1 + 1)) (Nat.le_max_left _ _) (Nat.le_max_right _ _)
      simpa [pr, hlv, List.append_assoc] using this

theorem parse_print (hne : ∀ q o, T.lvl o ≠ T.plvl q) (e : E) :
    ∃ f, parseE T f 0 (pr T 0 e) = some (e, []) := by
  have := absorb T hne e 0 0 [] (e, []) (Nat.le_refl _) (by simp [Follow]) ⟨1, by simp [parseLoop]⟩
  simpa using this

#print axioms parse_print
