"""Shared helpers of the model-cache checks C19, C20, C21 (owner: A12).

* `gen_model(rng, ...)`   structured generator of small Modelica models from the quantifier domain of C19:
                          parameters (valued / free / dependent / Integer / String), parameter-dependent
                          attributes, array variables with `each` and per-element attributes, alias chains
                          (both signs), delays (constant / parameter / parameter-expression durations),
                          states, inputs, outputs, constants.  Returns text + feature list.
* `gen_options(rng)`      a simplification option set.
* `signature(model, pts)` every observable the properties C19-C21 compare, canonicalised to JSON with exact
                          values (`fractions.Fraction` strings; evaluation points are small dyadic rationals).
* `diff(a, b)`            first differing paths between two signatures.

Nothing here looks at the Lean model: this is the direct-oracle side.
"""
import math
import os
from fractions import Fraction

CATS = ["states", "der_states", "alg_states", "inputs", "parameters", "constants"]
META_CATS = ["states", "alg_states", "inputs", "parameters", "constants"]
ATTRS = ("value", "min", "max", "start", "fixed", "nominal")
FUNCS = ["dae_residual", "initial_residual", "variable_metadata", "delay_arguments"]

SIMPLIFY_FLAGS = [
    "expand_vectors", "detect_aliases", "replace_constant_values", "replace_constant_expressions",
    "replace_parameter_expressions", "replace_parameter_values", "resolve_parameter_values",
    "eliminate_constant_assignments", "factor_and_simplify_equations",
]


# ---------------------------------------------------------------------------------------------
# generator
# ---------------------------------------------------------------------------------------------
def _num(rng):
    return rng.choice(["1", "2", "3", "4", "0.5", "1.5", "0.25", "8", "-1", "-2", "-0.5"])


def _pexpr(rng, pnames, depth=0):
    """Expression over real parameters using + - * and dyadic constants (exact in doubles)."""
    if not pnames or (depth and rng.random() < 0.3):
        return _num(rng)
    r = rng.random()
    if depth >= 2 or r < 0.35:
        return rng.choice(pnames)
    if r < 0.55:
        return "%s*%s" % (_num(rng).lstrip("-"), rng.choice(pnames))
    if r < 0.8:
        return "%s %s %s" % (_pexpr(rng, pnames, depth + 1), rng.choice("+-"), _pexpr(rng, pnames, depth + 1))
    if r < 0.88:
        return "(%s)*%s" % (_pexpr(rng, pnames, depth + 1), rng.choice(pnames))
    if r < 0.95 and "pq0" in pnames:
        # a quotient: not affine in the parameters.  The divisor parameter only takes powers of two (its declared
        # value and every evaluation point), so the result is exact however CasADi orders the operations
        return "%s / pq0" % rng.choice([q for q in pnames if q != "pq0"] + [_num(rng).lstrip("-")])
    return "-%s" % rng.choice([q for q in pnames if q != "pq0"] or pnames)


# Coefficients spanning many orders of magnitude (unit conversions: `max = 1e-13 * k_perm`).  Attribute values of the fresh
# compile (the expression as written) and of a cache-served model (pymoca rebuilds affine metadata as A*p + b) must be the
# same doubles, so these coefficients only occur in shapes whose value does not depend on the order of the operations at
# the evaluation points (every parameter value there is a power of two, a product c*p is therefore exact):
#   c*p, -c*p, c*p +- k, c*p +- d*q (q another independent parameter): at most ONE rounding, of a commutative addition.
# The decimal ones multiply independent parameters only (a dependent parameter may be replaced by its defining sum);
# the power-of-two ones (written with all their digits, `float` reads them back exactly) may also define / multiply the
# dependent parameter: with one of them per expression all sums stay within 53 bits.
WIDE_DEC = ["1e-13", "1e-15", "2.5e-14", "3e-13", "1e-9", "1e9", "1e13", "7e-16", "4e11"]
WIDE_DYA = [repr(2.0 ** -40), repr(2.0 ** -30), repr(2.0 ** 30), repr(2.0 ** 40)]


def _wexpr(rng, base, allp, single=False):
    """Expression with one coefficient of extreme magnitude; `base`: independent real parameters, `allp`: + dependent."""
    if single or not base:
        return "%s*%s" % (rng.choice(WIDE_DYA), rng.choice(allp))
    c = rng.choice(WIDE_DEC + WIDE_DYA)
    p = rng.choice(base if c in WIDE_DEC else allp)
    t = "%s*%s" % (c, p)
    r = rng.random()
    if r < 0.45:
        return t
    if r < 0.6:
        return "-" + t
    others = [q for q in base if q != p]
    if r < 0.8 or not others or p not in base:
        return "%s %s %s" % (t, rng.choice("+-"), _num(rng).lstrip("-"))
    d = rng.choice([_num(rng).lstrip("-"), rng.choice(WIDE_DEC)])
    return "%s %s %s*%s" % (t, rng.choice("+-"), d, rng.choice(others))


def gen_model(rng, name="M", size=None, want=None, wide=0.0):
    """Returns dict(text=, name=, features=[...]).  `want` forces features (set of strings).  `wide`: probability that a
    parameter expression (attribute, dependent parameter, initial equation) has a coefficient of extreme magnitude
    (0: the PRNG stream is the one of earlier versions)."""
    want = set(want or ())
    if "wide-coefficient" in want and not wide:
        wide = 0.5
    size = size or rng.choice([1, 2, 2, 3])
    feats = set()
    decl, eqs, ieqs = [], [], []

    # ---- a genuinely two-dimensional variable (rows of the metadata matrix = numel, not size1) ----------
    matrix = None
    if "matrix" in want or rng.random() < 0.25:
        r_, c_ = rng.choice([(2, 2), (2, 3), (1, 2), (3, 2), (1, 3)])
        rows_txt = ", ".join("{%s}" % ", ".join(_num(rng) for _ in range(c_)) for _ in range(r_))
        decl.append("parameter Real gm0[%d, %d] = {%s};" % (r_, c_, rows_txt))
        matrix = (r_, c_)
        feats.add("matrix-variable")
    # ---- parameters --------------------------------------------------------------------
    preal = []
    for i in range(rng.randint(1, 1 + size)):
        n = "p%d" % i
        if rng.random() < 0.7:
            decl.append("parameter Real %s = %s;" % (n, _num(rng)))
        else:
            decl.append("parameter Real %s;" % n)
            feats.add("free-parameter")
        preal.append(n)
    pbase = list(preal)
    if rng.random() < 0.35 or "quotient" in want:
        decl.append("parameter Real pq0%s;" % rng.choice([" = 0.5", " = 2", " = 4", " = 0.25", " = -2", ""]))
        preal.append("pq0")
        feats.add("divisor-parameter")
    if rng.random() < 0.5 or "dependent-parameter" in want:
        n = "pd0"
        if wide and rng.random() < wide / 2:
            decl.append("parameter Real %s = %s;" % (n, _wexpr(rng, pbase, pbase, single=True)))
            feats.add("wide-coefficient")
        else:
            decl.append("parameter Real %s = %s;" % (n, _pexpr(rng, preal)))
        feats.add("dependent-parameter")
        preal_all = preal + [n]
    else:
        preal_all = list(preal)
    if rng.random() < 0.4:
        decl.append("parameter Integer n0 = %d;" % rng.randint(1, 5))
        feats.add("integer-parameter")
    if rng.random() < 0.2:
        decl.append("parameter Boolean b0 = %s;" % rng.choice(["true", "false"]))
        feats.add("boolean-parameter")
    if rng.random() < 0.5 or "string-parameter" in want:
        decl.append('parameter String s0 = "%s";' % rng.choice(["abc", "a b", "", "x.y"]))
        feats.add("string-parameter")
        if rng.random() < 0.3:
            decl.append('parameter String s1;')
    vecpar = []
    if "vector-parameter" in want:
        k = rng.randint(2, 3)
        decl.append("parameter Real pv0[%d] = {%s};" % (k, ", ".join(_num(rng) for _ in range(k))))
        vecpar = ["pv0[%d]" % (i + 1) for i in range(k)]
        feats.add("vector-parameter")
    consts = []
    if rng.random() < 0.5:
        decl.append("constant Real c0 = %s;" % _num(rng))
        consts.append("c0")
        feats.add("constant")

    def pe(depth=0):
        if wide and rng.random() < wide:
            feats.add("wide-coefficient")
            return _wexpr(rng, pbase, preal_all)
        return _pexpr(rng, preal_all, depth)

    def attrs(arr=0):
        """A modification with parameter-dependent / numeric attributes."""
        mods = []
        for a in ("min", "max", "nominal", "start"):
            r = rng.random()
            if r < 0.22:
                e = pe()
                feats.add("param-attr" if any(c.isalpha() for c in e) else "const-attr")
            elif r < 0.32:
                e = _num(rng)
                feats.add("const-attr")
            else:
                continue
            if arr:
                if rng.random() < 0.6:
                    mods.append("each %s = %s" % (a, e))
                    feats.add("array-each-attr")
                else:
                    # symbolic elements compile since e418650 / a4e134c and can be cached since 00f122e (C19-F3)
                    sym = "array-symbolic" in want or rng.random() < 0.5
                    mods.append("%s = {%s}" % (a, ", ".join(pe(1) if sym and rng.random() < 0.6 else _num(rng)
                                                           for _ in range(arr))))
                    if sym:
                        feats.add("array-symbolic-attr")
                    feats.add("array-elementwise-attr")
            else:
                mods.append("%s = %s" % (a, e))
        if rng.random() < 0.1:
            mods.append(("each " if arr else "") + "fixed = true")
        return "(" + ", ".join(mods) + ")" if mods else ""

    def each_attrs():
        mods = []
        for a in ("min", "max", "nominal"):
            if rng.random() < 0.4:
                mods.append("each %s = %s" % (a, pe() if rng.random() < 0.6 else _num(rng)))
        return "(" + ", ".join(mods) + ")" if mods else ""

    # the matrix variable comes first among the algebraic variables: everything after it is shifted
    if matrix:
        decl.append("Real wm0[%d, %d]%s;" % (matrix[0], matrix[1], each_attrs()))
    # ---- states ------------------------------------------------------------------------
    states = []
    for i in range(rng.randint(0 if size < 2 else 1, size)):
        n = "x%d" % i
        decl.append("Real %s%s;" % (n, attrs()))
        states.append(n)
    # ---- inputs ------------------------------------------------------------------------
    inputs = []
    for i in range(rng.randint(0, 2)):
        n = "u%d" % i
        decl.append("input Real %s%s;" % (n, "(fixed = true)" if rng.random() < 0.5 else attrs()))
        inputs.append(n)
    # ---- algebraic scalars ---------------------------------------------------------------
    algs = []
    for i in range(rng.randint(1, 1 + size)):
        n = "y%d" % i
        pre = "output " if rng.random() < 0.3 else ""
        if pre:
            feats.add("output")
        decl.append("%sReal %s%s;" % (pre, n, attrs()))
        algs.append(n)
    # ---- arrays --------------------------------------------------------------------------
    arrays = []
    if rng.random() < 0.55 or "array" in want:
        for i in range(rng.randint(1, 2)):
            n, k = "v%d" % i, rng.randint(2, 3)
            pre = "output " if rng.random() < 0.15 else ""
            decl.append("%sReal %s[%d]%s;" % (pre, n, k, attrs(arr=k)))
            arrays.append((n, k))
            feats.add("array")

    known = states + inputs + preal_all + consts + vecpar  # symbols an algebraic rhs may use

    def lin(pool, nterms=None):
        ts = []
        for _ in range(nterms or rng.randint(1, 3)):
            v = rng.choice(pool)
            r = rng.random()
            ts.append(v if r < 0.4 else "%s*%s" % (_num(rng).lstrip("-"), v) if r < 0.85 else "%s*%s" % (v, rng.choice(pool)))
        s = ts[0]
        for t in ts[1:]:
            s += " %s %s" % (rng.choice("+-"), t)
        if rng.random() < 0.4:
            s += " %s %s" % (rng.choice("+-"), _num(rng).lstrip("-"))
        return s

    pool = list(known) or ["time"]
    for n in states:
        eqs.append("der(%s) = %s;" % (n, lin(pool + [n])))
        if rng.random() < 0.3:
            ieqs.append("%s = %s;" % (n, pe()))
    for n in algs:
        eqs.append("%s = %s;" % (n, lin(pool)))
        pool.append(n)
    if matrix:
        eqs.append("wm0 = gm0 * %s;" % rng.choice(pool))
    if "cancellation" in want or rng.random() < 0.2:
        # terms that cancel only in exact arithmetic: (a + b) + (c - a)
        decl.append("Real yc0%s;" % attrs())
        a_, b_, c_2 = rng.choice(pool), rng.choice(pool), rng.choice(pool)
        eqs.append("yc0 = (%s + %s) + (%s - %s);" % (a_, b_, c_2, a_))
        feats.add("cancellation")
    for n, k in arrays:
        r = rng.random()
        if r < 0.5:
            eqs.append("%s = {%s}*%s;" % (n, ", ".join(_num(rng) for _ in range(k)), rng.choice(pool)))
        else:
            eqs.append("for i in 1:%d loop %s[i] = i*%s + %s; end for;" % (k, n, rng.choice(pool), _num(rng)))
            feats.add("for-loop")
    # ---- alias chains --------------------------------------------------------------------
    if rng.random() < 0.6 or "alias" in want:
        for i in range(rng.randint(1, 1 + size)):
            n = "a%d" % i
            decl.append("Real %s%s;" % (n, attrs()))
            tgt = rng.choice(algs + states + ["a%d" % j for j in range(i)])
            form = rng.random()
            if form < 0.4:
                eqs.append("%s = %s;" % (n, tgt))
            elif form < 0.7:
                eqs.append("%s = -%s;" % (n, tgt))
                feats.add("negative-alias")
            elif form < 0.85:
                eqs.append("%s + %s = 0;" % (n, tgt))
                feats.add("negative-alias")
            else:
                eqs.append("%s - %s = 0;" % (tgt, n))
            feats.add("alias")
    # ---- delays --------------------------------------------------------------------------
    if rng.random() < 0.5 or "delay" in want:
        for i in range(rng.randint(1, 3)):
            n = "d%d" % i
            decl.append("Real %s;" % n)
            r = rng.random()
            if r < 0.3:
                dur = _num(rng).lstrip("-")
                feats.add("delay-const")
            elif r < 0.6:
                dur = rng.choice(preal_all)
                feats.add("delay-param")
            elif r < 0.85:
                dur = "%s + %s" % (rng.choice(preal_all), rng.choice(preal_all + ["1", "0.5"]))
                feats.add("delay-param-expr")
            elif consts:
                dur = "%s*%s" % (consts[0], rng.choice(preal_all))
                feats.add("delay-param-expr")
            else:
                dur = "2*%s" % rng.choice(preal_all)
                feats.add("delay-param-expr")
            arg = rng.choice(states + algs + inputs) if rng.random() < 0.7 else lin(states + algs + inputs, 2)
            eqs.append("%s = delay(%s, %s);" % (n, arg, dur))
            feats.add("delay")

    text = "model %s\n  %s\n" % (name, "\n  ".join(decl))
    if ieqs:
        text += "initial equation\n  %s\n" % "\n  ".join(ieqs)
    text += "equation\n  %s\nend %s;\n" % ("\n  ".join(eqs), name)
    return {"name": name, "text": text, "features": sorted(feats)}


def gen_options(rng, heavy=0.5):
    o = {}
    for k in SIMPLIFY_FLAGS:
        if rng.random() < (heavy if k in ("expand_vectors", "detect_aliases") else 0.2):
            o[k] = True
    if rng.random() < 0.1:
        o["allow_derivative_aliases"] = False
    if rng.random() < 0.1:
        o["check_balanced"] = False
    return o


# ---------------------------------------------------------------------------------------------
# canonical values
# ---------------------------------------------------------------------------------------------
def fnum(x):
    """A Python/NumPy scalar as an exact string."""
    if isinstance(x, bool):
        return "bool:%s" % x
    try:
        xf = float(x)
    except Exception:
        return "obj:%s" % type(x).__name__
    if math.isnan(xf):
        return "nan"
    if math.isinf(xf):
        return "inf" if xf > 0 else "-inf"
    return str(Fraction(xf))


def dm_vals(dm):
    """casadi DM / list of DM -> nested lists of exact strings, column-major like CasADi."""
    import casadi as ca
    import numpy as np
    if isinstance(dm, (list, tuple)):
        return [dm_vals(x) for x in dm]
    arr = np.array(ca.DM(dm), dtype=float)
    return {"shape": list(arr.shape), "v": [fnum(v) for v in arr.flatten(order="F")]}


def pyval(v):
    """A non-MX attribute value (what the pickle carries) -> canonical JSON."""
    import numpy as np
    t = type(v).__name__
    if isinstance(v, (list, tuple)):
        return {"t": t, "v": [pyval(x) for x in v]}
    if isinstance(v, np.ndarray):
        return {"t": "ndarray", "shape": list(v.shape), "v": [fnum(x) for x in v.flatten()]}
    try:
        import casadi as ca
        if isinstance(v, ca.DM):
            return {"t": "DM", "v": dm_vals(v)}
    except Exception:
        pass
    if v is None or isinstance(v, str):
        return {"t": t, "v": v}
    return {"t": t, "v": fnum(v)}


def points(n_sym_total, npts, seed):
    """Deterministic exact evaluation points: signed powers of two 2^-2 .. 2^3 (sums, products and quotients
    of a few of them are exact in doubles, in any order of evaluation)."""
    import random
    r = random.Random(seed)
    ks = [s * 2.0 ** e for e in range(-2, 4) for s in (1, -1)]
    return [[r.choice(ks) for _ in range(n_sym_total)] for _ in range(npts)]


def extreme_points(n, seed, maxpts=20):
    """More exact points for the functions: one input of magnitude 2^60, all others small (2^-30, 1, 3), the
    huge one moving over (up to `maxpts` of) the inputs.  Exact IEEE evaluation of the same operation sequence
    gives the same doubles in the CasADi VM, after pickling and in gcc -O2 code; value-changing compiler
    options (-ffast-math re-association) do not."""
    import random
    r = random.Random(seed * 31 + 5)
    small = [2.0 ** -30, -2.0 ** -30, 1.0, -1.0, 3.0]
    idx = list(range(n))
    r.shuffle(idx)
    pts = []
    for h in idx[:maxpts]:
        pt = [r.choice(small) for _ in range(n)]
        pt[h] = r.choice([2.0 ** 60, -2.0 ** 60])
        pts.append(pt)
    return pts


def _has_mx(value):
    import casadi as ca
    return isinstance(value, list) and any(isinstance(e, ca.MX) or _has_mx(e) for e in value)


def _list_to_mx(value):
    """A (nested) list with MX elements as one MX, with the layout ca.DM gives a numeric list."""
    import casadi as ca
    if any(isinstance(row, list) for row in value):
        return ca.vertcat(*[ca.horzcat(*[ca.MX(e) for e in row]) for row in value])
    return ca.vertcat(*[ca.MX(e) for e in value])


def signature(m, npts=2, seed=0):
    """Everything C19 compares, for a Model or a CachedModel."""
    import casadi as ca
    import numpy as np
    sig = {"class": type(m).__name__}
    psyms = [v.symbol for v in m.parameters]
    pvec_n = int(sum(s.numel() for s in psyms))
    ppts = points(pvec_n, npts, seed * 7 + 1)

    def eval_at_params(expr):
        try:
            f = ca.Function("sigf", [ca.veccat(*psyms)] if psyms else [], [ca.MX(expr)])
        except Exception as e:  # free variables etc.
            return {"error": type(e).__name__, "msg": str(e).split("\n")[-1][-120:]}
        out = []
        for p in ppts:
            out.append(dm_vals(f.call([ca.DM(p)] if psyms else [])[0]))
        return out

    for cat in CATS:
        rows = []
        for v in getattr(m, cat):
            row = {"name": v.symbol.name(), "shape": [v.symbol.size1(), v.symbol.size2()],
                   "python_type": v.python_type.__name__,
                   "aliases": sorted(v.aliases) if isinstance(v.aliases, (set, frozenset, list)) else repr(v.aliases)}
            for a in ATTRS:
                val = getattr(v, a)
                kind = "MX" if isinstance(val, ca.MX) else "py:" + type(val).__name__
                if isinstance(val, list) and _has_mx(val):
                    val = _list_to_mx(val)      # array attribute with symbolic elements
                # Values only, element-wise (column-major) at the parameter points, a scalar broadcast over the
                # variable's elements.  Whether a value is held as a float, a list, an ndarray, a DM, a constant MX or
                # an MX expression is representation (it even varies between two compiles of one source, because
                # pymoca iterates over sets of variables while substituting): `_kind` is informative, never compared.
                if isinstance(val, ca.MX):
                    if val.numel() == 1 and v.symbol.numel() > 1:
                        val = ca.repmat(val, *v.symbol.shape)
                    at = eval_at_params(val)
                    at = [x["v"] if isinstance(x, dict) and "v" in x else x for x in at] if isinstance(at, list) else at
                else:
                    try:
                        vals = dm_vals(ca.DM(val))["v"]
                        if len(vals) == 1 and v.symbol.numel() > 1:
                            vals = vals * int(v.symbol.numel())
                        at = [vals] * len(ppts)
                    except Exception:
                        at = {"opaque": pyval(val)}
                row[a] = {"_kind": kind, "at": at}
            rows.append(row)
        sig[cat] = rows
    for cat in ("string_parameters", "string_constants"):
        sig[cat] = [[getattr(s, k, None) for k in ("name", "value", "start", "fixed")] for s in getattr(m, cat)]
    sig["outputs"] = list(m.outputs)
    sig["delay_states"] = list(m.delay_states)
    # AliasRelation iterates over a Python set: the order is not part of the observable
    sig["alias_relation"] = sorted([c, sorted(a)] for c, a in m.alias_relation)
    names = sorted(set(n for c in CATS for v in getattr(m, c) for n in [v.symbol.name()] + sorted(v.aliases)))
    sig["alias_canonical_signed"] = [[n] + list(m.alias_relation.canonical_signed(n)) for n in names]
    # ---- the four functions at exact points -------------------------------------------------
    fsig = {}
    for fn in FUNCS:
        try:
            f = getattr(m, fn + "_function")
            ent = {"n_in": f.n_in(), "n_out": f.n_out(),
                   "size_in": [list(f.size_in(i)) for i in range(f.n_in())],
                   "size_out": [list(f.size_out(i)) for i in range(f.n_out())]}
            tot = sum(f.numel_in(i) for i in range(f.n_in()))
            vals = []
            for pt in points(tot, npts, seed * 7 + 2 + len(fn)) + extreme_points(tot, seed + len(fn)):
                args, k = [], 0
                for i in range(f.n_in()):
                    n = f.numel_in(i)
                    args.append(ca.reshape(ca.DM(pt[k:k + n]), *f.size_in(i)) if n else ca.DM.zeros(*f.size_in(i)))
                    k += n
                vals.append(dm_vals(f.call(args)))
            ent["at"] = vals
        except Exception as e:
            ent = {"error": type(e).__name__, "msg": str(e).split("\n")[-1][-160:]}
        fsig[fn] = ent
    sig["functions"] = fsig
    # ---- delay arguments (expr, duration) as functions of all symbols ----------------------------
    try:
        allsyms = [m.time] + [v.symbol for c in CATS for v in getattr(m, c)]
        tot = int(sum(s.numel() for s in allsyms))
        das = []
        if m.delay_arguments:
            outs = []
            for d in m.delay_arguments:
                outs += [ca.MX(d.expr), ca.MX(d.duration)]
            f = ca.Function("sigd", allsyms, outs)
            for pt in points(tot, npts, seed * 7 + 3):
                args, k = [], 0
                for s in allsyms:
                    n = s.numel()
                    args.append(ca.reshape(ca.DM(pt[k:k + n]), *s.shape))
                    k += n
                das.append(dm_vals(f.call(args)))
        sig["delay_arguments"] = {"n": len(m.delay_arguments), "at": das}
    except Exception as e:
        sig["delay_arguments"] = {"error": type(e).__name__, "msg": str(e).split("\n")[-1][-160:]}
    return sig


def param_points(m, npts, seed):
    """The parameter vectors `signature` evaluates attributes at, plus the all-NaN vector last."""
    n = int(sum(v.symbol.numel() for v in m.parameters))
    return points(n, npts, seed * 7 + 1) + [[float("nan")] * n]


def eval_at_params(m, expr, pts):
    """Element values (column-major, exact strings) of an MX expression of the parameters at each point."""
    import casadi as ca
    psyms = [v.symbol for v in m.parameters]
    f = ca.Function("evp", [ca.veccat(*psyms)] if psyms else [], [ca.MX(expr)])
    return [dm_vals(f.call([ca.DM(p)] if psyms else [])[0])["v"] for p in pts]


def embed_py(value):
    """Elements of a plain attribute value inside the metadata matrix: `ca.MX(ca.DM(value))`."""
    import casadi as ca
    try:
        value = ca.DM(value)
    except Exception:
        pass
    return dm_vals(ca.DM(ca.MX(value)))["v"] if not isinstance(value, ca.DM) else dm_vals(value)["v"]


def diff(a, b, path="", out=None, limit=6):
    """Paths where two signatures differ (ignoring the top-level `class`)."""
    out = [] if out is None else out
    if len(out) >= limit:
        return out
    if isinstance(a, dict) and isinstance(b, dict):
        for k in sorted(set(a) | set(b)):
            if (path == "" and k == "class") or str(k).startswith("_"):
                continue
            if k not in a or k not in b:
                out.append("%s/%s: only in %s" % (path, k, "first" if k in a else "second"))
            else:
                diff(a[k], b[k], path + "/" + str(k), out, limit)
    elif isinstance(a, list) and isinstance(b, list):
        if len(a) != len(b):
            out.append("%s: length %d vs %d" % (path, len(a), len(b)))
        else:
            for i, (x, y) in enumerate(zip(a, b)):
                diff(x, y, "%s[%d]" % (path, i), out, limit)
    elif a != b:
        out.append("%s: %r vs %r" % (path, a, b))
    return out


# ---------------------------------------------------------------------------------------------
# running the real code
# ---------------------------------------------------------------------------------------------
def write_file(path, text, mtime=None):
    os.makedirs(os.path.dirname(path), exist_ok=True)
    with open(path, "w") as f:
        f.write(text)
    if mtime is not None:
        set_mtime(path, mtime)


def set_mtime(path, t):
    """Exact mtime in integer nanoseconds when `t` is an int, else seconds as float."""
    if isinstance(t, int):
        os.utime(path, ns=(t, t))
    else:
        os.utime(path, (t, t))


def quiet_logging():
    import logging
    logging.getLogger("pymoca").setLevel(logging.CRITICAL)


def outcome(fn, *a, **kw):
    """(True, value) or (False, exception class name, message) — repo exceptions never escape."""
    try:
        return True, fn(*a, **kw), None
    except BaseException as e:  # noqa: BLE001 — classified, never swallowed silently
        if isinstance(e, (KeyboardInterrupt, SystemExit)):
            raise
        return False, type(e).__name__, str(e).split("\n")[0][:200]


def reference_compile(api, folder, name, opts):
    """Fresh compile with the options as transfer_model rewrites them, caching off, and the four functions
    built (save_model needs them): (ok, model | class name, message)."""
    o = dict(opts)
    cache, codegen = bool(o.get("cache")), bool(o.get("codegen"))
    if cache and codegen:
        cache = False
    if cache:
        o["expand_mx"] = True
    o["cache"] = False
    o["codegen"] = False

    def compile_and_build():
        m = api.transfer_model(folder, name, o)
        for fn in FUNCS:
            getattr(m, fn + "_function")
        return m
    return outcome(compile_and_build)


FLIP_KEYS = ["expand_vectors", "detect_aliases", "eliminate_constant_assignments", "replace_constant_values",
             "replace_parameter_values", "replace_parameter_expressions", "resolve_parameter_values", "expand_mx",
             "replace_constant_expressions", "factor_and_simplify_equations", "allow_derivative_aliases", "check_balanced",
             "unroll_loops", "inline_functions", "reduce_affine_expression"]


def flip(opts, key):
    """The other value of a Boolean option; a key that is not among pymoca's defaults goes absent <-> True."""
    from pymoca.backends.casadi._options import _get_default_options
    o = dict(opts)
    cur = dict(_get_default_options(), **opts)
    if key in cur:
        if key in _get_default_options():
            o[key] = not cur[key]
        else:
            del o[key]
    else:
        o[key] = True
    return o


outcome_base = outcome   # also classifies BaseException subclasses (simulated crashes)


# ---------------------------------------------------------------------------------------------
# a real model folder + library folders under a controlled clock (C20, C21)
# ---------------------------------------------------------------------------------------------
REASONS = [("out of date", "out-of-date"), ("incomplete or damaged", "damaged"), ("different version", "version"),
           ("different compiler options", "options"), ("CasADi version", "casadi-version"), ("incompatible OS", "os")]


def coarse(kind):
    """hit / compiled / raised / direct — the part of a decision that is compared with the model.  The reason
    after the colon is read off the exception *message* and is only informative (evidence buckets)."""
    return str(kind).split(":", 1)[0]


def reason_of(msg):
    for pat, r in REASONS:
        if pat in msg:
            return r
    return "other"


class CacheWorld:
    """Folders 0 (model folder), 1, 2, ... on disk; a logical clock whose ticks become file
    modification times (`base_ns + tick * step_ns`); a spy on `api.load_model`; and the log of
    the same history in the vocabulary of the Lean model (`model_ops`)."""

    BASE_NS = 1_600_000_000 * 10**9

    def __init__(self, root, name="M", nfolders=3, step_ns=10**6, version_marker=False, base_ns=None):
        from pymoca.backends.casadi import api
        if base_ns is not None:
            self.BASE_NS = base_ns
        self.links = {}
        self.api = api
        self.root, self.name, self.step_ns = root, name, step_ns
        self.dirs = [os.path.join(root, "f%d" % i) for i in range(nfolders)]
        for d in self.dirs:
            os.makedirs(d, exist_ok=True)
        self.clock = 0
        self.model_ops = []
        self.contents = {}
        self.versions = {}
        self.spy_log = []
        self._orig_load = api.load_model
        self._orig_version = api.__version__
        self.version_id(api.__version__)
        api.load_model = self._spy
        self._orig_compile = api._compile_model
        if version_marker:
            # "another pymoca version" = another version string *and* a compiler whose output differs:
            # the compiled model carries the version that compiled it in an observable the cache stores
            def compile_marked(folder, name, opts, _orig=api._compile_model):
                m = _orig(folder, name, opts)
                m.outputs = list(m.outputs) + ["__compiled_by__" + str(api.__version__)]
                return m
            api._compile_model = compile_marked

    # ---- plumbing -------------------------------------------------------------------------
    def close(self):
        self.api.load_model = self._orig_load
        self.api._compile_model = self._orig_compile
        self.api.__version__ = self._orig_version

    def _spy(self, folder, name, opts):
        try:
            m = self._orig_load(folder, name, opts)
        except self.api.InvalidCacheError as e:
            self.spy_log.append("compiled:" + reason_of(str(e)))
            raise
        except FileNotFoundError:
            self.spy_log.append("compiled:no-file")
            raise
        except BaseException as e:  # noqa: BLE001
            self.spy_log.append("raised:" + type(e).__name__)
            raise
        self.spy_log.append("hit")
        return m

    def cache_path(self):
        return os.path.join(self.dirs[0], self.name + ".pymoca_cache")

    def ns(self, tick):
        return self.BASE_NS + tick * self.step_ns

    def tick(self, d=1):
        self.clock += d
        return self.clock

    def content_id(self, text):
        return self.contents.setdefault(text, len(self.contents) + 1)

    def version_id(self, v):
        return self.versions.setdefault(v, len(self.versions) + 1)

    def cache_stat(self):
        try:
            st = os.stat(self.cache_path())
            return (st.st_ino, st.st_mtime_ns, st.st_size)
        except FileNotFoundError:
            return None

    # ---- the operations of a history ---------------------------------------------------------
    def symlink(self, folder, rel, target_folder):
        """`<folder>/<rel>` becomes a symbolic link to the directory of `target_folder`: files written there
        are, for the model, files of `folder` below `rel/`."""
        os.symlink(self.dirs[target_folder], os.path.join(self.dirs[folder], rel), target_is_directory=True)
        self.links[target_folder] = (folder, rel)

    def write(self, folder, rel, text, dt=1):
        t = self.tick(dt)
        write_file(os.path.join(self.dirs[folder], rel), text, self.ns(t))
        if folder in self.links:
            lf, lrel = self.links[folder]
            self.model_ops.append(["write", lf, lrel + "/" + rel, t, self.content_id(text)])
        else:
            self.model_ops.append(["write", folder, rel, t, self.content_id(text)])
        return t

    def set_version(self, v):
        self.api.__version__ = v
        self.model_ops.append(["version", self.version_id(v)])

    def model_opts(self, opts, libs):
        """User options -> the option record of the Lean model (defaults merged as pymoca does)."""
        from pymoca.backends.casadi._options import _merge_default_options
        o = _merge_default_options(dict(opts))
        special = ("library_folders", "mtime_check", "cache", "codegen", "expand_mx")
        return {"libs": list(libs), "mtime_check": bool(o["mtime_check"]), "cache": bool(o["cache"]),
                "codegen": bool(o["codegen"]), "expand_mx": bool(o["expand_mx"]),
                "rest": sorted([k, repr(v)] for k, v in o.items() if k not in special)}

    def real_opts(self, opts, libs):
        o = dict(opts)
        o["library_folders"] = [self.dirs[i] for i in libs]
        return o

    def transfer(self, opts, libs):
        """One real transfer_model call.  Returns (ok, model-or-class, msg, kind) and logs the model op;
        a cache file written by the call gets the next tick as its modification time."""
        before = self.cache_stat()
        self.spy_log.clear()
        ok, m, msg = outcome(self.api.transfer_model, self.dirs[0], self.name, self.real_opts(opts, libs))
        kind = self.spy_log[0] if self.spy_log else "direct"
        after = self.cache_stat()
        now = self.clock + 1
        size = 0
        if after is not None and after != before:
            self.tick()
            set_mtime(self.cache_path(), self.ns(now))
            size = after[2]
        if ok or not kind.startswith("compiled"):
            self.model_ops.append(["transfer", self.model_opts(opts, libs), now, size])
        else:
            # the call died between the failed load and the end of save_model (compile or save raised):
            # in the model that is an interrupted transfer — before `open`, or with `size` bytes on disk
            self.model_ops.append(["crashed", self.model_opts(opts, libs), now, size,
                                   "beforeOpen" if after == before else size])
        return ok, m, msg, kind

    def reference(self, opts, libs):
        """Fresh compile of the current sources with the current options (no cache involved): the
        options as transfer_model rewrites them, minus caching."""
        return reference_compile(self.api, self.dirs[0], self.name, self.real_opts(opts, libs))
